"""C12 — remapping picks true nearest sources and never invents values.

Proof: coq/Props/C12_props.v about coq/Model/C12.v (kind selection as coded and repaired, nearest
neighbour gather, IDW weights/convexity/constants, dims), neighbour search = brute force of C11.
Tie: UxDataArray.remap.nearest_neighbor / inverse_distance_weighted are run on generated grid pairs;
the property clauses are evaluated on the implementation's output against a 30-digit brute-force
oracle (great-circle distances between the coordinates the grids report); the extracted model is run
on the same exact inputs (distance tables in ticks of 2^-40, data as exact rationals) and compared on
what the property fixes (chosen sources, neighbour sets); agreement of the IDW weight formula itself
is recorded but not demanded.
"""
import json
import math
import os
import re
import sys
from fractions import Fraction

import numpy as np

import common
import meshgen
import c11
from c11 import KINDS, KIND_PREFIX, GridData, arc_of, mp
from common import FILL, sx

DIM = {"nodes": "n_node", "face centers": "n_face", "edge centers": "n_edge"}
TICK = 40                      # distance tables for the model: ticks of 2^-40 (degree / chord unit)
TAU = mp.mpf("1e-9")           # near-tie / comparison tolerance on distances (Appendix B), relative to max(1, d)
EPS_Q = [1, 10 ** 6]


# ------------------------------------------------------------------------------------------------
# grids

def _lonlat(p):
    return math.degrees(math.atan2(p[1], p[0])), math.degrees(math.asin(max(-1.0, min(1.0, p[2]))))


def grid_spec(m, extra_pad=0, file_centres=False, xyz_only=False, file_edges=False, rng=None, via=None):
    """file_centres / file_edges: the source SUPPLIES its own face / edge centres, deliberately not the
    corner average / mid-point (moved 10-30% of the way towards a corner resp. 10-30% off the middle
    along the edge, i.e. staying inside the element).  Value "both": lon/lat and xyz supplied;
    "lonlat": only lon/lat (the library must derive xyz from THEM); "xyz": only xyz.  True = "both"."""
    gs = c11.grid_spec(m, extra_pad)
    if xyz_only:
        gs["xyz_only"] = True
        gs["xyz"] = [list(p) for p in m.nodes]
        return gs
    if via:
        gs["via"] = via
    rnd = rng.random if rng is not None else (lambda: 0.5)
    if file_centres:
        mode = "both" if file_centres is True else file_centres
        pts = []
        for f in m.faces:
            c = meshgen._norm(tuple(sum(m.nodes[i][k] for i in f) for k in range(3)))
            corner = m.nodes[f[int(rnd() * len(f)) % len(f)]]
            t = 0.1 + 0.2 * rnd()
            pts.append(meshgen._norm(tuple((1 - t) * c[k] + t * corner[k] for k in range(3))))
        d = {}
        if mode in ("both", "lonlat"):
            d["face_lon"] = [_lonlat(p)[0] for p in pts]
            d["face_lat"] = [_lonlat(p)[1] for p in pts]
        if mode in ("both", "xyz"):
            d["face_x"], d["face_y"], d["face_z"] = [p[0] for p in pts], [p[1] for p in pts], [p[2] for p in pts]
        gs["face"] = d
        gs["face_pts"] = [list(p) for p in pts]
    if file_edges:
        mode = "both" if file_edges is True else file_edges
        pairs = sorted({(min(f[i], f[(i + 1) % len(f)]), max(f[i], f[(i + 1) % len(f)])) for f in m.faces for i in range(len(f))})
        pts = []
        for a, b in pairs:
            t = 0.5 + (0.05 + 0.1 * rnd()) * (1 if rnd() < 0.5 else -1)
            pts.append(meshgen._norm(tuple((1 - t) * m.nodes[a][k] + t * m.nodes[b][k] for k in range(3))))
        d = {"edge_node_connectivity": [list(p) for p in pairs]}
        if mode in ("both", "lonlat"):
            d["edge_lon"] = [_lonlat(p)[0] for p in pts]
            d["edge_lat"] = [_lonlat(p)[1] for p in pts]
        if mode in ("both", "xyz"):
            d["edge_x"], d["edge_y"], d["edge_z"] = [p[0] for p in pts], [p[1] for p in pts], [p[2] for p in pts]
        gs["edge"] = d
        gs["edge_pts"] = [list(p) for p in pts]
    return gs


def mk_grid(gs):
    import uxarray as ux
    if gs.get("xyz_only"):
        # the source supplies Cartesian node coordinates only: lon/lat of every kind are derived by the library
        import xarray as xr
        from uxarray.conventions import ugrid
        ds = xr.Dataset()
        for j, nm in enumerate(("node_x", "node_y", "node_z")):
            ds[nm] = xr.DataArray(np.array([p[j] for p in gs["xyz"]], dtype=float), dims=["n_node"])
        ds["face_node_connectivity"] = xr.DataArray(np.array(gs["table"], dtype=np.intp), dims=["n_face", "n_max_face_nodes"],
                                                    attrs=dict(ugrid.FACE_NODE_CONNECTIVITY_ATTRS))
        return ux.Grid(ds, source_grid_spec="UGRID")
    kw = {k: np.array(v, dtype=float) for k, v in gs.get("face", {}).items()}
    for k, v in gs.get("edge", {}).items():
        kw[k] = np.array(v, dtype=np.intp) if k == "edge_node_connectivity" else np.array(v, dtype=float)
    if gs.get("via") == "dataset":
        # the same content handed over as a UGRID-style dataset (what a file reader produces)
        import xarray as xr
        from uxarray.conventions import ugrid
        ds = xr.Dataset()
        ds["node_lon"] = xr.DataArray(np.array(gs["lon"], dtype=float), dims=["n_node"])
        ds["node_lat"] = xr.DataArray(np.array(gs["lat"], dtype=float), dims=["n_node"])
        ds["face_node_connectivity"] = xr.DataArray(np.array(gs["table"], dtype=np.intp), dims=["n_face", "n_max_face_nodes"],
                                                    attrs=dict(ugrid.FACE_NODE_CONNECTIVITY_ATTRS))
        for k, v in kw.items():
            if k == "edge_node_connectivity":
                ds[k] = xr.DataArray(v, dims=["n_edge", "two"], attrs=dict(ugrid.EDGE_NODE_CONNECTIVITY_ATTRS))
            else:
                ds[k] = xr.DataArray(v, dims=["n_" + k.split("_")[0]])
        return ux.Grid(ds, source_grid_spec="UGRID")
    return ux.Grid.from_topology(np.array(gs["lon"], dtype=float), np.array(gs["lat"], dtype=float),
                                 np.array(gs["table"], dtype=np.intp), fill_value=FILL, **kw)


_DEGENERATE = []


def _mp_norm(v):
    n = mp.sqrt(sum(a * a for a in v))
    if n < mp.mpf("1e-6"):
        _DEGENERATE.append(1)          # centre of (nearly) opposite corners: direction undefined
        return (mp.mpf(1), mp.mpf(0), mp.mpf(0))
    return tuple(a / n for a in v)


class TruthData:
    """where the elements truly are, independent of what the library derives: nodes as the source gives
    them (lon/lat, or xyz for Cartesian-only sources); face centres as supplied by the file, else the
    normalised mean of the corner directions; edge centres the normalised mid-point of the two end nodes
    (the edge list itself is read from the grid - C02 owns it).  Unit vectors, 30 digits."""

    def __init__(self, g, gs):
        del _DEGENERATE[:]
        self._build(g, gs)
        self.degenerate = bool(_DEGENERATE)

    def _build(self, g, gs):
        if gs.get("xyz_only"):
            node = [_mp_norm(tuple(mp.mpf(float(a)) for a in p)) for p in gs["xyz"]]
        else:
            node = [c11.unit_vec(mp.radians(mp.mpf(float(la))), mp.radians(mp.mpf(float(lo)))) for lo, la in zip(gs["lon"], gs["lat"])]
        def supplied(d, pfx):
            if pfx + "_lon" in d:
                return [c11.unit_vec(mp.radians(mp.mpf(float(la))), mp.radians(mp.mpf(float(lo))))
                        for lo, la in zip(d[pfx + "_lon"], d[pfx + "_lat"])]
            return [_mp_norm(tuple(mp.mpf(float(v)) for v in p)) for p in zip(d[pfx + "_x"], d[pfx + "_y"], d[pfx + "_z"])]
        if "face" in gs:
            face = supplied(gs["face"], "face")
        else:
            face = []
            for row in gs["table"]:
                cs = [node[i] for i in row if i != FILL]
                face.append(_mp_norm(tuple(mp.fsum(c[a] for c in cs) / len(cs) for a in range(3))))
        en = np.asarray(g.edge_node_connectivity.values)
        if "edge" in gs:
            if [[int(a), int(b)] for a, b in en] != [list(p) for p in gs["edge"]["edge_node_connectivity"]]:
                raise RuntimeError("the grid does not report the supplied edge_node_connectivity")
            edge = supplied(gs["edge"], "edge")
        else:
            edge = [_mp_norm(tuple((node[int(a)][k] + node[int(b)][k]) / 2 for k in range(3))) for a, b in en]
        self.unit = {"nodes": node, "face centers": face, "edge centers": edge}
        self.xyz = self.unit
        self.n = {k: len(v) for k, v in self.unit.items()}
        self.f = {k: [[float(mp.degrees(mp.atan2(u[1], u[0]))) for u in v], [float(mp.degrees(mp.asin(max(-1, min(1, u[2]))))) for u in v],
                      [float(u[0]) for u in v], [float(u[1]) for u in v], [float(u[2]) for u in v]] for k, v in self.unit.items()}


def latlon_mesh(ring_lats, nlon, poles, lon0=0.0, name="latlon"):
    """rings of nlon nodes at the given latitudes (south to north); poles=False: one polygon per pole
    (a FACE centred exactly on each pole); poles=True: a node exactly on each pole and a fan of triangles"""
    nodes, faces = [], []
    for la in ring_lats:
        for j in range(nlon):
            lo = math.radians(lon0 + 360.0 * j / nlon)
            a = math.radians(la)
            nodes.append((math.cos(a) * math.cos(lo), math.cos(a) * math.sin(lo), math.sin(a)))
    R = len(ring_lats)

    def idx(r, j):
        return r * nlon + (j % nlon)
    for r in range(R - 1):
        for j in range(nlon):
            faces.append([idx(r, j), idx(r, j + 1), idx(r + 1, j + 1), idx(r + 1, j)])
    if poles:
        sp, npole = len(nodes), len(nodes) + 1
        nodes += [(0.0, 0.0, -1.0), (0.0, 0.0, 1.0)]
        for j in range(nlon):
            faces.append([sp, idx(0, j + 1), idx(0, j)])
            faces.append([npole, idx(R - 1, j), idx(R - 1, j + 1)])
    else:
        faces.append([idx(0, j) for j in reversed(range(nlon))])
        faces.append([idx(R - 1, j) for j in range(nlon)])
    return meshgen.Mesh(nodes, faces, True, "%s%s-%dx%d" % (name, "-polenodes" if poles else "-polefaces", R, nlon))


def refined_mesh(rng):
    """a coarse polyhedron with a refined patch: very long (60-90 deg) and very short edges side by side"""
    m = meshgen._poly(rng.choice(["cube", "octa", "prism3", "prism5"]))
    for _ in range(rng.randrange(2, 5)):
        meshgen.stellate(m, rng)
    for _ in range(rng.randrange(3, 8)):
        meshgen.subdivide_edge(m, rng)
        if rng.random() < 0.5:
            # shorten further: subdivide one of the freshly created short edges again
            meshgen.subdivide_edge(m, rng)
    meshgen.rotate(m, meshgen.rotation_matrix(rng, "random"))
    meshgen.renumber(m, rng)
    m.name = "refined:" + m.name
    m.closed = True
    return m


def ok_in_triangle(pts, q):
    """the triangles only carry the points; still, keep their edges well defined: no corner (nearly)
    opposite to or on top of another corner of the same triangle"""
    for o in pts[len(pts) - len(pts) % 3:]:
        d = sum(a * b for a, b in zip(o, q))
        if d < -0.9 or d > 1 - 1e-9:
            return False
    return True


def bisector_mesh(rng, sd, npts=30):
    """destination whose NODES sit close to the bisector between a source element and its nearest
    neighbour of the same kind (offset 0.4% .. 10% of their separation to either side: outside the tie
    margin, inside any noticeable distortion of the metric)"""
    pts = []
    kinds = [k for k in KINDS if sd.n[k] >= 2]
    while len(pts) < npts and kinds:
        kind = rng.choice(kinds)
        U = sd.unit[kind]
        i = rng.randrange(len(U))
        ci = [float(a) for a in U[i]]
        best, cj = None, None
        for j, u in enumerate(U):
            if j != i:
                d = sum((ci[a] - float(u[a])) ** 2 for a in range(3))
                if d > 1e-12 and (best is None or d < best):
                    best, cj = d, [float(a) for a in u]
        if cj is None:
            continue
        eps = rng.choice([0.004, -0.004, 0.02, -0.02, 0.1, -0.1])
        p = [(ci[a] + cj[a]) / 2 + eps * (ci[a] - cj[a]) for a in range(3)]
        nrm = math.sqrt(sum(a * a for a in p))
        if nrm > 1e-6:
            q = tuple(a / nrm for a in p)
            if ok_in_triangle(pts, q):
                pts.append(q)
    while len(pts) % 3:
        q = meshgen._norm((rng.gauss(0, 1), rng.gauss(0, 1), rng.gauss(0, 1)))
        if ok_in_triangle(pts, q):
            pts.append(q)
    faces = [[3 * t, 3 * t + 1, 3 * t + 2] for t in range(len(pts) // 3)]
    return meshgen.Mesh(pts, faces, False, "bisector-points")


def dist_table(dd, dkind, sd, skind, coord_type):
    """true distances from every destination point to every source element, in the unit the
    implementation's weights see: degrees of great circle (spherical) / chord (cartesian)"""
    out = []
    if coord_type == "spherical":
        fac = mp.mpf(180) / mp.pi
        for u in dd.unit[dkind]:
            out.append([arc_of(u, v) * fac for v in sd.unit[skind]])
    else:
        for p in dd.xyz[dkind]:
            out.append([mp.sqrt(sum((p[c] - q[c]) ** 2 for c in range(3))) for q in sd.xyz[skind]])
    return out


def tol(d):
    return TAU * max(mp.mpf(1), d)


def coded_kind(n, length):
    """the element kind _remap_grid_parse infers from the trailing length (order as coded)"""
    for kind in ("nodes", "face centers", "edge centers"):
        if length == n[kind]:
            return kind
    return None


# ------------------------------------------------------------------------------------------------
# data

DTYPES = ["int64", "int32", "int16", "bool", "float32"]


def make_rows(rng, n_src, rank, exact, with_identity, dtype="float64"):
    """rows of source data, every value exactly representable in `dtype` (class codes / counts for the
    integer types, flags for bool, short dyadics for float32)"""
    rows = []
    tags = []
    if dtype != "float64":
        def rnd():
            if dtype == "bool":
                return [float(rng.random() < 0.5) for _ in range(n_src)]
            if dtype == "float32":
                return [rng.randrange(-800, 801) / 8.0 for _ in range(n_src)]
            return [float(rng.randrange(-300, 301)) for _ in range(n_src)]
        const = 1.0 if dtype == "bool" else float(rng.choice([5, 7, 255, -3]))
        if rank >= 2 and with_identity:
            for s in range(n_src):
                rows.append([1.0 if j == s else 0.0 for j in range(n_src)])
                tags.append("onehot")
        if rank == 1:
            if rng.random() < 0.4:
                rows.append([const] * n_src)
                tags.append("const")
            else:
                rows.append(rnd())
                tags.append("random")
            return rows, tags, []
        rows.append([const] * n_src)
        tags.append("const")
        for _ in range(2):
            rows.append(rnd())
            tags.append("random")
        lead = [len(rows)]
        if rank == 3:
            if len(rows) % 2:
                rows.append(rnd())
                tags.append("random")
            lead = [2, len(rows) // 2]
        return rows, tags, lead
    if rank >= 2 and with_identity:
        for s in range(n_src):
            rows.append([1.0 if j == s else 0.0 for j in range(n_src)])
            tags.append("onehot")

    def rnd():
        if exact:
            return [rng.randrange(-800, 801) / 8.0 for _ in range(n_src)]
        return [rng.uniform(-50, 50) * rng.choice([1, 1, 1e-3, 1e3]) for _ in range(n_src)]
    if rank == 1:
        if rng.random() < 0.2:
            rows.append([rng.choice([3.5, -2.0, 1e6])] * n_src)
            tags.append("const")
        else:
            rows.append(rnd())
            tags.append("random")
        return rows, tags, []
    rows.append([rng.choice([7.25, -3.0, 12345.0])] * n_src)
    tags.append("const")
    for _ in range(2):
        rows.append(rnd())
        tags.append("random")
    lead = [len(rows)]
    if rank == 3:
        if len(rows) % 2:
            rows.append(rnd())
            tags.append("random")
        lead = [2, len(rows) // 2]
    return rows, tags, lead


# ------------------------------------------------------------------------------------------------
# implementation

def run_impl(c, src, dst):
    import uxarray as ux
    rows = np.array(c["rows"], dtype=float)
    n_src = rows.shape[1]
    lead = c["lead"]
    data = rows.reshape(tuple(lead) + (n_src,)) if c["rank"] > 1 else rows.reshape(n_src)
    if c.get("dtype", "float64") != "float64":
        cast = data.astype(c["dtype"])
        assert np.array_equal(cast.astype(float), data), "generated values must be exact in the source dtype"
        data = cast
    dims = ["lead%d" % i for i in range(len(lead))] + [DIM[c["kind"]]]
    da = ux.UxDataArray(data, dims=dims, uxgrid=src, name="v")
    if c["method"] == "nn":
        r = da.remap.nearest_neighbor(dst, remap_to=c["remap_to"], coord_type=c["coord_type"])
    else:
        r = da.remap.inverse_distance_weighted(dst, remap_to=c["remap_to"], coord_type=c["coord_type"],
                                               power=c["power"], k=c["k"])
    return r, dims


def flat_rows(vals, n_dest):
    return np.asarray(vals, dtype=float).reshape(-1, n_dest)


# ------------------------------------------------------------------------------------------------
# property clauses on the implementation's output

def check_structure(c, r, dims, dst, n_dest):
    import uxarray as ux
    if not isinstance(r, ux.UxDataArray):
        return "result_type", "result is %s" % type(r).__name__
    if r.uxgrid is not dst and not (r.uxgrid == dst):
        return "result_grid", "result is not attached to the destination grid"
    want = tuple(dims[:-1]) + (DIM[c["remap_to"]],)
    if tuple(r.dims) != want:
        return "dims", "dims %s, expected %s" % (r.dims, want)
    wshape = tuple(c["lead"]) + (n_dest,) if c["rank"] > 1 else (n_dest,)
    if tuple(r.shape) != wshape:
        return "dims", "shape %s, expected %s" % (r.shape, wshape)
    return None


def check_nn(c, out, table):
    """out: (R, n_dest) result rows; table[i][s]: distance dest i -> source s of the assumed kind"""
    rows = np.array(c["rows"], dtype=float)
    R, n_src = rows.shape
    if n_src != len(table[0]):
        return "nn_nearest", "data length %d vs %d source elements" % (n_src, len(table[0]))
    for i, D in enumerate(table):
        dmin = min(D)
        S = [s for s in range(n_src) if D[s] <= dmin + 2 * tol(dmin)]
        ok = any(all(out[l][i] == rows[l][s] for l in range(R)) for s in S)
        if not ok:
            # which element was taken (if any)?
            took = [s for s in range(n_src) if all(out[l][i] == rows[l][s] for l in range(R))]
            if took:
                return "nn_nearest", "destination %d takes source %s at %s, nearest is %s at %s" % (
                    i, took[:3], mp.nstr(D[took[0]], 10), S[:3], mp.nstr(dmin, 10))
            return "nn_value", "destination %d holds values of no single source element" % i
    return None


def neighbour_sets(D, k):
    """(core, allowed): the k nearest with near ties at the k-th distance widened"""
    order = sorted(range(len(D)), key=lambda s: D[s])
    dk = D[order[k - 1]]
    core = {s for s in order[:k] if D[s] < dk - 2 * tol(dk)}
    allowed = {s for s in range(len(D)) if D[s] <= dk + 2 * tol(dk)}
    return core, allowed


def check_idw(c, out, table):
    rows = np.array(c["rows"], dtype=float)
    tags = c["tags"]
    R, n_src = rows.shape
    k = c["k"]
    if n_src != len(table[0]):
        return "idw_neighbours", "data length %d vs %d source elements" % (n_src, len(table[0]))
    oh = [l for l in range(R) if tags[l] == "onehot"]
    # results are float64 (exact rational combination within double rounding) unless the source is float32
    f32 = c.get("dtype") == "float32"
    REL, CREL = (1e-6, 1e-6) if f32 else (1e-9, 1e-12)
    for i, D in enumerate(table):
        core, allowed = neighbour_sets(D, k)
        for l in range(R):
            v = float(out[l][i])
            vals = [rows[l][s] for s in allowed]
            lo, hi = min(vals), max(vals)
            slack = REL * max(1.0, abs(lo), abs(hi))
            if not (lo - slack <= v <= hi + slack) or math.isnan(v):
                return ("idw_const" if tags[l] == "const" else "idw_bounds"), \
                    "destination %d row %d (%s): %r outside [%r, %r] of its %d nearest sources" % (i, l, tags[l], v, lo, hi, k)
            if tags[l] == "const" and abs(v - rows[l][0]) > CREL * max(1.0, abs(rows[l][0])):
                return "idw_const", "destination %d: constant %r became %r" % (i, rows[l][0], v)
        if oh:
            W = [float(out[l][i]) for l in oh]          # weight of source s at destination i
            if any(w < 0.0 for w in W):
                return "idw_weights_nonneg", "destination %d: negative weight" % i
            if abs(sum(W) - 1.0) > REL:
                return "idw_weights_sum", "destination %d: weights sum to %r" % (i, sum(W))
            supp = {s for s in range(n_src) if W[s] != 0.0}
            if not (core <= supp <= allowed) or (len(allowed) == k and len(supp) != k):
                return "idw_neighbours", "destination %d: weights sit on %s, the %d nearest are %s" % (
                    i, sorted(supp), k, sorted(allowed))
            ss = sorted(supp, key=lambda s: D[s])
            for a in range(len(ss)):
                for b in range(a + 1, len(ss)):
                    if D[ss[a]] < D[ss[b]] - 2 * tol(D[ss[b]]) and W[ss[a]] < W[ss[b]] * (1 - 1e-9):
                        return "idw_weights_monotone", "destination %d: source %d at %s has weight %r < %r of source %d at %s" % (
                            i, ss[a], mp.nstr(D[ss[a]], 8), W[ss[a]], W[ss[b]], ss[b], mp.nstr(D[ss[b]], 8))
            for l in range(R):
                if tags[l] in ("onehot",):
                    continue
                comb = sum(W[s] * rows[l][s] for s in supp)
                scale = max(1.0, max(abs(rows[l][s]) for s in supp))
                if abs(comb - float(out[l][i])) > REL * scale:
                    return "idw_combination", "destination %d row %d: %r is not the weighted mean %r of its neighbours" % (
                        i, l, float(out[l][i]), comb)
    return None


# ------------------------------------------------------------------------------------------------
# model side

def ticks(table):
    sc = mp.mpf(2) ** TICK
    return [[int(mp.nint(d * sc)) for d in row] for row in table]


def q_of_float(x):
    fr = Fraction(float(x))
    return [fr.numerator, fr.denominator]


def model_budget(c, n_dest):
    if c["method"] == "nn":
        return True
    p = c["power"]
    if not (isinstance(p, int) or float(p).is_integer()) or p < 0:
        return False
    return c["k"] * max(1, int(p)) <= 16


def has_tie(D, k=1):
    order = sorted(D)
    if k < len(order) and order[k] - order[k - 1] <= 4 * tol(order[k]):
        return True
    return False


# ------------------------------------------------------------------------------------------------
# cases

def gen_pairs(ck):
    rng = ck.rng
    quick = ck.tier == "quick"
    pairs = []

    def M(name=None, ops=0, partial=False):
        return meshgen.gen_mesh(rng, max_ops=ops, partial=partial, seeds=[name] if name else None)
    tri = meshgen.Mesh([meshgen._norm(p) for p in [(1, 0.1, 0.2), (0.2, 1, 0.1), (0.1, 0.2, 1)]], [[0, 1, 2]], False, "tri")
    tetra, cube, icosa, octa = M("tetra"), M("cube"), M("icosa"), M("octa")
    # coinciding counts: tetrahedron (n_node = n_face = 4); identity; single destination element;
    # more faces than nodes (icosahedron 12/30/20, octahedron 6/12/8)
    fixed = [(tetra, tetra, "same"), (tetra, cube, ""), (cube, tetra, ""), (cube, tri, "single-dest"), (icosa, cube, ""),
             (icosa, icosa, "same"), (octa, tri, "single-dest"), (cube, cube, "same"), (tri, cube, "tiny-source")]
    for s, d, note in fixed:
        gs = grid_spec(s, file_centres=rng.choice([False, False, "both", "lonlat", "xyz"]), rng=rng)
        pairs.append((gs, gs if note == "same" else grid_spec(d), note))
    # elements EXACTLY on the poles, both hemispheres: faces centred on +-pole (polygon caps), nodes on
    # +-pole (fans), and the dual of the cap mesh (nodes on the poles); sources given by lon/lat and by
    # Cartesian coordinates only (every lon/lat then derived by the library)
    caps = latlon_mesh([-60.0, 60.0], 4, poles=False)
    caps3 = latlon_mesh([-70.0, 0.0, 70.0], rng.choice([3, 5, 6]), poles=False, lon0=rng.uniform(0, 60))
    fans = latlon_mesh([-80.0, -70.0, 70.0, 80.0], 5, poles=True, lon0=rng.uniform(0, 60))
    fans2 = latlon_mesh([-85.0, 85.0], 6, poles=True)
    dualcaps = meshgen.dual(latlon_mesh([-50.0, 50.0], 5, poles=False))
    dualcaps.name = "dual-of-polefaces"
    polar = [(caps, fans), (caps3, fans2), (fans, caps3), (dualcaps, fans2), (caps, caps), (fans2, dualcaps)]
    for s, d in polar:
        xo = rng.random() < 0.5
        gs = grid_spec(s, xyz_only=xo)
        pairs.append((gs, gs if s is d else grid_spec(d, xyz_only=rng.random() < 0.5), "same" if s is d else "polar"))
    # strongly non-uniform edge lengths; destination points near the bisectors between neighbouring elements
    for _ in range(3 if quick else 40):
        pairs.append((grid_spec(refined_mesh(rng), xyz_only=rng.random() < 0.3), None, "bisector"))
    n = 20 if quick else 600
    for i in range(n):
        s = meshgen.gen_mesh(rng, max_ops=rng.choice([1, 2, 4, 6]))
        if len(s.faces) + len(s.nodes) > 90:
            s = meshgen.gen_mesh(rng, max_ops=2)
        fc = rng.choice([False, False, "both", "lonlat", "lonlat", "xyz"])
        fe = rng.choice([False, False, False, "both", "lonlat", "xyz"])
        gs = grid_spec(s, extra_pad=rng.choice([0, 1]), file_centres=fc, file_edges=fe, rng=rng,
                       via="dataset" if (fc or fe) and rng.random() < 0.5 else None)
        u = rng.random()
        if u < 0.25:
            pairs.append((gs, gs, "same"))
        elif u < 0.5:
            pairs.append((gs, None, "bisector"))
        else:
            d = meshgen.gen_mesh(rng, max_ops=rng.choice([0, 2, 4]))
            pairs.append((gs, grid_spec(d, file_centres=rng.choice([False, False, "lonlat", "xyz", "both"]),
                                        file_edges=rng.choice([False, False, False, "lonlat", "xyz"]), rng=rng,
                                        via=rng.choice([None, "dataset"])), ""))
    return pairs


def gen_cases(ck, gs_src, gs_dst, note, sd, per_pair):
    rng = ck.rng
    cases = []
    kinds = list(KINDS)
    for ci in range(per_pair):
        kind = kinds[(ci + rng.randrange(3)) % 3]
        n_src = sd.n[kind]
        method = "nn" if ci % 2 == 0 else "idw"
        if method == "idw" and n_src < 2:
            method = "nn"
        rank = rng.choice([1, 2, 2, 2, 3])
        exact = rng.random() < 0.6
        dtype = "float64" if rng.random() < 0.55 else rng.choice(DTYPES)
        rows, tags, lead = make_rows(rng, n_src, rank, exact, with_identity=(n_src <= 64), dtype=dtype)
        remap_to = rng.choice(KINDS) if note != "same" or rng.random() < 0.4 else kind
        if note == "bisector" and rng.random() < 0.75:
            remap_to = "nodes"
        c = {"src": gs_src, "dst": gs_dst, "same": note == "same", "note": note, "method": method, "kind": kind,
             "remap_to": remap_to, "coord_type": rng.choice(["spherical", "cartesian"]), "rank": rank, "lead": lead,
             "rows": rows, "tags": tags, "exact": exact, "dtype": dtype}
        if method == "idw":
            c["k"] = min(n_src, rng.choice([2, 2, 3, min(8, n_src), rng.randrange(2, n_src + 1), n_src]))
            c["power"] = rng.choice([2, 2, 1, 3, 0, 5, 1.5, 0.5])
        cases.append(c)
    return cases


def slim(c):
    return json.loads(json.dumps(c, default=float))


def run_case(ck, c, src, dst, sd, dd, stats=None, model_items=None):
    """implementation + property clauses for one case; returns record for the model comparison"""
    if getattr(sd, "degenerate", False) or getattr(dd, "degenerate", False):
        return None                     # an element centre is geometrically undefined: not an input of the property
    n = sd.n
    kind = c["kind"]
    n_src = n[kind]
    n_dest = dd.n[c["remap_to"]]
    coded = coded_kind(n, n_src)
    info = {"method": c["method"], "coord_type": c["coord_type"], "kind": kind, "remap_to": c["remap_to"], "rank": c["rank"],
            "dtype": c.get("dtype", "float64"),
            "after_history": bool(c.get("pre") or c.get("mut")), "mutators": [m["op"] for m in c.get("mut", [])],
            "trailing_length_matches_other_kind_first": coded != kind,
            "single_destination_point": n_dest == 1,
            "k_exceeds_n_node": bool(c["method"] == "idw" and c["k"] > n["nodes"])}
    try:
        r, dims = run_impl(c, src, dst)
        vals = np.asarray(r.values, dtype=float)
    except Exception as ex:
        ck.fail("raises", slim(c), dict(info, exception=type(ex).__name__,
                                        message_is_k_vs_n_node_guard="should not exceed the number of nodes" in str(ex)),
                detail=repr(ex))
        return {"raised": True, "coded": coded, "n_dest": n_dest, "failed": True}
    bad = check_structure(c, r, dims, dst, n_dest)
    if bad:
        ck.fail(bad[0], slim(c), info, detail=bad[1])
        return None
    out = flat_rows(vals, n_dest)
    table = dist_table(dd, c["remap_to"], sd, kind, c["coord_type"])
    chk = check_nn if c["method"] == "nn" else check_idw
    bad = chk(c, out, table)
    tab_coded = None
    if bad and coded != kind and coded is not None:
        tab_coded = dist_table(dd, c["remap_to"], sd, coded, c["coord_type"])
        if chk(c, out, tab_coded) is None:
            ck.fail("source_kind", slim(c), info,
                    detail="data live on %s (dimension %s) but the %s were used as sources (equal counts): %s" % (
                        kind, DIM[kind], coded, bad[1]))
            if stats is not None:
                stats["source_kind"] = stats.get("source_kind", 0) + 1
            bad = None
            info["explained_by_coded_kind"] = True
    if bad:
        ck.fail(bad[0], slim(c), info, detail=bad[1])
    elif c["same"] and c["remap_to"] == kind and c["method"] == "nn" and not info.get("explained_by_coded_kind"):
        # identity on the grid's own elements (distinct positions: no near tie for the own element)
        rows = np.array(c["rows"], dtype=float)
        sep = all(sum(1 for d in D if d <= 2 * tol(mp.mpf(0))) == 1 for D in table)
        if sep and not np.array_equal(out, rows):
            ck.fail("identity", slim(c), info, detail="remapping onto the grid's own %s changed the data" % kind)
    return {"out": out, "table": table, "coded": coded, "tab_coded": tab_coded, "failed": bool(bad), "n_dest": n_dest}


def model_compare(ck, c, rec, sd, dd, stats):
    """run the extracted model on the same exact inputs; compare what the property fixes"""
    n = sd.n
    kind, coded = c["kind"], rec["coded"]
    tabs = {kind: rec["table"]}
    if coded is not None and coded != kind:
        tabs[coded] = rec["tab_coded"] or dist_table(dd, c["remap_to"], sd, coded, c["coord_type"])
    tsx = [ticks(tabs[k]) if k in tabs else [] for k in KINDS]
    rows = np.array(c["rows"], dtype=float)
    used = tabs.get(coded)
    if c["method"] == "nn":
        data = [[q_of_float(v) for v in row] for row in rows]
        mo = ck.run_model("nn", [sx([n["nodes"], n["face centers"], n["edge centers"], tsx, data])])[0]
        if mo[0] != 1:
            return "model takes the error branch"
        mrows = [[Fraction(a, b) for a, b in row] for row in mo[1]]
        for i in range(rec["n_dest"]):
            if used is not None and has_tie(used[i]):
                continue
            for l in range(len(mrows)):
                if Fraction(float(rec["out"][l][i])) != mrows[l][i]:
                    return "row %d destination %d: model %s, implementation %r" % (l, i, float(mrows[l][i]), float(rec["out"][l][i]))
        return None
    # IDW: neighbour sets from the one-hot rows; weight values are a statistic only
    k, p = c["k"], int(c["power"])
    oh = [l for l, t in enumerate(c["tags"]) if t == "onehot"]
    if not oh or used is None:
        return None
    lines = [sx([1 << TICK, p, EPS_Q, k, tk]) for tk in ticks(used)[:6]]
    mws = ck.run_model("weights", lines)
    for i, mw in enumerate(mws):
        if has_tie(used[i], k):
            continue
        msupp = sorted(j for j, _ in mw)
        W = [float(rec["out"][l][i]) for l in oh]
        isupp = sorted(s for s in range(len(W)) if W[s] != 0.0)
        if msupp != isupp:
            return "destination %d: model neighbours %s, implementation %s" % (i, msupp, isupp)
        agree = all(abs(float(Fraction(a, b)) - W[j]) <= 1e-9 for j, (a, b) in mw)
        stats["idw_weight_formula_agree" if agree else "idw_weight_formula_differ"] = \
            stats.get("idw_weight_formula_agree" if agree else "idw_weight_formula_differ", 0) + 1
        if not agree:
            # the exact weights of the model (1/(d^p + 1e-6), normalised; read off the implementation through the
            # one-hot rows) are part of the tie between model and code
            return "destination %d: model weights %s, implementation %s" % (
                i, [(j, float(Fraction(a, b))) for j, (a, b) in mw], [(s_, W[s_]) for s_ in isupp])
    return None


def model_errs(ck, c, rec, sd, dd):
    """does the model take an error branch (None) on this case?"""
    n = sd.n
    kinds = {c["kind"]}
    if rec["coded"]:
        kinds.add(rec["coded"])
    tsx = [ticks(dist_table(dd, c["remap_to"], sd, k, c["coord_type"])) if k in kinds else [] for k in KINDS]
    rows = np.array(c["rows"], dtype=float)[:1]
    data = [[q_of_float(v) for v in row] for row in rows]
    if c["method"] == "nn":
        mo = ck.run_model("nn", [sx([n["nodes"], n["face centers"], n["edge centers"], tsx, data])])[0]
    else:
        tsx = [t[:2] if len(t) > 1 else t for t in tsx]
        mo = ck.run_model("idw", [sx([n["nodes"], n["face centers"], n["edge centers"], tsx, data, 1 << TICK, int(c["power"]), EPS_Q, c["k"]])])[0]
    return mo[0] == 0


# ------------------------------------------------------------------------------------------------
# histories on the SAME grid objects: earlier remaps, public mutators of coordinates, then the remap
# under test against the oracle on the grids' CURRENT coordinates

def apply_mutation(g, m):
    import xarray as xr
    op = m["op"]
    if op in ("welzl", "cartesian average"):
        g.construct_face_centers(method=op)
        return
    if op == "normalize":
        g.normalize_cartesian_coordinates()
        return
    p = KIND_PREFIX[m["kind"]]
    comps = ("lon", "lat") if op == "shift_lonlat" else ("x", "y", "z")
    for cname in comps:
        old = getattr(g, "%s_%s" % (p, cname))
        vals = np.asarray(old.values, dtype=float)
        if op == "scale_xyz":
            new = vals * float(m["by"])
        else:
            new = np.roll(vals, int(m["by"]))          # element i takes the position of element i - by
        setattr(g, "%s_%s" % (p, cname), xr.DataArray(new, dims=old.dims, attrs=dict(old.attrs)))


def quiet_remap(spec, src, dst, n):
    """an earlier remap on the same objects (its own result is checked elsewhere)"""
    import uxarray as ux
    try:
        data = np.arange(float(n[spec["kind"]]))
        da = ux.UxDataArray(data, dims=[DIM[spec["kind"]]], uxgrid=src, name="pre")
        if spec["method"] == "nn":
            da.remap.nearest_neighbor(dst, remap_to=spec["remap_to"], coord_type=spec["coord_type"])
        else:
            da.remap.inverse_distance_weighted(dst, remap_to=spec["remap_to"], coord_type=spec["coord_type"],
                                               power=2, k=max(2, min(3, n[spec["kind"]])))
    except Exception:
        pass


def gen_history_case(ck, gs_src, gs_dst, note, n_src_kinds):
    """a remap case preceded by remaps of the same and of other kinds / coordinate types and by public
    mutators of the source (and sometimes destination) coordinates"""
    rng = ck.rng
    kind = rng.choice(KINDS)
    ct = rng.choice(["spherical", "cartesian"])
    n_src = n_src_kinds[kind]
    method = "idw" if (rng.random() < 0.4 and n_src >= 2) else "nn"
    rank = rng.choice([1, 2, 2])
    dtype = "float64" if rng.random() < 0.7 else rng.choice(DTYPES)
    rows, tags, lead = make_rows(rng, n_src, rank, True, with_identity=(n_src <= 64), dtype=dtype)
    c = {"dtype": dtype, "src": gs_src, "dst": gs_dst, "same": note == "same", "note": note, "method": method, "kind": kind,
         "remap_to": rng.choice(KINDS), "coord_type": ct, "rank": rank, "lead": lead, "rows": rows, "tags": tags, "exact": True}
    if method == "idw":
        c["k"] = min(n_src, rng.choice([2, 3, 4]))
        c["power"] = rng.choice([1, 2])
    pre = []
    if rng.random() < 0.85:
        pre.append({"method": rng.choice(["nn", "idw"]), "kind": kind, "remap_to": rng.choice(KINDS), "coord_type": ct})
    for _ in range(rng.randrange(0, 3)):
        pre.append({"method": rng.choice(["nn", "idw"]), "kind": rng.choice(KINDS), "remap_to": rng.choice(KINDS),
                    "coord_type": rng.choice(["spherical", "cartesian"])})
    rng.shuffle(pre)
    mut = []
    # at least one mutator of the coordinates the tree under test is built from
    if kind == "face centers" and rng.random() < 0.5:
        mut.append({"on": "src", "op": rng.choice(["welzl", "cartesian average"])})
        if ct == "cartesian" or rng.random() < 0.5:
            mut.append({"on": "src", "op": "shift_xyz" if ct == "cartesian" else "shift_lonlat", "kind": kind, "by": rng.choice([1, 2])})
    elif ct == "spherical":
        mut.append({"on": "src", "op": "shift_lonlat", "kind": kind, "by": rng.choice([1, 2, -1])})
    else:
        mut.append({"on": "src", "op": rng.choice(["shift_xyz", "shift_xyz", "scale_xyz"]), "kind": kind, "by": rng.choice([1, 2])})
        if mut[-1]["op"] == "scale_xyz" and rng.random() < 0.6:
            mut.append({"on": "src", "op": "normalize"})
    if rng.random() < 0.3:
        mut.append({"on": "src", "op": rng.choice(["shift_lonlat", "shift_xyz"]), "kind": rng.choice(KINDS), "by": 1})
    if note != "same" and rng.random() < 0.3:
        mut.append({"on": "dst", "op": "shift_lonlat" if ct == "spherical" else "shift_xyz", "kind": c["remap_to"], "by": 1})
    c["pre"] = pre
    c["mut"] = mut
    return c


def run_history_case(ck, c, stats=None):
    src = mk_grid(c["src"])
    dst = src if c.get("same") else mk_grid(c["dst"])
    n0 = {kind: int(getattr(src, {"nodes": "n_node", "face centers": "n_face", "edge centers": "n_edge"}[kind])) for kind in KINDS}
    for spec in c.get("pre", []):
        quiet_remap(spec, src, dst, n0)
    # every derived coordinate exists before the mutators run (they replace stored values; deriving edge
    # or face centres from deliberately displaced nodes would give degenerate geometry, not a remap question)
    GridData(src)
    if not c.get("same"):
        GridData(dst)
    for m in c.get("mut", []):
        try:
            apply_mutation(src if m["on"] == "src" else dst, m)
        except Exception as ex:
            if stats is not None:
                stats["mutator_errors"] = stats.get("mutator_errors", 0) + 1
                stats.setdefault("mutator_error_sample", "%s: %r" % (m, ex))
    sd = GridData(src)                       # the grids' CURRENT coordinates
    dd = sd if c.get("same") else GridData(dst)
    cols = (0, 1) if c["coord_type"] == "spherical" else (2, 3, 4)
    if any(not math.isfinite(v) for (gdt, kd) in ((sd, c["kind"]), (dd, c["remap_to"])) for j in cols for v in gdt.f[kd][j]):
        if stats is not None:
            stats["history_skipped_nonfinite"] = stats.get("history_skipped_nonfinite", 0) + 1
        return None, sd, dd
    return run_case(ck, c, src, dst, sd, dd, stats), sd, dd


def run_corpus(ck):
    cdir = os.path.join(common.VERIF, "corpus", "C12")
    n = 0
    if os.path.isdir(cdir):
        for fn in sorted(os.listdir(cdir)):
            if fn.endswith(".json"):
                c = json.load(open(os.path.join(cdir, fn)))["case"]
                src = mk_grid(c["src"])
                dst = src if c.get("same") else mk_grid(c["dst"])
                sd = TruthData(src, c["src"])
                dd = sd if c.get("same") else TruthData(dst, c["dst"])
                ck.note_case(("corpus", fn), True)
                run_case(ck, c, src, dst, sd, dd)
                n += 1
    return n


def main(ck):
    ck.check_props()
    ok = ck.build_driver()
    rng = ck.rng
    quick = ck.tier == "quick"
    pairs = gen_pairs(ck)
    ck.cov["rule"] = (
        "positions of the elements are taken independently of the library (nodes as supplied; face centres as supplied or the normalised mean of the corners; edge centres the normalised mid-point), great-circle oracle on the unit sphere.  Grid pairs: lat-lon meshes with FACES centred exactly on both poles, with NODES exactly on both poles (fans, dual of the cap mesh), sources given by lon/lat or by Cartesian coordinates only; coarse polyhedra with refined patches (60-90 degree edges next to short ones) with destination NODES placed 0.4%-10% off the bisector between neighbouring source elements; tetrahedron (n_node = n_face), cube, octahedron, icosahedron (more faces than nodes), single triangle as "
        "destination (one face centre) and as source, identical source/destination, + random sphere tilings (split/subdivide/"
        "stellate/dual/partial, rotated, a fifth with a node on a pole), about half of the sources and destinations SUPPLY their own face and/or edge centres (moved 10-30% "
        "off the corner average / mid-point, inside the element) as lon/lat only, xyz only or both, through from_topology or a "
        "UGRID-style dataset; the oracle judges both coordinate types against the supplied centres.  Cases: data on nodes / faces / edges (dimension name says which), rank 1-3, rows = "
        "one-hot rows of every source element + a constant row + random rows (exact dyadics or generic floats); 45% of the cases carry the data as "
        "int64/int32/int16/bool/float32 (NN must return the source values exactly, IDW the convex combination in float64, float32 within 1e-6); all three "
        "destinations; both coordinate types; NN and IDW with k in {2,3,8,n,random} and power in {0,0.5,1,1.5,2,3,5}.  "
        "Histories on the SAME source/destination grid objects: 0-3 earlier remaps (same and other kinds / coordinate types / methods), then public mutators of the source (sometimes destination) coordinates - construct_face_centers (both methods), the *_lon/*_lat and *_x/*_y/*_z setters (positions rotated among the elements, or scaled), normalize_cartesian_coordinates - then the remap under test against the oracle on the grids' current coordinates.  "
        "non-trivial = source kind has >= 2 elements; distinct = distinct (pair, method, kind, destination, coordinates, k, power, data)")
    per_pair = 10 if quick else 14
    hist, stats, mut_hist = {}, {}, {}
    n_hist_per_pair = 5 if quick else 8
    n_corpus = run_corpus(ck)
    dims_checked = 0
    n_model = 0
    for pi, (gs_src, gs_dst, note) in enumerate(pairs):
        src = mk_grid(gs_src)
        sd = TruthData(src, gs_src)
        if note == "bisector":
            gs_dst = grid_spec(bisector_mesh(rng, sd))
        dst = src if note == "same" else mk_grid(gs_dst)
        dd = sd if note == "same" else TruthData(dst, gs_dst)
        for c in gen_cases(ck, gs_src, gs_dst, note, sd, per_pair):
            key = "%s/%s->%s/%s/rank%d" % (c["method"], KIND_PREFIX[c["kind"]], KIND_PREFIX[c["remap_to"]], c["coord_type"][:4], c["rank"])
            hist[key] = hist.get(key, 0) + 1
            ck.note_case((pi, gs_src["name"], gs_dst["name"], c["method"], c["kind"], c["remap_to"], c["coord_type"], c.get("k"), c.get("power"),
                          c["rows"][-1][:4]), sd.n[c["kind"]] >= 2)
            rec = run_case(ck, c, src, dst, sd, dd, stats)
            if rec is None:
                continue
            if rec.get("raised"):
                # the model mirrors the error branches of the code as it stands (agreement recorded only)
                if ok and model_budget(c, rec["n_dest"]):
                    key = "agree" if model_errs(ck, c, rec, sd, dd) else "differ"
                    stats["error_branch_" + key] = stats.get("error_branch_" + key, 0) + 1
                continue
            dims_checked += 1
            if ok and not rec["failed"] and model_budget(c, rec["n_dest"]):
                diff = model_compare(ck, c, rec, sd, dd, stats)
                n_model += 1
                if diff:
                    ck.corr_failures.append({"case": slim(c), "diff": diff})
            if len(ck.cov["samples"]) < 3 and c["rank"] == 2:
                ck.sample({"source": gs_src["name"], "destination": gs_dst["name"], "counts_source": sd.n, "method": c["method"],
                           "data_on": c["kind"], "remap_to": c["remap_to"], "coord_type": c["coord_type"], "k": c.get("k"),
                           "power": c.get("power"), "last_row_in": c["rows"][-1][:5], "last_row_out": [float(v) for v in rec["out"][-1][:5]]})
        for _ in range(n_hist_per_pair):
            hc = gen_history_case(ck, gs_src, gs_dst, note, sd.n)
            ck.note_case((pi, "history", hc["method"], hc["kind"], hc["remap_to"], hc["coord_type"], json.dumps(hc["pre"]), json.dumps(hc["mut"])),
                         sd.n[hc["kind"]] >= 2)
            hist["history"] = hist.get("history", 0) + 1
            for m in hc["mut"]:
                mut_hist[m["op"]] = mut_hist.get(m["op"], 0) + 1
            rec, hsd, hdd = run_history_case(ck, hc, stats)
            if rec is not None and not rec.get("raised") and ok and not rec["failed"] and model_budget(hc, rec["n_dest"]):
                diff = model_compare(ck, hc, rec, hsd, hdd, stats)
                n_model += 1
                if diff:
                    ck.corr_failures.append({"case": slim(hc), "diff": diff})
            if len(ck.cov["samples"]) < 4 and hc["mut"] and pi >= 2:
                ck.sample({"history_on_same_grids": {"earlier_remaps": hc["pre"], "mutators": hc["mut"],
                                                     "then": [hc["method"], hc["kind"], hc["remap_to"], hc["coord_type"]]}})
    # model of the dims rule and of the kind selection, against small exhaustive inputs
    if ok:
        lines, want = [], []
        for nn in range(1, 5):
            for nf in range(1, 5):
                for ne in range(1, 5):
                    for ln in range(1, 5):
                        lines.append(sx([nn, nf, ne, ln]))
                        ck_ = coded_kind({"nodes": nn, "face centers": nf, "edge centers": ne}, ln)
                        want.append(-1 if ck_ is None else KINDS.index(ck_))
        got = ck.run_model("kind", lines)
        if got != want:
            ck.corr_failures.append({"kind_selection": "model and harness transcription of _remap_grid_parse differ"})
        audit_n = audit(ck, rng)
    else:
        audit_n = 0
    ck.extra.update({
        "case_classes": hist, "grid_pairs": len(pairs), "results_with_dims_checked": dims_checked, "model_comparisons": n_model,
        "source_kind_confusions_seen": stats.get("source_kind", 0), "corpus_cases": n_corpus,
        "history_mutators": mut_hist, "mutator_errors": stats.get("mutator_errors", 0), "history_skipped_nonfinite": stats.get("history_skipped_nonfinite", 0), "mutator_error_sample": stats.get("mutator_error_sample"),
        "error_branch_model_vs_impl": {"agree": stats.get("error_branch_agree", 0), "differ": stats.get("error_branch_differ", 0),
                                       "note": "implementation raised on an admissible input (reported above as a failure/known finding): does the model of the code as it stands take its error branch too? recorded only"},
        "idw_weight_formula": {"agree": stats.get("idw_weight_formula_agree", 0), "differ": stats.get("idw_weight_formula_differ", 0),
                               "note": "exact model weights 1/(d^p+1e-6) normalised vs the implementation's weights read off through the one-hot rows (abs 1e-9); a difference is a correspondence failure"},
        "extraction_audit_cases": audit_n,
        "tolerances": {"near_tie": "distances within 2e-9*max(1,d) (degrees / chord) count as tied", "idw_value": "1e-9 relative to the neighbours' magnitude",
                       "nn_value": "exact (values are copied)", "const": "1e-12 relative"},
        "clauses_checked_on_impl": ["raises", "result_type", "result_grid", "dims", "nn_nearest", "nn_value", "identity", "source_kind",
                                    "idw_bounds", "idw_const", "idw_weights_nonneg", "idw_weights_sum", "idw_neighbours",
                                    "idw_weights_monotone", "idw_combination"],
        "partial": "float rounding bounded empirically by the stated tolerances; distances enter the model as integers (ticks of 2^-40) "
                   "computed by the oracle; the neighbour search is the brute force of C11 (sklearn validated there and here)"})
    ck.trusted += ["mpmath (30 digits) oracle for great-circle / chord distances", "sklearn BallTree as used by the remap code (oracle = brute force)",
                   "xarray DataArray construction of the result (dims/shape read back)"]
    ck.assumptions += ["after the public coordinate mutators of the history cases the element positions are the coordinates the grids then report; everywhere else positions are independent of the library (see rule)",
                       "admissible k: 2 <= k <= number of source elements of the data's kind; admissible power: >= 0",
                       "the element dimension is the last one (the property speaks of leading dimensions)"]


def audit(ck, rng):
    """extraction audit: weights / nearest index evaluated by the kernel and by the extracted code"""
    lines, exp = [], []
    for _ in range(8):
        keys = [rng.randrange(0, 9) for _ in range(rng.randrange(2, 6))]
        k = rng.randrange(1, len(keys) + 1)
        p = rng.randrange(0, 3)
        lines.append("Eval vm_compute in (map (fun iw => (fst iw, Qred (snd iw))) (c12_idw_weights 4 %d (1#1000000) %d [%s]%%Z))."
                     % (p, k, ";".join(map(str, keys))))
        exp.append((keys, k, p))
    rc, out = ck.audit_vm(lines, "From Coq Require Import QArith.\nFrom Verif Require Import Base C11 C12.\nOpen Scope Z_scope.")
    if rc != 0:
        ck.proof["errors"].append("in-kernel audit failed: " + out[-800:])
        return 0
    blocks = re.split(r"(?m)^\s*= ", out)[1:]
    n = 0
    for b, (keys, k, p) in zip(blocks, exp):
        body = b.split("\n     :")[0]
        ker = [(int(i), Fraction(int(a), int(d) if d else 1))
               for i, a, d in re.findall(r"\(\s*(\d+)%nat,\s*(-?\d+)(?:\s*#\s*(\d+)|%Q)\s*\)", body)]
        mo = ck.run_model("weights", [sx([4, p, EPS_Q, k, keys])])[0]
        ext = [(j, Fraction(a, d)) for j, (a, d) in mo]
        if ker != ext:
            ck.proof["errors"].append("extraction audit mismatch: kernel %s vs extracted %s" % (ker, ext))
        n += 1
    return n


def replay(ck, rp):
    c = rp["case"]
    if c.get("pre") or c.get("mut"):
        ck.note_case("replay")
        run_history_case(ck, c)
        return
    src = mk_grid(c["src"])
    dst = src if c.get("same") else mk_grid(c["dst"])
    sd = TruthData(src, c["src"])
    dd = sd if c.get("same") else TruthData(dst, c["dst"])
    ck.note_case("replay")
    run_case(ck, c, src, dst, sd, dd)
