"""C10 — xarray operations keep a UxDataArray attached to a consistent grid.

Proof: coq/Props/C10_props.v (closure by induction over programs, given the route table re-measured
on the installed xarray by harness/translators/c10_route.py -> Gen/C10_route.v).
Tie: random programs (xarray operations from the catalogue interleaved with uxarray's own
operations) are run on real UxDataArrays; after every step type, grid identity, grid-dimension
lengths, dims and values (vs. plain xarray on a mirrored DataArray) are checked and compared with
the extracted model.
"""
import json
import os
import sys

import numpy as np

import c10_ops
import common
import meshgen
from common import FILL, sx

GRID_DIMS = {"n_node": 0, "n_edge": 1, "n_face": 2}


def arr_equal(x, y, equal_nan=False):
    """np.array_equal that also works for dtypes isnan() does not accept (str, object, datetime)"""
    x, y = np.asarray(x), np.asarray(y)
    if equal_nan and x.dtype.kind in "fc" and y.dtype.kind in "fc":
        return bool(np.array_equal(x, y, equal_nan=True))
    if equal_nan and (x.dtype.kind == "O" or y.dtype.kind == "O"):
        # e.g. shift() on boolean data: object arrays holding True/False and NaN
        if x.shape != y.shape:
            return False
        return all((p is q) or (p == q) or (p != p and q != q) for p, q in zip(x.ravel().tolist(), y.ravel().tolist()))
    return bool(np.array_equal(x, y))


def mk_grid(m):
    import uxarray as ux
    lon, lat = m.lonlat()
    return ux.Grid.from_topology(np.array(lon), np.array(lat), np.array(m.table(), dtype=np.intp), fill_value=FILL)


def routes_from_gen():
    import re
    txt = open(os.path.join(common.COQ, "Gen", "C10_route.v")).read()
    return dict(re.findall(r'\("([A-Za-z_0-9]+)", (H[A-Za-z]+)\)', txt))


class DimCodes:
    def __init__(self):
        self.names = {}

    def code(self, d):
        if d in GRID_DIMS:
            return GRID_DIMS[d]
        if d not in self.names:
            self.names[d] = 3 + len(self.names)
        return self.names[d]

    def dims(self, a):
        return [[self.code(d), int(a.sizes[d])] for d in a.dims]


def dimop(before, after):
    """model dims transformer derived from the dims before/after"""
    if before == after:
        return "keep"
    if after == before[::-1]:
        return "reverse"
    bd, ad = dict(map(tuple, before)), dict(map(tuple, after))
    if len(after) == len(before) - 1:
        gone = [d for d in bd if d not in ad]
        if len(gone) == 1 and [p for p in before if p[0] != gone[0]] == after:
            return ["drop", gone[0]]
    if len(after) == len(before) + 1:
        new = [d for d in ad if d not in bd]
        if len(new) == 1 and after[0][0] == new[0] and after[1:] == before:
            return ["add", new[0], ad[new[0]]]
    if [p[0] for p in before] == [p[0] for p in after]:
        ch = [d for d in bd if bd[d] != ad[d]]
        if len(ch) == 1:
            return ["resize", ch[0], ad[ch[0]]]
    return None


def element_counts(g):
    return {"n_node": g.n_node, "n_edge": g.n_edge, "n_face": g.n_face}


def check_value(ck, r, expect_grid, deep, case, info):
    """clauses of the property on one result; returns False when the program cannot continue"""
    tn = type(r).__name__
    if tn != "UxDataArray":
        ck.fail("returns_plain_dataarray", case, info, detail="result type %s" % tn)
        return False
    g = r.uxgrid
    if g is None:
        ck.fail("grid_lost", case, info)
        return False
    if deep:
        if g is expect_grid:
            ck.fail("deep_copy_shares_grid_object", case, info)
        elif not (g == expect_grid):
            ck.fail("deep_copy_grid_not_equal", case, info)
    elif expect_grid is not None and g is not expect_grid:
        ck.fail("different_grid_object", case, info)
    cnt = element_counts(g)
    for d in r.dims:
        if d in cnt and int(r.sizes[d]) != int(cnt[d]):
            ck.fail("grid_dim_length", case, info, detail="%s has length %d, grid has %d" % (d, r.sizes[d], cnt[d]))
            return False
    return True


def gen_program(rng, depth, routes):
    good = [n for n in c10_ops.OPS if routes.get(n) in ("HReplace", "HCopyShallow", "HCopyDeep")]
    bad = [n for n in c10_ops.OPS if n not in good]
    prog = []
    for _ in range(depth):
        r = rng.random()
        if r < 0.72:
            prog.append(("x", rng.choice(good)))
        else:
            prog.append((rng.choice(["isel_grid", "integrate", "edgeop", "topo", "remap", "dual", "subset"]),))
    if bad and rng.random() < 0.5:
        prog.append(("x", rng.choice(bad)))
    return prog


def run_program(ck, rng, meshes, grids, prog, centred, lead, routes, stats, model_lines, keep):
    import uxarray as ux
    import xarray as xr
    g = grids[0]
    n = {"n_face": g.n_face, "n_node": g.n_node, "n_edge": g.n_edge}[centred]
    shape = tuple(l for _, l in lead) + (n,)
    data = (np.arange(int(np.prod(shape)), dtype=float).reshape(shape) % 17) + 1.0
    # the property does not depend on what the values are: a quarter of the programs run on another dtype
    dt = rng.choice(["float64"] * 6 + ["float32", "int64", "int32", "int16"])
    data = data.astype(dt)
    dims = [d for d, _ in lead] + [centred]
    coords = {d: np.arange(l) for d, l in lead}
    a = ux.UxDataArray(data.copy(), dims=dims, uxgrid=g, name="v", coords=coords)
    dc = DimCodes()
    fams = [g]                                   # family index -> representative grid
    cur_grid, cur_fam, cur_gen = g, 0, 0
    mops, mexpect = [], []
    dims0 = dc.dims(a)
    # deep copies must carry an INDEPENDENT grid: an in-place write through the copy's grid leaves the original's alone
    try:
        for mk in (lambda x: x.copy(), lambda x: x.copy(data=np.asarray(x.values) + 1.0)):
            tmp = mk(a)
            keep_lat = np.array(a.uxgrid.node_lat.values)
            keep_fn = np.array(a.uxgrid.face_node_connectivity.values)
            tmp.uxgrid.node_lat.values[:] = tmp.uxgrid.node_lat.values * 0.5
            tmp.uxgrid.face_node_connectivity.values[0, 0] = tmp.uxgrid.face_node_connectivity.values[0, 1]
            if not (arr_equal(keep_lat, a.uxgrid.node_lat.values) and arr_equal(keep_fn, a.uxgrid.face_node_connectivity.values)):
                ck.fail("deep_copy_grid_not_independent", {"meshes": [{"nodes": m.nodes, "faces": m.faces} for m in meshes],
                                                           "centred": centred, "lead": lead, "program": []}, {"op": "copy_deep"})
                a.uxgrid.node_lat.values[:] = keep_lat
                a.uxgrid.face_node_connectivity.values[:] = keep_fn
    except Exception as ex:
        ck.fail("raises", {"program": [["x", "copy_deep"]]}, {"op": "copy_deep_probe"}, detail=repr(ex))
    # ... and independent CACHES: after the copy's coordinates were replaced through the public setter, what one of the
    # two grids converts (and caches) must not be what the other one hands out
    if rng.random() < 0.25:
        try:
            def segs(gr):
                return sorted(tuple(np.round(np.asarray(sg, dtype=float), 9).ravel().tolist()) for sg in gr.to_linecollection().get_segments())

            def polys(gr):
                pc = gr.to_polycollection()
                pc = pc[0] if isinstance(pc, tuple) else pc
                return sorted(tuple(np.round(np.asarray(pp.vertices, dtype=float), 9).ravel().tolist()) for pp in pc.get_paths())
            fresh = ux.Grid.from_topology(np.array(g.node_lon.values), np.array(g.node_lat.values),
                                          np.array(g.face_node_connectivity.values), fill_value=FILL)
            want_l, want_p = segs(fresh), polys(fresh)
            tmp = a.copy()
            tmp.uxgrid.node_lon = tmp.uxgrid.node_lon * 0.5
            first, second = (tmp.uxgrid, a.uxgrid) if rng.random() < 0.5 else (a.uxgrid, tmp.uxgrid)
            segs(first); polys(first)
            segs(second); polys(second)
            if segs(a.uxgrid) != want_l or polys(a.uxgrid) != want_p:
                ck.fail("deep_copy_grid_not_independent", {"meshes": [{"nodes": m.nodes, "faces": m.faces} for m in meshes],
                                                           "centred": centred, "lead": lead, "program": []},
                        {"op": "copy_deep", "what": "conversion_cache_shared"})
        except Exception as ex:
            ck.fail("raises", {"program": [["x", "copy_deep"]]}, {"op": "copy_deep_cache_probe"}, detail=repr(ex))
    case = {"meshes": [{"nodes": m.nodes, "faces": m.faces} for m in meshes], "centred": centred, "lead": lead,
            "program": [list(p) for p in prog]}
    for step, op in enumerate(prog):
        info = {"op": op[1] if op[0] == "x" else op[0], "step": step}
        case_s = dict(case, failing_step=step)
        before = dc.dims(a)
        if op[0] == "x":
            name = op[1]
            fn, needs = c10_ops.OPS[name]
            if any(d not in a.dims for d in needs) or (name in ("sel", "loc") and "t" not in a.coords) \
                    or (name in ("assign_coords", "sortby", "drop_vars") and "t" not in a.coords and name != "assign_coords") \
                    or (name in ("transpose", "T") and a.ndim < 2) or (name == "expand_dims" and "z" in a.dims):
                continue
            plain = xr.DataArray(np.array(a.values), dims=a.dims, coords={k: (v.dims, np.array(v.values)) for k, v in a.coords.items()},
                                 name=a.name)
            try:
                want = fn(plain)
            except Exception:
                continue                                   # not applicable to this value in plain xarray either
            src = a if name != "iadd" else a.copy(deep=False)
            try:
                r = fn(src)
            except Exception as ex:
                ck.fail("raises", case_s, info, detail=repr(ex))
                return
            stats["ops"][name] = stats["ops"].get(name, 0) + 1
            deep = name in c10_ops.DEEP_COPY
            if not check_value(ck, r, cur_grid, deep, case_s, info):
                # record the model's view too, then stop: the value left the UxDataArray world
                do = dimop(before, [[dc.code(d), int(r.sizes[d])] for d in r.dims])
                if do is not None:
                    mops.append(["x", routes.get(name, "HPlain"), do])
                    mexpect.append((False, None, None))
                break
            if tuple(r.dims) != tuple(want.dims) or not arr_equal(np.asarray(r.values), np.asarray(want.values), equal_nan=True):
                ck.fail("values_differ_from_plain_xarray", case_s, info,
                        detail="dims %s vs %s" % (r.dims, want.dims))
            elif set(map(str, r.coords)) != set(map(str, want.coords)) or \
                    any(not arr_equal(np.asarray(r.coords[c].values), np.asarray(want.coords[c].values), equal_nan=True) for c in want.coords):
                # same values but other coordinates (e.g. a scalar coordinate that drop=True must remove)
                ck.fail("values_differ_from_plain_xarray", case_s, dict(info, what="coords"),
                        detail="coords %s vs %s" % (sorted(map(str, r.coords)), sorted(map(str, want.coords))))
            if deep:
                cur_grid = r.uxgrid
                cur_gen += 1
            a = r
            do = dimop(before, dc.dims(a))
            if do is None:
                mops = None
                break
            mops.append(["x", routes.get(name, "HPlain"), do])
            mexpect.append((True, (cur_fam, cur_gen), dc.dims(a)))
            continue
        # ---- uxarray's own operations ----
        kind = op[0]
        gd = [d for d in a.dims if d in GRID_DIMS]
        if not gd:
            continue
        if (a.dims[-1] != gd[0] or a.dtype.kind not in "fiu") and kind not in ("dual", "isel_grid", "subset"):
            continue                      # the numeric operations expect numbers with the grid dimension last; the others go by name
        gdim = gd[0]
        try:
            if kind in ("isel_grid", "subset"):
                if kind == "isel_grid":
                    cnt = element_counts(a.uxgrid)[gdim]
                    u = rng.random()
                    if u < 0.45 or gdim != "n_face":
                        idx = rng.sample(range(cnt), rng.randrange(1, min(cnt, 4) + 1))     # unsorted on purpose
                    elif u < 0.70:
                        idx = rng.sample(range(cnt), cnt)                                   # a permutation of ALL faces
                    elif u < 0.85:
                        idx = rng.sample(range(cnt), rng.randrange(1, cnt + 1))             # any size, unsorted
                    else:
                        idx = [rng.randrange(cnt) for _ in range(cnt)]                      # full length, with repeats
                    r = a.isel(**{gdim: idx})
                    if gdim == "n_face":
                        # the subset keeps the caller's face order, so the values are plain positional indexing
                        want = np.asarray(a.values).take(idx, axis=list(a.dims).index(gdim))
                        if np.asarray(r.values).shape != want.shape or not arr_equal(np.asarray(r.values), want, equal_nan=True):
                            ck.fail("values_differ_from_plain_xarray", case_s, dict(info, op="isel_grid_faces"),
                                    detail="isel(n_face=%s)" % idx)
                else:
                    el = {"n_face": "face centers", "n_node": "nodes", "n_edge": "edge centers"}[gdim]
                    if element_counts(a.uxgrid)[gdim] < 3:
                        continue              # k = 2 nearest neighbours need more than two elements (the tree refuses otherwise)
                    r = a.subset.nearest_neighbor((rng.uniform(-170, 170), rng.uniform(-80, 80)), 2, element=el)
                mop, newgrid = None, r.uxgrid
            elif kind == "integrate":
                if gdim != "n_face":
                    continue
                r = a.integrate()
                mop, newgrid = "integrate", cur_grid
            elif kind == "edgeop":
                if gdim == "n_edge":
                    continue
                r = a.gradient() if (gdim == "n_face" and rng.random() < 0.5) else a.difference("edge")
                mop, newgrid = "edgeop", cur_grid
            elif kind == "topo":
                if gdim != "n_node":
                    continue
                dst = rng.choice(["face", "edge"])
                r = getattr(a, "topological_" + rng.choice(["mean", "max", "sum", "min"]))(destination=dst)
                mop, newgrid = ["topo", 2 if dst == "face" else 1], cur_grid
            elif kind == "remap":
                dest = grids[1]
                to = rng.choice(["nodes", "face centers", "edge centers"])
                if rng.random() < 0.5 or element_counts(a.uxgrid)[gdim] < 3:
                    # (inverse-distance weighting with k = 2 is refused on sources with fewer elements: by design)
                    r = a.remap.nearest_neighbor(dest, remap_to=to)
                else:
                    r = a.remap.inverse_distance_weighted(dest, remap_to=to, k=2)
                mop, newgrid = None, dest
            elif kind == "dual":
                nfc = a.uxgrid.node_face_connectivity.values
                if gdim == "n_edge" or a.uxgrid.hole_edge_indices.size or int((nfc != FILL).sum(axis=1).min()) < 3:
                    continue                  # dual data mapping is defined for closed grids with node valence >= 3 (C18)
                r = a.get_dual()
                mop, newgrid = None, r.uxgrid
            else:
                continue
        except Exception as ex:
            ck.fail("raises", case_s, info, detail=repr(ex))
            return
        stats["ops"][kind] = stats["ops"].get(kind, 0) + 1
        expect = newgrid if kind in ("integrate", "edgeop", "topo", "remap") else None
        if not check_value(ck, r, expect, False, case_s, info):
            break
        if kind in ("isel_grid", "subset", "remap", "dual"):
            fams.append(r.uxgrid)
            cur_fam, cur_gen = len(fams) - 1, 0
            if kind in ("isel_grid", "subset"):
                mop = ["isel", cur_fam]
            elif kind == "remap":
                mop = ["remap", cur_fam, {"nodes": 0, "edge centers": 1, "face centers": 2}[to]]
            else:
                mop = ["dual", cur_fam]
        cur_grid = r.uxgrid
        a = r
        mops.append(mop)
        mexpect.append((True, (cur_fam, cur_gen), dc.dims(a)))
    if mops and dt == "float64":
        # (which xarray code path an operation takes depends on the dtype — e.g. idxmax keeps the subclass on integer data and
        # loses it on floats — and the routes fed to the model are measured on float64: other dtypes are judged by the
        # implementation-side clauses only)
        sizes = [[f.n_node, f.n_edge, f.n_face] for f in fams]
        model_lines.append(sx([sizes, dims0, mops]))
        keep.append((case, mexpect))


def main(ck):
    ck.check_props()
    ok = ck.build_driver()
    rng = ck.rng
    try:
        routes = routes_from_gen()
    except Exception as ex:
        ck.proof["errors"].append("cannot read Gen/C10_route.v: %r" % (ex,))
        routes = {}
    n_prog = 150 if ck.tier == "quick" else 2500
    max_depth = 6 if ck.tier == "quick" else 12
    stats = {"ops": {}}
    model_lines, keep = [], []
    depth_hist = {}
    # every catalogued operation once, directly (so that each known finding is exercised on every run)
    m0 = meshgen.gen_mesh(rng, max_ops=4, partial=False)
    g0, g1 = mk_grid(m0), mk_grid(meshgen.gen_mesh(rng, max_ops=4, partial=False))
    for name in sorted(c10_ops.OPS):
        for centred in ("n_face", "n_node", "n_edge"):
            ck.note_case(("single", name, centred))
            run_program(ck, rng, [m0], [g0, g1], [("x", name)], centred, [("t", 3)], routes, stats, model_lines, keep)
    # generic xarray indexing along the grid dimension itself
    import xarray as xr
    import uxarray as ux
    for name, fn in sorted(c10_ops.GRID_DIM_OPS.items()):
        for centred, n in (("n_face", g0.n_face), ("n_node", g0.n_node), ("n_edge", g0.n_edge)):
            ck.note_case(("grid_dim_op", name, centred))
            data = np.arange(3.0 * n).reshape(3, n)
            a = ux.UxDataArray(data.copy(), dims=["t", centred], uxgrid=g0, name="v", coords={"t": [0, 1, 2]})
            case = {"meshes": [{"nodes": m0.nodes, "faces": m0.faces}], "grid_dim_op": name, "centred": centred}
            info = {"op": name}
            try:
                r = fn(a, centred)
            except Exception as ex:
                ck.fail("raises", case, info, detail=repr(ex))
                continue
            stats["ops"][name] = stats["ops"].get(name, 0) + 1
            if not check_value(ck, r, None, False, case, info):
                continue
            want = fn(xr.DataArray(data.copy(), dims=["t", centred], coords={"t": [0, 1, 2]}), centred)
            if tuple(want.dims) != tuple(r.dims) or r.shape[:-1] != want.shape[:-1]:
                ck.fail("values_differ_from_plain_xarray", case, info, detail="dims/shape %s %s vs %s %s" % (r.dims, r.shape, want.dims, want.shape))
    # directed: uxarray's name-based operations after the grid dimension was moved away from the last position
    closed = [meshgen.gen_mesh(rng, max_ops=0, partial=False, seeds=["octa", "icosa", "cube"]) for _ in range(2)]
    cg = [mk_grid(m) for m in closed]
    for centred in ("n_face", "n_node"):
        for pre in ([("x", "T")], [("x", "transpose")], [("x", "expand_dims"), ("x", "transpose")], [("x", "cumsum"), ("x", "T")]):
            for tail in (("dual",), ("isel_grid",), ("subset",)):
                ck.note_case(("directed", centred, pre, tail))
                run_program(ck, rng, closed, cg, list(pre) + [tail, ("x", "add")], centred, [("t", 3)], routes, stats, model_lines, keep)
    for pi in range(n_prog):
        ms = [meshgen.gen_mesh(rng, max_ops=rng.choice([3, 6]), partial=rng.random() < 0.25) for _ in range(2)]
        grids = [mk_grid(m) for m in ms]
        depth = rng.randrange(1, max_depth + 1)
        prog = gen_program(rng, depth, routes)
        centred = rng.choice(["n_face", "n_face", "n_node", "n_edge"])
        lead = rng.choice([[("t", 3)], [("t", 3)], [("t", 2), ("lev", 2)], [("t", 4)]])
        depth_hist[len(prog)] = depth_hist.get(len(prog), 0) + 1
        ck.note_case((ms[0].faces, prog, centred, lead), nontrivial=len(prog) >= 2)
        run_program(ck, rng, ms, grids, prog, centred, lead, routes, stats, model_lines, keep)
        if pi < 3:
            ck.sample({"program": [list(p) for p in prog], "centred": centred, "lead": lead})
    if ok and model_lines:
        mod = ck.run_model("c10", model_lines)
        for (case, mexpect), mo in zip(keep, mod):
            if isinstance(mo, list) and mo and mo[0] == "ERR":
                ck.corr_failures.append({"case": case["program"], "model": mo})
                continue
            for step, (exp, got) in enumerate(zip(mexpect, mo)):
                is_ux, gid, dims = exp
                m_ux, m_gid, m_dims, m_cons = bool(got[0]), got[1], got[2], bool(got[3])
                if not is_ux:
                    if m_ux and m_cons:
                        ck.corr_failures.append({"case": case["program"], "step": step, "impl": "not a UxDataArray", "model": got})
                    break
                if not (m_ux and m_cons) or list(m_gid) != list(gid) or [list(x) for x in m_dims] != [list(x) for x in dims]:
                    ck.corr_failures.append({"case": case["program"], "step": step, "impl": [gid, dims], "model": got})
                    break
    ck.cov["rule"] = ("every catalogued xarray operation once on face-, node- and edge-centred data + random programs (depth 1..%d) mixing "
                      "catalogued operations (arithmetic, ufuncs, where/clip/fillna/astype, indexing, reductions, cumulative, rolling, "
                      "transpose, rename, coords, concat, copies) with isel on grid dims, subset, integrate, gradient/difference, "
                      "topological aggregation, remap (NN / IDW onto a second grid) and get_dual; 1-2 leading dimensions; after every "
                      "step: type, grid object identity (deep copy: equal and distinct), grid-dimension lengths, dims and values vs plain "
                      "xarray; non-trivial = >= 2 steps" % max_depth)
    ck.extra.update({"op_histogram": stats["ops"], "program_lengths": {str(k): v for k, v in sorted(depth_hist.items())},
                     "routes_measured": routes, "model_programs_compared": len(keep)})
    ck.trusted += ["route table measured by harness/translators/c10_route.py on the installed xarray (xarray internals are an oracle)",
                   "dims transformers of the model are derived from plain xarray's before/after dims"]
    ck.assumptions += ["operations act along non-grid dimensions only (the property's scope)"]


def replay(ck, rp):
    case = rp["case"]
    ck.note_case("replay")
    ck.note_case(json.dumps(case, default=str)[:3000])
    ms = [meshgen.Mesh(mj["nodes"], mj["faces"]) for mj in case["meshes"]]
    while len(ms) < 2:
        ms.append(ms[0])
    grids = [mk_grid(m) for m in ms]
    prog = [tuple(p) for p in case["program"]]
    run_program(ck, ck.rng, ms, grids, prog, case["centred"], [tuple(x) for x in case["lead"]], routes_from_gen(), {"ops": {}}, [], [])
