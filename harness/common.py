"""Shared machinery for the /verif checks.

Every check is `./check Cxx quick|thorough` -> harness/run.py -> harness/cXX.py:main(ck).
`ck` (class Check) provides: translators + Coq build + per-property proof status (Print
Assumptions), the extracted-model driver, replay/VIOLATION/KNOWN-FINDING handling and the
evidence file.  Runs under /venv/bin/python with PYTHONPATH=/repo so the implementation is the
current working tree of /repo.
"""
import fcntl
import hashlib
import json
import os
import random
import re
import subprocess
import sys
import time

VERIF = os.path.dirname(os.path.dirname(os.path.abspath(__file__)))
REPO = os.environ.get("VERIF_REPO", "/repo")
COQ = os.path.join(VERIF, "coq")
OCAML = os.path.join(VERIF, "ocaml")
SCRATCH = os.path.join(VERIF, ".scratch", str(os.getpid()))
FILL = -(2 ** 63)

ALLOWED_AXIOMS = {
    # axioms declared by Coq's standard library (real numbers); named in the trusted base
    "ClassicalDedekindReals.sig_forall_dec",
    "ClassicalDedekindReals.sig_not_dec",
    "FunctionalExtensionality.functional_extensionality_dep",
    "Classical_Prop.classic",
}


def sh(cmd, timeout=1800, cwd=None, env=None, inp=None):
    p = subprocess.run(cmd, shell=isinstance(cmd, str), cwd=cwd, env=env, input=inp,
                       stdout=subprocess.PIPE, stderr=subprocess.STDOUT, timeout=timeout,
                       text=True)
    return p.returncode, p.stdout


def impl_env(extra=None):
    e = dict(os.environ)
    e["PYTHONPATH"] = REPO
    e["PYTHONHASHSEED"] = "0"
    e["NUMBA_CACHE_DIR"] = os.path.join(VERIF, ".cache", "numba")
    e["MPLBACKEND"] = "Agg"
    e["MPLCONFIGDIR"] = os.path.join(VERIF, ".cache", "mpl")
    e["PYTHONWARNINGS"] = "ignore"
    e["PYTHONDONTWRITEBYTECODE"] = "1"
    if extra:
        e.update(extra)
    return e


class Lock:
    def __init__(self, name="build"):
        os.makedirs(os.path.join(VERIF, ".cache"), exist_ok=True)
        self.path = os.path.join(VERIF, ".cache", name + ".lock")

    def __enter__(self):
        self.f = open(self.path, "w")
        fcntl.flock(self.f, fcntl.LOCK_EX)
        return self

    def __exit__(self, *a):
        fcntl.flock(self.f, fcntl.LOCK_UN)
        self.f.close()


def write_if_changed(path, text):
    try:
        if open(path).read() == text:
            return False
    except OSError:
        pass
    os.makedirs(os.path.dirname(path), exist_ok=True)
    with open(path, "w") as f:
        f.write(text)
    return True


# ---------------------------------------------------------------------------------------------
# S-expression protocol with the extracted OCaml model: integers, F (fill), nested lists.

def sx(v):
    if isinstance(v, bool):
        return "1" if v else "0"
    if isinstance(v, int):
        return "F" if v == FILL else str(v)
    if isinstance(v, str):
        return v
    if v is None:
        return "N"
    return "(" + " ".join(sx(x) for x in v) + ")"


def parse_sx(s):
    toks = s.replace("(", " ( ").replace(")", " ) ").split()
    pos = 0

    def rd():
        nonlocal pos
        t = toks[pos]
        pos += 1
        if t == "(":
            out = []
            while toks[pos] != ")":
                out.append(rd())
            pos += 1
            return out
        if t == "F":
            return FILL
        if t == "N":
            return None
        try:
            return int(t)
        except ValueError:
            return t
    return rd()


class Check:
    def __init__(self, pid, tier, seed):
        self.pid = pid
        self.tier = tier
        self.seed = seed
        self.rng = random.Random(seed * 1000003 + int(pid[1:]))
        self.t0 = time.time()
        self.violations = []          # (kind, clause, replay path)
        self.known_hits = {}          # finding id -> count
        self.proof = {"obligations": 0, "discharged": 0, "theorems": [], "axioms": [],
                      "errors": []}
        self.corr_failures = []       # correspondence divergences (not by themselves violations)
        self.cov = {"evaluations": 0, "distinct_nontrivial": 0, "samples": [], "rule": ""}
        self.extra = {}
        self.assumptions = []
        self.trusted = []
        self._distinct = set()
        os.makedirs(SCRATCH, exist_ok=True)
        allf = json.load(open(os.path.join(VERIF, "known_findings.json")))
        kd = os.path.join(VERIF, "known_findings.d")     # per-property fragments (same format)
        if os.path.isdir(kd):
            for fn in sorted(os.listdir(kd)):
                if fn.endswith(".json"):
                    allf += json.load(open(os.path.join(kd, fn)))
        self.findings = [f for f in allf if f["property"] == pid]

    # ----- Coq ---------------------------------------------------------------------------
    def run_translators(self):
        """Regenerate coq/Gen/*.v from /repo (fail-closed translators)."""
        errs = []
        tdir = os.path.join(VERIF, "harness", "translators")
        for fn in sorted(os.listdir(tdir)):
            if not fn.endswith(".py"):
                continue
            if not (fn.startswith(self.pid.lower() + "_") or fn.startswith("all_")):
                continue
            rc, out = sh([sys.executable, os.path.join(tdir, fn), REPO, os.path.join(COQ, "Gen")],
                         env=impl_env(), timeout=300)
            if rc != 0:
                errs.append((fn, out[-2000:]))
        return errs

    def gen_coqproject(self):
        """_CoqProject lists every .v under Model/ Proofs/ Props/ Gen/ Extract/ (regenerated when the set changes)."""
        files = []
        for d in ("Model", "Gen", "Proofs", "Props", "Extract"):
            dd = os.path.join(COQ, d)
            if os.path.isdir(dd):
                files += sorted(d + "/" + f for f in os.listdir(dd) if f.endswith(".v"))
        txt = "-Q . Verif\n" + "\n".join(files) + "\n"
        if write_if_changed(os.path.join(COQ, "_CoqProject"), txt) or not os.path.exists(os.path.join(COQ, "Makefile")):
            sh("coq_makefile -f _CoqProject -o Makefile", cwd=COQ)

    def coq_build(self, targets=None):
        """translators, then make (full .vo build of everything the property needs)."""
        with Lock("build"):
            terrs = self.run_translators()
            for fn, out in terrs:
                self.proof["errors"].append("translator %s: tie broken: %s" % (fn, out[-600:]))
            self.gen_coqproject()
            tg = " ".join(targets) if targets else ""
            rc, out = sh("timeout 2400 make -j%d %s" % (min(16, os.cpu_count() or 4), tg), cwd=COQ,
                         timeout=2500)
            if rc != 0:
                self.proof["errors"].append("make failed: " + out[-3000:])
            return rc == 0 and not terrs, out

    def check_props(self, files=None):
        """Compile Props/<pid>.v again on its own, parse every `Print Assumptions` answer.
        obligations = theorems stated there; discharged = compiled and axioms within the
        allowed (standard-library) list."""
        files = files or ["Props/%s_props.v" % self.pid]
        deps = []
        for f in files:
            src = open(os.path.join(COQ, f)).read()
            deps += re.findall(r"^\s*From Verif Require (?:Import|Export) ([^.]*)\.", src, re.M)
        targets = [f + "o" for f in files]
        ok, out = self.coq_build(targets)
        for f in files:
            src = open(os.path.join(COQ, f)).read()
            thms = re.findall(r"^\s*(?:Theorem|Lemma|Corollary)\s+([A-Za-z0-9_']+)", src, re.M)
            self.proof["obligations"] += len(thms)
            if re.search(r"\b(Admitted|admit|Axiom|Parameter|Conjecture)\b", re.sub(r"\(\*.*?\*\)", "", src, flags=re.S)):
                self.proof["errors"].append("%s: forbidden keyword" % f)
                continue
            if not os.path.exists(os.path.join(COQ, f + "o")) or not ok:
                # find which theorem failed by compiling alone
                rc, o2 = sh("timeout 1200 coqc -Q . Verif %s" % f, cwd=COQ, timeout=1300)
                self.proof["errors"].append("%s does not compile: %s" % (f, o2[-1500:]))
                continue
            rc, o2 = sh("timeout 1200 coqc -Q . Verif -o %s/%s %s" % (SCRATCH, os.path.basename(f) + "o", f), cwd=COQ,
                        timeout=1300)
            if rc != 0:
                self.proof["errors"].append("%s does not compile: %s" % (f, o2[-1500:]))
                continue
            # split Print Assumptions answers
            blocks = re.split(r"(?m)^(?=Closed under the global context|Axioms:)", o2)
            answers = [b for b in blocks if b.startswith("Closed under") or b.startswith("Axioms:")]
            for i, th in enumerate(thms):
                if i >= len(answers):
                    self.proof["errors"].append("%s: no Print Assumptions for %s" % (f, th))
                    continue
                a = answers[i]
                if a.startswith("Closed under"):
                    axs = []
                else:
                    body = a.split("\n", 1)[1] if "\n" in a else ""     # drop the "Axioms:" header line
                    axs = re.findall(r"(?m)^([A-Za-z_][A-Za-z0-9_.']*)\s*:", body)
                bad = [x for x in axs if x not in ALLOWED_AXIOMS]
                self.proof["theorems"].append({"name": th, "axioms": axs})
                for x in axs:
                    if x not in self.proof["axioms"]:
                        self.proof["axioms"].append(x)
                if bad:
                    self.proof["errors"].append("%s: %s depends on non-library axioms %s" % (f, th, bad))
                else:
                    self.proof["discharged"] += 1
        if self.tier == "thorough" and not self.proof["errors"]:
            self.coqchk(files)
        return not self.proof["errors"]

    def coqchk(self, files):
        """thorough tier: re-check the compiled property files and everything they depend on with the independent
        checker coqchk and record the axioms it reports"""
        for f in files:
            lib = "Verif." + f[:-2].replace("/", ".")
            try:
                rc, out = sh("timeout 1500 coqchk -silent -R . Verif -o %s" % lib, cwd=COQ, timeout=1600)
            except subprocess.TimeoutExpired:
                self.extra.setdefault("coqchk", {})[f] = "timed out"
                continue
            m = re.search(r"\* Axioms:(.*?)\n\s*\n\* Constants/Inductives relying on type-in-type:(.*?)\n\s*\n"
                          r"\* Constants/Inductives relying on unsafe \(co\)fixpoints:(.*?)\n\s*\n"
                          r"\* Inductives whose positivity is assumed:(.*?)\n", out, re.S)
            if rc != 0 or not m:
                self.proof["errors"].append("coqchk failed on %s: %s" % (lib, out[-800:]))
                continue
            axioms = [a.strip() for a in m.group(1).split("\n") if a.strip() and a.strip() != "<none>"]
            unsafe = [g.strip() for g in m.groups()[1:] if g.strip() != "<none>"]
            self.extra.setdefault("coqchk", {})[f] = {"axioms": axioms, "type_in_type/unsafe_fix/positivity": unsafe or "none"}
            bad = [a for a in axioms if not any(a.endswith(x.split(".")[-1]) or x in a for x in ALLOWED_AXIOMS)]
            if unsafe:
                self.proof["errors"].append("coqchk: %s relies on disabled kernel checks: %s" % (lib, unsafe))

    # ----- extracted model -------------------------------------------------------------
    def build_driver(self):
        with Lock("build"):
            self.gen_coqproject()
            rc, out = sh("timeout 1500 make -s driver_%s" % self.pid, cwd=OCAML, timeout=1600)
            if rc != 0:
                self.proof["errors"].append("extraction/driver build failed: " + out[-2000:])
            return rc == 0

    def run_model(self, cmd, lines, timeout=3000):
        """Run the extracted OCaml model on one case per line; returns parsed result lines."""
        inp = "\n".join(lines) + "\n"
        p = subprocess.run([os.path.join(OCAML, "driver_" + self.pid), cmd], input=inp, text=True,
                           stdout=subprocess.PIPE, stderr=subprocess.PIPE, timeout=timeout)
        if p.returncode != 0:
            raise RuntimeError("model driver failed: " + p.stderr[-2000:])
        return [parse_sx(l) for l in p.stdout.splitlines() if l.strip()]

    def audit_vm(self, coq_expr_lines, header):
        """Evaluate the same model inside Coq (vm_compute) for an extraction audit sample."""
        src = header + "\n" + "\n".join(coq_expr_lines) + "\n"
        path = os.path.join(SCRATCH, "audit_%s.v" % self.pid)
        open(path, "w").write(src)
        rc, out = sh("timeout 600 coqc -Q %s Verif %s" % (COQ, path), timeout=700)
        return rc, out

    # ----- results ----------------------------------------------------------------------
    def note_case(self, key, nontrivial=True):
        self.cov["evaluations"] += 1
        if nontrivial:
            h = hashlib.sha1(repr(key).encode()).hexdigest()[:16]
            self._distinct.add(h)

    def sample(self, s, maxn=4):
        if len(self.cov["samples"]) < maxn:
            self.cov["samples"].append(s)

    def match_known(self, clause, info):
        """A failure is a known finding only if an entry's clause and predicate match it."""
        for f in self.findings:
            if f.get("status") != "known":
                continue
            m = f["match"]
            if m.get("clause") != clause:
                continue
            pred = m.get("predicate")
            ok = True
            for k, v in (pred or {}).items():
                if info.get(k) != v:
                    ok = False
                    break
            if ok:
                return f
        return None

    def fail(self, clause, case, info=None, kind="counterexample", detail=""):
        """Report a property failure on the implementation (true counterexample) unless it is a
        listed known finding."""
        info = info or {}
        kf = self.match_known(clause, info)
        if kf is not None:
            self.known_hits[kf["id"]] = self.known_hits.get(kf["id"], 0) + 1
            return False
        # de-duplicate by clause: keep the first (smallest) per clause
        for v in self.violations:
            if v["clause"] == clause and v["kind"] == kind:
                v["count"] += 1
                return True
        os.makedirs(os.path.join(VERIF, "replays"), exist_ok=True)
        path = os.path.join(VERIF, "replays", "%s_%d_%d.json" % (self.pid, self.seed, len(self.violations)))
        json.dump({"property": self.pid, "kind": kind, "clause": clause, "case": case, "info": info,
                   "detail": detail[-4000:] if isinstance(detail, str) else detail,
                   "how_to_run": "./check %s --replay %s" % (self.pid, path)},
                  open(path, "w"), indent=1, default=str)
        self.violations.append({"kind": kind, "clause": clause, "path": path, "count": 1})
        return True

    def finish(self):
        # proof / correspondence broken without a concrete failing input
        have_cex = any(v["kind"] == "counterexample" for v in self.violations)
        if (self.proof["errors"] or self.corr_failures) and not have_cex:
            os.makedirs(os.path.join(VERIF, "replays"), exist_ok=True)
            path = os.path.join(VERIF, "replays", "%s_%d_tie.json" % (self.pid, self.seed))
            json.dump({"property": self.pid,
                       "kind": "proof" if self.proof["errors"] else "correspondence",
                       "proof_errors": self.proof["errors"],
                       "correspondence": self.corr_failures[:5],
                       "note": "theorem or model/implementation correspondence no longer checks; "
                               "the search found no input on which the property itself fails"},
                      open(path, "w"), indent=1, default=str)
            self.violations.append({"kind": "tie", "clause": "proof-or-correspondence", "path": path,
                                    "count": 1})
        self.cov["distinct_nontrivial"] = len(self._distinct)
        cov = dict(self.cov)
        cov.update({
            "obligations": self.proof["obligations"],
            "discharged": self.proof["discharged"],
            "checker_cmd": "cd /verif/coq && make && coqc -Q . Verif Props/%s_props.v  (Print Assumptions under every theorem)" % self.pid,
            "trusted_base": self.trusted + [
                "Coq 8.16.1 kernel incl. vm_compute (no native_compute)",
                "axioms reported by Print Assumptions: " + (", ".join(self.proof["axioms"]) or "none (closed under the global context)"),
                "Extraction with ExtrOcamlBasic only (no Extract Constant/Inductive of our own), OCaml 4.13 compiler, ocaml/driver.ml",
                "correspondence harness (harness/%s.py): generators, canonicalisers, oracle code" % self.pid.lower(),
            ],
            "theorems": self.proof["theorems"],
            "proof_errors": self.proof["errors"],
            "correspondence_failures": len(self.corr_failures),
            "known_findings_hit": self.known_hits,
        })
        cov.update(self.extra)
        ev = {"property_id": self.pid, "tier": self.tier, "seed": self.seed, "level": "proof",
              "coverage": cov, "assumptions": self.assumptions,
              "wall_s": round(time.time() - self.t0, 2), "violations": len(self.violations)}
        # evidence/ describes runs against /repo itself; a run against another tree (VERIF_REPO=<scratch copy>, used to try
        # seeded changes) leaves it alone and writes its record under .scratch/
        evdir = os.path.join(VERIF, "evidence") if os.path.realpath(REPO) == "/repo" else os.path.join(SCRATCH, "evidence_other_tree")
        os.makedirs(evdir, exist_ok=True)
        json.dump(ev, open(os.path.join(evdir, self.pid + ".json"), "w"), indent=1,
                  default=str)
        for f in self.findings:
            if f.get("status") == "known" and self.known_hits.get(f["id"]):
                print("KNOWN-FINDING: property=%s %s (reproduced on %d cases)" % (self.pid, f["what"], self.known_hits[f["id"]]))
        for v in self.violations:
            tail = "" if v["kind"] == "counterexample" else " no-failing-input-found"
            print("VIOLATION property=%s replay=%s%s" % (self.pid, v["path"], tail))
        try:
            import shutil
            shutil.rmtree(SCRATCH, ignore_errors=True)
        except Exception:
            pass
        sys.stdout.flush()
        return 1 if self.violations else 0
