"""C09 — subsets and cross-sections are faithful, fully functional restrictions.

Proof: coq/Props/C09_props.v about coq/Model/C09.v (face slicing with sorted-unique renumbering,
inclusive node/edge selection, strict-sign latitude scan and its schedule independence, data
gather).  Tie: real isel / subset / cross_section calls on generated grids, over source
histories and numba thread counts, against the extracted model and an independent oracle.
"""
import json
import math
import os
from fractions import Fraction

import numpy as np

import c02
import c03
import common
import meshgen
from common import FILL, sx

HIST = ["edge_node_connectivity", "face_edge_connectivity", "edge_face_connectivity", "node_face_connectivity",
        "face_face_connectivity", "n_nodes_per_face", "face_areas", "face_lon", "edge_lon", "node_x", "face_x",
        "edge_x", "edge_node_distances", "hole_edge_indices", "edge_face_distances", "bounds", "face_jacobian"]
MARGIN = 1e-6
# earlier tree requests of OTHER element kinds (the selection's own tree must not be the stale one)
HIST += ["tree:kd:nodes", "tree:kd:face centers", "tree:kd:edge centers", "tree:ball:nodes", "tree:ball:face centers",
         "tree:ball:edge centers"]


def touch(g, h):
    """materialise one history item on the source"""
    if h.startswith("tree:"):
        _, tree, kind = h.split(":")
        t = g.get_kd_tree(kind) if tree == "kd" else g.get_ball_tree(kind)
        pt = [1.0, 0.0, 0.0] if tree == "kd" else [0.0, 0.0]
        t.query(pt, k=1)
    else:
        getattr(g, h)


def mk_grid(m):
    import uxarray as ux
    lon, lat = m.lonlat()
    kw = {}
    if getattr(m, "supplied_edges", None):
        # a source that ships its own edge table in arbitrary order / orientation (MPAS, ICON, UGRID Mesh2_edge_nodes)
        kw["edge_node_connectivity"] = np.array(m.supplied_edges, dtype=np.intp)
    return ux.Grid.from_topology(np.array(lon), np.array(lat), np.array(m.table(), dtype=np.intp), fill_value=FILL, **kw)


def supplied_edges_for(m, rng):
    pairs = sorted({(min(a, b), max(a, b)) for f in m.faces for a, b in zip(f, f[1:] + f[:1])})
    pairs = [list(p) if rng.random() < 0.5 else [p[1], p[0]] for p in pairs]
    rng.shuffle(pairs)
    return pairs


def band_mesh(nlon, nlat, lat0, lat1):
    """a structured lat-lon band (partial grid without poles): large enough (> 4096 edges) for the blocked / parallel
    code paths of the latitude scan"""
    nodes, faces = [], []
    for j in range(nlat + 1):
        la = math.radians(lat0 + (lat1 - lat0) * (j + 0.137 * math.sin(j)) / nlat) if 0 < j < nlat else math.radians(lat0 if j == 0 else lat1)
        for i in range(nlon):
            lo = math.radians(-180.0 + 360.0 * (i + 0.25) / nlon)
            nodes.append((math.cos(la) * math.cos(lo), math.cos(la) * math.sin(lo), math.sin(la)))
    for j in range(nlat):
        for i in range(nlon):
            i2 = (i + 1) % nlon
            faces.append([j * nlon + i, j * nlon + i2, (j + 1) * nlon + i2, (j + 1) * nlon + i])
    return meshgen.Mesh(nodes, faces, closed=False, name="band%dx%d" % (nlon, nlat))


class Src:
    """facts about the source, computed from a fresh grid + plain python (the oracle side)"""

    def __init__(self, m):
        self.m = m
        self.g = mk_grid(m)
        g = self.g
        self.lon = g.node_lon.values.copy()
        self.lat = g.node_lat.values.copy()
        self.table = g.face_node_connectivity.values.tolist()
        self.rows = [[x for x in r if x != FILL] for r in self.table]
        self.edges = [tuple(e) for e in g.edge_node_connectivity.values.tolist()]
        self.edge_id = {(min(a, b), max(a, b)): i for i, (a, b) in enumerate(self.edges)}
        self.node_faces = {}
        self.edge_faces = {}
        for f, c in enumerate(self.rows):
            for j, a in enumerate(c):
                self.node_faces.setdefault(a, set()).add(f)
                b = c[(j + 1) % len(c)]
                self.edge_faces.setdefault(self.edge_id[(min(a, b), max(a, b))], set()).add(f)
        self.face_lon = g.face_lon.values.copy()
        self.face_lat = g.face_lat.values.copy()
        self.edge_lon = g.edge_lon.values.copy()
        self.edge_lat = g.edge_lat.values.copy()
        self.node_z = g.node_z.values.copy()
        self.areas = g.face_areas.values.copy()
        self.efd = g.edge_face_distances.values.copy()
        self.end = g.edge_node_distances.values.copy()
        self.npos = [(float(a), float(b)) for a, b in zip(self.lon, self.lat)]

    def face_pos(self, f):
        return [self.npos[n] for n in self.rows[f]]


def gc_deg(lon1, lat1, lon2, lat2):
    a = (math.radians(lon1), math.radians(lat1))
    b = (math.radians(lon2), math.radians(lat2))
    h = math.sin((b[1] - a[1]) / 2) ** 2 + math.cos(a[1]) * math.cos(b[1]) * math.sin((b[0] - a[0]) / 2) ** 2
    return math.degrees(2 * math.asin(min(1.0, math.sqrt(h))))


def ref_points(src, element):
    if element == "nodes":
        return src.lon, src.lat
    if element == "face centers":
        return src.face_lon, src.face_lat
    return src.edge_lon, src.edge_lat


def faces_of_elements(src, element, ids):
    if element == "nodes":
        s = set()
        for n in ids:
            s |= src.node_faces.get(int(n), set())
        return s
    if element == "edge centers":
        s = set()
        for e in ids:
            s |= src.edge_faces.get(int(e), set())
        return s
    return set(int(x) for x in ids)


def gen_selection(rng, src, force_lat=None):
    """returns dict(kind, args, expected=(min_set, max_set) of source faces, ordered=list or None)"""
    nf, nn, ne = len(src.rows), len(src.lon), len(src.edges)
    kind = rng.choice(["face", "face", "node", "edge", "bbox", "bbox", "circle", "knn", "lat", "lat", "lat"])
    if force_lat is not None:
        kind = "lat"
    if kind == "face":
        style = rng.choice(["unsorted", "scalar", "single", "all", "array", "sorted"])
        if style == "scalar":
            i = rng.randrange(nf)
            return {"kind": kind, "style": style, "idx": i, "exp": ({i}, {i}), "ordered": [i]}
        if style == "single":
            idx = [rng.randrange(nf)]
        elif style == "all":
            idx = list(range(nf))
            if rng.random() < 0.5:
                rng.shuffle(idx)
        else:
            idx = rng.sample(range(nf), rng.randrange(1, nf + 1))
            if style == "sorted":
                idx.sort()
        return {"kind": kind, "style": style, "idx": idx, "exp": (set(idx), set(idx)), "ordered": list(idx)}
    if kind in ("node", "edge"):
        n = nn if kind == "node" else ne
        style = rng.choice(["unsorted", "scalar", "single", "all"])
        if style == "scalar":
            idx = rng.randrange(n)
            ids = [idx]
        elif style == "single":
            idx = [rng.randrange(n)]
            ids = idx
        elif style == "all":
            idx = list(range(n))
            ids = idx
        else:
            idx = rng.sample(range(n), rng.randrange(1, min(n, 6) + 1))
            ids = idx
        s = faces_of_elements(src, "nodes" if kind == "node" else "edge centers", ids)
        return {"kind": kind, "style": style, "idx": idx, "exp": (s, s), "ordered": None}
    element = rng.choice(["nodes", "face centers", "edge centers"])
    rl, rt = ref_points(src, element)
    if kind == "bbox":
        for _ in range(50):
            span = rng.random() < 0.35
            a, b = rng.uniform(-180, 180), rng.uniform(-180, 180)
            if span != (a > b):
                a, b = b, a
            if a == b:
                continue
            lo, hi = sorted((rng.uniform(-90, 90), rng.uniform(-90, 90)))
            if all(abs(x - a) > MARGIN and abs(x - b) > MARGIN and abs(abs(x) - 180) > MARGIN for x in rl) and \
                    all(abs(y - lo) > MARGIN and abs(y - hi) > MARGIN for y in rt):
                break
        else:
            return None

        def inside(x, y):
            okl = (a < x < b) if a < b else (x > a or x < b)
            return okl and lo < y < hi
        ids = [i for i in range(len(rl)) if inside(rl[i], rt[i])]
        s = faces_of_elements(src, element, ids)
        return {"kind": kind, "element": element, "lon_bounds": (a, b), "lat_bounds": (lo, hi), "exp": (s, s),
                "ordered": None, "n_elem": len(ids), "spans_antimeridian": a > b}
    if kind in ("circle", "knn"):
        clon, clat = rng.uniform(-180, 180), rng.uniform(-89, 89)
        if rng.random() < 0.3:                      # near the antimeridian / a pole on purpose
            clon = rng.choice([179.9, -179.9, 0.05])
        d = [gc_deg(clon, clat, rl[i], rt[i]) for i in range(len(rl))]
        order = sorted(range(len(d)), key=lambda i: d[i])
        if kind == "circle":
            for _ in range(50):
                r = rng.uniform(1, 120)
                if all(abs(x - r) > 1e-5 for x in d):
                    break
            else:
                return None
            ids = [i for i in range(len(d)) if d[i] < r]
            s = faces_of_elements(src, element, ids)
            return {"kind": kind, "element": element, "center": (clon, clat), "r": r, "exp": (s, s), "ordered": None,
                    "n_elem": len(ids)}
        k = rng.randrange(1, len(d) + 1)
        if k < len(d) and d[order[k]] - d[order[k - 1]] < 1e-7:
            return None
        ids = order[:k]
        s = faces_of_elements(src, element, ids)
        ordered = [int(i) for i in ids] if element == "face centers" else None
        out = {"kind": kind, "element": element, "center": (clon, clat), "k": k, "exp": (s, s), "ordered": None,
               "knn_order": ordered, "n_elem": k}
        if rng.random() < 0.4:
            # the same centre given in Cartesian coordinates: the k-d tree route (chord order = great-circle order)
            la, lo = math.radians(clat), math.radians(clon)
            out["center_xyz"] = [math.cos(la) * math.cos(lo), math.cos(la) * math.sin(lo), math.sin(la)]
        return out
    # constant latitude
    style = rng.choice(["random", "random", "node_lat", "node_lat", "equator"])
    if style == "node_lat":
        lat = float(src.lat[rng.randrange(nn)])
        if abs(lat) >= 90:
            return None
    elif style == "equator":
        lat = 0.0
    else:
        lat = rng.uniform(-89.9, 89.9)
    if force_lat is not None:
        style, lat = "forced", force_lat
    zc = math.sin(math.radians(lat))
    smin, smax = set(), set()
    for e, (a, b) in enumerate(src.edges):
        d0, d1 = src.node_z[a] - zc, src.node_z[b] - zc
        definite = abs(d0) > 1e-9 and abs(d1) > 1e-9
        if lat == 0.0 and (src.node_z[a] == 0.0 or src.node_z[b] == 0.0):
            # a node exactly on the equator (z = sin(0) = 0 in every rounding) is on the parallel, hence on
            # neither side: this edge does not cross
            continue
        if definite:
            if d0 * d1 < 0:
                smin |= src.edge_faces[e]
                smax |= src.edge_faces[e]
        else:
            # an end node (numerically) on the parallel: not strictly on a side in exact arithmetic;
            # rounding may decide either way -> allowed but not required
            if (d0 <= 1e-9 and d1 >= -1e-9) or (d1 <= 1e-9 and d0 >= -1e-9):
                smax |= src.edge_faces[e]
    return {"kind": "lat", "style": style, "lat": lat, "exp": (smin, smax), "ordered": None}


def apply_selection(g, sel):
    k = sel["kind"]
    if k == "face":
        return g.isel(n_face=sel["idx"])
    if k == "node":
        return g.isel(n_node=sel["idx"])
    if k == "edge":
        return g.isel(n_edge=sel["idx"])
    if k == "bbox":
        return g.subset.bounding_box(sel["lon_bounds"], sel["lat_bounds"], element=sel["element"])
    if k == "circle":
        return g.subset.bounding_circle(sel["center"], sel["r"], element=sel["element"])
    if k == "knn":
        return g.subset.nearest_neighbor(sel.get("center_xyz") or sel["center"], sel["k"], element=sel["element"])
    return g.cross_section.constant_latitude(sel["lat"])


def apply_selection_data(da, sel):
    k = sel["kind"]
    if k == "face":
        return da.isel(n_face=sel["idx"])
    if k == "node":
        return da.isel(n_node=sel["idx"])
    if k == "edge":
        return da.isel(n_edge=sel["idx"])
    if k == "bbox":
        return da.subset.bounding_box(sel["lon_bounds"], sel["lat_bounds"], element=sel["element"])
    if k == "circle":
        return da.subset.bounding_circle(sel["center"], sel["r"], element=sel["element"])
    if k == "knn":
        return da.subset.nearest_neighbor(sel.get("center_xyz") or sel["center"], sel["k"], element=sel["element"])
    return da.cross_section.constant_latitude(sel["lat"])


def describe(sel):
    d = {k: v for k, v in sel.items() if k not in ("exp", "ordered")}
    d["expected_faces"] = sorted(sel["exp"][0])
    return d


def check_result(src, sel, r, deep=True):
    """returns failing clause name or None.  r: result Grid."""
    smin, smax = sel["exp"]
    try:
        rec_f = [int(x) for x in r._ds["subgrid_face_indices"].values]
        rec_n = [int(x) for x in r._ds["subgrid_node_indices"].values]
    except Exception:
        return "recorded_indices_missing"
    if r.n_face != len(rec_f):
        return "recorded_face_indices"
    if len(set(rec_f)) != len(rec_f):
        return "duplicate_faces"
    if not (smin <= set(rec_f) <= smax):
        return "selected_faces_" + sel["kind"]
    if sel.get("ordered") is not None and rec_f != sel["ordered"]:
        return "face_order"
    rt = r.face_node_connectivity.values.tolist()
    rlon, rlat = r.node_lon.values, r.node_lat.values
    for k, s in enumerate(rec_f):
        pos = [(float(rlon[n]), float(rlat[n])) for n in rt[k] if n != FILL]
        if pos != src.face_pos(s):
            return "corner_positions"
        kk = len(pos)
        if any(x != FILL for x in rt[k][kk:]):
            return "result_not_standard_form"
    if len(rec_n) != r.n_node or any((float(rlon[i]), float(rlat[i])) != src.npos[n] for i, n in enumerate(rec_n)):
        return "recorded_node_indices"
    if not deep:
        return None
    # fully functional: every derived table satisfies C02 / C03 on the result and agrees with the source's
    try:
        e = r.edge_node_connectivity.values.tolist()
        fe = r.face_edge_connectivity.values.tolist()
        npf = r.n_nodes_per_face.values.tolist()
        bad = c02.spec_check(rt, e, fe, npf, int(r.n_edge))
        if bad:
            return "derived_" + bad
        out = {"edge_node": e, "node_face": r.node_face_connectivity.values.tolist(),
               "edge_face": r.edge_face_connectivity.values.tolist(), "face_face": r.face_face_connectivity.values.tolist(),
               "holes": r.hole_edge_indices.values.tolist(),
               "dtype": {"node_face": "intp", "edge_face": "intp", "face_face": "intp"}}
        bad = c03.spec_check(rt, r.n_node, out)
        if bad:
            return "derived_" + bad
        if npf != [len(src.rows[s]) for s in rec_f]:
            return "derived_n_nodes_per_face_vs_source"
        # edges agree with the source's restricted to the selection (as physical segments)
        want = set()
        for s in rec_f:
            c = src.rows[s]
            for j in range(len(c)):
                want.add(frozenset((src.npos[c[j]], src.npos[c[(j + 1) % len(c)]])))
        got = [frozenset(((float(rlon[a]), float(rlat[a])), (float(rlon[b]), float(rlat[b])))) for a, b in e]
        if set(got) != want or len(got) != len(want):
            return "derived_edges_vs_source"
        rec_e = [int(x) for x in r._ds["subgrid_edge_indices"].values]
        if len(rec_e) != len(e):
            return "recorded_edge_indices"
        for k, se in enumerate(rec_e):
            a, b = src.edges[se]
            if frozenset((src.npos[a], src.npos[b])) != got[k]:
                return "recorded_edge_indices"
        # geometric quantities
        ar = r.face_areas.values
        for k, s in enumerate(rec_f):
            if not math.isclose(float(ar[k]), float(src.areas[s]), rel_tol=1e-11, abs_tol=1e-14):
                return "derived_face_areas_vs_source"
        fl, ft = r.face_lon.values, r.face_lat.values
        for k, s in enumerate(rec_f):
            if gc_deg(float(fl[k]), float(ft[k]), float(src.face_lon[s]), float(src.face_lat[s])) > 1e-9:
                return "derived_face_centres_vs_source"
        el, et = r.edge_lon.values, r.edge_lat.values
        for k, se in enumerate(rec_e):
            if gc_deg(float(el[k]), float(et[k]), float(src.edge_lon[se]), float(src.edge_lat[se])) > 1e-9:
                return "derived_edge_centres_vs_source"
        nz = r.node_z.values
        for i, n in enumerate(rec_n):
            if abs(float(nz[i]) - float(src.node_z[n])) > 1e-12:
                return "derived_node_xyz_vs_source"
        # edge distances: an edge keeps its node distance; its centre-to-centre distance is the source's when both of its
        # faces were selected and zero when the selection left it a single face (a boundary edge of the result)
        rend, refd = r.edge_node_distances.values, r.edge_face_distances.values
        chosen = set(rec_f)
        for k, se in enumerate(rec_e):
            if not math.isclose(float(rend[k]), float(src.end[se]), rel_tol=1e-11, abs_tol=1e-14):
                return "derived_edge_node_distances_vs_source"
            both = len(src.edge_faces[se] & chosen) >= 2
            want_d = float(src.efd[se]) if both else 0.0
            if not math.isclose(float(refd[k]), want_d, rel_tol=1e-11, abs_tol=1e-14):
                return "derived_edge_face_distances_vs_source"
    except Exception as ex:
        return "derived_raises:" + type(ex).__name__
    return None


def second_level(ck, src, r, case):
    """a subset of a subset (objects derived from derived objects): the faces of the second-level result are the faces
    rec1[rec2[k]] of the ORIGINAL source, with unchanged corner positions, and its derived tables meet C02/C03 again"""
    rng = ck.rng
    try:
        rec1 = [int(x) for x in r._ds["subgrid_face_indices"].values]
    except Exception:
        return
    if len(rec1) < 2:
        return
    how = rng.choice(["face", "face", "node", "edge"])
    try:
        if how == "face":
            idx2 = rng.sample(range(len(rec1)), rng.randrange(1, len(rec1) + 1))
            r2 = r.isel(n_face=idx2)
            want = [rec1[i] for i in idx2]
        elif how == "node":
            n0 = rng.randrange(r.n_node)
            r2 = r.isel(n_node=[n0])
            rt = r.face_node_connectivity.values.tolist()
            want = None
            touching = sorted(k for k, row in enumerate(rt) if n0 in [x for x in row if x != FILL])
        else:
            e0 = rng.randrange(r.n_edge)
            r2 = r.isel(n_edge=[e0])
            a, b = [int(x) for x in r.edge_node_connectivity.values[e0]]
            rt = r.face_node_connectivity.values.tolist()
            want = None
            touching = []
            for k, row in enumerate(rt):
                c = [x for x in row if x != FILL]
                if any({c[j], c[(j + 1) % len(c)]} == {a, b} for j in range(len(c))):
                    touching.append(k)
        rec2 = [int(x) for x in r2._ds["subgrid_face_indices"].values]
        if want is not None:
            if rec2 != idx2:
                ck.fail("face_order", dict(case, second_level=how), {"kind": "second_level:" + how})
                return
        else:
            if sorted(rec2) != touching or len(set(rec2)) != len(rec2):
                ck.fail("selected_faces_" + how, dict(case, second_level=how), {"kind": "second_level:" + how})
                return
        rt2 = r2.face_node_connectivity.values.tolist()
        lon2, lat2 = r2.node_lon.values, r2.node_lat.values
        for k, i2 in enumerate(rec2):
            pos = [(float(lon2[n]), float(lat2[n])) for n in rt2[k] if n != FILL]
            if pos != src.face_pos(rec1[i2]):
                ck.fail("corner_positions", dict(case, second_level=how), {"kind": "second_level:" + how})
                return
        e = r2.edge_node_connectivity.values.tolist()
        bad = c02.spec_check(rt2, e, r2.face_edge_connectivity.values.tolist(), r2.n_nodes_per_face.values.tolist(), int(r2.n_edge))
        if bad:
            ck.fail("derived_" + bad, dict(case, second_level=how), {"kind": "second_level:" + how})
            return
        out = {"edge_node": e, "node_face": r2.node_face_connectivity.values.tolist(),
               "edge_face": r2.edge_face_connectivity.values.tolist(), "face_face": r2.face_face_connectivity.values.tolist(),
               "holes": r2.hole_edge_indices.values.tolist(), "dtype": {"node_face": "intp", "edge_face": "intp", "face_face": "intp"}}
        bad = c03.spec_check(rt2, r2.n_node, out)
        if bad:
            ck.fail("derived_" + bad, dict(case, second_level=how), {"kind": "second_level:" + how})
            return
        ck.extra["second_level_selections"] = ck.extra.get("second_level_selections", 0) + 1
    except Exception as ex:
        ck.fail("selection_raises", dict(case, second_level=how), {"kind": "second_level:" + how}, detail=repr(ex))


def data_checks(ck, src, g, sel, case):
    """data sliced with the grid stay attached to the same physical faces / nodes / edges"""
    import uxarray as ux
    rng = ck.rng
    lead = rng.choice([(), (2,), (2, 3)])
    for dim, n in (("n_face", len(src.rows)), ("n_node", len(src.lon)), ("n_edge", len(src.edges))):
        if sel["kind"] == "lat" and dim != "n_face":
            continue
        base = np.arange(n, dtype=float)
        arr = np.zeros(lead + (n,))
        for ix in np.ndindex(*lead) if lead else [()]:
            arr[ix] = base + 1000.0 * (sum((i + 1) * (10 ** j) for j, i in enumerate(ix)) if ix else 0)
        dims = ["t", "lev"][:len(lead)] + [dim]
        da = ux.UxDataArray(arr, dims=dims, uxgrid=g, name="v")
        try:
            r = apply_selection_data(da, sel)
        except ValueError as ex:
            if not sel["exp"][1] and "No " in str(ex):
                continue
            ck.fail("data_raises", case, {"kind": sel["kind"], "dim": dim}, detail=repr(ex))
            continue
        except Exception as ex:
            ck.fail("data_raises", case, {"kind": sel["kind"], "dim": dim}, detail=repr(ex))
            continue
        if type(r).__name__ != "UxDataArray" or tuple(r.dims) != tuple(dims):
            ck.fail("data_dims", case, {"kind": sel["kind"], "dim": dim}, detail="%s %s" % (type(r).__name__, r.dims))
            continue
        rg = r.uxgrid
        bad = check_result(src, sel, rg, deep=False)
        if bad:
            ck.fail("data_grid_" + bad, case, {"kind": sel["kind"], "dim": dim})
            continue
        key = {"n_face": "subgrid_face_indices", "n_node": "subgrid_node_indices", "n_edge": "subgrid_edge_indices"}[dim]
        rec = rg._ds[key].values
        size = {"n_face": rg.n_face, "n_node": rg.n_node, "n_edge": rg.n_edge}[dim]
        if r.shape[-1] != size:
            ck.fail("data_length", case, {"kind": sel["kind"], "dim": dim}, detail="%s vs %d" % (r.shape, size))
            continue
        want = arr[..., rec]
        if not np.array_equal(np.asarray(r.values), want):
            ck.fail("data_alignment", case, {"kind": sel["kind"], "dim": dim},
                    detail=json.dumps({"got": np.asarray(r.values).tolist(), "want": want.tolist()})[:1500])
            continue
        if dim == "n_edge":
            # recorded edge indices must denote the same physical segments (needs the result's own edge table)
            try:
                e = rg.edge_node_connectivity.values.tolist()
                rlon, rlat = rg.node_lon.values, rg.node_lat.values
                for k, se in enumerate(rec):
                    a, b = src.edges[int(se)]
                    if frozenset((src.npos[a], src.npos[b])) != frozenset(((float(rlon[e[k][0]]), float(rlat[e[k][0]])),
                                                                          (float(rlon[e[k][1]]), float(rlat[e[k][1]])))):
                        ck.fail("data_edge_alignment", case, {"kind": sel["kind"], "dim": dim})
                        break
            except Exception as ex:
                ck.fail("data_raises", case, {"kind": sel["kind"], "dim": dim}, detail=repr(ex))


def canon_subset(r):
    """source node ids per face (node numbering of the result quotiented away)"""
    rec_n = [int(x) for x in r._ds["subgrid_node_indices"].values]
    return [[(rec_n[x] if x != FILL else FILL) for x in row] for row in r.face_node_connectivity.values.tolist()]


def main(ck):
    import numba
    ck.check_props()
    ok = ck.build_driver()
    rng = ck.rng
    n_mesh = 40 if ck.tier == "quick" else 500
    per_mesh = 6 if ck.tier == "quick" else 10
    kinds, hist_used, threads_used = {}, {}, {}
    lines_slice, keep_slice = [], []
    lines_lat, keep_lat = [], []
    lines_edges, keep_edges = [], []
    sup_count = 0
    max_threads = numba.config.NUMBA_NUM_THREADS
    for mi in range(n_mesh):
        m = meshgen.gen_mesh(rng, max_ops=rng.choice([4, 8, 14]), partial=rng.random() < 0.3)
        m.supplied_edges = supplied_edges_for(m, rng) if rng.random() < 0.3 else None
        sup_count += 1 if m.supplied_edges else 0
        try:
            src = Src(m)
        except Exception as ex:
            ck.fail("source_raises", {"mesh": m.name}, {}, detail=repr(ex))
            continue
        for si in range(per_mesh):
            sel = gen_selection(rng, src)
            if sel is None:
                continue
            hist = rng.sample(HIST, rng.choice([0, 0, 1, 3, len(HIST)]))
            nthreads = rng.choice([1, 2, 7, max_threads]) if sel["kind"] == "lat" else max_threads
            nthreads = max(1, min(nthreads, max_threads))
            case = {"mesh": {"nodes": m.nodes, "faces": m.faces, "supplied_edges": m.supplied_edges}, "selection": describe(sel),
                    "history": hist, "threads": nthreads}
            ck.note_case((m.faces, json.dumps(describe(sel), sort_keys=True, default=str), tuple(hist)), nontrivial=True)
            kinds[sel["kind"] + ":" + str(sel.get("style", sel.get("element", "")))] = kinds.get(sel["kind"] + ":" + str(sel.get("style", sel.get("element", ""))), 0) + 1
            hist_used[len(hist)] = hist_used.get(len(hist), 0) + 1
            g = mk_grid(m)
            try:
                for h in hist:
                    touch(g, h)
            except Exception as ex:
                ck.fail("history_raises", case, {"var": h}, detail=repr(ex))
                continue
            numba.set_num_threads(nthreads)
            threads_used[nthreads] = threads_used.get(nthreads, 0) + 1
            try:
                r = apply_selection(g, sel)
            except ValueError as ex:
                numba.set_num_threads(max_threads)
                if not sel["exp"][0] and ("No " in str(ex)):
                    continue                     # empty selection is refused: allowed
                ck.fail("selection_raises", case, {"kind": sel["kind"]}, detail=repr(ex))
                continue
            except Exception as ex:
                numba.set_num_threads(max_threads)
                ck.fail("selection_raises", case, {"kind": sel["kind"]}, detail=repr(ex))
                continue
            numba.set_num_threads(max_threads)
            # the edge table the subset carries over from the source, before anything is derived on it
            try:
                if "edge_node_connectivity" in r._ds and "subgrid_edge_indices" in r._ds and "subgrid_face_indices" in r._ds:
                    lines_edges.append(sx([src.table, g.edge_node_connectivity.values.tolist(), g.face_edge_connectivity.values.tolist(),
                                           [int(x) for x in r._ds["subgrid_face_indices"].values]]))
                    keep_edges.append((case, r._ds["edge_node_connectivity"].values.tolist(),
                                       [int(x) for x in r._ds["subgrid_edge_indices"].values]))
            except Exception:
                pass
            bad = check_result(src, sel, r)
            if bad:
                ck.fail(bad, case, {"kind": sel["kind"], "history": len(hist) > 0})
                continue
            # independence from history / thread count: same selection on the fresh source
            if hist or nthreads != max_threads:
                try:
                    r0 = apply_selection(src.g, sel)
                    if canon_subset(r0) != canon_subset(r) or \
                            r0._ds["subgrid_face_indices"].values.tolist() != r._ds["subgrid_face_indices"].values.tolist():
                        ck.fail("depends_on_history_or_threads", case, {"kind": sel["kind"]})
                except Exception as ex:
                    ck.fail("selection_raises", case, {"kind": sel["kind"], "fresh": True}, detail=repr(ex))
            data_checks(ck, src, g, sel, case)
            if rng.random() < 0.5:
                second_level(ck, src, r, case)
            # model inputs
            rec_f = [int(x) for x in r._ds["subgrid_face_indices"].values]
            lines_slice.append(sx([src.table, rec_f]))
            keep_slice.append((case, canon_subset(r), [int(x) for x in r._ds["subgrid_node_indices"].values]))
            if sel["kind"] == "lat":
                zc = Fraction(math.sin(math.radians(sel["lat"])))
                zs = [[Fraction(float(src.node_z[a])), Fraction(float(src.node_z[b]))] for a, b in src.edges]
                den = 1
                for p in zs:
                    for q in p:
                        den = max(den, q.denominator)
                den = max(den, zc.denominator)
                lines_lat.append(sx([[[int(q * den) for q in p] for p in zs], int(zc * den),
                                     [[(x if x != FILL else FILL) for x in row] for row in src.g.edge_face_connectivity.values.tolist()]]))
                keep_lat.append((case, sorted(rec_f)))
            if mi < 3 and si == 0:
                ck.sample({"mesh": m.name, "selection": describe(sel), "history": hist, "threads": nthreads,
                           "result_faces": rec_f[:10]})
    # ---- a large structured grid (> 4096 edges): the latitude scan under thread counts that do not divide n_edge ----
    big_done = 0
    for bi in range(1 if ck.tier == "quick" else 4):
        m = band_mesh(72 + 5 * bi, 30 + bi, -75.0 + bi, 75.0 - 2 * bi)
        # the source ships its edge table with the two meridional edges of one face LAST (any order is legitimate): a scan
        # that loses the tail of the table loses exactly that face when the parallel passes through it
        nlon_b, nlat_b = 72 + 5 * bi, 30 + bi
        jf, if_ = rng.randrange(2, nlat_b - 2), rng.randrange(nlon_b)
        tail_face = jf * nlon_b + if_
        fn = m.faces[tail_face]
        pairs = sorted({(min(a, b), max(a, b)) for f in m.faces for a, b in zip(f, f[1:] + f[:1])})
        tail = [(min(fn[1], fn[2]), max(fn[1], fn[2])), (min(fn[3], fn[0]), max(fn[3], fn[0]))]      # the two meridional edges
        pairs = [p_ for p_ in pairs if p_ not in tail] + tail
        m.supplied_edges = [list(p_) for p_ in pairs]
        try:
            src = Src(m)
        except Exception as ex:
            ck.fail("source_raises", {"mesh": m.name}, {}, detail=repr(ex))
            continue
        for nthreads in [1, 2, 3, 5, 7, 11, 13, max_threads]:
            nthreads = max(1, min(nthreads, max_threads))
            sel = None
            while sel is None or sel["kind"] != "lat":
                sel = gen_selection(rng, src, force_lat=(float(np.mean([src.lat[n] for n in fn])) if nthreads % 2 else None))
            case = {"mesh": {"band": [72 + 5 * bi, 30 + bi, -75.0 + bi, 75.0 - 2 * bi], "supplied_edges": m.supplied_edges},
                    "selection": describe(sel), "history": [], "threads": nthreads}
            ck.note_case((m.name, sel["lat"], nthreads), nontrivial=True)
            threads_used[nthreads] = threads_used.get(nthreads, 0) + 1
            g = mk_grid(m)
            numba.set_num_threads(nthreads)
            try:
                r = apply_selection(g, sel)
            except ValueError as ex:
                numba.set_num_threads(max_threads)
                if not sel["exp"][0] and ("No " in str(ex)):
                    continue
                ck.fail("selection_raises", case, {"kind": "lat", "big": True}, detail=repr(ex))
                continue
            except Exception as ex:
                numba.set_num_threads(max_threads)
                ck.fail("selection_raises", case, {"kind": "lat", "big": True}, detail=repr(ex))
                continue
            numba.set_num_threads(max_threads)
            bad = check_result(src, sel, r, deep=False)
            if bad:
                ck.fail(bad, case, {"kind": "lat", "history": False, "big": True, "threads": nthreads})
            big_done += 1
    ck.extra["large_grid_latitude_scans"] = big_done
    ck.extra["meshes_with_supplied_edge_table"] = sup_count
    if ok:
        mod = ck.run_model("c09_slice", lines_slice)
        for (case, canon, rec_n), mo in zip(keep_slice, mod):
            if isinstance(mo, list) and mo and mo[0] == "ERR":
                ck.corr_failures.append({"case": case["selection"], "model": mo})
                continue
            new_table, node_idx = mo[0], mo[1]
            mcanon = [[(node_idx[x] if x != FILL else FILL) for x in row] for row in new_table]
            if mcanon != canon:
                ck.corr_failures.append({"case": case["selection"], "impl": canon, "model": mcanon})
        mod = ck.run_model("c09_edges", lines_edges) if lines_edges else []
        for (case, carried, rec_e), mo in zip(keep_edges, mod):
            if isinstance(mo, list) and mo and mo[0] == "ERR":
                ck.corr_failures.append({"case": case["selection"], "model": mo})
                continue
            if [list(p) for p in mo[0]] != [list(p) for p in carried] or list(mo[1]) != rec_e:
                ck.corr_failures.append({"case": case["selection"], "level": "carried_edge_table",
                                         "impl": [carried[:8], rec_e[:8]], "model": [mo[0][:8], mo[1][:8]]})
        ck.extra["carried_edge_tables_compared"] = len(keep_edges)
        mod = ck.run_model("c09_lat", lines_lat)
        for (case, faces), mo in zip(keep_lat, mod):
            if sorted(mo) != faces:
                ck.corr_failures.append({"case": case["selection"], "impl_faces": faces, "model_faces": sorted(mo)})
    ck.cov["rule"] = ("generated sphere tilings (closed/partial) x selections: face/node/edge index sets (unsorted, scalar, single, all), "
                      "bounding boxes (35% antimeridian-spanning) / circles / kNN on nodes, edge centres, face centres with every reference "
                      "point >= 1e-6 deg from the region boundary, constant-latitude sections (random, equator, equal to a node latitude) "
                      "x random sets of derived variables materialised on the source before slicing x numba thread counts {1,2,7,max}; "
                      "each with face-, node- and edge-centred data of rank 1..3; distinct = distinct (mesh, selection, history)")
    ck.extra.update({"selection_kinds": kinds, "history_sizes": {str(k): v for k, v in sorted(hist_used.items())},
                     "thread_counts": {str(k): v for k, v in sorted(threads_used.items())},
                     "model_slices_compared": len(keep_slice), "model_lat_scans_compared": len(keep_lat)})
    ck.trusted += ["translator c09_efd.py (fail-closed ast walk of _slice_face_indices -> Gen/C09_efd_repo.v); that an edge is listed "
                   "once in the face_edge row of each face it bounds (so the bincount of the selected rows is the number of "
                   "selected faces of the edge) is checked on every case by the C02 clause checker",
                   "numpy unique/isel/vectorize semantics as modelled; the KD/ball tree queries are taken as an oracle-checked "
                   "component (C11 owns them); numba prange scheduler (exercised with 4 thread counts, algorithm proved schedule independent)"]
    ck.assumptions += ["index sets contain no duplicates; regions keep reference points >= 1e-6 deg from their boundary; for a "
                       "latitude equal to a node's latitude an edge ending at that node may or may not be reported (rounding of z)"]


def replay(ck, rp):
    case = rp["case"]
    ck.note_case("replay")
    ck.note_case(json.dumps(case, default=str))
    if "band" in case["mesh"]:
        m = band_mesh(*case["mesh"]["band"])
    else:
        m = meshgen.Mesh(case["mesh"]["nodes"], case["mesh"]["faces"])
    m.supplied_edges = case["mesh"].get("supplied_edges")
    src = Src(m)
    sd = case["selection"]
    sel = dict(sd)
    s = set(sd["expected_faces"])
    sel["exp"] = (s, s)
    sel["ordered"] = sd["idx"] if sd["kind"] == "face" and isinstance(sd.get("idx"), list) else None
    g = mk_grid(m)
    for h in case.get("history", []):
        touch(g, h)
    import numba
    mt = numba.config.NUMBA_NUM_THREADS
    try:
        numba.set_num_threads(max(1, min(int(case.get("threads", mt)), mt)))
        r = apply_selection(g, sel)
    except Exception as ex:
        numba.set_num_threads(mt)
        ck.fail("selection_raises", case, {"kind": sel["kind"]}, detail=repr(ex))
        return
    numba.set_num_threads(mt)
    bad = check_result(src, sel, r, deep="band" not in case["mesh"])
    if bad:
        ck.fail(bad, case, {"kind": sel["kind"]})
    data_checks(ck, src, g, sel, case)
