"""Per-property registration; tools/gen_manifest.py turns this into MANIFEST.json."""
CHECKS = {
    "C02": {
        "text": "Six Coq theorems (unbounded induction over the face list, no axioms) state that the model of "
                "_build_edge_node_connectivity/_build_face_edge_connectivity/_build_n_nodes_per_face yields exactly the "
                "consecutive corner pairs once each without padding, face_edge[f,j] = edge j->j+1, padding exactly where "
                "no corner, n_nodes_per_face = corner count, for every standard-form table. The model is tied to /repo by "
                "running model (extracted OCaml, kernel-audited sample) and implementation on the same generated tables "
                "every run, and the clauses are also evaluated directly on the implementation's output.",
        "design_ref": "DESIGN.md section 5 C02",
        "note": "Trusted: Coq kernel, ExtrOcamlBasic extraction + OCaml, numpy primitive semantics (unique/sort/searchsorted) "
                "as modelled, the Python harness. Euler's formula is validated on generated closed tilings, not proved.",
        "technique": "Coq proof (induction, Mergesort library) + model/implementation correspondence via extracted OCaml",
    },
}

NOT_YET = {}
