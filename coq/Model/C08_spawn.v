(* C08_spawn.v — worlds in which grids are also CREATED during the history: Grid.copy() (a deep copy of the grid's
   dataset: the new grid starts from the same stored variables) and isel / subset / cross_section / get_dual (a fresh
   grid).  New grids are appended, so existing indices keep their meaning.  Definitions only. *)
From Verif Require Export C08.

Inductive c08_wop :=
  | WOn (i : nat) (o : c08_op)     (* a read-only operation on grid i *)
  | WCopy (i : nat)                (* g_i.copy() *)
  | WNew.                          (* a grid derived from another one: starts with nothing materialised *)

Definition c08_wstep (w : c08_world) (x : c08_wop) : c08_world :=
  match x with
  | WOn i o => c08_world_step w (i, o)
  | WCopy i =>
      match nth_error (w_grids w) i with
      | Some s => {| w_grids := w_grids w ++ [s]; w_globals := w_globals w |}
      | None => w
      end
  | WNew => {| w_grids := w_grids w ++ [[]]; w_globals := w_globals w |}
  end.

Definition c08_wrun (w : c08_world) (ops : list c08_wop) : c08_world := fold_left c08_wstep ops w.

Definition c08_targets (j : nat) (x : c08_wop) : bool :=
  match x with WOn i _ => Nat.eqb i j | _ => false end.
