(* C19.v — points-to (heap) model of how a uxarray Grid is built, copied, mutated and exported.

   Cells mirror the Python objects that carry mutable state:
     C19Buf   a numpy buffer (ndarray data; the list is its flattened integer content,
              floats are carried as integer micro-degrees / tokens)
     C19Dict  an attrs dictionary (key -> scalar), keys and values are integer tokens
     C19Var   an xarray Variable object: pointer to its data buffer and to its attrs dict
     C19Ds    an xarray Dataset object: mapping name -> Variable object, pointer to global attrs
   Object identity = index in the heap (allocation appends).  A Grid is identified with the
   id of its `_ds`; an export with the id of the object it returns.

   Modelled code (uxarray):
     io/_topology.py   _process_connectivity, _read_topology
     grid/connectivity.py _replace_fill_values
     io/_ugrid.py      _read_ugrid (rename/swap_dims = new Dataset + new Variables sharing
                       buffers, attrs dicts copied), _standardize_connectivity, _encode_ugrid
     io/_mpas.py _exodus.py _scrip.py _esmf.py _geos.py _icon.py  (table driven: every output
                       variable either aliases an input buffer or is freshly computed)
     grid/grid.py      Grid.__init__ (adopts grid_ds, _set_desired_longitude_range), Grid.copy,
                       property setters / lazy derivation (`self._ds[name] = DataArray`),
                       normalize_cartesian_coordinates (`self.x.data = new`), to_xarray
   Definitions only. *)
From Verif Require Export Base.
From Verif Require Export C19_flags.

Inductive c19_cell : Type :=
| C19Buf (data : list Z)
| C19Dict (kv : list (Z * Z))
| C19Var (buf attrs : nat)
| C19Ds (vars : list (Z * nat)) (attrs : nat).

Definition c19_heap := list c19_cell.

Definition c19_get (h : c19_heap) (i : nat) : option c19_cell := nth_error h i.

Definition c19_alloc (h : c19_heap) (c : c19_cell) : c19_heap * nat := (h ++ [c], length h).

Fixpoint c19_upd (h : c19_heap) (i : nat) (c : c19_cell) : c19_heap :=
  match h, i with
  | [], _ => []
  | _ :: t, O => c :: t
  | x :: t, S j => x :: c19_upd t j c
  end.

(* ---- association lists (dict / Dataset variable mapping; insertion order kept) ---- *)
Fixpoint c19_find {A} (n : Z) (l : list (Z * A)) : option A :=
  match l with
  | [] => None
  | (k, v) :: t => if k =? n then Some v else c19_find n t
  end.

Fixpoint c19_set {A} (n : Z) (v : A) (l : list (Z * A)) : list (Z * A) :=
  match l with
  | [] => [(n, v)]
  | (k, w) :: t => if k =? n then (k, v) :: t else (k, w) :: c19_set n v t
  end.

Definition c19_del {A} (n : Z) (l : list (Z * A)) : list (Z * A) :=
  filter (fun kv => negb (fst kv =? n)) l.

(* ---- what a dataset root reaches, and what it reports ---- *)
Definition c19_reach_var (h : c19_heap) (v : nat) : list nat :=
  v :: match c19_get h v with Some (C19Var b a) => [b; a] | _ => [] end.

Definition c19_reach (h : c19_heap) (d : nat) : list nat :=
  d :: match c19_get h d with
       | Some (C19Ds vars a) => a :: flat_map (fun nv => c19_reach_var h (snd nv)) vars
       | _ => []
       end.

Definition c19_obs_var (h : c19_heap) (v : nat) : option (option c19_cell * option c19_cell) :=
  match c19_get h v with
  | Some (C19Var b a) => Some (c19_get h b, c19_get h a)
  | _ => None
  end.

(* the deep value of a dataset: names in order, each with its data and attrs; global attrs *)
Definition c19_obs (h : c19_heap) (d : nat)
  : option (list (Z * option (option c19_cell * option c19_cell)) * option c19_cell) :=
  match c19_get h d with
  | Some (C19Ds vars a) => Some (map (fun nv => (fst nv, c19_obs_var h (snd nv))) vars, c19_get h a)
  | _ => None
  end.

(* well-typed dataset root: every pointer leads to a cell of the expected kind *)
Definition c19_is_buf (h : c19_heap) (i : nat) : bool :=
  match c19_get h i with Some (C19Buf _) => true | _ => false end.
Definition c19_is_dict (h : c19_heap) (i : nat) : bool :=
  match c19_get h i with Some (C19Dict _) => true | _ => false end.
Definition c19_is_var (h : c19_heap) (i : nat) : bool :=
  match c19_get h i with
  | Some (C19Var b a) => c19_is_buf h b && c19_is_dict h a
  | _ => false
  end.
Definition c19_wt (h : c19_heap) (d : nat) : bool :=
  match c19_get h d with
  | Some (C19Ds vars a) => c19_is_dict h a && forallb (fun nv => c19_is_var h (snd nv)) vars
  | _ => false
  end.

(* ---- mutators reachable through the public API, applied to the dataset root d ---- *)
Inductive c19_op : Type :=
| C19SetVar (name : Z) (data : list Z) (attrs : list (Z * Z))
    (* self._ds[name] = xr.DataArray(data, attrs): property setters, lazy derivation,
       construct_face_centers, chunk; on an export: out[name] = ... *)
| C19SetData (name : Z) (data : list Z)
    (* self.<name>.data = new_array: normalize_cartesian_coordinates, longitude range *)
| C19WriteBuf (name : Z) (data : list Z)
    (* in-place numpy write into the variable's buffer: out[name].values[...] = ... *)
| C19SetAttr (name : Z) (k v : Z)
    (* <name>.attrs[k] = v ; name = -1 : the global attrs *)
| C19DelVar (name : Z).
    (* del out[name] *)

Definition c19_apply (h : c19_heap) (d : nat) (o : c19_op) : c19_heap :=
  match c19_get h d with
  | Some (C19Ds vars a) =>
      match o with
      | C19SetVar n data at' =>
          let '(h1, b) := c19_alloc h (C19Buf data) in
          let '(h2, da) := c19_alloc h1 (C19Dict at') in
          let '(h3, v) := c19_alloc h2 (C19Var b da) in
          c19_upd h3 d (C19Ds (c19_set n v vars) a)
      | C19SetData n data =>
          match c19_find n vars with
          | Some v =>
              match c19_get h v with
              | Some (C19Var b va) =>
                  let '(h1, nb) := c19_alloc h (C19Buf data) in
                  c19_upd h1 v (C19Var nb va)
              | _ => h
              end
          | None => h
          end
      | C19WriteBuf n data =>
          match c19_find n vars with
          | Some v =>
              match c19_get h v with
              | Some (C19Var b va) => c19_upd h b (C19Buf data)
              | _ => h
              end
          | None => h
          end
      | C19SetAttr n k x =>
          if n =? -1 then
            match c19_get h a with
            | Some (C19Dict kv) => c19_upd h a (C19Dict (c19_set k x kv))
            | _ => h
            end
          else
            match c19_find n vars with
            | Some v =>
                match c19_get h v with
                | Some (C19Var b va) =>
                    match c19_get h va with
                    | Some (C19Dict kv) => c19_upd h va (C19Dict (c19_set k x kv))
                    | _ => h
                    end
                | _ => h
                end
            | None => h
            end
      | C19DelVar n => c19_upd h d (C19Ds (c19_del n vars) a)
      end
  | _ => h
  end.

Definition c19_run (h : c19_heap) (d : nat) (ops : list c19_op) : c19_heap :=
  fold_left (fun hh o => c19_apply hh d o) ops h.

(* ---- copies ---- *)

(* copy of one Variable with fresh buffer and fresh attrs dict *)
Definition c19_deepcopy_var (h : c19_heap) (v : nat) : c19_heap * nat :=
  match c19_get h v with
  | Some (C19Var b a) =>
      let bc := match c19_get h b with Some c => c | None => C19Buf [] end in
      let ac := match c19_get h a with Some c => c | None => C19Dict [] end in
      let '(h1, nb) := c19_alloc h bc in
      let '(h2, na) := c19_alloc h1 ac in
      c19_alloc h2 (C19Var nb na)
  | _ => c19_alloc h (C19Var 0 0)
  end.

Fixpoint c19_deepcopy_vars (h : c19_heap) (vars : list (Z * nat)) : c19_heap * list (Z * nat) :=
  match vars with
  | [] => (h, [])
  | (n, v) :: t =>
      let '(h1, nv) := c19_deepcopy_var h v in
      let '(h2, t') := c19_deepcopy_vars h1 t in
      (h2, (n, nv) :: t')
  end.

(* Dataset.copy(deep=True) *)
Definition c19_deepcopy (h : c19_heap) (d : nat) : c19_heap * nat :=
  match c19_get h d with
  | Some (C19Ds vars a) =>
      let ac := match c19_get h a with Some c => c | None => C19Dict [] end in
      let '(h1, na) := c19_alloc h ac in
      let '(h2, vars') := c19_deepcopy_vars h1 vars in
      c19_alloc h2 (C19Ds vars' na)
  | _ => c19_alloc h (C19Ds [] 0)
  end.

(* Grid.copy(): Grid(self._ds.copy(deep=True), ...).  (Grid.__init__ then takes one more shallow
   copy of that fresh dataset and runs the longitude pass, which finds nothing to do on a grid
   whose longitudes are already in range: observationally the deep copy itself.) *)
Definition c19_copy (h : c19_heap) (d : nat) : c19_heap * nat := c19_deepcopy h d.

(* ---- _replace_fill_values / _process_connectivity (values are modelled concretely) ---- *)
Definition c19_replace_fill (x : list Z) (orig : Z) : list Z :=
  map (fun v => if v =? orig then FILL else v) x.
Definition c19_sub_start (x : list Z) (si : Z) : list Z :=
  map (fun v => if v =? FILL then v else v - si) x.
Definition c19_std_conn (x : list Z) (orig : Z) (si : Z) : list Z :=
  c19_sub_start (c19_replace_fill x orig) si.

Definition c19_buf_data (h : c19_heap) (i : nat) : list Z :=
  match c19_get h i with Some (C19Buf x) => x | _ => [] end.

(* fv = None  : no fill value given.  dtype_std: the array already has dtype INT_DTYPE.
   The function starts with conn = np.array(conn, copy=True): everything below works on that copy. *)
Definition c19_process_connectivity (h : c19_heap) (conn : nat) (dtype_std : bool)
           (fv : option Z) (si : Z) : c19_heap * nat :=
  let x := c19_buf_data h conn in
  match fv with
  | None => c19_alloc h (C19Buf (map (fun v => v - si) x))
  | Some o => if o =? FILL then c19_alloc h (C19Buf (c19_sub_start x si))
              else c19_alloc h (C19Buf (c19_std_conn x o si))
  end.

(* the same helper WITHOUT the protective copy (what it was before commit 75630b91, and what a
   regression would be): in place whenever a fill value is given and no astype copy happens *)
Definition c19_process_connectivity_nocopy (h : c19_heap) (conn : nat) (dtype_std : bool)
           (fv : option Z) (si : Z) : c19_heap * nat :=
  let x := c19_buf_data h conn in
  match fv with
  | None => c19_alloc h (C19Buf (map (fun v => v - si) x))
  | Some o =>
      if o =? FILL then
        (c19_upd h conn (C19Buf (c19_sub_start x si)), conn)
      else if dtype_std then
        (c19_upd h conn (C19Buf (c19_std_conn x o si)), conn)
      else
        c19_alloc h (C19Buf (c19_std_conn x o si))
  end.

(* ---- generic construction of a Dataset from sources ----
   every output variable either wraps an existing buffer (xr.DataArray(data=ndarray) does not
   copy) or a freshly computed one; attrs are always a fresh dict (xarray copies attrs). *)
Inductive c19_src : Type :=
| C19Alias (buf : nat)                 (* data = the caller's / input dataset's buffer itself *)
| C19Fresh (data : list Z).            (* data computed into a new array *)

Definition c19_add_var (h : c19_heap) (s : c19_src) (at' : list (Z * Z)) : c19_heap * nat :=
  let '(h1, b) := match s with
                  | C19Alias b => (h, b)
                  | C19Fresh data => c19_alloc h (C19Buf data)
                  end in
  let '(h2, a) := c19_alloc h1 (C19Dict at') in
  c19_alloc h2 (C19Var b a).

Fixpoint c19_add_vars (h : c19_heap) (l : list (Z * c19_src * list (Z * Z)))
  : c19_heap * list (Z * nat) :=
  match l with
  | [] => (h, [])
  | (n, s, at') :: t =>
      let '(h1, v) := c19_add_var h s at' in
      let '(h2, t') := c19_add_vars h1 t in
      (h2, (n, v) :: t')
  end.

(* new Dataset with the given variables and a fresh global attrs dict *)
Definition c19_new_ds (h : c19_heap) (l : list (Z * c19_src * list (Z * Z))) (gattrs : list (Z * Z))
  : c19_heap * nat :=
  let '(h1, vars) := c19_add_vars h l in
  let '(h2, a) := c19_alloc h1 (C19Dict gattrs) in
  c19_alloc h2 (C19Ds vars a).

(* ---- Grid.__init__: self._ds = grid_ds.copy() ; _set_desired_longitude_range ---- *)
(* longitudes are integer micro-degrees *)
Definition c19_wrap_lon (x : list Z) : list Z :=
  map (fun v => (v + 180000000) mod 360000000 - 180000000) x.
Definition c19_lon_over (x : list Z) : bool := existsb (fun v => 180000000 <? v) x.

(* names (tokens) of the three longitude variables *)
Definition c19_NODE_LON : Z := 1.
Definition c19_EDGE_LON : Z := 2.
Definition c19_FACE_LON : Z := 3.

Definition c19_fix_lon (h : c19_heap) (d : nat) (name : Z) : c19_heap :=
  match c19_get h d with
  | Some (C19Ds vars a) =>
      match c19_find name vars with
      | Some v =>
          match c19_get h v with
          | Some (C19Var b va) =>
              let x := c19_buf_data h b in
              if c19_lon_over x then c19_apply h d (C19SetData name (c19_wrap_lon x)) else h
          | _ => h
          end
      | None => h
      end
  | _ => h
  end.

(* Dataset.copy(deep=False) / rename / swap_dims: a new Dataset object whose Variables are new
   objects sharing the buffers, with copied attrs dicts *)
Definition c19_shallow_var (h : c19_heap) (v : nat) : c19_heap * nat :=
  match c19_get h v with
  | Some (C19Var b a) =>
      let ac := match c19_get h a with Some c => c | None => C19Dict [] end in
      let '(h1, na) := c19_alloc h ac in
      c19_alloc h1 (C19Var b na)
  | _ => c19_alloc h (C19Dict [])      (* not a Variable: nothing to share *)
  end.

Fixpoint c19_shallow_vars (h : c19_heap) (vars : list (Z * nat)) : c19_heap * list (Z * nat) :=
  match vars with
  | [] => (h, [])
  | (n, v) :: t =>
      let '(h1, nv) := c19_shallow_var h v in
      let '(h2, t') := c19_shallow_vars h1 t in
      (h2, (n, nv) :: t')
  end.

Definition c19_rename_ds (h : c19_heap) (d : nat) : c19_heap * nat :=
  let '(vars, ac) := match c19_get h d with
                     | Some (C19Ds vars a) =>
                         (vars, match c19_get h a with Some c => c | None => C19Dict [] end)
                     | _ => ([], C19Dict [])
                     end in
  let '(h1, na) := c19_alloc h ac in
  let '(h2, vars') := c19_shallow_vars h1 vars in
  c19_alloc h2 (C19Ds vars' na).

(* Grid(grid_ds): own shallow copy of the dataset (own container, own Variable objects and attrs
   dicts, arrays shared until replaced), then the longitude range pass on that copy *)
Definition c19_grid_init (h : c19_heap) (d : nat) : c19_heap * nat :=
  let '(h1, d1) := c19_rename_ds h d in
  (c19_fix_lon (c19_fix_lon (c19_fix_lon h1 d1 c19_NODE_LON) d1 c19_EDGE_LON) d1 c19_FACE_LON, d1).

(* ---- Grid.from_topology ---- *)
Definition c19_FNC : Z := 10.
Definition c19_NODE_LAT : Z := 4.

(* container kind of an argument: an ndarray is wrapped by xr.DataArray without copying, a
   list / tuple is converted into a new array *)
Definition c19_wrap_input (h : c19_heap) (is_array : bool) (b : nat) : c19_src :=
  if is_array then C19Alias b else C19Fresh (c19_buf_data h b).

(* conns = connectivity arguments (face_node_connectivity first, then kwargs), each processed by
   _process_connectivity; coords = coordinate arguments (node_lon, node_lat, kwargs) with their
   container kind *)
Fixpoint c19_process_all (h : c19_heap) (l : list (Z * nat)) (dtype_std : bool)
         (fv : option Z) (si : Z) : c19_heap * list (Z * c19_src * list (Z * Z)) :=
  match l with
  | [] => (h, [])
  | (n, b) :: t =>
      let '(h1, r) := c19_process_connectivity h b dtype_std fv si in
      let '(h2, t') := c19_process_all h1 t dtype_std fv si in
      (h2, (n, C19Alias r, [(0, 0)]) :: t')
  end.

(* conn_is_array = false: np.array(list) is built, so lists work for the connectivity as well *)
Definition c19_from_topology (h : c19_heap) (coords : list (Z * (bool * nat)))
           (conns : list (Z * nat)) (dtype_std : bool) (fv : option Z) (si : Z)
  : c19_heap * nat :=
  let cvars := map (fun nb => (fst nb, c19_wrap_input h (fst (snd nb)) (snd (snd nb)), [(0, 0)])) coords in
  let '(h1, cv) := c19_process_all h conns dtype_std fv si in
  let '(h2, d) := c19_new_ds h1 (cvars ++ cv) [] in
  c19_grid_init h2 d.

(* ---- Grid.from_dataset, UGRID: _read_ugrid ---- *)
Definition c19_K_FILLVALUE : Z := 100.
Definition c19_K_START : Z := 101.

(* int64 wrap-around of numpy arithmetic *)
Definition c19_wrap64 (z : Z) : Z := (z + 9223372036854775808) mod 18446744073709551616 - 9223372036854775808.

(* new_conn[real_mask].min(): over the real entries; no shift when there is none *)
Definition c19_min_real (x : list Z) : Z :=
  match filter (fun v => negb (v =? FILL)) x with
  | [] => 0
  | v :: t => fold_left Z.min t v
  end.

Definition c19_sub_start_wrap (x : list Z) (si : Z) : list Z :=
  map (fun v => if v =? FILL then v else c19_wrap64 (v - si)) x.

(* _standardize_connectivity on variable `name` of the (renamed) dataset d.
   "_FillValue" / "start_index" are looked up in the variable's attrs.
   conn = ds[name].values.copy(): fill replacement and start-index subtraction work on that copy,
   ds[name].data = new_conn attaches it, the attrs are updated. *)
Definition c19_standardize (h : c19_heap) (d : nat) (name : Z) (dtype_std : bool) : c19_heap :=
  match c19_get h d with
  | Some (C19Ds vars a) =>
      match c19_find name vars with
      | Some v =>
          match c19_get h v with
          | Some (C19Var b va) =>
              let kv := match c19_get h va with Some (C19Dict kv) => kv | _ => [] end in
              let ofv := c19_find c19_K_FILLVALUE kv in
              let x := c19_buf_data h b in
              let x1 := match ofv with Some o => c19_replace_fill x o | None => x end in
              let si := match c19_find c19_K_START kv with
                        | Some s => s
                        | None => c19_min_real x1
                        end in
              let x2 := c19_sub_start_wrap x1 si in
              let h1 := c19_apply h d (C19SetData name x2) in
              let h2 := c19_apply h1 d (C19SetAttr name c19_K_FILLVALUE FILL) in
              c19_apply h2 d (C19SetAttr name c19_K_START 0)
          | _ => h
          end
      | None => h
      end
  | _ => h
  end.

Definition c19_read_ugrid (h : c19_heap) (d : nat) (conn_names : list Z) (dtype_std : bool)
  : c19_heap * nat :=
  let '(h1, d1) := c19_rename_ds h d in
  let h2 := fold_left (fun hh n => c19_standardize hh d1 n dtype_std) conn_names h1 in
  c19_grid_init h2 d1.

(* ---- table-driven readers (MPAS, Exodus, SCRIP, ESMF, GEOS-CS, ICON) ----
   table: output variable name, and Some input-variable-name when the output wraps the
   input's buffer (or a view of it) without copying, None when it is freshly computed. *)
(* entry = (output name, (wraps the source buffer?, (source input variable, guard input variable)));
   the output is produced iff the guard variable is present in the input dataset *)
Definition c19_reader_table := list (Z * (bool * (Z * Z))).

Definition c19_var_buf (h : c19_heap) (d : nat) (name : Z) : option nat :=
  match c19_get h d with
  | Some (C19Ds vars a) =>
      match c19_find name vars with
      | Some v => match c19_get h v with Some (C19Var b _) => Some b | _ => None end
      | None => None
      end
  | _ => None
  end.

Definition c19_table_sources (h : c19_heap) (d : nat) (t : c19_reader_table)
  : list (Z * c19_src * list (Z * Z)) :=
  flat_map (fun e : Z * (bool * (Z * Z)) =>
     let out := fst e in
     let alias := fst (snd e) in
     let src := fst (snd (snd e)) in
     let guard := snd (snd (snd e)) in
     match c19_var_buf h d guard with
     | None => []
     | Some _ =>
         [(out, match (if alias then c19_var_buf h d src else None) with
                | Some b => C19Alias b
                | None => C19Fresh [out]
                end, [(0, 0)])]
     end) t.

Definition c19_ds_gattrs (h : c19_heap) (d : nat) : list (Z * Z) :=
  match c19_get h d with
  | Some (C19Ds _ a) => match c19_get h a with Some (C19Dict kv) => kv | _ => [] end
  | _ => []
  end.

(* _set_desired_longitude_range decided by a flag: the reader outputs may be strided views of
   the input buffers, so the condition max > 180 is evaluated by the caller on the numeric data *)
Definition c19_grid_init_flags (h : c19_heap) (d : nat) (over : list Z) : c19_heap * nat :=
  let '(h1, d1) := c19_rename_ds h d in
  (fold_left (fun hh n => c19_apply hh d1 (C19SetData n [n])) over h1, d1).

(* copy_gattrs: MPAS `out_ds.attrs = in_ds.attrs` (the Dataset.attrs setter stores dict(value)) *)
Definition c19_read_table (h : c19_heap) (d : nat) (t : c19_reader_table) (copy_gattrs : bool)
           (over : list Z) : c19_heap * nat :=
  let '(h1, d1) := c19_new_ds h (c19_table_sources h d t)
                              (if copy_gattrs then c19_ds_gattrs h d else []) in
  c19_grid_init_flags h1 d1 over.

(* ---- the reader tables, transcribed from uxarray/io/_*.py ----
   grid variable tokens: node_lon 1 edge_lon 2 face_lon 3 node_lat 4 edge_lat 5 face_lat 6
   node_x 7 node_y 8 node_z 9 face_node_connectivity 10 edge_x 11 edge_y 12 edge_z 13 face_x 14
   face_y 15 face_z 16 face_edge 17 face_face 18 edge_node 19 edge_face 20 node_edge 21
   node_face 22 face_areas 23 n_nodes_per_face 24 edge_face_distances 25 edge_node_distances 26 *)
Definition c19_al (out src : Z) : Z * (bool * (Z * Z)) := (out, (true, (src, src))).
Definition c19_fr (out guard : Z) : Z * (bool * (Z * Z)) := (out, (false, (guard, guard))).

(* MPAS primal (_primal_to_ugrid): input tokens lonVertex 201 latVertex 202 xVertex 203 yVertex 204
   zVertex 205 lonCell 206 latCell 207 xCell 208 yCell 209 zCell 210 lonEdge 211 latEdge 212
   xEdge 213 yEdge 214 zEdge 215 verticesOnCell 216 nEdgesOnCell 217 cellsOnVertex 218
   verticesOnEdge 219 edgesOnCell 220 cellsOnEdge 221 dvEdge 222 dcEdge 223 cellsOnCell 224
   areaCell 225 edgesOnVertex 226 areaTriangle 227 *)
Definition c19_table_mpas_primal : c19_reader_table :=
  [c19_fr 1 201; c19_fr 4 201;                      (* np.rad2deg(...) *)
   c19_al 7 203; (8, (true, (204, 203))); (9, (true, (205, 203)));   (* in_ds["xVertex"].values *)
   c19_fr 3 206; c19_fr 6 206;
   c19_al 14 208; (15, (true, (209, 208))); (16, (true, (210, 208)));
   c19_fr 2 211; c19_fr 5 211;
   c19_al 11 213; (12, (true, (214, 213))); (13, (true, (215, 213)));
   c19_fr 10 216; c19_fr 22 216;                    (* np.array(..., dtype=INT_DTYPE) copies *)
   c19_fr 19 219; c19_fr 17 220; c19_fr 20 221;
   c19_al 26 222; c19_al 25 223;                    (* dvEdge / dcEdge .values *)
   c19_fr 18 224; c19_al 23 225].                   (* areaCell .data *)

Definition c19_table_mpas_dual : c19_reader_table :=
  [c19_fr 1 206; c19_fr 4 206;
   c19_al 7 208; (8, (true, (209, 208))); (9, (true, (210, 208)));
   c19_fr 3 201; c19_fr 6 201;
   c19_al 14 203; (15, (true, (204, 203))); (16, (true, (205, 203)));
   c19_fr 2 211; c19_fr 5 211;
   c19_al 11 213; (12, (true, (214, 213))); (13, (true, (215, 213)));
   c19_fr 10 216; c19_fr 22 216;
   c19_fr 19 221; c19_fr 17 226; c19_fr 20 219;
   c19_al 26 222; c19_al 25 223; c19_al 23 227].

(* Exodus: coord 230 coordx 231 coordy 232 coordz 233 connect1 234 (DataArrays passed as data wrap
   the input's buffer) *)
Definition c19_table_exodus : c19_reader_table :=
  [c19_al 7 230; c19_al 8 230; c19_al 9 230;
   c19_al 7 231; c19_al 8 232; c19_al 9 233;
   c19_fr 10 234; c19_fr 1 234; c19_fr 4 234].

(* SCRIP: grid_corner_lon 240 grid_corner_lat 241 grid_center_lon 242 grid_center_lat 243 grid_area 244 *)
Definition c19_table_scrip : c19_reader_table :=
  [c19_fr 1 240; c19_fr 4 240; c19_al 3 242; c19_al 6 243; c19_fr 10 240;
   c19_fr 23 244].                                   (* face_areas = grid_area.values.copy() *)

(* ESMF: nodeCoords 250 centerCoords 251 elementConn 252 numElementConn 253 elementArea 254
   (isel(...).values are views; face_areas = elementArea.values.copy() when the source has it) *)
Definition c19_table_esmf : c19_reader_table :=
  [c19_al 1 250; c19_al 4 250; c19_al 3 251; c19_al 6 251; c19_fr 23 254; c19_fr 24 253; c19_fr 10 252].

(* GEOS-CS: corner_lons 260 corner_lats 261 lons 262 lats 263 (ravel of a contiguous array is a view) *)
Definition c19_table_geos : c19_reader_table :=
  [c19_al 1 260; c19_al 4 261; c19_al 3 262; (6, (true, (263, 262))); c19_fr 10 260].

(* ICON: vlon 270 vlat 271 elon 272 elat 273 clon 274 clat 275 vertex_of_cell 276 edge_of_cell 277
   neighbor_cell_index 278 adjacent_cell_of_edge 279 edge_vertices 280: everything is computed *)
Definition c19_table_icon : c19_reader_table :=
  [c19_fr 1 270; c19_fr 4 271; c19_fr 2 272; c19_fr 5 273; c19_fr 3 274; c19_fr 6 275;
   c19_fr 10 276; c19_fr 17 277; c19_fr 18 278; c19_fr 20 279; c19_fr 19 280].

(* from_face_vertices: np.unique builds new arrays; vertices 290 *)
Definition c19_table_vertices : c19_reader_table := [c19_fr 1 290; c19_fr 4 290; c19_fr 10 290].

(* export tables over the grid's own dataset: to_xarray("exodus") builds everything anew,
   to_xarray("scrip") copies the face areas into grid_area (244) *)
Definition c19_table_export_exodus : c19_reader_table := [c19_fr 230 10; c19_fr 234 10].
Definition c19_table_export_scrip : c19_reader_table :=
  [c19_fr 240 10; c19_fr 241 10; c19_fr 244 23; c19_fr 242 10; c19_fr 243 10; c19_fr 245 10].

Definition c19_table_of (fmt : Z) : c19_reader_table :=
  if fmt =? 1 then c19_table_mpas_primal else if fmt =? 2 then c19_table_mpas_dual
  else if fmt =? 3 then c19_table_exodus else if fmt =? 4 then c19_table_scrip
  else if fmt =? 5 then c19_table_esmf else if fmt =? 6 then c19_table_geos
  else if fmt =? 7 then c19_table_icon else if fmt =? 8 then c19_table_vertices
  else if fmt =? 9 then c19_table_export_exodus else if fmt =? 10 then c19_table_export_scrip
  else [].

(* ---- exports ---- *)
Definition c19_GRID_TOPOLOGY : Z := 50.

(* to_xarray("ugrid") / encode_as("UGRID"): _encode_ugrid(self._ds.copy(deep=True)) — on the deep
   copy an existing grid_topology is dropped and the new one assigned; the result is returned.
   (drop_vars returns one more Dataset object around the copy's variables; the model keeps the
   copy's root.) *)
Definition c19_to_xarray_ugrid (h : c19_heap) (d : nat) : c19_heap * nat :=
  let '(h1, d1) := c19_deepcopy h d in
  (c19_apply (c19_apply h1 d1 (C19DelVar c19_GRID_TOPOLOGY)) d1 (C19SetVar c19_GRID_TOPOLOGY [-1] [(0, 0)]), d1).

(* exports that build a new Dataset from a table (exodus: everything fresh; scrip: grid_area
   wraps the face_areas buffer) *)
Definition c19_to_xarray_table (h : c19_heap) (d : nat) (t : c19_reader_table) : c19_heap * nat :=
  c19_new_ds h (c19_table_sources h d t) [].

(* geometry exports: the Grid keeps a cache slot holding an object id; the call returns either
   that very object or a deep copy of it *)
Definition c19_export_geo (deep : bool) (h : c19_heap) (cached : nat) : c19_heap * nat :=
  if deep then c19_alloc h (match c19_get h cached with Some c => c | None => C19Buf [] end)
  else (h, cached).

(* ---- alias table computed from a heap: which grid variables wrap which input buffers ---- *)
Definition c19_mem_nat (i : nat) (l : list nat) : bool := existsb (Nat.eqb i) l.

Definition c19_ds_bufs (h : c19_heap) (d : nat) : list (Z * nat) :=
  match c19_get h d with
  | Some (C19Ds vars a) =>
      flat_map (fun nv => match c19_get h (snd nv) with
                          | Some (C19Var b _) => [(fst nv, b)]
                          | _ => []
                          end) vars
  | _ => []
  end.

(* pairs (grid variable, input name) whose buffers coincide *)
Definition c19_alias_table (h : c19_heap) (g : nat) (inputs : list (Z * nat)) : list (Z * Z) :=
  flat_map (fun gb => flat_map (fun ib => if Nat.eqb (snd gb) (snd ib) then [(fst gb, fst ib)] else [])
                               inputs) (c19_ds_bufs h g).

(* which input cells differ between two heaps *)
Definition c19_cell_eqb (a b : option c19_cell) : bool :=
  match a, b with
  | Some (C19Buf x), Some (C19Buf y) => (length x =? length y)%nat && forallb (fun p => fst p =? snd p) (combine x y)
  | Some (C19Dict x), Some (C19Dict y) =>
      (length x =? length y)%nat && forallb (fun p => (fst (fst p) =? fst (snd p)) && (snd (fst p) =? snd (snd p))) (combine x y)
  | Some (C19Var b a), Some (C19Var b' a') => Nat.eqb b b' && Nat.eqb a a'
  | Some (C19Ds v a), Some (C19Ds v' a') =>
      (length v =? length v')%nat && Nat.eqb a a' &&
      forallb (fun p => (fst (fst p) =? fst (snd p)) && Nat.eqb (snd (fst p)) (snd (snd p))) (combine v v')
  | None, None => true
  | _, _ => false
  end.

Definition c19_modified (h h' : c19_heap) (ids : list (Z * nat)) : list Z :=
  flat_map (fun ni => if c19_cell_eqb (c19_get h (snd ni)) (c19_get h' (snd ni)) then [] else [fst ni]) ids.

(* ---- the Grid object itself: its dataset and its mutable helper containers ----
   (_gdf_cached_parameters, _poly_collection_cached_parameters, _line_collection_cached_parameters,
   the ball-tree and kd-tree slots), each a heap cell *)
Record c19_grid := { g_ds : nat; g_aux : list nat }.

Fixpoint c19_alloc_many (h : c19_heap) (cs : list c19_cell) : c19_heap * list nat :=
  match cs with
  | [] => (h, [])
  | c :: t => let '(h1, i) := c19_alloc h c in
              let '(h2, l) := c19_alloc_many h1 t in (h2, i :: l)
  end.

(* Grid.copy(): Grid(self._ds.copy(deep=True), ...) — the constructor creates new, empty containers *)
Definition c19_grid_copy (h : c19_heap) (g : c19_grid) : c19_heap * c19_grid :=
  let '(h1, d1) := c19_copy h (g_ds g) in
  let '(h2, aux) := c19_alloc_many h1 (map (fun _ => C19Dict []) (g_aux g)) in
  (h2, {| g_ds := d1; g_aux := aux |}).

(* variant: copy.copy(self) with a deep-copied _ds — the containers are the very same objects *)
Definition c19_grid_copy_shallow (h : c19_heap) (g : c19_grid) : c19_heap * c19_grid :=
  let '(h1, d1) := c19_copy h (g_ds g) in (h1, {| g_ds := d1; g_aux := g_aux g |}).

(* ---- sessions: objects with identities, operations, ownership ----
   A world is the heap plus the list of dataset roots that are alive: the `_ds` of every Grid made so
   far and every dataset handed to the caller by to_xarray("ugrid").  Operations: copy the k-th root
   (Grid.copy), export it (to_xarray), or apply one mutator through it — a public Grid mutator for a
   grid, any edit at all (in-place writes included) for a dataset the caller owns.
   The flags say whether copy / export go through a deep copy (regenerated from the source). *)
Record c19_sflags := { fl_copy_deep : bool; fl_export_deep : bool }.

Definition c19_sflags_current : c19_sflags :=
  {| fl_copy_deep := c19_f_copy_deep; fl_export_deep := c19_f_export_deep |}.

Inductive c19_sop : Type :=
| C19SCopy (k : nat)
| C19SExport (k : nat)
| C19SOp (k : nat) (o : c19_op).

Definition c19_world := (c19_heap * list nat)%type.

Definition c19_sstep (fl : c19_sflags) (w : c19_world) (s : c19_sop) : c19_world :=
  let '(h, roots) := w in
  match s with
  | C19SCopy k =>
      match nth_error roots k with
      | Some r => if fl_copy_deep fl then let '(h', r') := c19_deepcopy h r in (h', roots ++ [r'])
                  else (h, roots ++ [r])
      | None => w
      end
  | C19SExport k =>
      match nth_error roots k with
      | Some r =>
          let '(h1, r1) := if fl_export_deep fl then c19_deepcopy h r else (h, r) in
          (c19_apply (c19_apply h1 r1 (C19DelVar c19_GRID_TOPOLOGY)) r1 (C19SetVar c19_GRID_TOPOLOGY [-1] [(0, 0)]),
           roots ++ [r1])
      | None => w
      end
  | C19SOp k o =>
      match nth_error roots k with
      | Some r => (c19_apply h r o, roots)
      | None => w
      end
  end.

Definition c19_srun (fl : c19_sflags) (w : c19_world) (l : list c19_sop) : c19_world :=
  fold_left (c19_sstep fl) l w.

(* which roots report something else after a step than before (for the correspondence run) *)
Definition c19_obs_eqb (h h' : c19_heap) (r : nat) : bool :=
  match c19_obs h r, c19_obs h' r with
  | Some (vs, a), Some (vs', a') =>
      c19_cell_eqb a a' && (length vs =? length vs')%nat &&
      forallb (fun p => (fst (fst p) =? fst (snd p)) &&
                        match snd (fst p), snd (snd p) with
                        | Some (b, at'), Some (b', at'') => c19_cell_eqb b b' && c19_cell_eqb at' at''
                        | None, None => true
                        | _, _ => false
                        end) (combine vs vs')
  | None, None => true
  | _, _ => false
  end.

Definition c19_changed_roots (w w' : c19_world) : list nat :=
  flat_map (fun p => if c19_obs_eqb (fst w) (fst w') (snd p) then [] else [fst p])
           (combine (seq 0 (length (snd w))) (snd w)).
