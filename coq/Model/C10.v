(* C10.v — model of how a UxDataArray travels through xarray operations.
   A value is abstracted to (is it a UxDataArray?, which grid object is attached, dims with lengths).
   The five hooks of uxarray/core/dataarray.py are modelled as coded; which hook produces the final
   object of an xarray operation is a parameter (measured every run: Gen/C10_route.v).
   uxarray's own operations are modelled from their source. Definitions only. *)
From Coq Require Import String.
From Verif Require Export Base.

Inductive c10_hook :=
  | HReplace           (* UxDataArray._replace: re-attaches self.uxgrid *)
  | HCopyShallow       (* _copy(deep=False): same grid object *)
  | HCopyDeep          (* _copy(deep=True): self.uxgrid.copy() *)
  | HConstructDirect   (* _construct_direct: cls(DataArray...) without uxgrid *)
  | HInit              (* plain UxDataArray(...) construction without uxgrid *)
  | HPlain             (* xarray built the result with the plain DataArray constructor *)
  | HRaises.           (* the operation raised *)

(* grid object identity: (family, generation); a deep copy keeps the family (equal grid) and
   increases the generation (distinct object) *)
Definition c10_gid := (Z * Z)%type.

(* dimension codes: 0 = n_node, 1 = n_edge, 2 = n_face, >= 3 any other dimension *)
Record c10_val := { v_ux : bool; v_grid : option c10_gid; v_dims : list (Z * Z) }.

(* element counts (n_node, n_edge, n_face) of every grid family *)
Definition c10_sizes := Z -> (Z * Z * Z)%type.

Definition c10_count (sz : c10_sizes) (fam : Z) (d : Z) : Z :=
  let '(n, e, f) := sz fam in if d =? 0 then n else if d =? 1 then e else f.

Definition c10_attaches (h : c10_hook) : bool :=
  match h with HReplace | HCopyShallow | HCopyDeep => true | _ => false end.

Definition c10_apply_hook (h : c10_hook) (v : c10_val) (dims' : list (Z * Z)) : c10_val :=
  match h with
  | HReplace | HCopyShallow => {| v_ux := true; v_grid := v_grid v; v_dims := dims' |}
  | HCopyDeep => {| v_ux := true;
                    v_grid := match v_grid v with Some (f, g) => Some (f, g + 1) | None => None end;
                    v_dims := dims' |}
  | HConstructDirect | HInit => {| v_ux := true; v_grid := None; v_dims := dims' |}
  | HPlain | HRaises => {| v_ux := false; v_grid := None; v_dims := dims' |}
  end.

(* what an xarray operation along non-grid dimensions may do to the dims *)
Inductive c10_dimop :=
  | DKeep
  | DDrop (d : Z)                 (* reduction / scalar indexing of a non-grid dim *)
  | DResize (d : Z) (n : Z)       (* slicing, concat, diff along a non-grid dim *)
  | DAdd (d : Z) (n : Z)          (* expand_dims *)
  | DReverse.                     (* transpose *)

Definition c10_is_grid_dim (d : Z) : bool := (0 <=? d) && (d <? 3).

Definition c10_dimop_wf (o : c10_dimop) : bool :=
  match o with
  | DKeep | DReverse => true
  | DDrop d | DResize d _ | DAdd d _ => negb (c10_is_grid_dim d)
  end.

Definition c10_apply_dimop (o : c10_dimop) (dims : list (Z * Z)) : list (Z * Z) :=
  match o with
  | DKeep => dims
  | DDrop d => filter (fun p => negb (fst p =? d)) dims
  | DResize d n => map (fun p => if fst p =? d then (d, n) else p) dims
  | DAdd d n => (d, n) :: dims
  | DReverse => rev dims
  end.

Inductive c10_op :=
  | XOp (h : c10_hook) (o : c10_dimop)        (* any xarray operation, routed to hook h *)
  | UIselGrid (fam' : Z)                      (* isel / subset / cross-section along a grid dim: new (sub)grid *)
  | UIntegrate                                (* removes n_face, keeps the grid *)
  | UEdgeOp                                   (* gradient / difference: face or node dim -> n_edge *)
  | UTopoAgg (dst : Z)                        (* topological_*: n_node -> n_face (2) or n_edge (1) *)
  | URemap (fam' : Z) (dst : Z)               (* remap.*: element dim -> destination grid's dim dst *)
  | UDual (fam' : Z).                         (* get_dual: n_face <-> n_node on the dual grid *)

Definition c10_retag (sz : c10_sizes) (fam : Z) (dims : list (Z * Z)) : list (Z * Z) :=
  map (fun p => if c10_is_grid_dim (fst p) then (fst p, c10_count sz fam (fst p)) else p) dims.

Definition c10_swap_dim (d : Z) : Z := if d =? 0 then 2 else if d =? 2 then 0 else d.

Definition c10_step (sz : c10_sizes) (v : c10_val) (op : c10_op) : c10_val :=
  match op with
  | XOp h o => c10_apply_hook h v (c10_apply_dimop o (v_dims v))
  | UIselGrid fam' =>
      (* _slice_from_grid: UxDataArray(uxgrid=sliced_grid, data sliced with the recorded indices) *)
      {| v_ux := true; v_grid := Some (fam', 0); v_dims := c10_retag sz fam' (v_dims v) |}
  | UIntegrate =>
      {| v_ux := true; v_grid := v_grid v; v_dims := filter (fun p => negb (fst p =? 2)) (v_dims v) |}
  | UEdgeOp =>
      match v_grid v with
      | Some (f, g) => {| v_ux := true; v_grid := Some (f, g);
                          v_dims := map (fun p => if c10_is_grid_dim (fst p) then (1, c10_count sz f 1) else p) (v_dims v) |}
      | None => {| v_ux := true; v_grid := None; v_dims := v_dims v |}
      end
  | UTopoAgg dst =>
      match v_grid v with
      | Some (f, g) => {| v_ux := true; v_grid := Some (f, g);
                          v_dims := map (fun p => if fst p =? 0 then (dst, c10_count sz f dst) else p) (v_dims v) |}
      | None => {| v_ux := true; v_grid := None; v_dims := v_dims v |}
      end
  | URemap fam' dst =>
      {| v_ux := true; v_grid := Some (fam', 0);
         v_dims := map (fun p => if c10_is_grid_dim (fst p) then (dst, c10_count sz fam' dst) else p) (v_dims v) |}
  | UDual fam' =>
      {| v_ux := true; v_grid := Some (fam', 0);
         v_dims := map (fun p => if c10_is_grid_dim (fst p)
                                 then (c10_swap_dim (fst p), c10_count sz fam' (c10_swap_dim (fst p))) else p) (v_dims v) |}
  end.

Definition c10_eval (sz : c10_sizes) (prog : list c10_op) (v : c10_val) : c10_val :=
  fold_left (c10_step sz) prog v.

(* the property, as a decidable predicate on the abstract value *)
Definition c10_consistent (sz : c10_sizes) (v : c10_val) : bool :=
  v_ux v &&
  match v_grid v with
  | None => false
  | Some (f, _) => forallb (fun p => negb (c10_is_grid_dim (fst p)) || (snd p =? c10_count sz f (fst p))) (v_dims v)
  end.

Definition c10_op_ok (op : c10_op) : bool :=
  match op with
  | XOp h o => c10_attaches h && c10_dimop_wf o
  | UTopoAgg dst => c10_is_grid_dim dst
  | URemap _ dst => c10_is_grid_dim dst
  | _ => true
  end.

(* operations the property names explicitly and whose route must attach (hand-written; the routes
   themselves are measured).  Operations that xarray 2026.7 implements through apply_ufunc are
   listed separately: they are known findings on this tree. *)
Open Scope string_scope.
Definition c10_required_ops : list string :=
  ["add"; "radd"; "mul"; "sub_bcast"; "neg"; "abs"; "pow"; "cmp"; "round"; "iadd";
   "isel_scalar"; "isel_list"; "isel_slice"; "isel_dict"; "sel"; "loc"; "getitem"; "getitem_slice"; "head"; "thin";
   "mean"; "sum"; "max"; "std"; "reduce"; "quantile"; "cumsum"; "cumprod"; "diff"; "shift";
   "transpose"; "T"; "rename"; "rename_dim"; "assign_coords"; "drop_vars"; "expand_dims"; "sortby"; "concat";
   "copy_deep"; "copy_shallow"; "copy_deep_data"; "copy_shallow_data"; "pipe"; "compute";
   "isel_drop"; "sel_drop"; "squeeze"; "squeeze_drop"; "isel_missing_dims"; "reset_coords_drop";
   "mean_keep_attrs"; "sum_skipna"; "tail"; "roll"; "swap_dims"; "argmax"; "reindex"; "weighted_mean"; "groupby_mean";
   "drop_isel"; "assign_attrs"].
Definition c10_known_plain_ops : list string :=
  ["np_sin"; "np_add"; "np_maximum"; "apply_ufunc"; "where"; "where_other"; "xr_where"; "clip"; "fillna"; "astype";
   "isnull"; "rolling_mean"; "idxmax"; "dot"; "coarsen_mean"].
(* built by the class constructor without a grid: a UxDataArray whose uxgrid is None (known finding) *)
Definition c10_known_gridless_ops : list string := ["broadcast_like"].
Close Scope string_scope.

Fixpoint c10_lookup (name : string) (t : list (string * c10_hook)) : option c10_hook :=
  match t with
  | [] => None
  | (n, h) :: t' => if String.eqb name n then Some h else c10_lookup name t'
  end.

Definition c10_all_attach (names : list string) (t : list (string * c10_hook)) : bool :=
  forallb (fun n => match c10_lookup n t with Some h => c10_attaches h | None => false end) names.
