(* C09.v — executable model of uxarray/grid/slice.py (_slice_face_indices, _slice_node_indices,
   _slice_edge_indices), the constant-latitude scan of grid/intersections.py
   (fast_constant_lat_intersections) + Grid.get_faces_at_constant_latitude, and the data gather of
   UxDataArray._slice_from_grid.  Definitions only. *)
From Coq Require Import Sorting.Mergesort Orders.
From Verif Require Export Base.

Module C09ZOrder <: TotalLeBool.
  Definition t := Z.
  Definition leb (x y : Z) : bool := x <=? y.
  Theorem leb_total : forall a1 a2, leb a1 a2 = true \/ leb a2 a1 = true.
  Proof. intros a b; unfold leb; lia. Qed.
End C09ZOrder.
Module C09Sort := Sort C09ZOrder.

Fixpoint c09_dedup (l : list Z) : list Z :=
  match l with
  | [] => []
  | x :: l' => match l' with
               | [] => [x]
               | y :: _ => if x =? y then c09_dedup l' else x :: c09_dedup l'
               end
  end.

(* np.unique(x.ravel()) *)
Definition c09_unique (l : list Z) : list Z := c09_dedup (C09Sort.sort l).

(* x[x != INT_FILL_VALUE] *)
Definition c09_nofill (l : list Z) : list Z := filter (fun x => negb (is_fill x)) l.

(* fancy indexing table[idx] (rows) *)
Definition c09_rows (t : table) (idx : list Z) : table := map (fun i => nth (Z.to_nat i) t []) idx.

Fixpoint c09_index_of (v : Z) (l : list Z) : nat :=
  match l with
  | [] => 0%nat
  | y :: l' => if v =? y then 0%nat else S (c09_index_of v l')
  end.

(* node_indices = unique non-fill nodes of the selected faces *)
Definition c09_node_indices (t : table) (idx : list Z) : list Z :=
  c09_nofill (c09_unique (concat (c09_rows t idx))).

(* node_indices_dict.__getitem__ (the dict maps FILL to FILL) *)
Definition c09_renumber (ni : list Z) (x : Z) : Z :=
  if is_fill x then FILL else Z.of_nat (c09_index_of x ni).

(* _slice_face_indices: (new face_node_connectivity, subgrid_node_indices); subgrid_face_indices = idx *)
Definition c09_slice_faces (t : table) (idx : list Z) : table * list Z :=
  let ni := c09_node_indices t idx in
  (map (map (c09_renumber ni)) (c09_rows t idx), ni).

(* reading a sliced row back through the recorded node indices *)
Definition c09_back (ni : list Z) (x : Z) : Z := if is_fill x then FILL else nth (Z.to_nat x) ni FILL.

(* _slice_node_indices / _slice_edge_indices: faces touching the selected nodes / edges *)
Definition c09_faces_touching (incidence : table) (idx : list Z) : list Z :=
  c09_nofill (c09_unique (concat (c09_rows incidence idx))).

(* fast_constant_lat_intersections: strict sign test on scaled integer z values *)
Definition c09_crosses (z0 z1 c : Z) : bool := (z0 - c) * (z1 - c) <? 0.

Fixpoint c09_where (k : Z) (mask : list bool) : list Z :=
  match mask with
  | [] => []
  | b :: m' => if b then k :: c09_where (k + 1) m' else c09_where (k + 1) m'
  end.

Definition c09_lat_mask (ez : list (Z * Z)) (c : Z) : list bool :=
  map (fun p => c09_crosses (fst p) (snd p) c) ez.

Definition c09_lat_edges (ez : list (Z * Z)) (c : Z) : list Z := c09_where 0 (c09_lat_mask ez c).

(* Grid.get_faces_at_constant_latitude *)
Definition c09_faces_at_lat (ez : list (Z * Z)) (c : Z) (edge_face : table) : list Z :=
  c09_faces_touching edge_face (c09_lat_edges ez c).

(* the prange loop executed in an arbitrary order: iteration i writes only cell i *)
Fixpoint c09_set {A} (i : nat) (v : A) (l : list A) : list A :=
  match l, i with
  | [], _ => []
  | _ :: l', O => v :: l'
  | x :: l', S i' => x :: c09_set i' v l'
  end.

Definition c09_scan {A} (zero : A) (f : nat -> A) (order : list nat) (n : nat) : list A :=
  fold_left (fun m i => c09_set i (f i) m) order (repeat zero n).

(* data[..., indices] along the grid dimension *)
Definition c09_gather {A} (d : A) (data : list A) (idx : list Z) : list A :=
  map (fun i => nth (Z.to_nat i) data d) idx.
