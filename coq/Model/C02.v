(* C02.v — executable model of uxarray/grid/connectivity.py:
     close_face_nodes, _build_edge_node_connectivity, _build_face_edge_connectivity,
     _build_n_nodes_per_face.
   Mirrors the code step by step: close rows, shifted pairs, per-pair sort, np.unique(axis=0,
   return_inverse), drop rows containing the fill value, renumber the inverse with
   searchsorted(side="right").  Definitions only. *)
From Coq Require Import Sorting.Mergesort Orders.
From Verif Require Export Base.

(* lexicographic order on index pairs = row order of np.unique(axis=0) *)
Module PairOrder <: TotalLeBool.
  Definition t := (Z * Z)%type.
  Definition leb (p q : t) : bool :=
    (fst p <? fst q) || ((fst p =? fst q) && (snd p <=? snd q)).
  Theorem leb_total : forall a1 a2, leb a1 a2 = true \/ leb a2 a1 = true.
  Proof. intros [a b] [c d]; unfold leb; simpl; lia. Qed.
End PairOrder.
Module PairSort := Sort PairOrder.

(* _build_n_nodes_per_face *)
Definition n_nodes_per_face (t : table) : list Z := map (fun r => Z.of_nat (first_fill r)) t.

(* close_face_nodes on one row: extend by one FILL, np.put the first node at the first fill index *)
Definition close_row (r : row) : row :=
  let k := first_fill r in
  let e := r ++ [FILL] in
  firstn k e ++ [hd FILL r] ++ skipn (S k) e.

(* edge_nodes[:,0] = padded[:, :-1], edge_nodes[:,1] = padded[:, 1:]  (one row) *)
Definition row_pairs (r : row) : list (Z * Z) :=
  let c := close_row r in combine (removelast c) (tl c).

(* all candidate pairs, ravel order, each sorted (edge_nodes.sort(axis=1)) *)
Definition all_pairs (t : table) : list (Z * Z) := map norm_pair (flat_map row_pairs t).

(* remove consecutive duplicates of a sorted list *)
Fixpoint dedup (l : list (Z * Z)) : list (Z * Z) :=
  match l with
  | [] => []
  | x :: l' =>
      match l' with
      | [] => [x]
      | y :: _ => if pair_eqb x y then dedup l' else x :: dedup l'
      end
  end.

(* np.unique(axis=0) *)
Definition unique_pairs (l : list (Z * Z)) : list (Z * Z) := dedup (PairSort.sort l).

(* return_inverse: position of x in the unique list *)
Fixpoint index_of (x : Z * Z) (u : list (Z * Z)) : nat :=
  match u with
  | [] => 0%nat
  | y :: u' => if pair_eqb x y then 0%nat else S (index_of x u')
  end.

(* np.where(mask)[0] starting at offset k *)
Fixpoint where_from (k : Z) (mask : list bool) : list Z :=
  match mask with
  | [] => []
  | b :: m' => if b then k :: where_from (k + 1) m' else where_from (k + 1) m'
  end.

(* np.searchsorted(sorted l, v, side="right") *)
Definition searchsorted_right (l : list Z) (v : Z) : Z :=
  Z.of_nat (length (filter (fun x => x <=? v) l)).

Definition mem_Z (v : Z) (l : list Z) : bool := existsb (Z.eqb v) l.

(* the renumbering loop over inverse_indices *)
Definition renum (to_update : list Z) (i : Z) : Z :=
  if mem_Z i to_update then FILL else i - searchsorted_right to_update i.

Record edge_result := {
  er_edges : list (Z * Z);       (* edge_nodes_unique after dropping fill rows *)
  er_inverse : list Z;           (* inverse_indices, flat, fill entries = FILL *)
  er_mask : list bool            (* fill_value_mask over the unique list *)
}.

Definition build_edges (t : table) : edge_result :=
  let ps := all_pairs t in
  let u := unique_pairs ps in
  let mask := map has_fill u in
  let upd := where_from 0 mask in
  let inv := map (fun p => Z.of_nat (index_of p u)) ps in
  {| er_edges := filter (fun p => negb (has_fill p)) u;
     er_inverse := map (renum upd) inv;
     er_mask := mask |}.

(* reshape (n_face, n_max_face_nodes) of a flat list *)
Fixpoint chunk (m : nat) (fuel : nat) (l : list Z) : list (list Z) :=
  match fuel with
  | O => []
  | S f => firstn m l :: chunk m f (skipn m l)
  end.

(* _build_face_edge_connectivity *)
Definition face_edges (t : table) (m : nat) : table :=
  chunk m (length t) (er_inverse (build_edges t)).

Definition edges (t : table) : list (Z * Z) := er_edges (build_edges t).

(* ---- specification side (what the property says) ---- *)

(* every unordered pair of consecutive corners of any face *)
Definition spec_pairs (t : table) : list (Z * Z) :=
  map norm_pair (flat_map (fun r => cyc_pairs (corners r)) t).
