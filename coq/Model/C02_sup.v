(* C02_sup.v — executable model of uxarray/grid/connectivity.py:_populate_face_edge_connectivity on a grid
   whose SOURCE supplied edge_node_connectivity (from_topology(edge_node_connectivity=...), UGRID
   Mesh2_edge_nodes, MPAS/ICON, subsets of those): the supplied table S (any edge order, any pair
   orientation) has no "inverse_indices" attribute, so the code

     edge_nodes, inverse_indices, _ = _build_edge_node_connectivity(face_nodes, ...)
     supplied = np.sort(S, axis=1)
     order = np.lexsort((supplied[:, 1], supplied[:, 0]))
     if supplied.shape == edge_nodes.shape and np.array_equal(supplied[order], edge_nodes):
         real = inverse_indices != FILL ; inverse_indices[real] = order[inverse_indices[real]]
     else:
         _populate_edge_node_connectivity(grid)          # derive a consistent table instead
     face_edges = inverse_indices.reshape(n_face, n_max_face_nodes)

   Definitions only. *)
From Coq Require Import Sorting.Mergesort Orders.
From Verif Require Export Base C02.

(* np.lexsort((s[:,1], s[:,0])) is the stable argsort by (first, second): the order of the rows
   (pair, original index) under the lexicographic order on (pair, index). *)
Module KeyIdxOrder <: TotalLeBool.
  Definition t := ((Z * Z) * Z)%type.
  Definition leb (a b : t) : bool :=
    let p := fst a in let q := fst b in
    (fst p <? fst q) || ((fst p =? fst q) && ((snd p <? snd q) || ((snd p =? snd q) && (snd a <=? snd b)))).
  Theorem leb_total : forall a1 a2, leb a1 a2 = true \/ leb a2 a1 = true.
  Proof. intros [[a b] i] [[c d] j]; unfold leb; simpl; lia. Qed.
End KeyIdxOrder.
Module KeyIdxSort := Sort KeyIdxOrder.

Fixpoint zseq (k : Z) (n : nat) : list Z :=
  match n with O => [] | S n' => k :: zseq (k + 1) n' end.

Definition sup_sorted (S : list (Z * Z)) : list (Z * Z) := map norm_pair S.       (* np.sort(S, axis=1) *)

Definition lexsort_order (NS : list (Z * Z)) : list Z :=
  map snd (KeyIdxSort.sort (combine NS (zseq 0 (length NS)))).

Definition take_rows (NS : list (Z * Z)) (order : list Z) : list (Z * Z) :=     (* supplied[order] *)
  map (fun i => nthP NS (Z.to_nat i)) order.

Fixpoint pairs_eqb (a b : list (Z * Z)) : bool :=
  match a, b with
  | [], [] => true
  | x :: a', y :: b' => pair_eqb x y && pairs_eqb a' b'
  | _, _ => false
  end.

(* the test the code makes before it keeps the supplied table *)
Definition sup_accepts (t : table) (S : list (Z * Z)) : bool :=
  let E := edges t in
  let NS := sup_sorted S in
  Nat.eqb (length S) (length E) && pairs_eqb (take_rows NS (lexsort_order NS)) E.

(* inverse_indices[real] = order[inverse_indices[real]] *)
Definition sup_renumber (order : list Z) (i : Z) : Z :=
  if is_fill i then FILL else nthZ order (Z.to_nat i).

Record sup_result := {
  sr_kept : bool;                 (* the supplied table was kept *)
  sr_edges : list (Z * Z);        (* edge_node_connectivity the grid reports afterwards *)
  sr_face_edges : table           (* face_edge_connectivity *)
}.

Definition sup_face_edges (t : table) (m : nat) (S : list (Z * Z)) : sup_result :=
  if sup_accepts t S then
    let order := lexsort_order (sup_sorted S) in
    {| sr_kept := true; sr_edges := S;
       sr_face_edges := chunk m (length t) (map (sup_renumber order) (er_inverse (build_edges t))) |}
  else
    {| sr_kept := false; sr_edges := edges t; sr_face_edges := face_edges t m |}.
