(* C12.v — executable model of the remapping layer:
     uxarray/remap/utils.py                      (_remap_grid_parse: source element kind inferred from the
                                                  trailing data length, tree query of the destination points)
     uxarray/remap/nearest_neighbor.py           (_nearest_neighbor: source_data[..., idx]; dims of the result)
     uxarray/remap/inverse_distance_weighted.py  (_inverse_distance_weighted_remap: k checks, weights
                                                  1/(d**power + 1e-6), normalised, weighted sum)
   The neighbour search is the brute force of Model/C11.v (c11_knn) on integer distance keys: for every
   destination point the distances to all source nodes / face centres / edge centres are given in ticks
   of 1/scale.  Data values, weights and results are exact rationals.  Definitions only. *)
From Coq Require Export QArith.
From Verif Require Export Base C11.

(* ---- which source elements the data live on ---- *)

(* as coded: by the trailing length, nodes first, then faces, then edges *)
Definition c12_kind_by_length (nn nf ne len : Z) : option c11_kind :=
  if len =? nn then Some C11Nodes
  else if len =? nf then Some C11Faces
  else if len =? ne then Some C11Edges
  else None.

(* repaired variant: by the name of the trailing dimension *)
Inductive c12_dim := C12DNode | C12DFace | C12DEdge | C12DOther (tag : Z).
Definition c12_kind_by_dim (d : c12_dim) : option c11_kind :=
  match d with
  | C12DNode => Some C11Nodes | C12DFace => Some C11Faces | C12DEdge => Some C11Edges
  | C12DOther _ => None
  end.

Definition c12_count (nn nf ne : Z) (k : c11_kind) : Z :=
  match k with C11Nodes => nn | C11Faces => nf | C11Edges => ne end.

Definition c12_dim_of (k : c11_kind) : c12_dim :=
  match k with C11Nodes => C12DNode | C11Faces => C12DFace | C11Edges => C12DEdge end.

(* per destination point: distance keys to every source node / face centre / edge centre *)
Record c12_dists := { cd_node : list (list Z); cd_face : list (list Z); cd_edge : list (list Z) }.
Definition c12_table (t : c12_dists) (k : c11_kind) : list (list Z) :=
  match k with C11Nodes => cd_node t | C11Faces => cd_face t | C11Edges => cd_edge t end.

(* ---- nearest neighbour ---- *)

(* tree.query(dest, k=1): index of the nearest source element *)
Definition c12_nn_index (keys : list Z) : nat :=
  match c11_knn keys 1 with
  | (_, i) :: _ => i
  | [] => 0%nat
  end.

(* source_data[..., idx] for one leading index *)
Definition c12_nn_row (tab : list (list Z)) (row : list Q) : list Q :=
  map (fun keys => nth (c12_nn_index keys) row 0%Q) tab.

(* _nearest_neighbor; data = one row per leading index *)
Definition c12_nn (nn nf ne : Z) (t : c12_dists) (data : list (list Q)) : option (list (list Q)) :=
  match data with
  | [] => None
  | r0 :: _ =>
      match c12_kind_by_length nn nf ne (Z.of_nat (length r0)) with
      | None => None
      | Some k => Some (map (c12_nn_row (c12_table t k)) data)
      end
  end.

(* the same with the kind taken from the dimension name (repaired) *)
Definition c12_nn_by_dim (d : c12_dim) (t : c12_dists) (data : list (list Q)) : option (list (list Q)) :=
  match c12_kind_by_dim d with
  | None => None
  | Some k => Some (map (c12_nn_row (c12_table t k)) data)
  end.

(* ---- inverse distance weighting ---- *)

Fixpoint c12_qpow (x : Q) (p : nat) : Q :=
  match p with O => 1%Q | S p' => (x * c12_qpow x p')%Q end.

Fixpoint c12_qsum (l : list Q) : Q :=
  match l with [] => 0%Q | x :: l' => (x + c12_qsum l')%Q end.

(* distance of `d` ticks *)
Definition c12_dist (scale : positive) (d : Z) : Q := d # scale.

(* 1 / (distances**power + eps) *)
Definition c12_weight (scale : positive) (p : nat) (eps : Q) (d : Z) : Q :=
  (/ (c12_qpow (c12_dist scale d) p + eps))%Q.

(* one destination point, one leading index: weights /= sum(weights); sum(data[idx] * weights) *)
Definition c12_idw_point (scale : positive) (p : nat) (eps : Q) (k : nat) (row : list Q) (keys : list Z) : Q :=
  let nb := c11_knn keys k in
  let s := c12_qsum (map (fun x => c12_weight scale p eps (fst x)) nb) in
  c12_qsum (map (fun x => (nth (snd x) row 0 * (c12_weight scale p eps (fst x) / s))%Q) nb).

(* the same value with one division (used for the extracted run; equality is C12_idw_fast) *)
Definition c12_idw_point_fast (scale : positive) (p : nat) (eps : Q) (k : nat) (row : list Q) (keys : list Z) : Q :=
  let nb := c11_knn keys k in
  let s := c12_qsum (map (fun x => c12_weight scale p eps (fst x)) nb) in
  (c12_qsum (map (fun x => (nth (snd x) row 0 * c12_weight scale p eps (fst x))%Q) nb) / s)%Q.

(* the normalised weights themselves (index, weight) *)
Definition c12_idw_weights (scale : positive) (p : nat) (eps : Q) (k : nat) (keys : list Z) : list (nat * Q) :=
  let nb := c11_knn keys k in
  let s := c12_qsum (map (fun x => c12_weight scale p eps (fst x)) nb) in
  map (fun x => (snd x, (c12_weight scale p eps (fst x) / s)%Q)) nb.

(* _inverse_distance_weighted_remap: k > source_data.shape[-1] -> ValueError; k <= 1 -> ValueError;
   then _remap_grid_parse (kind by trailing length) and the tree's own check k <= number of elements
   of that kind.  Results are reshaped to one row per destination point (a single destination
   point is answered like any other). *)
Definition c12_idw_gen (point : positive -> nat -> Q -> nat -> list Q -> list Z -> Q)
           (nn nf ne : Z) (t : c12_dists) (data : list (list Q))
           (scale : positive) (p : nat) (eps : Q) (k : nat) : option (list (list Q)) :=
  match data with
  | [] => None
  | r0 :: _ =>
      if (Z.of_nat (length r0) <? Z.of_nat k) || (Z.of_nat k <=? 1) then None
      else match c12_kind_by_length nn nf ne (Z.of_nat (length r0)) with
           | None => None
           | Some kd =>
               if c12_count nn nf ne kd <? Z.of_nat k then None
               else Some (map (fun row => map (point scale p eps k row) (c12_table t kd)) data)
           end
  end.

Definition c12_idw := c12_idw_gen c12_idw_point.
Definition c12_idw_fast := c12_idw_gen c12_idw_point_fast.

(* ---- dimensions of the result: the input's with the last one replaced by the destination's ---- *)
Definition c12_out_dims (dims : list c12_dim) (dest : c11_kind) : list c12_dim :=
  removelast dims ++ [c12_dim_of dest].

(* ---- which coordinates the source tree of a remap was built from ----
   The source grid's coordinates carry a version (bumped by every public mutator: coordinate
   setters, construct_face_centers, normalize_cartesian_coordinates).  A remap asks the grid for its
   tree with `reconstruct` as coded; a cached tree keeps the version it was built from. *)
Inductive c12_op := C12Mutate | C12Remap.

Definition c12_tree_version (reconstruct : bool) (cur : nat) (cache : option nat) : nat :=
  match cache with
  | None => cur
  | Some v => if reconstruct then cur else v
  end.

(* per remap in the history: (version the tree was built from, current version) *)
Fixpoint c12_run_ops (reconstruct : bool) (cur : nat) (cache : option nat) (ops : list c12_op) : list (nat * nat) :=
  match ops with
  | [] => []
  | C12Mutate :: ops' => c12_run_ops reconstruct (S cur) cache ops'
  | C12Remap :: ops' =>
      let v := c12_tree_version reconstruct cur cache in
      (v, cur) :: c12_run_ops reconstruct cur (Some v) ops'
  end.
