(* C05.v — executable model of uxarray/grid/area.py and of the area part of uxarray/grid/grid.py:
     get_gauss_quadratureDG / get_tri_quadratureDG (tables GENERATED into Gen/C05_tables.v, the
       scaling loop of the Gauss rule modelled here),
     calculate_spherical_triangle_jacobian(_barycentric), calculate_face_area (fan from corner 0,
       quadrature loops, accumulators `area` and `jacobian`), get_all_face_area_from_coords
       (gather per face through n_nodes_per_face, the `dim > 2` switch),
     Grid.compute_face_areas (lon/lat vs xyz input; the `dim` it passes on the Cartesian path is
       GENERATED from the source: c05_dim_cartesian3, `dim = 2 if latlon else 3` since fix 4eed51d9),
     Grid.face_areas (cache in _ds), Grid.calculate_total_face_area, Grid.face_jacobian
     (compute_face_areas returns fresh arrays and stores nothing; face_areas stores the default
     computation in _ds and its jacobian in _face_jacobian; face_jacobian computes the default
     jacobian itself when it is not known and leaves face_areas alone).
   The arithmetic is abstracted in a record of operations (c05_ops): the SAME definitions are
   instantiated with 2^-100 fixed-point integers (c05_fx, executable, extracted, compared with the
   implementation) and, in Proofs/C05_proofs.v, with the real numbers (theorems needing sqrt).
   Definitions only. *)
From Verif Require Export Base.
From Verif Require Export C05_tables C05_rules.

(* ------------------------------------------------------------------------------------------ *)
(* 2. arithmetic interface                                                                      *)

Record c05_ops (T : Type) := {
  c05_add : T -> T -> T;
  c05_sub : T -> T -> T;
  c05_mul : T -> T -> T;
  c05_div : T -> T -> T;
  c05_neg : T -> T;
  c05_sqrt : T -> T;
  c05_q : Z -> Z -> T           (* the constant num / den *)
}.
Arguments c05_add {T}. Arguments c05_sub {T}. Arguments c05_mul {T}. Arguments c05_div {T}.
Arguments c05_neg {T}. Arguments c05_sqrt {T}. Arguments c05_q {T}.

(* fixed point: the integer n stands for n / c05_S, c05_S = 2^100 (products are rescaled by a
   shift, which keeps the extracted code fast; floor rounding) *)
Definition c05_Sbits : Z := 100.
Definition c05_S : Z := 2 ^ c05_Sbits.
Definition c05_fx : c05_ops Z := {|
  c05_add := Z.add;
  c05_sub := Z.sub;
  c05_mul := fun a b => Z.shiftr (a * b) c05_Sbits;
  c05_div := fun a b => Z.shiftl a c05_Sbits / b;
  c05_neg := Z.opp;
  c05_sqrt := fun a => Z.sqrt (Z.shiftl a c05_Sbits);
  c05_q := fun n d => Z.shiftl n c05_Sbits / d
|}.

Inductive c05_quad := C05_gaussian | C05_triangular | C05_other.

Section Num.
  Context {T : Type} (O : c05_ops T).

  Local Notation "a +! b" := (c05_add O a b) (at level 50, left associativity).
  Local Notation "a -! b" := (c05_sub O a b) (at level 50, left associativity).
  Local Notation "a *! b" := (c05_mul O a b) (at level 40, left associativity).
  Local Notation "-! a" := (c05_neg O a) (at level 35, right associativity).

  Definition c05_zero : T := c05_q O 0 1.
  Definition c05_one : T := c05_q O 1 1.
  Definition c05_half : T := c05_q O 1 2.

  Definition c05_vec := (T * T * T)%type.
  Definition c05_v0 (v : c05_vec) : T := fst (fst v).
  Definition c05_v1 (v : c05_vec) : T := snd (fst v).
  Definition c05_v2 (v : c05_vec) : T := snd v.

  (* the part shared by both Jacobian functions, from dInvR to the returned norm *)
  Definition c05_jac_core (dF dDaF dDbF : c05_vec) : T :=
    let f0 := c05_v0 dF in let f1 := c05_v1 dF in let f2 := c05_v2 dF in
    let a0 := c05_v0 dDaF in let a1 := c05_v1 dDaF in let a2 := c05_v2 dDaF in
    let b0 := c05_v0 dDbF in let b1 := c05_v1 dDbF in let b2 := c05_v2 dDbF in
    let dInvR := c05_div O c05_one (c05_sqrt O (f0 *! f0 +! f1 *! f1 +! f2 *! f2)) in
    let ga0 := a0 *! (f1 *! f1 +! f2 *! f2) -! f0 *! (a1 *! f1 +! a2 *! f2) in
    let ga1 := a1 *! (f0 *! f0 +! f2 *! f2) -! f1 *! (a0 *! f0 +! a2 *! f2) in
    let ga2 := a2 *! (f0 *! f0 +! f1 *! f1) -! f2 *! (a0 *! f0 +! a1 *! f1) in
    let gb0 := b0 *! (f1 *! f1 +! f2 *! f2) -! f0 *! (b1 *! f1 +! b2 *! f2) in
    let gb1 := b1 *! (f0 *! f0 +! f2 *! f2) -! f1 *! (b0 *! f0 +! b2 *! f2) in
    let gb2 := b2 *! (f0 *! f0 +! f1 *! f1) -! f2 *! (b0 *! f0 +! b1 *! f1) in
    let dDenomTerm := dInvR *! dInvR *! dInvR in
    let ga0 := ga0 *! dDenomTerm in let ga1 := ga1 *! dDenomTerm in let ga2 := ga2 *! dDenomTerm in
    let gb0 := gb0 *! dDenomTerm in let gb1 := gb1 *! dDenomTerm in let gb2 := gb2 *! dDenomTerm in
    (* np.cross(dDaG, dDbG) *)
    let c0 := ga1 *! gb2 -! ga2 *! gb1 in
    let c1 := ga2 *! gb0 -! ga0 *! gb2 in
    let c2 := ga0 *! gb1 -! ga1 *! gb0 in
    c05_sqrt O (c0 *! c0 +! c1 *! c1 +! c2 *! c2).

  (* calculate_spherical_triangle_jacobian(node1, node2, node3, dA, dB) *)
  Definition c05_jac_gauss (n1 n2 n3 : c05_vec) (dA dB : T) : T :=
    let omA := c05_one -! dA in
    let omB := c05_one -! dB in
    let F := fun (g : c05_vec -> T) => omB *! (omA *! g n1 +! dA *! g n2) +! dB *! g n3 in
    let DA := fun (g : c05_vec -> T) => omB *! (g n2 -! g n1) in
    let DB := fun (g : c05_vec -> T) => (-! omA) *! g n1 -! dA *! g n2 +! g n3 in
    c05_jac_core (F c05_v0, F c05_v1, F c05_v2) (DA c05_v0, DA c05_v1, DA c05_v2)
                 (DB c05_v0, DB c05_v1, DB c05_v2).

  (* calculate_spherical_triangle_jacobian_barycentric(node1, node2, node3, dA, dB) *)
  Definition c05_jac_bary (n1 n2 n3 : c05_vec) (dA dB : T) : T :=
    let dC := c05_one -! dA -! dB in
    let F := fun (g : c05_vec -> T) => dA *! g n1 +! dB *! g n2 +! dC *! g n3 in
    let DA := fun (g : c05_vec -> T) => g n1 -! g n3 in
    let DB := fun (g : c05_vec -> T) => g n2 -! g n3 in
    c05_half *! c05_jac_core (F c05_v0, F c05_v1, F c05_v2) (DA c05_v0, DA c05_v1, DA c05_v2)
                             (DB c05_v0, DB c05_v1, DB c05_v2).

  (* the rule as numbers: (points, weights) *)
  Definition c05_num1 (D : Z) (r : c05_rule1) : list T * list T :=
    (map (fun g => c05_q O g D) (fst r), map (fun w => c05_q O w D) (snd r)).
  Definition c05_num2 (D : Z) (r : c05_rule2) : list (T * T) * list T :=
    (map (fun p => (c05_q O (fst (fst p)) D, c05_q O (snd (fst p)) D)) (fst r),
     map (fun w => c05_q O w D) (snd r)).

  (* what calculate_face_area holds after its rule selection *)
  Inductive c05_table :=
  | C05_tg (dG dW : list T)
  | C05_tt (dG : list (T * T)) (dW : list T).

  Definition c05_select (rule : c05_quad) (order : Z) : option c05_table :=
    match rule with
    | C05_gaussian =>
        option_map (fun r => let t := c05_num1 c05_gden r in C05_tg (fst t) (snd t)) (c05_gauss_rule order)
    | C05_triangular =>
        option_map (fun r => let t := c05_num2 c05_den r in C05_tt (fst t) (snd t)) (c05_tri_rule order)
    | C05_other => None                      (* raise ValueError *)
    end.

  (* the state of the two accumulators (area, jacobian) *)
  Definition c05_acc := (T * T)%type.

  (* inner loops over the quadrature points of one sub-triangle:
       jacobian = J(...); area += dW[p] * dW[q] * jacobian; jacobian += jacobian        (gaussian)
       jacobian = Jb(...); area += dW[p] * jacobian; jacobian += jacobian               (triangular) *)
  Definition c05_quad_tri (tb : c05_table) (n1 n2 n3 : c05_vec) (acc : c05_acc) : c05_acc :=
    match tb with
    | C05_tg dG dW =>
        fold_left (fun acc p =>
          fold_left (fun acc q =>
            let j := c05_jac_gauss n1 n2 n3 (fst p) (fst q) in
            (fst acc +! snd p *! snd q *! j, j +! j)) (combine dG dW) acc) (combine dG dW) acc
    | C05_tt dG dW =>
        fold_left (fun acc p =>
          let j := c05_jac_bary n1 n2 n3 (fst (fst p)) (snd (fst p)) in
          (fst acc +! snd p *! j, j +! j)) (combine dG dW) acc
    end.

  (* corner i of the face as a Cartesian vector; conv = Some f models coords_type == "spherical"
     (f lon lat = _lonlat_rad_to_xyz(deg2rad(lon), deg2rad(lat)), the z array is ignored) *)
  Definition c05_node (conv : option (T -> T -> c05_vec)) (xs : list c05_vec) (i : nat) : c05_vec :=
    let p := nth i xs (c05_zero, c05_zero, c05_zero) in
    match conv with
    | None => p
    | Some f => f (c05_v0 p) (c05_v1 p)
    end.

  (* the loop `for j in range(0, num_nodes - 2)` of calculate_face_area *)
  Definition c05_face_loop (tb : c05_table) (conv : option (T -> T -> c05_vec)) (xs : list c05_vec) : c05_acc :=
    fold_left (fun acc j =>
                 c05_quad_tri tb (c05_node conv xs 0) (c05_node conv xs (j + 1)) (c05_node conv xs (j + 2)) acc)
              (seq 0 (length xs - 2)) (c05_zero, c05_zero).

  (* calculate_face_area(x, y, z, quadrature_rule, order, coords_type) -> (area, jacobian);
     None = the call raises *)
  Definition c05_face_area (rule : c05_quad) (order : Z) (conv : option (T -> T -> c05_vec))
             (xs : list c05_vec) : option c05_acc :=
    option_map (fun tb => c05_face_loop tb conv xs) (c05_select rule order).

  (* get_all_face_area_from_coords: per face, gather the first n_nodes_per_face[f] entries of the
     row; `if dim > 2: face_z = z[...] else: face_z = face_x * 0.0` *)
  Definition c05_gather (pos : Z -> c05_vec) (dim3 : bool) (r : row) (k : Z) : list c05_vec :=
    map (fun i => let p := pos i in
                  if dim3 then p else (c05_v0 p, c05_v1 p, c05_v0 p *! c05_zero))
        (firstn (Z.to_nat k) r).

  Fixpoint c05_opt_all {A} (l : list (option A)) : option (list A) :=
    match l with
    | [] => Some []
    | None :: _ => None
    | Some x :: l' => option_map (cons x) (c05_opt_all l')
    end.

  Definition c05_all_areas (pos : Z -> c05_vec) (t : table) (npf : list Z) (dim3 : bool)
             (rule : c05_quad) (order : Z) (conv : option (T -> T -> c05_vec)) : option (list c05_acc) :=
    c05_opt_all (map (fun rk => c05_face_area rule order conv (c05_gather pos dim3 (fst rk) (snd rk)))
                     (combine t npf)).

  (* ---- Grid level ---- *)
  Record c05_grid := {
    c05_lonlat : Z -> c05_vec;       (* (node_lon, node_lat, 0) in degrees *)
    c05_xyz : Z -> c05_vec;          (* (node_x, node_y, node_z) *)
    c05_conn : table;
    c05_npf : list Z
  }.

  (* Grid.compute_face_areas(quadrature_rule, order, latlon), parameterised by the `dim` it passes on
     the Cartesian path: dim3 = false is `dim = 2` (the code before fix 4eed51d9: the z column is
     replaced by zeros), dim3 = true is `dim = 2 if latlon else 3` (the code as it is now).  The
     current tree is c05_compute_cur below, with the flag generated from the source. *)
  Definition c05_compute (fixdim : bool) (conv : T -> T -> c05_vec) (g : c05_grid)
             (rule : c05_quad) (order : Z) (latlon : bool) : option (list c05_acc) :=
    if latlon
    then c05_all_areas (c05_lonlat g) (c05_conn g) (c05_npf g) false rule order (Some conv)
    else c05_all_areas (c05_xyz g) (c05_conn g) (c05_npf g) fixdim rule order None.

  (* the code as it is: dim read from grid.py by the translator *)
  Definition c05_compute_cur := c05_compute c05_dim_cartesian3.

  Definition c05_default_rule : c05_quad :=
    if c05_default_is_triangular then C05_triangular else C05_gaussian.

  (* the part of the Grid state the area code reads and writes *)
  Record c05_state := {
    c05_cached : option (list T);              (* _ds["face_areas"] *)
    c05_jac : option (list T)                  (* _face_jacobian (None after __init__) *)
  }.
  Definition c05_init : c05_state := {| c05_cached := None; c05_jac := None |}.

  Inductive c05_op :=
  | C05_compute (rule : c05_quad) (order : Z) (latlon : bool)   (* compute_face_areas(...) *)
  | C05_total (rule : c05_quad) (order : Z)                     (* calculate_total_face_area(...) *)
  | C05_get_areas                                               (* the face_areas property *)
  | C05_get_jacobian.                                           (* the face_jacobian property *)

  Inductive c05_out :=
  | C05_areas (a : list T)
  | C05_pairs (a : list c05_acc)
  | C05_scalar (a : T)
  | C05_none
  | C05_raise.

  Definition c05_sum (l : list T) : T := fold_left (c05_add O) l c05_zero.

  Section Machine.
    Variables (fixdim : bool) (conv : T -> T -> c05_vec) (g : c05_grid).

    (* face_areas: `if "face_areas" not in self._ds: face_areas, self._face_jacobian =
       self.compute_face_areas(); self._ds["face_areas"] = ...` *)
    Definition c05_read_areas (s : c05_state) : c05_state * c05_out :=
      match c05_cached s with
      | Some a => (s, C05_areas a)
      | None =>
          match c05_compute fixdim conv g c05_default_rule c05_default_order c05_default_latlon with
          | Some r => ({| c05_cached := Some (map fst r); c05_jac := Some (map snd r) |}, C05_areas (map fst r))
          | None => (s, C05_raise)
          end
      end.

    Definition c05_step (s : c05_state) (o : c05_op) : c05_state * c05_out :=
      match o with
      | C05_compute rule order latlon =>            (* returns fresh arrays, stores nothing *)
          match c05_compute fixdim conv g rule order latlon with
          | Some r => (s, C05_pairs r)
          | None => (s, C05_raise)
          end
      | C05_total rule order =>
          match c05_compute fixdim conv g rule order c05_default_latlon with
          | Some r => (s, C05_scalar (c05_sum (map fst r)))
          | None => (s, C05_raise)
          end
      | C05_get_areas => c05_read_areas s
      | C05_get_jacobian =>
          (* if self._face_jacobian is None: _, self._face_jacobian = self.compute_face_areas()
             (fix 3e2684f4: the stored face_areas are neither read nor written) *)
          match c05_jac s with
          | Some j => (s, C05_areas j)
          | None =>
              match c05_compute fixdim conv g c05_default_rule c05_default_order c05_default_latlon with
              | Some r => ({| c05_cached := c05_cached s; c05_jac := Some (map snd r) |}, C05_areas (map snd r))
              | None => (s, C05_raise)
              end
          end
      end.

    Definition c05_run (s : c05_state) (ops : list c05_op) : c05_state :=
      fold_left (fun s o => fst (c05_step s o)) ops s.
  End Machine.
End Num.

(* ------------------------------------------------------------------------------------------ *)
(* 3. entry points of the extracted driver (fixed-point instance)                               *)

Definition c05_fx_vec := (Z * Z * Z)%type.

Definition c05_quad_of_Z (k : Z) : c05_quad :=
  if k =? 0 then C05_gaussian else if k =? 1 then C05_triangular else C05_other.

(* conversion lon/lat -> xyz supplied as a finite table by the caller (computed with 50-digit
   trigonometry on the harness side); unknown keys map to the zero vector *)
Fixpoint c05_fx_conv (tbl : list ((Z * Z) * c05_fx_vec)) (lon lat : Z) : c05_fx_vec :=
  match tbl with
  | [] => (0, 0, 0)
  | ((lo, la), v) :: tbl' => if (lo =? lon) && (la =? lat) then v else c05_fx_conv tbl' lon lat
  end.

Definition c05_fx_face_area (rule order : Z) (sph : bool) (tbl : list ((Z * Z) * c05_fx_vec))
           (xs : list c05_fx_vec) : option (Z * Z) :=
  c05_face_area c05_fx (c05_quad_of_Z rule) order
                (if sph then Some (c05_fx_conv tbl) else None) xs.

Definition c05_fx_pos (l : list c05_fx_vec) (i : Z) : c05_fx_vec :=
  if i <? 0 then (0, 0, 0) else nth (Z.to_nat i) l (0, 0, 0).

Definition c05_fx_grid_areas (fixdim : bool) (rule order : Z) (latlon : bool)
           (tbl : list ((Z * Z) * c05_fx_vec)) (lonlat xyz : list c05_fx_vec) (t : table) (npf : list Z)
  : option (list (Z * Z)) :=
  c05_compute c05_fx fixdim (c05_fx_conv tbl)
              {| c05_lonlat := c05_fx_pos lonlat; c05_xyz := c05_fx_pos xyz; c05_conn := t; c05_npf := npf |}
              (c05_quad_of_Z rule) order latlon.

(* the tables as the two functions return them: numerators and their denominator *)
Definition c05_fx_gauss_table (n : Z) : option (Z * c05_rule1) :=
  option_map (fun r => (c05_gden, r)) (c05_gauss_rule n).
Definition c05_fx_tri_table (n : Z) : option (Z * c05_rule2) :=
  option_map (fun r => (c05_den, r)) (c05_tri_rule n).
