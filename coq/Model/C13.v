(* C13.v — executable model of the face latitude/longitude bounds of uxarray/grid/geometry.py:
     _get_latlonbox_width, _insert_pt_in_latlonbox, _populate_face_latlon_bound (normal branch and the
     pole branches).

   Angles are integers in a fixed unit (the harness uses 1e-15 degree); P is the full circle (2 pi),
   H = P/4 the pole latitude (pi/2).  The uninitialised value of the box is the fill value FILL exactly
   as in the code (np.full((2,2), INT_FILL_VALUE)).  The model mirrors the coded comparisons literally
   (same branch structure; defects included).  What it is parametrised by, per edge (DESIGN C13):
     - the extreme latitudes e_max / e_min of the great-circle edge (extreme_gca_latitude; tied to the
       C14 model: the harness checks them against c14_extreme_spec on every case),
     - whether the pole point is the edge's first node or lies on the edge (pole branches),
   and per face by has_north_pole / has_south_pole (_pole_point_inside_polygon).
   Definitions only. *)
From Verif Require Export Base.

Record c13_box := {
  c13_lat_lo : Z; c13_lat_hi : Z;      (* face_latlon_array[0] *)
  c13_lon_lo : Z; c13_lon_hi : Z       (* face_latlon_array[1] *)
}.

Definition c13_empty : c13_box :=
  {| c13_lat_lo := FILL; c13_lat_hi := FILL; c13_lon_lo := FILL; c13_lon_hi := FILL |}.

(* np.mod(lon, 2 pi) unless lon is the fill value *)
Definition c13_norm (P lon : Z) : Z := if lon =? FILL then lon else lon mod P.

(* _get_latlonbox_width *)
Definition c13_width (P lo hi : Z) : Z :=
  let lo := c13_norm P lo in let hi := c13_norm P hi in
  if lo <=? hi then hi - lo else P - lo + hi.

(* _insert_pt_in_latlonbox(old_box, [lat, lon]) with is_lon_periodic=True *)
Definition c13_insert (P H : Z) (b : c13_box) (lat lon : Z) : c13_box :=
  if (lat =? FILL) && (lon =? FILL) then b else
  let lonp := c13_norm P lon in
  let uninit_lat := (c13_lat_lo b =? FILL) && (c13_lat_hi b =? FILL) in
  let uninit_lon := (c13_lon_lo b =? FILL) && (c13_lon_hi b =? FILL) in
  let la0 := if uninit_lat then lat else c13_lat_lo b in
  let la1 := if uninit_lat then lat else c13_lat_hi b in
  let lo := if uninit_lon then lonp else c13_lon_lo b in
  let hi := if uninit_lon then lonp else c13_lon_hi b in
  if (lonp =? FILL) && ((lat =? H) || (lat =? - H)) then
    (* pole point: only the latitude bound is touched *)
    if lat =? H
    then {| c13_lat_lo := la0; c13_lat_hi := H; c13_lon_lo := lo; c13_lon_hi := hi |}
    else {| c13_lat_lo := - H; c13_lat_hi := la1; c13_lon_lo := lo; c13_lon_hi := hi |}
  else
    let la0' := Z.min la0 lat in
    let la1' := Z.max la1 lat in
    if ((hi <? lo) && ((lonp <? lo) && (hi <? lonp)))
       || ((lo <=? hi) && negb ((lo <=? lonp) && (lonp <=? hi)))
    then
      (* box_a = [lon_pt, hi], box_b = [lo, lon_pt]; keep the narrower one *)
      if c13_width P lonp hi <? c13_width P lo lonp
      then {| c13_lat_lo := la0'; c13_lat_hi := la1'; c13_lon_lo := lonp; c13_lon_hi := hi |}
      else {| c13_lat_lo := la0'; c13_lat_hi := la1'; c13_lon_lo := lo; c13_lon_hi := lonp |}
    else {| c13_lat_lo := la0'; c13_lat_hi := la1'; c13_lon_lo := lo; c13_lon_hi := hi |}.

Record c13_edge := {
  c13_lat1 : Z; c13_lon1 : Z;          (* first node of the edge *)
  c13_lat2 : Z;                        (* latitude of the second node *)
  c13_emax : Z; c13_emin : Z;          (* extreme_gca_latitude(edge, 'max' / 'min') *)
  c13_pole_here : bool                 (* allclose(n1, pole) or point_within_gca(pole, edge) *)
}.

(* normal face (since fix bb1965a6): for lat_ins in (node1_lat, lat_max, lat_min): insert [lat_ins, node1_lon] *)
Definition c13_step_normal (P H : Z) (b : c13_box) (e : c13_edge) : c13_box :=
  let b1 := c13_insert P H b (c13_lat1 e) (c13_lon1 e) in
  let b2 := c13_insert P H b1 (c13_emax e) (c13_lon1 e) in
  c13_insert P H b2 (c13_emin e) (c13_lon1 e).

Definition c13_bounds_normal (P H : Z) (es : list c13_edge) : c13_box :=
  fold_left (c13_step_normal P H) es c13_empty.

Definition c13_set_lat_hi (b : c13_box) (v : Z) : c13_box :=
  {| c13_lat_lo := c13_lat_lo b; c13_lat_hi := v; c13_lon_lo := c13_lon_lo b; c13_lon_hi := c13_lon_hi b |}.
Definition c13_set_lat_lo (b : c13_box) (v : Z) : c13_box :=
  {| c13_lat_lo := v; c13_lat_hi := c13_lat_hi b; c13_lon_lo := c13_lon_lo b; c13_lon_hi := c13_lon_hi b |}.
Definition c13_set_lon (b : c13_box) (lo hi : Z) : c13_box :=
  {| c13_lat_lo := c13_lat_lo b; c13_lat_hi := c13_lat_hi b; c13_lon_lo := lo; c13_lon_hi := hi |}.

(* pole branch: state = (box, is_center_pole) *)
Definition c13_step_pole (P H : Z) (north : bool) (st : c13_box * bool) (e : c13_edge) : c13_box * bool :=
  let '(b, center) := st in
  let '(b, center) :=
    if c13_pole_here e
    then (c13_insert P H b (if north then H else - H) FILL, false)
    else (b, center) in
  let b := c13_insert P H b (c13_lat1 e) (c13_lon1 e) in
  if north
  then (c13_set_lat_hi (c13_insert P H b (c13_emin e) (c13_lon1 e)) H, center)
  else (c13_set_lat_lo (c13_insert P H b (c13_emax e) (c13_lon1 e)) (- H), center).

Definition c13_bounds_pole (P H : Z) (north : bool) (es : list c13_edge) : c13_box :=
  let '(b, center) := fold_left (c13_step_pole P H north) es (c13_empty, true) in
  if center then c13_set_lon b 0 P else b.

(* _populate_face_latlon_bound *)
Definition c13_face_bounds (P H : Z) (has_north has_south : bool) (es : list c13_edge) : c13_box :=
  if has_north || has_south then c13_bounds_pole P H has_north es else c13_bounds_normal P H es.

(* ---- specification side ---- *)

(* x lies in the (possibly wrapping) longitude interval of the box *)
Definition c13_lon_in (b : c13_box) (x : Z) : bool :=
  if c13_lon_lo b <=? c13_lon_hi b
  then (c13_lon_lo b <=? x) && (x <=? c13_lon_hi b)
  else (c13_lon_lo b <=? x) || (x <=? c13_lon_hi b).

Definition c13_lat_in (b : c13_box) (x : Z) : bool := (c13_lat_lo b <=? x) && (x <=? c13_lat_hi b).

(* a geometrically sensible edge: extremes bracket both end latitudes, everything strictly between the poles'
   latitudes or equal to them, longitude not the fill value *)
Definition c13_edge_ok (H : Z) (e : c13_edge) : Prop :=
  - H <= c13_emin e /\ c13_emin e <= c13_lat1 e /\ c13_emin e <= c13_lat2 e /\
  c13_lat1 e <= c13_emax e /\ c13_lat2 e <= c13_emax e /\ c13_emax e <= H /\
  c13_lon1 e <> FILL.
