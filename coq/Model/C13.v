(* C13.v — executable model of the face latitude/longitude bounds of uxarray/grid/geometry.py:
     _get_latlonbox_width, _insert_pt_in_latlonbox, _populate_face_latlon_bound (normal branch and the
     pole branches).

   Angles are integers in a fixed unit (the harness uses 1e-15 degree); P is the full circle (2 pi),
   H = P/4 the pole latitude (pi/2).  The uninitialised value of the box is the fill value FILL exactly
   as in the code (np.full((2,2), INT_FILL_VALUE)).  The model mirrors the coded comparisons literally
   (same branch structure; defects included).  What it is parametrised by, per edge (DESIGN C13):
     - the extreme latitudes e_max / e_min of the great-circle edge (extreme_gca_latitude; tied to the
       C14 model: the harness checks them against c14_extreme_spec on every case),
     - whether the pole point is the edge's first node or lies on the edge (pole branches),
   and per face by has_north_pole / has_south_pole (_pole_point_inside_polygon).
   Definitions only. *)
From Verif Require Export Base.
From Verif Require Import C14_consts C14.

Record c13_box := {
  c13_lat_lo : Z; c13_lat_hi : Z;      (* face_latlon_array[0] *)
  c13_lon_lo : Z; c13_lon_hi : Z       (* face_latlon_array[1] *)
}.

Definition c13_empty : c13_box :=
  {| c13_lat_lo := FILL; c13_lat_hi := FILL; c13_lon_lo := FILL; c13_lon_hi := FILL |}.

(* np.mod(lon, 2 pi) unless lon is the fill value *)
Definition c13_norm (P lon : Z) : Z := if lon =? FILL then lon else lon mod P.

(* _get_latlonbox_width *)
Definition c13_width (P lo hi : Z) : Z :=
  let lo := c13_norm P lo in let hi := c13_norm P hi in
  if lo <=? hi then hi - lo else P - lo + hi.

(* _insert_pt_in_latlonbox(old_box, [lat, lon]) with is_lon_periodic=True *)
Definition c13_insert (P H : Z) (b : c13_box) (lat lon : Z) : c13_box :=
  if (lat =? FILL) && (lon =? FILL) then b else
  let lonp := c13_norm P lon in
  let uninit_lat := (c13_lat_lo b =? FILL) && (c13_lat_hi b =? FILL) in
  let uninit_lon := (c13_lon_lo b =? FILL) && (c13_lon_hi b =? FILL) in
  let la0 := if uninit_lat then lat else c13_lat_lo b in
  let la1 := if uninit_lat then lat else c13_lat_hi b in
  let lo := if uninit_lon then lonp else c13_lon_lo b in
  let hi := if uninit_lon then lonp else c13_lon_hi b in
  if (lonp =? FILL) && ((lat =? H) || (lat =? - H)) then
    (* pole point: only the latitude bound is touched *)
    if lat =? H
    then {| c13_lat_lo := la0; c13_lat_hi := H; c13_lon_lo := lo; c13_lon_hi := hi |}
    else {| c13_lat_lo := - H; c13_lat_hi := la1; c13_lon_lo := lo; c13_lon_hi := hi |}
  else
    let la0' := Z.min la0 lat in
    let la1' := Z.max la1 lat in
    if ((hi <? lo) && ((lonp <? lo) && (hi <? lonp)))
       || ((lo <=? hi) && negb ((lo <=? lonp) && (lonp <=? hi)))
    then
      (* box_a = [lon_pt, hi], box_b = [lo, lon_pt]; keep the narrower one *)
      if c13_width P lonp hi <? c13_width P lo lonp
      then {| c13_lat_lo := la0'; c13_lat_hi := la1'; c13_lon_lo := lonp; c13_lon_hi := hi |}
      else {| c13_lat_lo := la0'; c13_lat_hi := la1'; c13_lon_lo := lo; c13_lon_hi := lonp |}
    else {| c13_lat_lo := la0'; c13_lat_hi := la1'; c13_lon_lo := lo; c13_lon_hi := hi |}.

Record c13_edge := {
  c13_lat1 : Z; c13_lon1 : Z;          (* first node of the edge *)
  c13_lat2 : Z;                        (* latitude of the second node *)
  c13_emax : Z; c13_emin : Z;          (* extreme_gca_latitude(edge, 'max' / 'min') *)
  c13_pole_here : bool                 (* allclose(n1, pole) or point_within_gca(pole, edge) *)
}.

(* normal face (since fix bb1965a6): for lat_ins in (node1_lat, lat_max, lat_min): insert [lat_ins, node1_lon] *)
Definition c13_step_normal (P H : Z) (b : c13_box) (e : c13_edge) : c13_box :=
  let b1 := c13_insert P H b (c13_lat1 e) (c13_lon1 e) in
  let b2 := c13_insert P H b1 (c13_emax e) (c13_lon1 e) in
  c13_insert P H b2 (c13_emin e) (c13_lon1 e).

Definition c13_bounds_normal (P H : Z) (es : list c13_edge) : c13_box :=
  fold_left (c13_step_normal P H) es c13_empty.

Definition c13_set_lat_hi (b : c13_box) (v : Z) : c13_box :=
  {| c13_lat_lo := c13_lat_lo b; c13_lat_hi := v; c13_lon_lo := c13_lon_lo b; c13_lon_hi := c13_lon_hi b |}.
Definition c13_set_lat_lo (b : c13_box) (v : Z) : c13_box :=
  {| c13_lat_lo := v; c13_lat_hi := c13_lat_hi b; c13_lon_lo := c13_lon_lo b; c13_lon_hi := c13_lon_hi b |}.
Definition c13_set_lon (b : c13_box) (lo hi : Z) : c13_box :=
  {| c13_lat_lo := c13_lat_lo b; c13_lat_hi := c13_lat_hi b; c13_lon_lo := lo; c13_lon_hi := hi |}.

(* pole branch: state = (box, is_center_pole) *)
Definition c13_step_pole (P H : Z) (north : bool) (st : c13_box * bool) (e : c13_edge) : c13_box * bool :=
  let '(b, center) := st in
  let '(b, center) :=
    if c13_pole_here e
    then (c13_insert P H b (if north then H else - H) FILL, false)
    else (b, center) in
  let b := c13_insert P H b (c13_lat1 e) (c13_lon1 e) in
  if north
  then (c13_set_lat_hi (c13_insert P H b (c13_emin e) (c13_lon1 e)) H, center)
  else (c13_set_lat_lo (c13_insert P H b (c13_emax e) (c13_lon1 e)) (- H), center).

Definition c13_bounds_pole (P H : Z) (north : bool) (es : list c13_edge) : c13_box :=
  let '(b, center) := fold_left (c13_step_pole P H north) es (c13_empty, true) in
  if center then c13_set_lon b 0 P else b.

(* _populate_face_latlon_bound *)
Definition c13_face_bounds (P H : Z) (has_north has_south : bool) (es : list c13_edge) : c13_box :=
  if has_north || has_south then c13_bounds_pole P H has_north es else c13_bounds_normal P H es.

(* ---- specification side ---- *)

(* x lies in the (possibly wrapping) longitude interval of the box *)
Definition c13_lon_in (b : c13_box) (x : Z) : bool :=
  if c13_lon_lo b <=? c13_lon_hi b
  then (c13_lon_lo b <=? x) && (x <=? c13_lon_hi b)
  else (c13_lon_lo b <=? x) || (x <=? c13_lon_hi b).

Definition c13_lat_in (b : c13_box) (x : Z) : bool := (c13_lat_lo b <=? x) && (x <=? c13_lat_hi b).

(* a geometrically sensible edge: extremes bracket both end latitudes, everything strictly between the poles'
   latitudes or equal to them, longitude not the fill value *)
Definition c13_edge_ok (H : Z) (e : c13_edge) : Prop :=
  - H <= c13_emin e /\ c13_emin e <= c13_lat1 e /\ c13_emin e <= c13_lat2 e /\
  c13_lat1 e <= c13_emax e /\ c13_lat2 e <= c13_emax e /\ c13_emax e <= H /\
  c13_lon1 e <> FILL.

(* ------------------------------------------------------------------------------------------ *)
(* pole containment as coded: _classify_polygon_location, the reference arcs pole -> REFERENCE_POINT_EQUATOR = (1,0,0),
   _check_intersection (intersections of the reference arc with every edge through the C14 model of
   gca_gca_intersection; a hit at the pole returns True = 1; unique points; a single unique hit that coincides with a
   node counts 0) and _pole_point_inside_polygon (parity; 'Equator' location: both reference arcs against every edge,
   since f56f1f5f).  Faces are lists of edges of integer direction vectors.  allclose(point, node) is idealised to
   "same direction".  None = the code raises.  c13_pole_in_face is the exact specification for a convex
   counter-clockwise face: the pole is strictly on the inner side of every edge. *)
Definition c13_same_dir (u v : c14_vec) : bool := c14_is0 (c14_cross u v) && (0 <? c14_dot u v).

Fixpoint c13_uniq (l : list c14_vec) : list c14_vec :=
  match l with
  | [] => []
  | x :: r => x :: filter (fun y => negb (c13_same_dir x y)) (c13_uniq r)
  end.

Definition c13_fedge := (c14_vec * c14_vec)%type.

Definition c13_NPOLE : c14_vec := (0, 0, 1).
Definition c13_SPOLE : c14_vec := (0, 0, -1).
Definition c13_REF : c14_vec := (1, 0, 0).

Fixpoint c13_collect (pole : c14_vec) (edges : list c13_fedge) (acc : list c14_vec) : option (bool * list c14_vec) :=
  match edges with
  | [] => Some (false, acc)
  | (a, b) :: es =>
      match c14_gca_gca pole c13_REF a b with
      | None => None
      | Some l => if existsb (c13_same_dir pole) l then Some (true, acc) else c13_collect pole es (acc ++ l)
      end
  end.

Definition c13_check_intersection (pole : c14_vec) (edges : list c13_fedge) : option Z :=
  match c13_collect pole edges [] with
  | None => None
  | Some (true, _) => Some 1
  | Some (false, pts) =>
      let u := c13_uniq pts in
      match u with
      | [p] => if existsb (fun e => c13_same_dir p (fst e) || c13_same_dir p (snd e)) edges then Some 0 else Some 1
      | _ => Some (Z.of_nat (length u))
      end
  end.

Inductive c13_loc := c13_North | c13_South | c13_Equator.
Definition c13_location (edges : list c13_fedge) : c13_loc :=
  if forallb (fun e => (0 <? c14_z (fst e)) && (0 <? c14_z (snd e))) edges then c13_North
  else if forallb (fun e => (c14_z (fst e) <? 0) && (c14_z (snd e) <? 0)) edges then c13_South
  else c13_Equator.

Definition c13_pole_inside (north : bool) (edges : list c13_fedge) : option bool :=
  let pole := if north then c13_NPOLE else c13_SPOLE in
  match c13_location edges, north with
  | c13_North, true | c13_South, false =>
      match c13_check_intersection pole edges with None => None | Some k => Some (negb (k mod 2 =? 0)) end
  | c13_Equator, _ =>
      match c13_check_intersection pole edges, c13_check_intersection (c14_neg pole) edges with
      | Some k1, Some k2 => Some (negb ((k1 + k2) mod 2 =? 0))
      | _, _ => None
      end
  | _, _ => Some false
  end.

Definition c13_cycle (vs : list c14_vec) : list c13_fedge :=
  match vs with [] => [] | x :: r => combine vs (r ++ [x]) end.

Definition c13_pole_in_face (pole : c14_vec) (edges : list c13_fedge) : bool :=
  forallb (fun e => 0 <? c14_triple (fst e) (snd e) pole) edges.

