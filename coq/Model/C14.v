(* C14.v — executable exact-arithmetic model of the spherical arc primitives of
     uxarray/grid/arcs.py (point_within_gca / _point_within_gca_body, extreme_gca_latitude) and
     uxarray/grid/intersections.py (gca_gca_intersection).

   Points of the sphere are represented by integer DIRECTION vectors v (the point is v/|v|), i.e.
   homogeneous coordinates of rational points: every predicate below is invariant under positive
   scaling (theorem C14_on_arc_scale), so a rational point (x/d, y/d, z/d) is represented by (x,y,z).

   Two layers:
   (S) the exact SPECIFICATION ("rational-arithmetic oracle"): c14_on_arc, c14_arc_cross,
       c14_extreme_spec — sign tests of triple products only.
   (F) the FAITHFUL model of what the code does (point_within_gca undirected = on-plane test + two sign tests since
       a3bf7a7f; the older longitude-interval logic is kept as c14_pwg_lonlat), branch by branch, with every float operation
       replaced by the exact one: longitudes are compared as angles of (x,y) in [0,2pi) by exact sign
       tests, latitudes through sin(lat) = z/|v| by sign-aware squared comparison, the pole snap
       |z| > 1 - ERROR_TOLERANCE, the plane test |n.p|/|n| <= ERROR_TOLERANCE and the parallel test <= MACHINE_EPSILON use the exact values of
       the two constants (Gen/C14_consts.v, regenerated from constants.py).  Tests of the form
       isclose(lon1, lon2) are idealised to equality of the exact angles.
   Definitions only. *)
From Verif Require Export Base.
From Verif Require Import C14_consts.

Definition c14_vec := (Z * Z * Z)%type.
Definition c14_x (v : c14_vec) : Z := fst (fst v).
Definition c14_y (v : c14_vec) : Z := snd (fst v).
Definition c14_z (v : c14_vec) : Z := snd v.

Definition c14_dot (u v : c14_vec) : Z :=
  c14_x u * c14_x v + c14_y u * c14_y v + c14_z u * c14_z v.
Definition c14_cross (u v : c14_vec) : c14_vec :=
  (c14_y u * c14_z v - c14_z u * c14_y v,
   c14_z u * c14_x v - c14_x u * c14_z v,
   c14_x u * c14_y v - c14_y u * c14_x v).
Definition c14_triple (a b p : c14_vec) : Z := c14_dot (c14_cross a b) p.
Definition c14_nsq (v : c14_vec) : Z := c14_dot v v.
Definition c14_neg (v : c14_vec) : c14_vec := (- c14_x v, - c14_y v, - c14_z v).
Definition c14_scale (k : Z) (v : c14_vec) : c14_vec := (k * c14_x v, k * c14_y v, k * c14_z v).
Definition c14_add (u v : c14_vec) : c14_vec := (c14_x u + c14_x v, c14_y u + c14_y v, c14_z u + c14_z v).
Definition c14_is0 (v : c14_vec) : bool := (c14_x v =? 0) && (c14_y v =? 0) && (c14_z v =? 0).

(* rotation about the polar axis by the rational angle (c/r, s/r), c^2+s^2 = r^2, r > 0, scaled by r *)
Definition c14_zrot (c s r : Z) (v : c14_vec) : c14_vec :=
  (c * c14_x v - s * c14_y v, s * c14_x v + c * c14_y v, r * c14_z v).

(* ------------------------------------------------------------------------------------------ *)
(* (S) specification                                                                            *)

(* p (a direction) lies on the minor arc a..b (0 < arc < 180 deg): on the great circle, and
   counter-clockwise after a and before b, seen from the normal a x b *)
Definition c14_on_arc (a b p : c14_vec) : bool :=
  let n := c14_cross a b in
  (c14_triple a b p =? 0) && (0 <=? c14_dot (c14_cross a p) n) && (0 <=? c14_dot (c14_cross p b) n).

(* common points of the arcs a..b and c..d lying on different great circles: the candidates are
   +-(n1 x n2) *)
Definition c14_arc_cross (a b c d : c14_vec) : list c14_vec :=
  let x := c14_cross (c14_cross a b) (c14_cross c d) in
  if c14_is0 x then [] else
  (if c14_on_arc a b x && c14_on_arc c d x then [x] else []) ++
  (if c14_on_arc a b (c14_neg x) && c14_on_arc c d (c14_neg x) then [c14_neg x] else []).

(* a latitude is represented by (s, q), q > 0, meaning sin(lat) = s / sqrt q *)
Definition c14_lat := (Z * Z)%type.
Definition c14_lat_of (v : c14_vec) : c14_lat := (c14_z v, c14_nsq v).

(* s1/sqrt q1 <= s2/sqrt q2 *)
Definition c14_lat_le (l1 l2 : c14_lat) : bool :=
  let '(s1, q1) := l1 in let '(s2, q2) := l2 in
  if s1 <=? 0 then
    if 0 <=? s2 then true else s2 * s2 * q1 <=? s1 * s1 * q2
  else
    if s2 <=? 0 then false else s1 * s1 * q2 <=? s2 * s2 * q1.

Definition c14_lat_max (l1 l2 : c14_lat) : c14_lat := if c14_lat_le l1 l2 then l2 else l1.
Definition c14_lat_min (l1 l2 : c14_lat) : c14_lat := if c14_lat_le l1 l2 then l1 else l2.

(* the point of largest latitude of the great circle with normal n:  |n|^2 e_z - n_z n *)
Definition c14_apex (n : c14_vec) : c14_vec :=
  (- c14_z n * c14_x n, - c14_z n * c14_y n, c14_nsq n - c14_z n * c14_z n).

(* largest / smallest latitude over the arc: an endpoint, or the apex when it lies on the arc *)
Definition c14_extreme_spec (a b : c14_vec) (is_max : bool) : c14_lat :=
  let n := c14_cross a b in
  let top := if is_max then c14_apex n else c14_neg (c14_apex n) in
  let pick := if is_max then c14_lat_max else c14_lat_min in
  let e := pick (c14_lat_of a) (c14_lat_of b) in
  if negb (c14_is0 top) && c14_on_arc a b top then pick e (c14_lat_of top) else e.

(* ------------------------------------------------------------------------------------------ *)
(* (F) faithful model                                                                           *)

(* _xyz_to_lonlat_rad_scalar: z_mask = |z| > 1 - ERROR_TOLERANCE  (the point is v/|v|) *)
Definition c14_is_pole (v : c14_vec) : bool :=
  let m := c14_TOL_den - c14_TOL_num in
  m * m * c14_nsq v <? c14_z v * c14_z v * (c14_TOL_den * c14_TOL_den).

(* lat = where(z_mask, sign(z)*pi/2, asin z) *)
Definition c14_lat_f (v : c14_vec) : c14_lat :=
  if c14_is_pole v then (Z.sgn (c14_z v), 1) else c14_lat_of v.

(* lon = where(z_mask, 0, atan2(y,x) mod 2pi): represented by a direction in the plane *)
Definition c14_lon := (Z * Z)%type.
Definition c14_lon_f (v : c14_vec) : c14_lon :=
  if c14_is_pole v then (1, 0)
  else if (c14_x v =? 0) && (c14_y v =? 0) then (1, 0) else (c14_x v, c14_y v).

Definition c14_cross2 (u v : c14_lon) : Z := fst u * snd v - snd u * fst v.
Definition c14_dot2 (u v : c14_lon) : Z := fst u * fst v + snd u * snd v.
(* angle in [0, pi) *)
Definition c14_upper (u : c14_lon) : bool := (0 <? snd u) || ((snd u =? 0) && (0 <? fst u)).
(* angle(u) <= angle(v), angles in [0, 2pi) *)
Definition c14_lon_le (u v : c14_lon) : bool :=
  match c14_upper u, c14_upper v with
  | true, false => true
  | false, true => false
  | _, _ => 0 <=? c14_cross2 u v
  end.
Definition c14_lon_eq (u v : c14_lon) : bool := (c14_cross2 u v =? 0) && (0 <? c14_dot2 u v).
(* |lon1 - lon0| = pi *)
Definition c14_lon_anti (u v : c14_lon) : bool := (c14_cross2 u v =? 0) && (c14_dot2 u v <? 0).

(* in_between(p, q, r) = p <= q <= r or r <= q <= p *)
Definition c14_lon_between (p q r : c14_lon) : bool :=
  (c14_lon_le p q && c14_lon_le q r) || (c14_lon_le r q && c14_lon_le q p).
Definition c14_lat_between (p q r : c14_lat) : bool :=
  (c14_lat_le p q && c14_lat_le q r) || (c14_lat_le r q && c14_lat_le q p).

Definition c14_NP : c14_lat := (1, 1).
Definition c14_SP : c14_lat := (-1, 1).
Definition c14_lat_abs (l : c14_lat) : c14_lat := (Z.abs (fst l), snd l).
Definition c14_lat_pos (l : c14_lat) : bool := 0 <? fst l.
Definition c14_lat_negv (l : c14_lat) : bool := fst l <? 0.

(* _decide_pole_latitude(lat1, lat2):  lat_extend < pi  <->  |lat2| < |lat1|: the pole on lat1's side, otherwise
   the pole on lat2's side *)
Definition c14_decide_pole (l1 l2 : c14_lat) : c14_lat :=
  if negb (c14_lat_le (c14_lat_abs l1) (c14_lat_abs l2))
  then (if c14_lat_pos l1 then c14_NP else c14_SP)
  else (if c14_lat_pos l2 then c14_NP else c14_SP).

(* cross_product = cross(a,b) / |cross(a,b)|;  allclose(dot(cross_product, p), 0, rtol=ERROR_TOLERANCE, atol=ERROR_TOLERANCE)
   for the unit point p/|p| (since fix 5fda323f): the sine of the angular distance of p from the great circle is at most
   ERROR_TOLERANCE.  For a x b = 0 the float normal is nan and the test fails. *)
Definition c14_plane_ok (a b p : c14_vec) : bool :=
  let t := c14_triple a b p in
  negb (c14_is0 (c14_cross a b)) &&
  (t * t * (c14_TOL_den * c14_TOL_den) <=? c14_TOL_num * c14_TOL_num * (c14_nsq (c14_cross a b) * c14_nsq p)).

(* the arc is exactly 180 degrees: ValueError *)
Definition c14_antipodal (a b : c14_vec) : bool := c14_is0 (c14_cross a b) && (c14_dot a b <? 0).

(* HISTORICAL: the longitude/latitude interval logic point_within_gca used for undirected arcs before the fix a3bf7a7f
   (it survives in the code only for is_directed=True, with a different last branch).  Kept because the theorems
   C14_old_lonlat_* document where it was right and where it was not. *)
Definition c14_pwg_lonlat (a b p : c14_vec) : option bool :=
  if c14_antipodal a b then None else
  if negb (c14_plane_ok a b p) then Some false else
  let la := c14_lon_f a in let lb := c14_lon_f b in let lp := c14_lon_f p in
  let ta := c14_lat_f a in let tb := c14_lat_f b in let tp := c14_lat_f p in
  if c14_lon_eq la lb then
    (* both endpoints on one meridian half *)
    Some (if c14_lon_eq la lp then c14_lat_between ta tp tb else false)
  else if c14_lon_anti la lb || c14_is_pole a || c14_is_pole b then
    (* the arc passes through a pole / has an endpoint at a pole *)
    let lp := if c14_is_pole p then la else lp in
    let bad_side :=
      if c14_is_pole a || c14_is_pole b then
        if negb (c14_is_pole a) then negb (c14_lon_eq la lp)
        else if negb (c14_is_pole b) then negb (c14_lon_eq lb lp)
        else false
      else false in
    if bad_side then Some false
    else if negb (c14_lon_eq la lp) && negb (c14_lon_eq lb lp) then Some false
    else
      let pole :=
        if (c14_lat_pos ta && c14_lat_pos tb) || (c14_lat_negv ta && c14_lat_negv tb)
        then (if c14_lat_pos ta then c14_NP else c14_SP)
        else c14_decide_pole ta tb in
      Some (c14_lat_between ta tp pole || c14_lat_between pole tp tb)
  else
    (* undirected case: sort the longitudes *)
    let mn := if c14_lon_le la lb then la else lb in
    let mx := if c14_lon_le la lb then lb else la in
    if 0 <? c14_cross2 mn mx            (* pi > max - min >= 0 *)
    then Some (c14_lon_between la lp lb)
    else Some (c14_lon_le mx lp || c14_lon_le lp mn).

(* dot(cross(v0, p), n) >= -MACHINE_EPSILON for the unit vectors v0, p and the unit normal n:
   X = (v0 x p).(a x b) on the integer directions, q = |v0|^2 |p|^2 |a x b|^2 *)
Definition c14_side_ok (X q : Z) : bool :=
  (0 <=? X) || (X * X * (c14_EPS_den * c14_EPS_den) <=? c14_EPS_num * c14_EPS_num * q).

(* point_within_gca(pt, [a, b], is_directed=False) since a3bf7a7f: the 180-degree check, the on-plane test, then the two
   sign tests "p on the b side of a" and "p on the a side of b".  None = raises ValueError *)
Definition c14_pwg (a b p : c14_vec) : option bool :=
  if c14_antipodal a b then None else
  if negb (c14_plane_ok a b p) then Some false else
  let n := c14_cross a b in
  Some (c14_side_ok (c14_dot (c14_cross a p) n) (c14_nsq a * c14_nsq p * c14_nsq n) &&
        c14_side_ok (c14_dot (c14_cross p b) n) (c14_nsq p * c14_nsq b * c14_nsq n)).

(* allclose(cross_norms, 0, atol=EPS) for cross_norms = (w0 x w1) x (v0 x v1) of unit vectors *)
Definition c14_small (x q : Z) : bool :=
  x * x * (c14_EPS_den * c14_EPS_den) <=? c14_EPS_num * c14_EPS_num * q.

Definition c14_opt_cons (c : option bool) (v : c14_vec) (rest : option (list c14_vec)) : option (list c14_vec) :=
  match c, rest with
  | Some true, Some l => Some (v :: l)
  | Some false, Some l => Some l
  | _, _ => None
  end.
Definition c14_opt_and (c1 c2 : option bool) : option bool :=
  match c1 with
  | None => None
  | Some false => Some false
  | Some true => c2
  end.

(* gca_gca_intersection([w0,w1],[v0,v1]); None = raises *)
Definition c14_gca_gca (w0 w1 v0 v1 : c14_vec) : option (list c14_vec) :=
  let x := c14_cross (c14_cross w0 w1) (c14_cross v0 v1) in
  let q := c14_nsq w0 * c14_nsq w1 * c14_nsq v0 * c14_nsq v1 in
  if c14_small (c14_x x) q && c14_small (c14_y x) q && c14_small (c14_z x) q then
    c14_opt_cons (c14_pwg w0 w1 v0) v0 (c14_opt_cons (c14_pwg w0 w1 v1) v1 (Some []))
  else
    c14_opt_cons (c14_opt_and (c14_pwg w0 w1 x) (c14_pwg v0 v1 x)) x
      (c14_opt_cons (c14_opt_and (c14_pwg w0 w1 (c14_neg x)) (c14_pwg v0 v1 (c14_neg x))) (c14_neg x) (Some [])).

(* extreme_gca_latitude([n1, n2], 'max'|'min') for exactly unit rational endpoints a/da, b/db
   (|a|^2 = da^2, |b|^2 = db^2, da, db > 0):
     d_a_max = (z1*dot - z2) / ((z1 + z2)*(dot - 1))          = num*db / den   below
     if 0 < d_a_max < 1: node3 = (1-d) n1 + d n2; max/min(asin z3, lat1, lat2) else max/min(lat1, lat2)
   (the np.clip near 0 and 1 does not change which branch is taken; division by zero gives
   inf/nan in floats, for which 0 < d < 1 is false) *)
Definition c14_extreme (a : c14_vec) (da : Z) (b : c14_vec) (db : Z) (is_max : bool) : c14_lat :=
  let dt := c14_dot a b in
  let num := (c14_z a * dt - c14_z b * (da * da)) * db in
  let den := (c14_z a * db + c14_z b * da) * (dt - da * db) in
  let pick := if is_max then c14_lat_max else c14_lat_min in
  let e := pick (c14_lat_f a) (c14_lat_f b) in
  let inside := if den =? 0 then false
                else if 0 <? den then (0 <? num) && (num <? den)
                else (num <? 0) && (den <? num) in
  if inside then
    (* direction of node3, multiplied by the positive number |den|*da*db *)
    let sg := Z.sgn den in
    let node3 := c14_add (c14_scale (sg * (den - num) * db) a) (c14_scale (sg * num * da) b) in
    (* max(d_lat_rad, lat_n1, lat_n2) *)
    pick (pick (c14_lat_of node3) (c14_lat_f a)) (c14_lat_f b)
  else e.
