(* C06.v — executable model of UxDataArray.integrate (uxarray/core/dataarray.py):
     dims[-1] == "n_node" / "n_edge" raise first (since fix 3b40859b), then dispatch on
     values.shape[-1] against n_face / n_node / n_edge (in that order),
     np.einsum("i,...i", face_areas, values), result built with dims[:-1], the same name and grid.
   Arrays are row-major flat lists with a shape; numbers are integers over a common power-of-two
   denominator chosen by the caller (every float is a dyadic rational, so areas and data are
   represented exactly; a commutative ring is all the theorems use).  Dimension names are codes:
   0 = "n_face", 1 = "n_node", 2 = "n_edge", >= 3 any other name.  Definitions only. *)
From Verif Require Export Base.

Record c06_arr := {
  c06_shape : list Z;
  c06_dims : list Z;
  c06_name : Z;            (* the variable's name, as a token *)
  c06_grid : Z;            (* identity of the attached grid, as a token *)
  c06_data : list Z        (* row-major values *)
}.

Record c06_counts := { c06_nface : Z; c06_nnode : Z; c06_nedge : Z }.

Inductive c06_result :=
| C06_ok (a : c06_arr)
| C06_index_error            (* 0-d data: shape[-1] raises IndexError *)
| C06_node_error             (* "Integrating data mapped to each node not yet supported." *)
| C06_edge_error             (* "... each edge ..." *)
| C06_size_error.            (* "The final dimension of the data variable does not match ..." *)

Definition c06_prod (l : list Z) : Z := fold_right Z.mul 1 l.

(* sum_f areas[f] * row[f]  (einsum "i,i") *)
Fixpoint c06_dot (areas row : list Z) : Z :=
  match areas, row with
  | a :: areas', x :: row' => a * x + c06_dot areas' row'
  | _, _ => 0
  end.

(* the k rows of length m of a row-major array *)
Fixpoint c06_rows (m k : nat) (l : list Z) : list (list Z) :=
  match k with
  | O => []
  | S k' => firstn m l :: c06_rows m k' (skipn m l)
  end.

(* np.einsum("i,...i", areas, values) on the flat representation *)
Definition c06_einsum (areas : list Z) (shape : list Z) (data : list Z) : list Z :=
  let m := Z.to_nat (last shape 0) in
  let k := Z.to_nat (c06_prod (removelast shape)) in
  map (c06_dot areas) (c06_rows m k data).

(* byname = true: the code as it is (since fix 3b40859b): a last dimension NAMED n_node / n_edge is
   rejected before sizes are compared (0-d data: dims[-1] raises IndexError first).
   byname = false: the code before the fix (size dispatch only), kept as a record of the defect. *)
Definition c06_integrate (byname : bool) (g : c06_counts) (areas : list Z) (a : c06_arr) : c06_result :=
  match rev (c06_shape a) with
  | [] => C06_index_error
  | lastsz :: _ =>
      let lastname := last (c06_dims a) 3 in
      if byname && (lastname =? 1) then C06_node_error
      else if byname && (lastname =? 2) then C06_edge_error
      else if lastsz =? c06_nface g then
        C06_ok {| c06_shape := removelast (c06_shape a);
                  c06_dims := removelast (c06_dims a);
                  c06_name := c06_name a;
                  c06_grid := c06_grid a;
                  c06_data := c06_einsum areas (c06_shape a) (c06_data a) |}
      else if lastsz =? c06_nnode g then C06_node_error
      else if lastsz =? c06_nedge g then C06_edge_error
      else C06_size_error
  end.

(* UxDataArray.integrate of the current tree *)
Definition c06_integrate_cur : c06_counts -> list Z -> c06_arr -> c06_result := c06_integrate true.

(* ---- specification side ---- *)

(* sum_{f < n} h f *)
Fixpoint c06_sum (h : nat -> Z) (n : nat) : Z :=
  match n with
  | O => 0
  | S n' => c06_sum h n' + h n'
  end.

Definition c06_wf (a : c06_arr) : Prop :=
  Forall (fun s => 0 <= s) (c06_shape a)
  /\ length (c06_dims a) = length (c06_shape a)
  /\ Z.of_nat (length (c06_data a)) = c06_prod (c06_shape a).

(* alpha * x + beta * y, entry by entry *)
Fixpoint c06_lincomb (al be : Z) (x y : list Z) : list Z :=
  match x, y with
  | u :: x', v :: y' => (al * u + be * v) :: c06_lincomb al be x' y'
  | _, _ => []
  end.

Definition c06_with_data (a : c06_arr) (d : list Z) : c06_arr :=
  {| c06_shape := c06_shape a; c06_dims := c06_dims a; c06_name := c06_name a; c06_grid := c06_grid a;
     c06_data := d |}.

(* ---- more of the specification side (round 4) ---- *)

(* the area of the faces selected by a 0/1 mask (what integrating boolean data must give) *)
Fixpoint c06_mask_sum (areas mask : list Z) : Z :=
  match areas, mask with
  | a :: areas', m :: mask' => (if m =? 0 then 0 else a) + c06_mask_sum areas' mask'
  | _, _ => 0
  end.

(* ---- the grid object as integrate sees it: what is stored on it never enters the integral ---- *)
Record c06_gstate := {
  c06_stored_areas : option (list Z);     (* _ds["face_areas"]: derived, supplied by the source, or assigned *)
  c06_stored_jac : option (list Z)        (* _face_jacobian *)
}.

Inductive c06_gop :=
| C06_op_integrate (rule order : Z) (a : c06_arr)
| C06_op_compute (rule order : Z)                (* compute_face_areas(rule, order): stores nothing *)
| C06_op_read_face_areas                         (* caches the default computation when nothing is stored *)
| C06_op_assign_face_areas (l : list Z).         (* grid.face_areas = ... *)

Section GridMachine.
  (* compute_face_areas(rule, order) on the grid's current coordinates (C05's model), as scaled integers *)
  Variable areas_of : Z -> Z -> list Z.
  Variable g : c06_counts.
  Variables default_rule default_order : Z.

  (* integrate(rule, order) on a grid in state s: the weights are computed afresh *)
  Definition c06_integrate_grid (s : c06_gstate) (rule order : Z) (a : c06_arr) : c06_result :=
    c06_integrate_cur g (areas_of rule order) a.

  Definition c06_gstep (s : c06_gstate) (o : c06_gop) : c06_gstate :=
    match o with
    | C06_op_integrate _ _ _ => s
    | C06_op_compute _ _ => s
    | C06_op_read_face_areas =>
        match c06_stored_areas s with
        | Some _ => s
        | None => {| c06_stored_areas := Some (areas_of default_rule default_order);
                     c06_stored_jac := c06_stored_jac s |}
        end
    | C06_op_assign_face_areas l => {| c06_stored_areas := Some l; c06_stored_jac := c06_stored_jac s |}
    end.

  Definition c06_grun (s : c06_gstate) (ops : list c06_gop) : c06_gstate := fold_left c06_gstep ops s.
End GridMachine.
