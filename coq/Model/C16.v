(* C16.v — executable model of
     uxarray/grid/neighbors.py : _populate_edge_node_distances / _construct_edge_node_distances,
                                 _populate_edge_face_distances / _construct_edge_face_distances
     uxarray/core/gradient.py  : _calculate_edge_face_difference, _calculate_edge_node_difference,
                                 _calculate_grad_on_edge_from_faces
     uxarray/grid/grid.py      : Grid.edge_node_distances / edge_face_distances (pass-through of
                                 source-supplied tables)

   Part 1 (exact, over Q and Z, extracted): differences and gradients on rational data, along any
   number of leading dimensions; the *plan* of a distance table: for every edge which coordinate
   arrays are read at which two indices (node coordinates for edge_node_distances, face centres
   for edge_face_distances since /repo commit bc905d22).
   Part 2 (over R, for theorems): the spherical law of cosines, the distance tables, the l2
   normalisation.
   Definitions only. *)
From Coq Require Import QArith Qabs Reals.
From Verif Require Export Base.

(* ------------------------------------------------------------------------------------------ *)
(* Part 1                                                                                        *)
Open Scope Z_scope.

(* which coordinate arrays a distance kernel is handed *)
Inductive c16_src := SNode | SFace.

(* one entry of a distance table: geodesic between elements i and j of the arrays `src`,
   or the constant zero (boundary edge), or a table entry copied from the source *)
Inductive c16_entry :=
| EGeo (s : c16_src) (i j : Z)
| EZero
| ESupplied (e : nat).

(* _construct_edge_node_distances: both nodes of every edge *)
Definition c16_end_plan (edge_nodes : list (Z * Z)) : list c16_entry :=
  map (fun p => EGeo SNode (fst p) (snd p)) edge_nodes.

(* _construct_edge_face_distances handed the coordinate arrays `s`:
   saddle_mask = edge_faces[:,1] != FILL; zeros elsewhere *)
Definition c16_efd_plan_of (s : c16_src) (edge_faces : list (Z * Z)) : list c16_entry :=
  map (fun p => if is_fill (snd p) then EZero else EGeo s (fst p) (snd p)) edge_faces.

(* _populate_edge_face_distances: grid.face_lon / grid.face_lat *)
Definition c16_efd_plan (edge_faces : list (Z * Z)) : list c16_entry := c16_efd_plan_of SFace edge_faces.

(* the Grid getters: a table the source supplied is returned as it is *)
Definition c16_supplied_plan (n_edge : nat) : list c16_entry := map ESupplied (seq 0 n_edge).

Definition c16_grid_end (supplied : bool) (edge_nodes : list (Z * Z)) : list c16_entry :=
  if supplied then c16_supplied_plan (length edge_nodes) else c16_end_plan edge_nodes.
Definition c16_grid_efd (supplied : bool) (edge_faces : list (Z * Z)) : list c16_entry :=
  if supplied then c16_supplied_plan (length edge_faces) else c16_efd_plan edge_faces.

(* data values: exact rationals; reading d_var[..., i] *)
Definition c16_at (d : list Q) (i : Z) : Q := nth (Z.to_nat i) d 0%Q.

(* _calculate_edge_face_difference on the last axis: zeros, then the saddle entries, then abs *)
Definition c16_edge_face_diff (d : list Q) (edge_faces : list (Z * Z)) : list Q :=
  map (fun p => if is_fill (snd p) then Qabs 0
                else Qabs (c16_at d (fst p) - c16_at d (snd p))%Q) edge_faces.

(* _calculate_edge_node_difference *)
Definition c16_edge_node_diff (d : list Q) (edge_nodes : list (Z * Z)) : list Q :=
  map (fun p => Qabs (c16_at d (fst p) - c16_at d (snd p))%Q) edge_nodes.

(* _calculate_grad_on_edge_from_faces(normalize=False): the difference, divided by the
   edge_face_distances on the saddle edges only *)
Fixpoint c16_grad (diff : list Q) (edge_faces : list (Z * Z)) (dist : list Q) : list Q :=
  match diff, edge_faces, dist with
  | g :: diff', p :: ef', D :: dist' =>
      (if is_fill (snd p) then g else (g / D)%Q) :: c16_grad diff' ef' dist'
  | _, _, _ => []
  end.

Definition c16_gradient (d : list Q) (edge_faces : list (Z * Z)) (dist : list Q) : list Q :=
  c16_grad (c16_edge_face_diff d edge_faces) edge_faces dist.

(* leading dimensions: the data are rows (one per combination of leading indices) *)
Definition c16_edge_face_diff_nd (rows : list (list Q)) (ef : list (Z * Z)) : list (list Q) :=
  map (fun d => c16_edge_face_diff d ef) rows.
Definition c16_edge_node_diff_nd (rows : list (list Q)) (en : list (Z * Z)) : list (list Q) :=
  map (fun d => c16_edge_node_diff d en) rows.
Definition c16_gradient_nd (rows : list (list Q)) (ef : list (Z * Z)) (dist : list Q) : list (list Q) :=
  map (fun d => c16_gradient d ef dist) rows.

(* ---- flat encodings for the driver ---- *)
Definition c16_enc_entry (e : c16_entry) : list Z :=
  match e with
  | EGeo SNode i j => [1; i; j]
  | EGeo SFace i j => [2; i; j]
  | EZero => [0; 0; 0]
  | ESupplied k => [3; Z.of_nat k; 0]
  end.

Definition c16_q_of (p : Z * Z) : Q := Qmake (fst p) (Z.to_pos (snd p)).
Definition c16_q_enc (q : Q) : Z * Z := (Qnum q, Zpos (Qden q)).

(* driver entries *)
Definition c16_plans (sup_end sup_efd : bool) (en ef : list (Z * Z)) : list (list Z) * list (list Z) :=
  (map c16_enc_entry (c16_grid_end sup_end en), map c16_enc_entry (c16_grid_efd sup_efd ef)).

Definition c16_data_run (rows : list (list (Z * Z))) (en ef : list (Z * Z)) (dist : list (Z * Z))
  (node_centred : bool) : list (list (Z * Z)) * list (list (Z * Z)) :=
  let qrows := map (map c16_q_of) rows in
  if node_centred
  then (map (map c16_q_enc) (c16_edge_node_diff_nd qrows en), [])
  else (map (map c16_q_enc) (c16_edge_face_diff_nd qrows ef),
        map (map c16_q_enc) (c16_gradient_nd qrows ef (map c16_q_of dist))).


(* ---- the grid's two distance tables along a history of operations ----
   Grid.edge_node_distances / edge_face_distances populate `_ds` on first access and return the
   stored variable afterwards; UxDataArray.difference touches neither; UxDataArray.gradient reads
   edge_face_distances (populating it when absent) and must not write to it. *)
Inductive c16_hop := HReadEnd | HReadEfd | HDiff | HGrad (normalize : bool).

Record c16_gstate := { gs_end : option (list c16_entry); gs_efd : option (list c16_entry) }.

Definition c16_hstep (sup_end sup_efd : bool) (en ef : list (Z * Z)) (s : c16_gstate) (o : c16_hop) : c16_gstate :=
  match o with
  | HReadEnd => match gs_end s with
                | Some _ => s
                | None => {| gs_end := Some (c16_grid_end sup_end en); gs_efd := gs_efd s |}
                end
  | HReadEfd | HGrad _ =>
                match gs_efd s with
                | Some _ => s
                | None => {| gs_end := gs_end s; gs_efd := Some (c16_grid_efd sup_efd ef) |}
                end
  | HDiff => s
  end.

(* a source-supplied table is in `_ds` from the start *)
Definition c16_hinit (sup_end sup_efd : bool) (en ef : list (Z * Z)) : c16_gstate :=
  {| gs_end := if sup_end then Some (c16_grid_end true en) else None;
     gs_efd := if sup_efd then Some (c16_grid_efd true ef) else None |}.

Definition c16_hrun (sup_end sup_efd : bool) (en ef : list (Z * Z)) (ops : list c16_hop) : c16_gstate :=
  fold_left (c16_hstep sup_end sup_efd en ef) ops (c16_hinit sup_end sup_efd en ef).

Fixpoint c16_htrace (sup_end sup_efd : bool) (en ef : list (Z * Z)) (s : c16_gstate) (ops : list c16_hop)
  : list c16_gstate :=
  match ops with
  | [] => []
  | o :: r => let s' := c16_hstep sup_end sup_efd en ef s o in s' :: c16_htrace sup_end sup_efd en ef s' r
  end.

(* swapping the two faces of every interior row *)
Definition c16_swap (p : Z * Z) : Z * Z := if is_fill (snd p) then p else (snd p, fst p).

(* driver entry: op codes 0 = read end, 1 = read efd, 2 = difference, 3 / 4 = gradient without / with
   normalisation -> after every op: (table present?, table present?) *)
Definition c16_hop_of_code (z : Z) : c16_hop :=
  if z =? 0 then HReadEnd else if z =? 1 then HReadEfd else if z =? 2 then HDiff else HGrad (z =? 4).
Definition c16_presence (s : c16_gstate) : list Z :=
  [match gs_end s with Some _ => 1 | None => 0 end; match gs_efd s with Some _ => 1 | None => 0 end].
Definition c16_history_presence (sup_end sup_efd : bool) (en ef : list (Z * Z)) (ops : list Z) : list (list Z) :=
  let s0 := c16_hinit sup_end sup_efd en ef in
  map c16_presence (s0 :: c16_htrace sup_end sup_efd en ef s0 (map c16_hop_of_code ops)).

(* ------------------------------------------------------------------------------------------ *)
(* Part 2                                                                                        *)
Local Open Scope R_scope.

Definition c16_deg2rad (d : R) : R := d * PI / 180.

(* the argument of arccos in both kernels (inputs in radians) *)
Definition c16_loc_arg (lon_a lat_a lon_b lat_b : R) : R :=
  sin lat_a * sin lat_b + cos lat_a * cos lat_b * cos (lon_a - lon_b).

Definition c16_loc_dist (a b : R * R) : R :=
  acos (c16_loc_arg (c16_deg2rad (fst a)) (c16_deg2rad (snd a)) (c16_deg2rad (fst b)) (c16_deg2rad (snd b))).

Definition c16_unit_vec (lon lat : R) : R * R * R := (cos lon * cos lat, sin lon * cos lat, sin lat).
Definition c16_dot3 (p q : R * R * R) : R :=
  fst (fst p) * fst (fst q) + snd (fst p) * snd (fst q) + snd p * snd q.

(* coordinates of the grid: degrees, by element kind and index *)
Record c16_coords := { co_node : Z -> R * R; co_face : Z -> R * R; co_supplied : nat -> R }.

Definition c16_entry_value (co : c16_coords) (e : c16_entry) : R :=
  match e with
  | EGeo SNode i j => c16_loc_dist (co_node co i) (co_node co j)
  | EGeo SFace i j => c16_loc_dist (co_face co i) (co_face co j)
  | EZero => 0
  | ESupplied k => co_supplied co k
  end.

(* grad / np.linalg.norm(grad) on the flattened array *)
Definition c16_sumsq (g : list R) : R := fold_right (fun x acc => x * x + acc) 0 g.
Definition c16_l2 (g : list R) : R := sqrt (c16_sumsq g).
Definition c16_normalize (g : list R) : list R := map (fun x => x / c16_l2 g) g.
