(* C02_check.v — the property's clauses as a boolean checker over ANY candidate output
   (edge table, face_edge table, n_nodes_per_face) for a standard-form face-node table.
   Proofs/C02_check_proofs.v proves it sound and complete w.r.t. the Prop-level specification and
   that the model's output passes; the harness runs the extracted checker on the IMPLEMENTATION's
   output. Definitions only. *)
From Verif Require Export Base C02.

Definition c02_mem (q : Z * Z) (l : list (Z * Z)) : bool := existsb (pair_eqb q) l.

Fixpoint c02_nodupb (l : list (Z * Z)) : bool :=
  match l with
  | [] => true
  | x :: l' => negb (c02_mem x l') && c02_nodupb l'
  end.

Definition c02_subset (a b : list (Z * Z)) : bool := forallb (fun q => c02_mem q b) a.

(* row f of face_edge against row r of the face-node table and the edge list E *)
Definition c02_check_row (E : list (Z * Z)) (r : row) (fe : row) : bool :=
  let c := corners r in
  let k := length c in
  Nat.eqb (length fe) (length r) &&
  forallb (fun j =>
             let e := nth j fe FILL in
             (0 <=? e) && (Z.to_nat e <? length E)%nat &&
             pair_eqb (norm_pair (nth (Z.to_nat e) E (FILL, FILL))) (norm_pair (nthP (cyc_pairs c) j)))
          (seq 0 k) &&
  forallb is_fill (skipn k fe).

Fixpoint c02_check_rows (E : list (Z * Z)) (t FE : table) : bool :=
  match t, FE with
  | [], [] => true
  | r :: t', fe :: FE' => c02_check_row E r fe && c02_check_rows E t' FE'
  | _, _ => false
  end.

Fixpoint c02_listZ_eqb (a b : list Z) : bool :=
  match a, b with
  | [], [] => true
  | x :: a', y :: b' => (x =? y) && c02_listZ_eqb a' b'
  | _, _ => false
  end.

Definition c02_check (t : table) (E : list (Z * Z)) (FE : table) (npf : list Z) : bool :=
  let En := map norm_pair E in
  forallb (fun q => negb (has_fill q)) E &&
  c02_nodupb En &&
  c02_subset En (spec_pairs t) && c02_subset (spec_pairs t) En &&
  c02_check_rows E t FE &&
  c02_listZ_eqb npf (map (fun r => Z.of_nat (length (corners r))) t).
