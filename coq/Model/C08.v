(* C08.v — state-machine model of a Grid's lazily derived variables and of its caches.
   (1) lazy variables: each populator derives its missing prerequisites, then writes its own
       group of variables only when absent (`if "name" not in self._ds`); nothing present is
       ever overwritten by a read-only operation.
   (2) caches: a slot holding the key fields of the last caching call and its value; a call is
       answered from the slot when the compared fields agree and `override` is not set.
       The compared / stored field sets are GENERATED from grid.py (Gen/C08_caches.v).
   Definitions only. *)
From Coq Require Import String.
From Verif Require Export Base.
From Verif Require Export C08_caches.

(* ---------------- (1) lazily derived variables ---------------- *)
Inductive c08_var :=
  | V_NPF      (* n_nodes_per_face *)
  | V_EN       (* edge_node_connectivity (+ inverse_indices attrs) *)
  | V_FE       (* face_edge_connectivity *)
  | V_EF       (* edge_face_connectivity *)
  | V_NF       (* node_face_connectivity *)
  | V_FF       (* face_face_connectivity *)
  | V_HOLE     (* hole_edge_indices *)
  | V_NXYZ     (* node_x, node_y, node_z *)
  | V_FCEN     (* face_lon, face_lat, face_x, face_y, face_z *)
  | V_ECEN     (* edge_lon, edge_lat, edge_x, edge_y, edge_z *)
  | V_AREAS    (* face_areas *)
  | V_END      (* edge_node_distances *)
  | V_EFD      (* edge_face_distances *)
  | V_ENZ      (* edge_node_z *)
  | V_BOUNDS   (* bounds *)
  | V_TOPO.    (* grid_topology (present only when the source dataset ships it) *)

Definition c08_var_eqb (a b : c08_var) : bool :=
  match a, b with
  | V_NPF, V_NPF | V_EN, V_EN | V_FE, V_FE | V_EF, V_EF | V_NF, V_NF | V_FF, V_FF | V_HOLE, V_HOLE
  | V_NXYZ, V_NXYZ | V_FCEN, V_FCEN | V_ECEN, V_ECEN | V_AREAS, V_AREAS | V_END, V_END | V_EFD, V_EFD
  | V_ENZ, V_ENZ | V_BOUNDS, V_BOUNDS | V_TOPO, V_TOPO => true
  | _, _ => false
  end.

(* what each populator reads through the lazily computing properties *)
Definition c08_deps (v : c08_var) : list c08_var :=
  match v with
  | V_NPF | V_EN | V_NF | V_NXYZ | V_TOPO => []
  | V_FE => [V_EN]
  | V_EF => [V_FE; V_NPF]
  | V_FF => [V_EF; V_FE]
  | V_HOLE => [V_EF]
  | V_FCEN => [V_NXYZ; V_NPF]
  | V_ECEN => [V_NXYZ; V_EN]
  | V_AREAS => [V_NPF]
  | V_END => [V_EN]
  | V_EFD => [V_EF; V_FCEN]
  | V_ENZ => [V_NXYZ; V_EN]
  | V_BOUNDS => [V_FE; V_NXYZ]
  end.

(* a stored value either is the canonical function of the source, or something else *)
Inductive c08_val := Canon | Other.

Definition c08_state := list (c08_var * c08_val).

Fixpoint c08_lookup (s : c08_state) (v : c08_var) : option c08_val :=
  match s with
  | [] => None
  | (w, x) :: s' => if c08_var_eqb v w then Some x else c08_lookup s' v
  end.

Definition c08_present (s : c08_state) (v : c08_var) : bool :=
  match c08_lookup s v with Some _ => true | None => false end.

(* the value a populator computes: canonical when everything it read was canonical *)
Definition c08_computed (s : c08_state) (v : c08_var) : c08_val :=
  if forallb (fun d => match c08_lookup s d with Some Canon => true | _ => false end) (c08_deps v)
  then Canon else Other.

(* property getter: `if name not in ds: populate` ; populate first touches its prerequisites *)
Fixpoint c08_derive (fuel : nat) (s : c08_state) (v : c08_var) : c08_state :=
  match fuel with
  | O => s
  | S f =>
      if c08_present s v then s
      else let s' := fold_left (c08_derive f) (c08_deps v) s in
           (v, c08_computed s' v) :: s'
  end.

Definition c08_fuel : nat := 6.   (* longest dependency chain: FF -> EF -> FE -> EN has depth 4 *)

Inductive c08_op :=
  | OpGet (v : c08_var)                 (* any lazily computed attribute *)
  | OpAreas                             (* compute_face_areas(...): reads n_nodes_per_face, stores nothing in _ds *)
  | OpEncodeUgrid                       (* to_xarray("ugrid"): encodes a deep copy of _ds *)
  | OpPure.                             (* queries, other exports, isel/subset/get_dual: new objects only *)

Definition c08_step (s : c08_state) (o : c08_op) : c08_state :=
  match o with
  | OpGet v => c08_derive c08_fuel s v
  | OpAreas => c08_derive c08_fuel s V_NPF
  | OpEncodeUgrid => s        (* works on a deep copy of _ds: the grid's own dataset is untouched *)
  | OpPure => s
  end.

Definition c08_run (s : c08_state) (ops : list c08_op) : c08_state := fold_left c08_step ops s.

(* observing variable v after a history *)
Definition c08_observe (s : c08_state) (v : c08_var) : option c08_val :=
  c08_lookup (c08_derive c08_fuel s v) v.

Definition c08_names (s : c08_state) : list c08_var := map fst s.

(* ---------------- (2) caches ---------------- *)
Definition c08_key := string -> Z.      (* value of every argument, as an opaque code *)

Definition c08_keq (fields : list string) (k1 k2 : c08_key) : bool :=
  forallb (fun f => Z.eqb (k1 f) (k2 f)) fields.

Definition c08_mem (f : string) (l : list string) : bool := existsb (String.eqb f) l.

(* storing only the `stored` fields: the others keep what the slot held before *)
Definition c08_store (stored : list string) (old new : c08_key) : c08_key :=
  fun f => if c08_mem f stored then new f else old f.

Section Cache.
  Variable V : Type.
  Variable compute : c08_key -> V.            (* what a fresh conversion returns for these arguments *)
  Variables compared stored : list string.

  Definition c08_slot := option (c08_key * V).

  Record c08_call := { c_key : c08_key; c_override : bool; c_cache : bool }.

  Definition c08_cache_step (c : c08_slot) (call : c08_call) : V * c08_slot :=
    match c with
    | Some (k', v) =>
        if c08_keq compared k' (c_key call) && negb (c_override call) then (v, c)
        else let v' := compute (c_key call) in
             (v', if c_cache call then Some (c08_store stored k' (c_key call), v') else c)
    | None =>
        let v' := compute (c_key call) in
        (v', if c_cache call then Some (c08_store stored (fun _ => 0) (c_key call), v') else None)
    end.

  Fixpoint c08_cache_run (c : c08_slot) (calls : list c08_call) : c08_slot :=
    match calls with
    | [] => c
    | call :: rest => c08_cache_run (snd (c08_cache_step c call)) rest
    end.
End Cache.

Definition c08_subset (a b : list string) : bool := forallb (fun f => c08_mem f b) a.

(* the arguments each conversion's result depends on (hand-written from the signatures) *)
Open Scope string_scope.
Definition c08_gdf_dep : list string := ["periodic_elements"; "projection"; "engine"].
Definition c08_poly_dep : list string := ["periodic_elements"; "projection"].
Definition c08_line_dep : list string := ["periodic_elements"; "projection"].
Definition c08_tree_dep : list string := ["coordinates"; "coordinate_system"; "distance_metric"].
Close Scope string_scope.

(* ---------------- (3) several grids in one process ---------------- *)
(* a world: the states of all grids plus the module-level constants (an opaque value: no read-only
   operation has a write to it in the code as it is — checked against the import-time snapshot on
   every run) *)
Record c08_world := { w_grids : list c08_state; w_globals : Z }.

Fixpoint c08_update {A} (i : nat) (f : A -> A) (l : list A) : list A :=
  match l, i with
  | [], _ => []
  | x :: l', O => f x :: l'
  | x :: l', S i' => x :: c08_update i' f l'
  end.

Definition c08_world_step (w : c08_world) (io : nat * c08_op) : c08_world :=
  {| w_grids := c08_update (fst io) (fun s => c08_step s (snd io)) (w_grids w); w_globals := w_globals w |}.

Definition c08_world_run (w : c08_world) (ops : list (nat * c08_op)) : c08_world :=
  fold_left c08_world_step ops w.
