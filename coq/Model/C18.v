(* C18.v — executable model of uxarray/grid/dual.py (construct_dual, construct_faces,
   _order_nodes), the node_face table it reads (connectivity.py:_build_node_faces_connectivity),
   Grid.get_dual (dual nodes = primal face centres) and UxDataArray.get_dual (dims swapped, data
   untouched).

   Positions are exact integer 3-vectors in a common dyadic unit (the harness passes the very
   doubles the code reads, scaled by one power of two).
   The angle bookkeeping of _order_nodes is modelled without sqrt/arccos: d_angles[j] is
   represented by (side, s, m) with side = (d_side > 0), s = node_zero . node_diff,
   m = |node_diff|^2 (node_zero, node_diff projected onto the tangent plane at the node), and every comparison between two d_angles the code performs
   (d_current < d_angles[k] < d_next, with 0.0 and 2*pi as initial bounds) is decided exactly from
   the signs and cross-multiplied squares of these integers.  The selection loop keeps its strict
   inequalities and its `continue` (cell left at the fill value) when nothing qualifies.
   Definitions only. *)
From Verif Require Export Base.

Local Open Scope Z_scope.

(* ------------------------------------------------------------------------------------------ *)
(* _build_node_faces_connectivity: per node the faces containing it, in increasing face id     *)

Fixpoint c18_count_occ (v : Z) (r : list Z) : nat :=
  match r with
  | [] => O
  | x :: r' => if x =? v then S (c18_count_occ v r') else c18_count_occ v r'
  end.

(* for face_i, face_nodes in enumerate(...): for node_i in face_nodes: append(face_i) *)
Fixpoint c18_faces_of_node (v : Z) (fi : Z) (t : table) : list Z :=
  match t with
  | [] => []
  | r :: t' => repeat fi (c18_count_occ v (corners r)) ++ c18_faces_of_node v (fi + 1) t'
  end.

Definition c18_iota (n : nat) : list Z := map Z.of_nat (seq 0 n).

(* unpadded rows; n_edges[i] = length of row i *)
Definition c18_node_faces (t : table) (n_node : nat) : list (list Z) :=
  map (fun v => c18_faces_of_node v 0 t) (c18_iota n_node).

Definition c18_max_len (rows : list (list Z)) : nat := fold_right (fun r acc => Nat.max (length r) acc) O rows.

(* ------------------------------------------------------------------------------------------ *)
(* vectors over Z: positions as integer multiples of one common unit 2^-k (doubles are dyadic    *)
(* rationals, so this is exact; every decision below is a sign or a comparison of homogeneous   *)
(* polynomials and does not depend on the unit)                                                 *)

Definition c18_vec := (Z * Z * Z)%type.
Definition c18_vx (v : c18_vec) : Z := fst (fst v).
Definition c18_vy (v : c18_vec) : Z := snd (fst v).
Definition c18_vz (v : c18_vec) : Z := snd v.
Definition c18_sub (a b : c18_vec) : c18_vec :=
  (c18_vx a - c18_vx b, c18_vy a - c18_vy b, c18_vz a - c18_vz b).
Definition c18_dot (a b : c18_vec) : Z :=
  c18_vx a * c18_vx b + c18_vy a * c18_vy b + c18_vz a * c18_vz b.
Definition c18_cross (a b : c18_vec) : c18_vec :=
  (c18_vy a * c18_vz b - c18_vz a * c18_vy b,
   c18_vz a * c18_vx b - c18_vx a * c18_vz b,
   c18_vx a * c18_vy b - c18_vy a * c18_vx b).
Definition c18_zero_vec : c18_vec := (0, 0, 0).
Definition c18_pos (ps : list c18_vec) (i : Z) : c18_vec := nth (Z.to_nat i) ps c18_zero_vec.

(* ------------------------------------------------------------------------------------------ *)
(* d_angles[j] without arccos                                                                   *)

Record c18_key := { c18_side : bool;    (* d_side > 0.0 : the angle is 2*pi - arccos(..) *)
                    c18_s : Z;          (* node_zero . node_diff   (projected vectors, see below) *)
                    c18_m : Z;          (* |node_diff|^2 *)
                    c18_zz : Z }.       (* |node_zero|^2 *)

Definition c18_qpos (x : Z) : bool := 0 <? x.
Definition c18_qneg (x : Z) : bool := x <? 0.
Definition c18_qlt (x y : Z) : bool := x <? y.

(* arccos(..) = 0  /  = pi : node_diff exactly (anti)parallel to node_zero *)
Definition c18_parallel (a : c18_key) : bool := (c18_s a * c18_s a) =? (c18_zz a * c18_m a).
Definition c18_theta_zero (a : c18_key) : bool := c18_qpos (c18_s a) && c18_parallel a.
Definition c18_theta_pi (a : c18_key) : bool := c18_qneg (c18_s a) && c18_parallel a.

(* cos theta_a > cos theta_b, theta = arccos(s / sqrt(zz*m)) with the same zz on both sides *)
Definition c18_cos_gt (a b : c18_key) : bool :=
  let sa := c18_s a in let sb := c18_s b in
  let l := sa * sa * c18_m b in let r := sb * sb * c18_m a in
  if c18_qneg sa then (if c18_qneg sb then c18_qlt l r else false)
  else (if c18_qneg sb then true else c18_qlt r l).

(* d_angles[a] < d_angles[b] *)
Definition c18_angle_lt (a b : c18_key) : bool :=
  match c18_side a, c18_side b with
  | false, false => c18_cos_gt a b
  | true, true => c18_cos_gt b a
  | false, true => negb (c18_theta_pi a && c18_theta_pi b)
  | true, false => false
  end.
(* 0.0 < d_angles[a]  and  d_angles[a] < 2*pi *)
Definition c18_angle_gt0 (a : c18_key) : bool := if c18_side a then true else negb (c18_theta_zero a).
Definition c18_angle_lt2pi (a : c18_key) : bool := if c18_side a then negb (c18_theta_zero a) else true.

(* Since fix c8b893ff node_zero and node_diff are projected onto the tangent plane at the central
   node before norms and dot products are taken:  x -= np.dot(x, node_central) * node_central.
   node_central is a unit vector (up to rounding, C04), for which this is the orthogonal projection;
   the model uses the orthogonal projection for ANY n, scaled by N = n.n > 0 to stay in Z:
       c18_proj n x = N x - (x.n) n .
   Proofs/C18_proofs.v shows (ring identities)
       proj a . proj b          = N * (N (a.b) - (a.n)(b.n))
       (c x n) . proj b         = N * ((c x n) . b)
   so, dropping the common positive factors (they cancel in every comparison the code makes), the
   key is computed from the unprojected vectors as follows. *)
Definition c18_proj (n x : c18_vec) : c18_vec :=
  let nn := c18_dot n n in let xn := c18_dot x n in
  (nn * c18_vx x - xn * c18_vx n, nn * c18_vy x - xn * c18_vy n, nn * c18_vz x - xn * c18_vz n).

Definition c18_pdot (n a b : c18_vec) : Z :=          (* (proj a . proj b) / N *)
  c18_dot n n * c18_dot a b - c18_dot a n * c18_dot b n.

Definition c18_make_key (node_0 node_central sub : c18_vec) : c18_key :=
  let node_zero := c18_sub node_0 node_central in
  let node_cross := c18_cross node_0 node_central in
  let node_diff := c18_sub sub node_central in
  {| c18_side := c18_qpos (c18_dot node_cross node_diff);
     c18_s := c18_pdot node_central node_zero node_diff;
     c18_m := c18_pdot node_central node_diff node_diff;
     c18_zz := c18_pdot node_central node_zero node_zero |}.

(* the literal form: keys from the projected vectors themselves *)
Definition c18_make_key_literal (node_0 node_central sub : c18_vec) : c18_key :=
  let node_zero := c18_proj node_central (c18_sub node_0 node_central) in
  let node_cross := c18_cross node_0 node_central in
  let node_diff := c18_proj node_central (c18_sub sub node_central) in
  {| c18_side := c18_qpos (c18_dot node_cross node_diff);
     c18_s := c18_dot node_zero node_diff;
     c18_m := c18_dot node_diff node_diff;
     c18_zz := c18_dot node_zero node_zero |}.

(* ------------------------------------------------------------------------------------------ *)
(* the selection loops of _order_nodes, generic in the key type and its three comparisons       *)

Section Select.
  Context {K : Type}.
  Variable ltb : K -> K -> bool.
  Variable gt0 : K -> bool.
  Variable lt2pi : K -> bool.

  (* for k in range(1, n_edges): if d_current < d_angles[k] < d_next: take k.
     cur = None stands for d_current_angle = 0.0, best = None for d_next_angle = 2*pi *)
  Fixpoint c18_scan (cur : option K) (keys : list (nat * K)) (best : option (nat * K)) : option (nat * K) :=
    match keys with
    | [] => best
    | (k, a) :: rest =>
        let above := match cur with None => gt0 a | Some c => ltb c a end in
        let below := match best with None => lt2pi a | Some b => ltb a (snd b) end in
        c18_scan cur rest (if above && below then Some (k, a) else best)
    end.

  (* for j in range(1, n_edges): ... ; a cell stays None (fill value) when ix_next_node == -1 *)
  Fixpoint c18_select (fuel : nat) (cur : option K) (keys : list (nat * K)) : list (option nat) :=
    match fuel with
    | O => []
    | S f =>
        match c18_scan cur keys None with
        | None => None :: c18_select f cur keys                       (* continue *)
        | Some (k, a) => Some k :: c18_select f (Some a) keys
        end
    end.
End Select.

(* _order_nodes: temp_face = the node's faces, result padded to max_edges *)
Definition c18_order_nodes (temp_face : list Z) (node_central : c18_vec) (dual_pos : list c18_vec)
           (max_edges : nat) : list Z :=
  match temp_face with
  | [] => repeat FILL max_edges
  | f0 :: rest =>
      let node_0 := c18_pos dual_pos f0 in
      let keys := combine (seq 1 (length rest))
                          (map (fun f => c18_make_key node_0 node_central (c18_pos dual_pos f)) rest) in
      let sel := c18_select c18_angle_lt c18_angle_gt0 c18_angle_lt2pi (length rest) None keys in
      let body := f0 :: map (fun o => match o with Some k => nth k temp_face FILL | None => FILL end) sel in
      body ++ repeat FILL (max_edges - length body)
  end.

(* the same with the keys computed literally from the projected vectors (reference form; proved
   equal to c18_order_nodes for node_central <> 0 in Proofs/C18_proofs.v) *)
Definition c18_order_nodes_literal (temp_face : list Z) (node_central : c18_vec) (dual_pos : list c18_vec)
           (max_edges : nat) : list Z :=
  match temp_face with
  | [] => repeat FILL max_edges
  | f0 :: rest =>
      let node_0 := c18_pos dual_pos f0 in
      let keys := combine (seq 1 (length rest))
                          (map (fun f => c18_make_key_literal node_0 node_central (c18_pos dual_pos f)) rest) in
      let sel := c18_select c18_angle_lt c18_angle_gt0 c18_angle_lt2pi (length rest) None keys in
      let body := f0 :: map (fun o => match o with Some k => nth k temp_face FILL | None => FILL end) sel in
      body ++ repeat FILL (max_edges - length body)
  end.

(* construct_faces: one row per node with n_edges >= 3, in node order *)
Definition c18_dual_faces (t : table) (node_pos : list c18_vec) (dual_pos : list c18_vec) : table :=
  let nf := c18_node_faces t (length node_pos) in
  let max_edges := c18_max_len nf in
  flat_map (fun iv => if (3 <=? length (fst iv))%nat
                      then [c18_order_nodes (fst iv) (snd iv) dual_pos max_edges]
                      else [])
           (combine nf node_pos).

(* which primal node each dual face belongs to (i - correction bookkeeping) *)
Definition c18_dual_face_nodes (t : table) (n_node : nat) : list Z :=
  flat_map (fun iv => if (3 <=? length (snd iv))%nat then [fst iv] else [])
           (combine (c18_iota n_node) (c18_node_faces t n_node)).

(* ------------------------------------------------------------------------------------------ *)
(* Grid.get_dual / UxDataArray.get_dual                                                         *)

(* the dual grid: node coordinates are the primal face_lon/face_lat, in face order *)
Definition c18_get_dual {C} (face_lonlat : list C) (t : table) (node_pos dual_pos : list c18_vec)
  : list C * table := (face_lonlat, c18_dual_faces t node_pos dual_pos).

Inductive c18_dim := C18_n_node | C18_n_face | C18_n_edge | C18_other (k : Z).
Definition c18_swap (d : c18_dim) : c18_dim :=
  match d with C18_n_node => C18_n_face | C18_n_face => C18_n_node | x => x end.
(* dims = [dim_map.get(dim, dim) ...]; data = np.array(self.values) *)
Definition c18_dual_data {A} (dims : list c18_dim) (data : list A) : list c18_dim * list A :=
  (map c18_swap dims, data).

(* driver entry *)
Definition c18_run (t : table) (node_pos dual_pos : list c18_vec) : table * list Z :=
  (c18_dual_faces t node_pos dual_pos, c18_dual_face_nodes t (length node_pos)).
