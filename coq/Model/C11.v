(* C11.v — executable model of the neighbour-query layer:
     uxarray/grid/neighbors.py  (KDTree / BallTree wrappers: which coordinate arrays feed the tree,
       in which order and unit; _prepare_xy_for_query / _prepare_xyz_for_query; unit handling and
       squeeze logic of query / query_radius; the `coordinates` setter)
     uxarray/grid/grid.py       (get_ball_tree / get_kd_tree: the per-grid cache of one tree object)
   sklearn's trees are modelled by brute force (nearest first, ties by index).

   Arithmetic is exact over Z.  Every input number is a dyadic rational (an IEEE double), sent by
   the harness as an integer multiple of one common unit 2^-S.  deg2rad(x) = x * (num / 2^T) with
   num/2^T the exact value of the double np.pi/180; the spherical trees therefore live in the unit
   2^-(S+T): a value in degrees is multiplied by num, a value already in radians by 2^T.
   Definitions only. *)
From Verif Require Export Base.

Inductive c11_kind := C11Nodes | C11Faces | C11Edges.
Inductive c11_system := C11Spherical | C11Cartesian.
(* haversine | minkowski(p=2)/euclidean/l2 | manhattan | chebyshev *)
Inductive c11_metric := C11Hav | C11L2 | C11L1 | C11Linf.
Inductive c11_treetype := C11Ball | C11KD.

Definition c11_kind_eqb (a b : c11_kind) : bool :=
  match a, b with
  | C11Nodes, C11Nodes | C11Faces, C11Faces | C11Edges, C11Edges => true
  | _, _ => false
  end.
Definition c11_system_eqb (a b : c11_system) : bool :=
  match a, b with
  | C11Spherical, C11Spherical | C11Cartesian, C11Cartesian => true
  | _, _ => false
  end.
Definition c11_metric_eqb (a b : c11_metric) : bool :=
  match a, b with
  | C11Hav, C11Hav | C11L2, C11L2 | C11L1, C11L1 | C11Linf, C11Linf => true
  | _, _ => false
  end.

Definition c11_pt := list Z.

(* the coordinate variables a grid reports for one element kind *)
Record c11_cset := { cs_lon : list Z; cs_lat : list Z; cs_x : list Z; cs_y : list Z; cs_z : list Z }.
Record c11_grid := { cg_node : c11_cset; cg_face : c11_cset; cg_edge : c11_cset }.

Definition c11_select (g : c11_grid) (k : c11_kind) : c11_cset :=
  match k with C11Nodes => cg_node g | C11Faces => cg_face g | C11Edges => cg_edge g end.

(* np.vstack((a, b)).T *)
Fixpoint c11_zip2 (a b : list Z) : list c11_pt :=
  match a, b with
  | x :: a', y :: b' => [x; y] :: c11_zip2 a' b'
  | _, _ => []
  end.
(* np.stack((a, b, c), axis=-1) *)
Fixpoint c11_zip3 (a b c : list Z) : list c11_pt :=
  match a, b, c with
  | x :: a', y :: b', z :: c' => [x; y; z] :: c11_zip3 a' b' c'
  | _, _, _ => []
  end.

(* deg2rad, result in tree units (see header) *)
Definition c11_deg2rad (num : Z) (x : Z) : Z := x * num.
(* a value given in radians, brought to tree units *)
Definition c11_rad_units (T : Z) (x : Z) : Z := x * 2 ^ T.

(* _build_from_nodes / _build_from_face_centers / _build_from_edge_centers (both classes):
   spherical -> (deg2rad(lat), deg2rad(lon)) ; cartesian -> (x, y, z) *)
Definition c11_tree_coords (num : Z) (g : c11_grid) (k : c11_kind) (s : c11_system) : list c11_pt :=
  let c := c11_select g k in
  match s with
  | C11Spherical => c11_zip2 (map (c11_deg2rad num) (cs_lat c)) (map (c11_deg2rad num) (cs_lon c))
  | C11Cartesian => c11_zip3 (cs_x c) (cs_y c) (cs_z c)
  end.

(* _n_elements *)
Definition c11_n_elements (g : c11_grid) (k : c11_kind) : nat := length (cs_lon (c11_select g k)).

Definition c11_all_len (n : nat) (q : list c11_pt) : bool := forallb (fun p => Nat.eqb (length p) n) q.

(* _prepare_xy_for_query: shape check, flip only for haversine, deg2rad unless use_radians *)
Definition c11_prepare_xy (num T : Z) (q : list c11_pt) (use_radians : bool) (m : c11_metric)
  : option (list c11_pt) :=
  if negb (c11_all_len 2 q) then None
  else
    let q1 := match m with C11Hav => map (@rev Z) q | _ => q end in
    Some (if use_radians then map (map (c11_rad_units T)) q1 else map (map (c11_deg2rad num)) q1).

(* _prepare_xyz_for_query: shape check only *)
Definition c11_prepare_xyz (q : list c11_pt) : option (list c11_pt) :=
  if negb (c11_all_len 3 q) then None else Some q.

Definition c11_prepare (num T : Z) (s : c11_system) (m : c11_metric) (q : list c11_pt) (use_radians : bool)
  : option (list c11_pt) :=
  match s with
  | C11Spherical => c11_prepare_xy num T q use_radians m
  | C11Cartesian => c11_prepare_xyz q
  end.

(* ---- distances (keys): squared Euclidean, L1, Linf; all exact ---- *)
Fixpoint c11_sq (p q : c11_pt) : Z :=
  match p, q with
  | a :: p', b :: q' => (a - b) * (a - b) + c11_sq p' q'
  | _, _ => 0
  end.
Fixpoint c11_l1 (p q : c11_pt) : Z :=
  match p, q with
  | a :: p', b :: q' => Z.abs (a - b) + c11_l1 p' q'
  | _, _ => 0
  end.
Fixpoint c11_linf (p q : c11_pt) : Z :=
  match p, q with
  | a :: p', b :: q' => Z.max (Z.abs (a - b)) (c11_linf p' q')
  | _, _ => 0
  end.

(* ordering key of the metric.  For haversine the points handed in are the unit vectors of the
   (lat, lon) pairs (embedding computed outside, justified by C11_haversine_chord and
   C11_chord_arc): great-circle order = chord order. *)
Definition c11_key (m : c11_metric) (p q : c11_pt) : Z :=
  match m with
  | C11L1 => c11_l1 p q
  | C11Linf => c11_linf p q
  | _ => c11_sq p q
  end.

(* radius threshold in key space: squared for the squared keys *)
Definition c11_rkey (m : c11_metric) (r : Z) : Z :=
  match m with
  | C11L1 | C11Linf => r
  | _ => r * r
  end.

(* ---- brute force = model of sklearn's tree (law: nearest first, ties aside) ---- *)
Fixpoint c11_enum (i : nat) (l : list Z) : list (Z * nat) :=
  match l with
  | [] => []
  | a :: l' => (a, i) :: c11_enum (S i) l'
  end.

(* stable insertion: before the first entry whose key is not smaller *)
Fixpoint c11_insert (x : Z * nat) (l : list (Z * nat)) : list (Z * nat) :=
  match l with
  | [] => [x]
  | y :: l' => if fst y <? fst x then y :: c11_insert x l' else x :: l
  end.
Definition c11_sort (l : list (Z * nat)) : list (Z * nat) := fold_right c11_insert [] l.

(* tree.query(q, k): (key, index) of the k nearest, nearest first *)
Definition c11_knn (keys : list Z) (k : nat) : list (Z * nat) := firstn k (c11_sort (c11_enum 0 keys)).

(* tree.query_radius(q, r): all entries with key <= threshold (index order) *)
Definition c11_within (keys : list Z) (rk : Z) : list (Z * nat) :=
  filter (fun p => fst p <=? rk) (c11_enum 0 keys).

Definition c11_keys (m : c11_metric) (tree : list c11_pt) (q : c11_pt) : list Z := map (fun p => c11_key m p q) tree.

(* ---- query / query_radius of the wrappers ---- *)

(* k < 1 or k > n_elements -> AssertionError *)
Definition c11_k_ok (n k : nat) : bool := Nat.leb 1 k && Nat.leb k n.

(* ind.squeeze()/d.squeeze() when exactly one point was queried *)
Definition c11_query_shape (nq k : nat) : list nat :=
  if Nat.eqb nq 1 then (if Nat.eqb k 1 then [] else [k]) else [nq; k].

(* np.rad2deg applied to the distances iff not in_radians and spherical *)
Definition c11_out_in_degrees (s : c11_system) (in_radians : bool) : bool :=
  match s with C11Spherical => negb in_radians | C11Cartesian => false end.

(* the radius handed to the sklearn tree, in tree units:
   BallTree.query_radius: spherical -> min(np.deg2rad(r), np.pi) whatever in_radians is (no
     great-circle distance exceeds pi; `pi` = the double np.pi in tree units); cartesian -> r
   KDTree.query_radius  : r unchanged (for spherical trees that is radians) *)
Definition c11_radius_units (num T pi : Z) (t : c11_treetype) (s : c11_system) (r : Z) : Z :=
  match s, t with
  | C11Spherical, C11Ball => Z.min (c11_deg2rad num r) pi
  | C11Spherical, C11KD => c11_rad_units T r
  | C11Cartesian, _ => r
  end.

(* full query for the metrics whose key is computed on the tree coordinates themselves *)
Definition c11_query (num T : Z) (g : c11_grid) (kd : c11_kind) (s : c11_system) (m : c11_metric)
           (q : list c11_pt) (in_radians : bool) (k : nat) : option (list (list (Z * nat))) :=
  if negb (c11_k_ok (c11_n_elements g kd) k) then None
  else match c11_prepare num T s m q in_radians with
       | None => None
       | Some pq => Some (map (fun p => c11_knn (c11_keys m (c11_tree_coords num g kd s) p) k) pq)
       end.

Definition c11_query_radius (num T pi : Z) (t : c11_treetype) (g : c11_grid) (kd : c11_kind) (s : c11_system)
           (m : c11_metric) (q : list c11_pt) (in_radians : bool) (r : Z) : option (list (list (Z * nat))) :=
  if r <? 0 then None
  else match c11_prepare num T s m q in_radians with
       | None => None
       | Some pq =>
           let rk := c11_rkey m (c11_radius_units num T pi t s r) in
           Some (map (fun p => c11_within (c11_keys m (c11_tree_coords num g kd s) p) rk) pq)
       end.

(* ---- cache state machine of Grid.get_ball_tree / Grid.get_kd_tree ---- *)

Record c11_req := {
  rq_tree : c11_treetype; rq_kind : c11_kind; rq_sys : c11_system; rq_metric : c11_metric;
  rq_reconstruct : bool }.

(* one wrapper object: attributes fixed at construction + the three per-kind slots, each holding
   the (system, metric) its sklearn tree was built with *)
Record c11_obj := {
  ob_id : nat;                       (* index of the request that created the object *)
  ob_kind : c11_kind;                (* _coordinates *)
  ob_n : c11_kind;                   (* the kind whose element count _n_elements holds (bound for k) *)
  ob_sys : c11_system; ob_metric : c11_metric; ob_reconstruct : bool;
  ob_nodes : option (c11_system * c11_metric);
  ob_faces : option (c11_system * c11_metric);
  ob_edges : option (c11_system * c11_metric) }.

Definition c11_slot (o : c11_obj) (k : c11_kind) : option (c11_system * c11_metric) :=
  match k with C11Nodes => ob_nodes o | C11Faces => ob_faces o | C11Edges => ob_edges o end.

(* _build_from_*: (re)build slot k when empty or reconstruct, with the object's own attributes *)
Definition c11_build_slot (o : c11_obj) (k : c11_kind) : c11_obj :=
  let fresh := Some (ob_sys o, ob_metric o) in
  let upd (cur : option (c11_system * c11_metric)) :=
      match cur with None => fresh | Some v => if ob_reconstruct o then fresh else Some v end in
  match k with
  | C11Nodes => {| ob_id := ob_id o; ob_kind := ob_kind o; ob_n := ob_n o; ob_sys := ob_sys o; ob_metric := ob_metric o;
                   ob_reconstruct := ob_reconstruct o;
                   ob_nodes := upd (ob_nodes o); ob_faces := ob_faces o; ob_edges := ob_edges o |}
  | C11Faces => {| ob_id := ob_id o; ob_kind := ob_kind o; ob_n := ob_n o; ob_sys := ob_sys o; ob_metric := ob_metric o;
                   ob_reconstruct := ob_reconstruct o;
                   ob_nodes := ob_nodes o; ob_faces := upd (ob_faces o); ob_edges := ob_edges o |}
  | C11Edges => {| ob_id := ob_id o; ob_kind := ob_kind o; ob_n := ob_n o; ob_sys := ob_sys o; ob_metric := ob_metric o;
                   ob_reconstruct := ob_reconstruct o;
                   ob_nodes := ob_nodes o; ob_faces := ob_faces o; ob_edges := upd (ob_edges o) |}
  end.

(* __init__ *)
Definition c11_new_obj (id : nat) (r : c11_req) : c11_obj :=
  c11_build_slot {| ob_id := id; ob_kind := rq_kind r; ob_n := rq_kind r; ob_sys := rq_sys r; ob_metric := rq_metric r;
                    ob_reconstruct := rq_reconstruct r;
                    ob_nodes := None; ob_faces := None; ob_edges := None |} (rq_kind r).

(* coordinates setter: (re)builds the slot when needed and ALWAYS refreshes _n_elements *)
Definition c11_set_kind (o : c11_obj) (k : c11_kind) : c11_obj :=
  c11_build_slot {| ob_id := ob_id o; ob_kind := k; ob_n := k; ob_sys := ob_sys o; ob_metric := ob_metric o;
                    ob_reconstruct := ob_reconstruct o;
                    ob_nodes := ob_nodes o; ob_faces := ob_faces o; ob_edges := ob_edges o |} k.

(* which request parameters get_*_tree compares with the cached object (regenerated from the
   source by harness/translators/c11_keys.py into Gen/C11_keys.v):
   in the rebuild condition: kind / system / metric; and whether the else-branch switches the kind *)
Record c11_cfg := { cf_rb_kind : bool; cf_rb_sys : bool; cf_rb_metric : bool; cf_switch : bool }.

Definition c11_get (cf : c11_cfg) (id : nat) (cache : option c11_obj) (r : c11_req) : c11_obj :=
  match cache with
  | None => c11_new_obj id r
  | Some o =>
      if rq_reconstruct r
         || (cf_rb_kind cf && negb (c11_kind_eqb (rq_kind r) (ob_kind o)))
         || (cf_rb_sys cf && negb (c11_system_eqb (rq_sys r) (ob_sys o)))
         || (cf_rb_metric cf && negb (c11_metric_eqb (rq_metric r) (ob_metric o)))
      then c11_new_obj id r
      else if cf_switch cf && negb (c11_kind_eqb (rq_kind r) (ob_kind o)) then c11_set_kind o (rq_kind r)
      else o
  end.

Record c11_state := { st_ball : option c11_obj; st_kd : option c11_obj; st_next : nat }.
Definition c11_init : c11_state := {| st_ball := None; st_kd := None; st_next := 0%nat |}.

(* one request: new state and the object handed back *)
Definition c11_step (cfb cfk : c11_cfg) (st : c11_state) (r : c11_req) : c11_state * c11_obj :=
  match rq_tree r with
  | C11Ball => let o := c11_get cfb (st_next st) (st_ball st) r in
               ({| st_ball := Some o; st_kd := st_kd st; st_next := S (st_next st) |}, o)
  | C11KD => let o := c11_get cfk (st_next st) (st_kd st) r in
             ({| st_ball := st_ball st; st_kd := Some o; st_next := S (st_next st) |}, o)
  end.

Fixpoint c11_run (cfb cfk : c11_cfg) (st : c11_state) (rs : list c11_req) : c11_state :=
  match rs with
  | [] => st
  | r :: rs' => c11_run cfb cfk (fst (c11_step cfb cfk st r)) rs'
  end.

(* what the object handed back actually is: element kind + (system, metric) of the sklearn tree
   its _current_tree() selects *)
Definition c11_observe (o : c11_obj) : c11_kind * option (c11_system * c11_metric) :=
  (ob_kind o, c11_slot o (ob_kind o)).

Definition c11_reflects (o : c11_obj) (r : c11_req) : Prop :=
  c11_observe o = (rq_kind r, Some (rq_sys r, rq_metric r)).

(* trace of a history: observation after every request (for the correspondence run) *)
Fixpoint c11_trace (cfb cfk : c11_cfg) (st : c11_state) (rs : list c11_req)
  : list (c11_kind * option (c11_system * c11_metric) * nat) :=
  match rs with
  | [] => []
  | r :: rs' => let so := c11_step cfb cfk st r in
                (c11_observe (snd so), ob_id (snd so)) :: c11_trace cfb cfk (fst so) rs'
  end.

Definition c11_cfg_complete (cf : c11_cfg) : bool :=
  cf_rb_sys cf && cf_rb_metric cf && (cf_rb_kind cf || cf_switch cf).

(* ---- the caller's query array after a call ----
   _prepare_xy_for_query / _prepare_xyz_for_query build their result in fresh arrays (np.asarray of the
   argument, np.expand_dims / np.flip views, np.deg2rad with a new output): the caller's array keeps
   its content.  `inplace = true` is the variant that converts the argument itself (np.deg2rad(xy, out=xy)
   on a float64 array): kept only to state what would go wrong. *)
Definition c11_arg_after (inplace : bool) (num : Z) (s : c11_system) (q : list c11_pt) (in_radians : bool) : list c11_pt :=
  if inplace then
    match s with
    | C11Spherical => if in_radians then q else map (map (c11_deg2rad num)) q
    | C11Cartesian => q
    end
  else q.

(* ---- a second grid object derived from the first (Grid.copy / isel / get_dual) ----
   As coded the derived grid starts without trees (its own empty caches).  `share = true` is the variant
   that hands the first grid's cached wrapper objects to the derived grid by reference: both grids then
   act on one and the same cache state. *)
Inductive c11_op2 := C11OnOriginal (r : c11_req) | C11OnDerived (r : c11_req).

Fixpoint c11_run2 (share : bool) (cfb cfk : c11_cfg) (sa sb : c11_state) (ops : list c11_op2) : c11_state * c11_state :=
  match ops with
  | [] => (sa, sb)
  | C11OnOriginal r :: ops' =>
      let sa' := fst (c11_step cfb cfk sa r) in
      c11_run2 share cfb cfk sa' (if share then sa' else sb) ops'
  | C11OnDerived r :: ops' =>
      let sb' := fst (c11_step cfb cfk sb r) in
      c11_run2 share cfb cfk (if share then sb' else sa) sb' ops'
  end.

(* the derived grid right after it is made *)
Definition c11_derive (share : bool) (sa : c11_state) : c11_state := if share then sa else c11_init.

(* what the handles held on a grid answer: the observation of its cached objects *)
Definition c11_handles (st : c11_state) : option (c11_kind * option (c11_system * c11_metric)) * option (c11_kind * option (c11_system * c11_metric)) :=
  (option_map c11_observe (st_ball st), option_map c11_observe (st_kd st)).
