(* C09_efd.v — the centre-to-centre distance table a subset carries over from its source (uxarray/grid/slice.py,
   _slice_face_indices, as repaired by the fix "a subset taken after edge_face_distances was computed ..."):
     kept_face_edges  = face_edge_connectivity[np.unique(face_indices)].ravel()   (fill dropped)
     n_faces_per_edge = np.bincount(kept_face_edges)[edge_indices]
     edge_face_distances <- where(n_faces_per_edge < 2, 0.0, carried value)
   An edge is listed once in the row of each face it bounds, so n_faces_per_edge[e] is the number of SELECTED faces among
   the source faces of e.  Faces are abstract ids, distances abstract codes (Z); `dist` is the great-circle distance of two
   face centres (centres are unchanged by slicing).  Definitions only. *)
From Verif Require Export Base.

Section Efd.
  Variable dist : Z -> Z -> Z.          (* distance between the centres of two faces *)
  Variable sel : Z -> bool.             (* is the face part of the selection *)

  (* _populate_edge_face_distances on any grid: two faces -> their distance, otherwise (boundary edge) zero *)
  Definition c09_efd_derived (faces_of_edge : list Z) : Z :=
    match faces_of_edge with
    | [a; b] => dist a b
    | _ => 0
    end.

  (* the faces of the edge that exist on the subset *)
  Definition c09_efd_kept (faces_of_edge : list Z) : list Z := filter sel faces_of_edge.

  (* what the subset carries: the code before the repair, and the repaired code *)
  Definition c09_efd_carried_old (faces_of_edge : list Z) : Z := c09_efd_derived faces_of_edge.
  Definition c09_efd_carried (faces_of_edge : list Z) : Z :=
    if (length (c09_efd_kept faces_of_edge) <? 2)%nat then 0 else c09_efd_derived faces_of_edge.
End Efd.
