(* C01.v — executable models of the uxarray readers (uxarray/io/*.py, grid/connectivity.py
   _replace_fill_values, grid/coordinates.py _set_desired_longitude_range) on integer tables, together
   with the encoders that produce a source of each format/dialect from an abstract mesh.

   The models mirror the code that exists (same steps, same branches), including its remaining defects:
     - _standardize_connectivity guesses the index base as the minimum real entry when the start_index
       attribute is absent (wrong when element 0 is not referenced by the table);
   Definitions only.  Node positions are opaque tokens (pairs of Z, ordered lexicographically exactly
   like the float pairs they stand for); index arithmetic is int64 with wrap-around where the code can
   overflow. *)
From Coq Require Import QArith Qround.
From Verif Require Export Base.
From Verif Require Import C02.
Open Scope Z_scope.

(* ---------------------------------------------------------------------------------------------- *)
(* abstract mesh in standard form                                                                  *)

Definition c01_pad (w : nat) (f : list Z) : row := f ++ repeat FILL (w - length f).
Definition c01_std (w : nat) (faces : list (list Z)) : table := map (c01_pad w) faces.

Definition c01_wf_face (n : Z) (f : list Z) : Prop := Forall (fun x => 0 <= x < n) f.
Definition c01_wf_faces (n : Z) (w : nat) (faces : list (list Z)) : Prop :=
  Forall (fun f => c01_wf_face n f /\ (length f <= w)%nat) faces.

(* corner positions of every face of a decoded grid: nodes = position tokens, table in standard form *)
Definition c01_faces_pos {P : Type} (dflt : P) (nodes : list P) (t : table) : list (list P) :=
  map (fun r => map (fun i => nth (Z.to_nat i) nodes dflt) (corners r)) t.

(* ---------------------------------------------------------------------------------------------- *)
(* source entries: integers or NaN (float storage)                                                 *)

Inductive c01_ent := EInt (z : Z) | ENan.

Definition c01_is_nan (e : c01_ent) : bool := match e with ENan => true | _ => false end.

(* ndarray.astype(np.intp): exact on integral values; NaN becomes the minimum integer on x86-64 *)
Definition c01_astype (e : c01_ent) : Z := match e with EInt z => z | ENan => FILL end.

(* int64 wrap-around *)
Definition c01_wrap64 (z : Z) : Z := (z + 9223372036854775808) mod 18446744073709551616 - 9223372036854775808.

(* grid/connectivity.py _replace_fill_values(grid_var, original_fill, INT_FILL_VALUE, INT_DTYPE):
   fill_val_idx = isnan(grid_var) if original_fill is NaN else grid_var == original_fill;
   astype; grid_var[fill_val_idx] = new_fill *)
Definition c01_fill_idx (orig : option c01_ent) (e : c01_ent) : bool :=
  match orig with
  | None => false                                   (* grid_var == None : all False *)
  | Some ENan => c01_is_nan e
  | Some (EInt v) => match e with EInt z => z =? v | ENan => false end
  end.

Definition c01_replace_fill (orig : option c01_ent) (t : list (list c01_ent)) : table :=
  map (map (fun e => if c01_fill_idx orig e then FILL else c01_astype e)) t.

(* x[x != INT_FILL_VALUE] -= s   (int64 arithmetic) *)
Definition c01_shift (s : Z) (t : table) : table :=
  map (map (fun x => if is_fill x then x else c01_wrap64 (x - s))) t.

(* new_conn[real_mask].min() where real_mask = new_conn != INT_FILL_VALUE; None when real_mask.any() is False *)
Definition c01_real_min (t : table) : option Z :=
  match filter (fun x => negb (is_fill x)) (concat t) with
  | [] => None
  | x :: l => Some (fold_left Z.min l x)
  end.

(* ---------------------------------------------------------------------------------------------- *)
(* UGRID: io/_ugrid.py _standardize_connectivity (face_node_connectivity and every other
   connectivity variable the source supplies)                                                       *)

Record c01_udial := {
  ud_std_dtype : bool;                 (* conn.dtype == INT_DTYPE *)
  ud_fill : option c01_ent;            (* the _FillValue attribute, if present *)
  ud_start : option Z                  (* the start_index attribute, if present *)
}.

Definition c01_ugrid_origfv (d : c01_udial) (t : list (list c01_ent)) : option c01_ent :=
  match ud_fill d with
  | Some v => Some v
  | None => if existsb c01_is_nan (concat t) then Some ENan else None
  end.

Definition c01_ent_is_FILL (o : option c01_ent) : bool :=
  match o with Some (EInt v) => v =? FILL | _ => false end.

Definition c01_ugrid_conn (d : c01_udial) (t : list (list c01_ent)) : table :=
  let orig := c01_ugrid_origfv d t in
  let nc := if negb (ud_std_dtype d) || negb (c01_ent_is_FILL orig)
            then c01_replace_fill orig t
            else map (map c01_astype) t in            (* conn.copy() *)
  match ud_start d with
  | Some s => c01_shift s nc
  | None => match c01_real_min nc with
            | Some m => c01_shift m nc
            | None => nc
            end
  end.

(* repaired variant: always shift by the declared start_index (0 when absent) *)
Definition c01_ugrid_conn_fixed (d : c01_udial) (t : list (list c01_ent)) : table :=
  let orig := c01_ugrid_origfv d t in
  c01_shift (match ud_start d with Some s => s | None => 0 end) (c01_replace_fill orig t).

(* the generator: faces over 0-based ids -> table in the dialect (base s, padding entry fe, width w) *)
Definition c01_enc_row (s : Z) (fe : c01_ent) (w : nat) (f : list Z) : list c01_ent :=
  map (fun x => EInt (x + s)) f ++ repeat fe (w - length f).
Definition c01_encode (s : Z) (fe : c01_ent) (w : nat) (faces : list (list Z)) : list (list c01_ent) :=
  map (c01_enc_row s fe w) faces.

(* ---------------------------------------------------------------------------------------------- *)
(* explicit topology: io/_topology.py _process_connectivity(conn, orig_fv, start_index)             *)

Definition c01_topo_conn (std_dtype : bool) (fv : option c01_ent) (start : Z) (t : list (list c01_ent))
  : table * bool :=
  match fv with
  | None => (map (map (fun e => c01_astype e - start)) t, true)     (* (conn - start_index).astype(INT_DTYPE) *)
  | Some v =>
      if c01_ent_is_FILL fv
      then (c01_shift start (map (map c01_astype) t), std_dtype)
      else (c01_shift start (c01_replace_fill fv t), true)
  end.

(* ---------------------------------------------------------------------------------------------- *)
(* MPAS: io/_mpas.py _replace_padding / _replace_zeros / _to_zero_index                             *)

Definition c01_replace_padding (r : row) (n : Z) : row :=
  firstn (Z.to_nat n) r ++ repeat FILL (length r - Z.to_nat n).
Definition c01_replace_zeros (r : row) : row := map (fun x => if x =? 0 then FILL else x) r.
Definition c01_to_zero_index (r : row) : row := map (fun x => if is_fill x then x else x - 1) r.

(* verticesOnCell / edgesOnCell / cellsOnCell with nEdgesOnCell *)
Definition c01_mpas_padded (t : table) (ne : list Z) : table :=
  map (fun rn => c01_to_zero_index (c01_replace_zeros (c01_replace_padding (fst rn) (snd rn)))) (combine t ne).
(* cellsOnVertex / verticesOnEdge / cellsOnEdge / edgesOnVertex *)
Definition c01_mpas_plain (t : table) : table :=
  map (fun r => c01_to_zero_index (c01_replace_zeros r)) t.

(* generator: 1-based rows followed by arbitrary padding junk (zeros, repeated last index, anything) *)
Definition c01_mpas_enc_row (f : list Z) (junk : list Z) : row := map (fun x => x + 1) f ++ junk.

(* ---------------------------------------------------------------------------------------------- *)
(* SCRIP: io/_scrip.py — np.unique over the (lon, lat) corner pairs rebuilds the shared nodes; trailing
   repetitions of a cell's last corner (SCRIP padding of cells with fewer corners) become -1 -> fill     *)

(* on the reversed row: np.flip(np.logical_and.accumulate(np.flip(same_as_prev))) — entries equal to their
   predecessor, as long as everything after them is too *)
Fixpoint c01_drop_rep (l : list Z) : list Z :=
  match l with
  | x :: l' => match l' with
               | y :: _ => if x =? y then (-1) :: c01_drop_rep l' else l
               | [] => l
               end
  | [] => []
  end.

Definition c01_scrip_row (r : list Z) : row :=
  map (fun x => if x =? -1 then FILL else x) (rev (c01_drop_rep (rev r))).

Definition c01_scrip (corners : list (list (Z * Z))) (w : nat) : list (Z * Z) * table :=
  let flat := concat corners in
  let u := unique_pairs flat in
  let inv := map (fun p => Z.of_nat (index_of p u)) flat in
  (u, map c01_scrip_row (chunk w (length corners) inv)).

(* ---------------------------------------------------------------------------------------------- *)
(* Exodus: io/_exodus.py — every connectN block is padded with zeros to max_face_nodes and stacked
   (np.vstack, dataset variable order); conn - 1, then -1 -> fill                                     *)

Definition c01_exo_dec (x : Z) : Z := if x - 1 =? -1 then FILL else x - 1.

Definition c01_exodus (w : nat) (blocks : list table) : table :=
  map (map c01_exo_dec) (flat_map (map (fun r => r ++ repeat 0 (w - length r))) blocks).

(* node_x, node_y, node_z as read: variant true = one 2-D `coord` variable, false = coordx/coordy/coordz *)
Definition c01_exodus_coords {A} (coord2d : bool) (cx cy cz : list A) : list A * list A * list A :=
  if coord2d then (cx, cy, cz) else (cx, cy, cz).

(* ---------------------------------------------------------------------------------------------- *)
(* ESMF: io/_esmf.py — start_index attribute of elementConn (1 when absent); the first numElementConn
   entries are shifted, the rest overwritten by the fill value                                         *)

Definition c01_esmf_start (attr : option Z) : Z := match attr with Some s => s | None => 1 end.

Definition c01_esmf_row (start : Z) (r : list c01_ent) (n : Z) : row :=
  map (fun e => c01_wrap64 (c01_astype e - start)) (firstn (Z.to_nat n) r)
  ++ repeat FILL (length r - Z.to_nat n).

Definition c01_esmf (attr : option Z) (t : list (list c01_ent)) (ns : list Z) : table :=
  map (fun rn => c01_esmf_row (c01_esmf_start attr) (fst rn) (snd rn)) (combine t ns).

Definition c01_esmf_enc_row (s : Z) (f : list Z) (junk : list c01_ent) : list c01_ent :=
  map (fun x => EInt (x + s)) f ++ junk.

(* ---------------------------------------------------------------------------------------------- *)
(* face-vertex arrays: io/_vertices.py — np.unique, then the node that carries the fill value is
   deleted and the indices above it are shifted down                                                 *)

Definition c01_fv_step (idx : list Z) (i : Z) : list Z :=
  map (fun x => if x =? i then FILL else if (i <? x) && negb (is_fill x) then x - 1 else x) idx.

Definition c01_fv (rows : list (list (Z * Z))) (w : nat) : list (Z * Z) * table :=
  let flat := concat rows in
  let u := unique_pairs flat in
  let idx := map (fun p => Z.of_nat (index_of p u)) flat in
  let mask := map has_fill u in
  let fi := where_from 0 mask in
  let u' := filter (fun p => negb (has_fill p)) u in
  (u', chunk w (length rows) (fold_left c01_fv_step fi idx)).

(* ---------------------------------------------------------------------------------------------- *)
(* GEOS-CS: io/_geos.py — idx = arange(nf*n1*n2).reshape(nf, n1, n2); tl, tr, bl, br slices;
   column_stack((br, bl, tl, tr))                                                                   *)

Definition c01_seqZ (start : Z) (len : nat) : list Z := map (fun k => start + Z.of_nat k) (seq 0 len).

(* idx[f] as a list of n1 rows of n2 entries *)
Definition c01_geos_tile (n1 n2 : nat) (f : nat) : list (list Z) :=
  map (fun i => c01_seqZ (Z.of_nat (f * n1 * n2 + i * n2)) n2) (seq 0 n1).

Definition c01_geos_idx (nf n1 n2 : nat) : list (list (list Z)) := map (c01_geos_tile n1 n2) (seq 0 nf).

(* a[:, :-1, :-1], a[:, :-1, 1:], a[:, 1:, :-1], a[:, 1:, 1:] followed by reshape(-1) *)
Definition c01_ravel3 (a : list (list (list Z))) : list Z := concat (map (@concat Z) a).
Definition c01_sl_tl (a : list (list (list Z))) := c01_ravel3 (map (fun t => map (@removelast Z) (removelast t)) a).
Definition c01_sl_tr (a : list (list (list Z))) := c01_ravel3 (map (fun t => map (@tl Z) (removelast t)) a).
Definition c01_sl_bl (a : list (list (list Z))) := c01_ravel3 (map (fun t => map (@removelast Z) (tl t)) a).
Definition c01_sl_br (a : list (list (list Z))) := c01_ravel3 (map (fun t => map (@tl Z) (tl t)) a).

Fixpoint c01_stack4 (a b c d : list Z) : table :=
  match a, b, c, d with
  | x :: a', y :: b', z :: c', u :: d' => [x; y; z; u] :: c01_stack4 a' b' c' d'
  | _, _, _, _ => []
  end.

Definition c01_geos (nf n1 n2 : nat) : table :=
  let a := c01_geos_idx nf n1 n2 in
  c01_stack4 (c01_sl_br a) (c01_sl_bl a) (c01_sl_tl a) (c01_sl_tr a).

(* ---------------------------------------------------------------------------------------------- *)
(* ICON: io/_icon.py _to_zero_index — tables are stored (k, n): `.T.values.astype(INT_DTYPE) - 1`, then
   entries equal to -1 (source 0 = missing) become the fill value                                      *)

Fixpoint c01_transpose (width : nat) (t : table) : table :=
  match width with
  | O => []
  | S w' => map (fun r => hd FILL r) t :: c01_transpose w' (map (@tl Z) t)
  end.

Definition c01_icon_dec (x : Z) : Z := if x - 1 =? -1 then FILL else x - 1.

Definition c01_icon (ncell : nat) (t : table) : table :=
  map (map c01_icon_dec) (c01_transpose ncell t).

(* generator: column j of the (k x n) source table is row j of the faces, 1-based *)
Definition c01_icon_encode (k : nat) (rows : table) : table :=
  c01_transpose k (map (map (fun x => x + 1)) rows).

(* ---------------------------------------------------------------------------------------------- *)
(* GeoJSON / shapefile: io/_geopandas.py — one row per exterior ring: _read_polygon for a Polygon,
   _read_multipolygon = the same step for every part                                                  *)

(* _read_polygon: x values appended to node_lon, y values to node_lat, one padded row of new indices *)
Definition c01_geo_step (w : nat) (st : list Z * list Z * table * Z) (ring : list (Z * Z))
  : list Z * list Z * table * Z :=
  let '(lonl, latl, conn, idx) := st in
  let k := length ring in
  let row := c01_seqZ idx k ++ repeat FILL (w - k) in
  (lonl ++ map fst ring, latl ++ map snd ring, conn ++ [row], idx + Z.of_nat k).

(* a feature is a list of parts (length 1 = Polygon) *)
Definition c01_geo_feature (w : nat) (st : list Z * list Z * table * Z) (parts : list (list (Z * Z)))
  : list Z * list Z * table * Z := fold_left (c01_geo_step w) parts st.

Definition c01_geo (w : nat) (feats : list (list (list (Z * Z)))) : list Z * list Z * table :=
  let '(lonl, latl, conn, _) := fold_left (c01_geo_feature w) feats ([], [], [], 0) in (lonl, latl, conn).

(* ---------------------------------------------------------------------------------------------- *)
(* longitudes: grid/coordinates.py _set_desired_longitude_range — only when max > 180:
   (lon + 180) % 360 - 180                                                                          *)

Definition c01_wrap180 (x : Q) : Q := (x + 180) - 360 * inject_Z (Qfloor ((x + 180) / 360)) - 180.

Definition c01_gt180 (x : Q) : bool := match Qcompare x 180 with Gt => true | _ => false end.

Definition c01_wrap_all (l : list Q) : list Q :=
  if existsb c01_gt180 l then map c01_wrap180 l else l.

(* ---------------------------------------------------------------------------------------------- *)
(* lazily derived attributes (grid/grid.py): Grid.node_lon / Grid.node_lat populate BOTH coordinates from
   xyz when absent and then wrap the longitudes; Grid.face_areas computes areas only when the source
   supplied none; Grid.face_jacobian calls compute_face_areas() for the jacobian only and stores nothing
   in Grid._ds.  State = what Grid._ds holds.                                                          *)

Record c01_lazy := { lz_lon : option (list Q); lz_areas : option (list Q) }.

Inductive c01_rd := RdNodeLon | RdNodeLat | RdFaceAreas | RdFaceJacobian | RdOther.

(* derived_lon: what _populate_node_latlon writes (0..360); computed: what compute_face_areas returns *)
Definition c01_rd_step (derived_lon computed : list Q) (s : c01_lazy) (r : c01_rd) : c01_lazy :=
  match r with
  | RdNodeLon | RdNodeLat =>
      match lz_lon s with
      | Some _ => s
      | None => {| lz_lon := Some (c01_wrap_all derived_lon); lz_areas := lz_areas s |}
      end
  | RdFaceAreas =>
      match lz_areas s with
      | Some _ => s
      | None => {| lz_lon := lz_lon s; lz_areas := Some computed |}
      end
  | RdFaceJacobian => s               (* `_, self._face_jacobian = self.compute_face_areas()` *)
  | RdOther => s
  end.

(* what a reader leaves in Grid._ds: the (wrapped) longitudes it decoded and the areas the source supplied,
   if any, in face order — MPAS areaCell / areaTriangle, SCRIP grid_area, ESMF elementArea *)
Definition c01_reader_state (lon : list Q) (areas : option (list Q)) : c01_lazy :=
  {| lz_lon := Some (c01_wrap_all lon); lz_areas := areas |}.

Definition c01_reads_area (r : c01_rd) : bool :=
  match r with RdFaceAreas => true | _ => false end.

Definition c01_rd_run (derived_lon computed : list Q) (s : c01_lazy) (rs : list c01_rd) : c01_lazy :=
  fold_left (c01_rd_step derived_lon computed) rs s.

(* ---------------------------------------------------------------------------------------------- *)
(* what a decoded grid presents: the corner lists of its rows (the certified reading of a standard table) *)

Definition c01_faces_of (t : table) : list (list Z) := map corners t.

(* boolean well-formedness of a mesh over n nodes whose faces fit rows of width w *)
Definition c01_wf_faceb (n : Z) (w : nat) (f : list Z) : bool :=
  forallb (fun x => (0 <=? x) && (x <? n)) f && (length f <=? w)%nat.
Definition c01_wf_facesb (n : Z) (w : nat) (faces : list (list Z)) : bool := forallb (c01_wf_faceb n w) faces.

(* generators for the padding dialects of MPAS (zeros / last index repeated) and ESMF (-1) *)
Definition c01_mpas_encode (zeros : bool) (w : nat) (faces : list (list Z)) : table :=
  map (fun f => c01_mpas_enc_row f (repeat (if zeros then 0 else last f 0 + 1) (w - length f))) faces.
Definition c01_esmf_encode (s : Z) (w : nat) (faces : list (list Z)) : list (list c01_ent) :=
  map (fun f => c01_esmf_enc_row s f (repeat (EInt (-1)) (w - length f))) faces.
Definition c01_scrip_encode (w : nat) (faces : list (list (Z * Z))) : list (list (Z * Z)) :=
  map (fun f => f ++ repeat (last f (FILL, FILL)) (w - length f)) faces.

(* io/_ugrid.py _read_ugrid, dimension renaming: node and face dimensions are taken from node_lon.dims[0]
   and face_node_connectivity.dims[0] (the *_dimension attributes are looked up among the coordinates of
   grid_topology, i.e. never found); the edge dimension is renamed only through edge_lon.
   Result: (node renamed, face renamed, edge renamed) *)
Definition c01_ugrid_dims (attr_node attr_face attr_edge has_edge_lon : bool) : bool * bool * bool :=
  (true, true, has_edge_lon).

(* ---------------------------------------------------------------------------------------------- *)
(* format sniffing: io/utils.py _parse_grid_type — first matching test wins                          *)

Record c01_keys := {
  k_coord : bool; k_coordx : bool; k_grid_center_lon : bool; k_is_ugrid : bool; k_verticesOnCell : bool;
  k_maxNodePElement : bool; k_nf_YCdim_XCdim : bool; k_vertex_of_cell : bool
}.

(* 0 Exodus, 1 Scrip, 2 UGRID, 3 MPAS, 4 ESMF, 5 GEOS-CS, 6 ICON, 7 unrecognised *)
Definition c01_sniff (k : c01_keys) : Z :=
  if k_coord k then 0 else if k_coordx k then 0 else if k_grid_center_lon k then 1
  else if k_is_ugrid k then 2 else if k_verticesOnCell k then 3 else if k_maxNodePElement k then 4
  else if k_nf_YCdim_XCdim k then 5 else if k_vertex_of_cell k then 6 else 7.
