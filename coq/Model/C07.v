(* C07.v — executable model of the encoders of uxarray (Grid.to_xarray / Grid.encode_as):
     uxarray/io/_ugrid.py  : _encode_ugrid  (the module-level dict
                             conventions.ugrid.BASE_GRID_TOPOLOGY_ATTRS is explicit state),
     uxarray/io/_exodus.py : _encode_exodus (blocks by face size, 1-based connect arrays),
     uxarray/io/_scrip.py  : _encode_scrip  (corner arrays by fancy indexing),
   and of just enough of the decoders (_read_ugrid + _standardize_connectivity, _read_exodus,
   _read_scrip/_to_ugrid) and of the netCDF write/read step to state the round trips.

   The model follows the code that exists, defects included.  Every place where the code is
   known to deviate from its intent is a *variant* switch (record c07_variant): the value
   c07_faithful is the code as it is, c07_before_fixes the code before the encoder fixes already
   merged, c07_repaired has every known repair applied.  Definitions only. *)
From Coq Require Import String Ascii.
From Coq Require Import Sorting.Mergesort Orders.
From Verif Require Export Base.

(* ------------------------------------------------------------------------------------- *)
(* names                                                                                   *)

(* A name (variable, dimension, attribute key, word of a string attribute) is the integer whose
   base-256 digits are its bytes: c07_code "n_face".  The constants below are computed by Coq from
   the strings, so the source stays readable while the executable model only handles Z. *)
Fixpoint c07_code_aux (s : string) (acc : Z) : Z :=
  match s with
  | EmptyString => acc
  | String a s' => c07_code_aux s' (acc * 256 + Z.of_nat (nat_of_ascii a))
  end.
Definition c07_code (s : string) : Z := c07_code_aux s 0.

Section C07Names.
Local Open Scope string_scope.
Definition c07_s_grid_topology : Z := Eval vm_compute in c07_code "grid_topology".
Definition c07_s_mesh_topology : Z := Eval vm_compute in c07_code "mesh_topology".
Definition c07_s_cf_role : Z := Eval vm_compute in c07_code "cf_role".
Definition c07_s_topology_dimension : Z := Eval vm_compute in c07_code "topology_dimension".
Definition c07_s_face_dimension : Z := Eval vm_compute in c07_code "face_dimension".
Definition c07_s_node_dimension : Z := Eval vm_compute in c07_code "node_dimension".
Definition c07_s_edge_dimension : Z := Eval vm_compute in c07_code "edge_dimension".
Definition c07_s_node_coordinates : Z := Eval vm_compute in c07_code "node_coordinates".
Definition c07_s_face_coordinates : Z := Eval vm_compute in c07_code "face_coordinates".
Definition c07_s_edge_coordinates : Z := Eval vm_compute in c07_code "edge_coordinates".
Definition c07_s_n_face : Z := Eval vm_compute in c07_code "n_face".
Definition c07_s_n_node : Z := Eval vm_compute in c07_code "n_node".
Definition c07_s_n_edge : Z := Eval vm_compute in c07_code "n_edge".
Definition c07_s_n_max_face_nodes : Z := Eval vm_compute in c07_code "n_max_face_nodes".
Definition c07_s_node_lon : Z := Eval vm_compute in c07_code "node_lon".
Definition c07_s_node_lat : Z := Eval vm_compute in c07_code "node_lat".
Definition c07_s_face_lon : Z := Eval vm_compute in c07_code "face_lon".
Definition c07_s_face_lat : Z := Eval vm_compute in c07_code "face_lat".
Definition c07_s_edge_lon : Z := Eval vm_compute in c07_code "edge_lon".
Definition c07_s_edge_lat : Z := Eval vm_compute in c07_code "edge_lat".
Definition c07_s_node_x : Z := Eval vm_compute in c07_code "node_x".
Definition c07_s_node_y : Z := Eval vm_compute in c07_code "node_y".
Definition c07_s_node_z : Z := Eval vm_compute in c07_code "node_z".
Definition c07_s_fnc : Z := Eval vm_compute in c07_code "face_node_connectivity".
Definition c07_s_fillvalue : Z := Eval vm_compute in c07_code "_FillValue".
Definition c07_s_start_index : Z := Eval vm_compute in c07_code "start_index".
(* conventions.ugrid.CONNECTIVITY_NAMES *)
Definition c07_conn_names : list Z :=
  Eval vm_compute in map c07_code
  [ "face_node_connectivity"; "face_edge_connectivity"; "face_face_connectivity"; "edge_node_connectivity"; "edge_face_connectivity"; "node_edge_connectivity"; "node_face_connectivity" ]%list.
(* format strings of the two entry points *)
Definition c07_fmt_names_to_xarray : list Z :=
  Eval vm_compute in map c07_code
  [ "ugrid"; "exodus"; "scrip" ]%list.
Definition c07_fmt_names_encode_as : list Z :=
  Eval vm_compute in map c07_code
  [ "UGRID"; "Exodus"; "SCRIP" ]%list.
(* helper objects stored as attributes: (variable, attribute keys) —
   grid/connectivity.py:169-176 and grid/geometry.py:1308-1319 *)
Definition c07_helper_attrs : list (Z * list Z) :=
  Eval vm_compute in
  [ (c07_code "edge_node_connectivity", [c07_code "inverse_indices"; c07_code "fill_value_mask"]);
    (c07_code "bounds", [c07_code "latitude_intervalsIndex"; c07_code "latitude_intervals_name_map"]) ]%list.
End C07Names.

Definition c07_mem (n : Z) (l : list Z) : bool := existsb (Z.eqb n) l.

(* ------------------------------------------------------------------------------------- *)
(* attributes, variables, datasets                                                         *)

(* an attribute value; what matters is (a) whether netCDF can store it, (b) for strings the
   blank-separated words, (c) for integer scalars the value *)
Inductive c07_aval :=
| C07_AStr (words : list Z)     (* str; "face_lon face_lat" = ["face_lon";"face_lat"] *)
| C07_ANum (z : Z)                   (* numeric scalar (integers carry their value, floats 0) *)
| C07_ANumArr                        (* 1-D numeric array (inverse_indices) *)
| C07_ABool                          (* bool / bool array (fill_value_mask) *)
| C07_AObj.                          (* arbitrary Python object (IntervalIndex, DataFrame) *)

Definition c07_netcdf_ok (a : c07_aval) : bool :=
  match a with C07_ABool | C07_AObj => false | _ => true end.

(* Python dict with insertion order: d[k] = v *)
Definition c07_dict := list (Z * c07_aval).

Fixpoint c07_dict_set (k : Z) (v : c07_aval) (d : c07_dict) : c07_dict :=
  match d with
  | [] => [(k, v)]
  | (k', v') :: d' => if Z.eqb k k' then (k, v) :: d' else (k', v') :: c07_dict_set k v d'
  end.

Fixpoint c07_dict_get (k : Z) (d : c07_dict) : option c07_aval :=
  match d with
  | [] => None
  | (k', v') :: d' => if Z.eqb k k' then Some v' else c07_dict_get k d'
  end.

Definition c07_dict_has (k : Z) (d : c07_dict) : bool :=
  match c07_dict_get k d with Some _ => true | None => false end.

(* array payloads the encoders/decoders look at; floats are order-preserving integer tokens
   (the code only moves, compares and sorts them; trigonometry is kept symbolic, see c07_coord) *)
Inductive c07_data :=
| C07_DInt (t : table)                        (* 2-D integer array (intp) *)
| C07_DNaN (t : list (list (option Z)))       (* 2-D float array holding integers and NaN (None) *)
| C07_DFloat (l : list Z)                     (* 1-D float array *)
| C07_DNone.                                  (* anything else *)

Record c07_var := {
  cv_name : Z;
  cv_dims : list Z;
  cv_attrs : c07_dict;
  cv_data : c07_data
}.

(* data variables and coordinates, insertion order; the dataset's global attributes are carried as
   the attributes of one more data-less entry (named "@global" by the harness) *)
Definition c07_ds := list c07_var.

Definition c07_has (ds : c07_ds) (n : Z) : bool :=
  existsb (fun v => Z.eqb n (cv_name v)) ds.
Definition c07_find (n : Z) (ds : c07_ds) : option c07_var :=
  find (fun v => Z.eqb n (cv_name v)) ds.
Definition c07_dims (ds : c07_ds) : list Z := flat_map cv_dims ds.
Definition c07_drop (n : Z) (ds : c07_ds) : c07_ds :=
  filter (fun v => negb (Z.eqb n (cv_name v))) ds.

(* ------------------------------------------------------------------------------------- *)
(* variants: the code as it is vs. the minimal repairs                                     *)

Record c07_variant := {
  vr_copy_template : bool;   (* true: grid_topology = dict(ugrid.BASE_GRID_TOPOLOGY_ATTRS)
                                false: the module-level dict itself (alias)                    *)
  vr_exo_fill : Z;           (* value the Exodus encoder compares with to find padding          *)
  vr_exo_accumulate : bool;  (* false: start = num_faces ; true: start += num_faces            *)
  vr_exo_deg2rad : bool;     (* true: np.deg2rad before _lonlat_rad_to_xyz ; false: degrees fed in *)
  vr_exo_read_all : bool;    (* false: _read_exodus keeps only the last connect block         *)
  vr_strip_helpers : bool;   (* true: _encode_ugrid works on a copy and drops the helper objects
                                (inverse_indices, fill_value_mask, IntervalIndex, DataFrame) from attrs *)
  vr_scrip_pad : bool        (* true: _encode_scrip repeats the last corner of shorter faces and
                                _to_ugrid turns repeated trailing corners back into padding *)
}.

(* the code as it is: template copied (0ec27eb7), deg2rad (ce96ede9), Exodus padding test on
   INT_FILL_VALUE + start accumulated + reader concatenating every block (5ac9d665), helper
   attributes stripped from the exported copy (9a5ff0a0), SCRIP repeated-last-corner padding on
   export and import (5e414c62) *)
Definition c07_faithful : c07_variant :=
  {| vr_copy_template := true; vr_exo_fill := FILL; vr_exo_accumulate := true;
     vr_exo_deg2rad := true; vr_exo_read_all := true; vr_strip_helpers := true;
     vr_scrip_pad := true |}.

(* the code before those commits (kept: the theorems say what each repair buys) *)
Definition c07_before_fixes : c07_variant :=
  {| vr_copy_template := false; vr_exo_fill := -1; vr_exo_accumulate := false;
     vr_exo_deg2rad := false; vr_exo_read_all := false; vr_strip_helpers := false;
     vr_scrip_pad := false |}.

(* all known repairs applied (now the same as c07_faithful) *)
Definition c07_repaired : c07_variant :=
  {| vr_copy_template := true; vr_exo_fill := FILL; vr_exo_accumulate := true;
     vr_exo_deg2rad := true; vr_exo_read_all := true; vr_strip_helpers := true;
     vr_scrip_pad := true |}.

(* ------------------------------------------------------------------------------------- *)
(* UGRID encoder                                                                           *)

(* conventions.ugrid.BASE_GRID_TOPOLOGY_ATTRS as the module is imported *)
Definition c07_base_template : c07_dict :=
  [ (c07_s_cf_role, C07_AStr [c07_s_mesh_topology]);
    (c07_s_topology_dimension, C07_ANum 2);
    (c07_s_face_dimension, C07_AStr [c07_s_n_face]);
    (c07_s_node_dimension, C07_AStr [c07_s_n_node]);
    (c07_s_node_coordinates, C07_AStr [c07_s_node_lon; c07_s_node_lat]);
    (c07_s_fnc, C07_AStr [c07_s_fnc]) ].

(* the conditional assignments of _encode_ugrid, in program order:
   (condition evaluated on the dataset, key, value) *)
Definition c07_ugrid_update_list (ds : c07_ds) : list (bool * (Z * c07_aval)) :=
  [ (c07_mem c07_s_n_edge (c07_dims ds), (c07_s_edge_dimension, C07_AStr [c07_s_n_edge]));
    (c07_has ds c07_s_face_lon, (c07_s_face_coordinates, C07_AStr [c07_s_face_lon; c07_s_face_lat]));
    (c07_has ds c07_s_edge_lon, (c07_s_edge_coordinates, C07_AStr [c07_s_edge_lon; c07_s_edge_lat])) ]
  ++ map (fun c => (c07_has ds c, (c, C07_AStr [c]))) c07_conn_names.

Definition c07_apply_updates (ups : list (bool * (Z * c07_aval))) (gt : c07_dict) : c07_dict :=
  fold_left (fun (g : c07_dict) (u : bool * (Z * c07_aval)) =>
               if fst u then c07_dict_set (fst (snd u)) (snd (snd u)) g else g) ups gt.

Definition c07_ugrid_updates (ds : c07_ds) (gt : c07_dict) : c07_dict :=
  c07_apply_updates (c07_ugrid_update_list ds) gt.

Record c07_ugrid_out := {
  uo_template : c07_dict;     (* the module-level dict after the call *)
  uo_ds : c07_ds;             (* the returned dataset *)
  uo_same_object : bool       (* returned dataset is the very object passed in (since /repo 944273fc
                                 the dispatch passes self._ds.copy(deep=True), no longer Grid._ds) *)
}.

Definition c07_topology_var (gt : c07_dict) : c07_var :=
  {| cv_name := c07_s_grid_topology; cv_dims := []; cv_attrs := gt; cv_data := C07_DNone |}.

(* the proposed repair of the unstorable attributes: drop the helper objects from a copy *)
Definition c07_strip_var (v : c07_var) : c07_var :=
  match find (fun p => fst p =? cv_name v) c07_helper_attrs with
  | Some p => {| cv_name := cv_name v; cv_dims := cv_dims v;
                 cv_attrs := filter (fun kv => negb (c07_mem (fst kv) (snd p))) (cv_attrs v);
                 cv_data := cv_data v |}
  | None => v
  end.

Definition c07_ds0 (vr : c07_variant) (ds : c07_ds) : c07_ds :=
  if vr_strip_helpers vr then map c07_strip_var ds else ds.

Definition c07_encode_ugrid (vr : c07_variant) (tmpl : c07_dict) (ds0 : c07_ds) : c07_ugrid_out :=
  let ds := c07_ds0 vr ds0 in
  let had := c07_has ds c07_s_grid_topology in
  let ds1 := if had then c07_drop c07_s_grid_topology ds else ds in   (* drop_vars: new object *)
  let gt := c07_ugrid_updates ds1 tmpl in        (* mutations of the alias reach the template *)
  {| uo_template := if vr_copy_template vr then tmpl else gt;
     uo_ds := ds1 ++ [c07_topology_var gt];      (* xr.DataArray(attrs=...) copies the dict *)
     uo_same_object := negb had && negb (vr_strip_helpers vr) |}.

(* ---- self-consistency of the encoded dataset ---- *)

Definition c07_dim_keys : list Z :=
  [c07_s_face_dimension; c07_s_node_dimension; c07_s_edge_dimension].
Definition c07_coord_keys : list Z :=
  [c07_s_node_coordinates; c07_s_face_coordinates; c07_s_edge_coordinates].

(* one attribute of the topology variable: every name it mentions exists *)
Definition c07_entry_closed (ds : c07_ds) (kv : Z * c07_aval) : bool :=
  match snd kv with
  | C07_AStr ws =>
      if c07_mem (fst kv) c07_dim_keys then forallb (fun w => c07_mem w (c07_dims ds)) ws
      else if c07_mem (fst kv) c07_coord_keys || c07_mem (fst kv) c07_conn_names
           then forallb (c07_has ds) ws
           else true
  | _ => true
  end.

Definition c07_closed (ds : c07_ds) : bool :=
  match c07_find c07_s_grid_topology ds with
  | Some v => forallb (c07_entry_closed ds) (cv_attrs v)
  | None => false
  end.

(* Dataset.to_netcdf succeeds iff every attribute of every variable can be stored *)
Definition c07_writable (ds : c07_ds) : bool :=
  forallb (fun v => forallb (fun kv => c07_netcdf_ok (snd kv)) (cv_attrs v)) ds.

(* ---- well-formed grid datasets (the hypothesis of the theorems; the harness evaluates it on
   every dataset it hands to an encoder) ---- *)

Definition c07_is_topology (v : c07_var) : bool :=
  match c07_dict_get c07_s_cf_role (cv_attrs v) with
  | Some (C07_AStr [r]) => Z.eqb r c07_s_mesh_topology
  | _ => false
  end.

Definition c07_var_float (ds : c07_ds) (n dimn : Z) : bool :=
  match c07_find n ds with
  | Some v => (match cv_data v with C07_DFloat _ => true | _ => false end) && c07_mem dimn (cv_dims v)
  | None => false
  end.

Definition c07_fnc_ok (v : c07_var) : bool :=
  (match cv_data v with C07_DInt _ => true | _ => false end)
  && c07_mem c07_s_n_face (cv_dims v)
  && (match c07_dict_get c07_s_fillvalue (cv_attrs v) with Some (C07_ANum f) => f =? FILL | _ => false end)
  && (match c07_dict_get c07_s_start_index (cv_attrs v) with Some (C07_ANum s) => s =? 0 | _ => false end).

Definition c07_ds_wfb (ds : c07_ds) : bool :=
  c07_var_float ds c07_s_node_lon c07_s_n_node
  && c07_var_float ds c07_s_node_lat c07_s_n_node
  && (match c07_find c07_s_fnc ds with Some v => c07_fnc_ok v | None => false end)
  && (negb (c07_has ds c07_s_face_lon) || c07_has ds c07_s_face_lat)
  && (negb (c07_has ds c07_s_edge_lon) || c07_has ds c07_s_edge_lat)
  && forallb (fun v => negb (c07_is_topology v) || (cv_name v =? c07_s_grid_topology)) ds.

(* ------------------------------------------------------------------------------------- *)
(* netCDF write + xarray.open_dataset (mask_and_scale): integer variables with a _FillValue
   attribute come back as floats with NaN, the attribute moves to the encoding            *)

Definition c07_mask_row (fv : Z) (r : row) : list (option Z) :=
  map (fun x => if x =? fv then None else Some x) r.

Definition c07_dict_remove (k : Z) (d : c07_dict) : c07_dict :=
  filter (fun kv => negb (Z.eqb k (fst kv))) d.

Definition c07_file_var (v : c07_var) : c07_var :=
  match cv_data v, c07_dict_get c07_s_fillvalue (cv_attrs v) with
  | C07_DInt t, Some (C07_ANum fv) =>
      {| cv_name := cv_name v; cv_dims := cv_dims v;
         cv_attrs := c07_dict_remove c07_s_fillvalue (cv_attrs v);
         cv_data := C07_DNaN (map (c07_mask_row fv) t) |}
  | _, _ => v
  end.

(* the whole dataset through a file (names, dims and all other attributes are unchanged, so the
   decoder below applies c07_file_var only to the variable whose values it reads) *)
Definition c07_via_file (ds : c07_ds) : option c07_ds :=
  if c07_writable ds then Some (map c07_file_var ds) else None.

(* ------------------------------------------------------------------------------------- *)
(* UGRID decoder (what C07 needs of _read_ugrid)                                           *)

(* _standardize_connectivity on one variable's payload *)
Definition c07_min_list (l : list Z) : Z :=
  match l with [] => 0 | x :: l' => fold_left Z.min l' x end.

Definition c07_standardize (v : c07_var) : option table :=
  let start := c07_dict_get c07_s_start_index (cv_attrs v) in
  (* convert to zero-based indices, padding left untouched (always, since /repo 22d18b4c) *)
  let shift (t : table) : table :=
    let s := match start with
             | Some (C07_ANum s) => s
             | _ => c07_min_list (filter (fun x => negb (x =? FILL)) (concat t))
                                                        (* new_conn[real_mask].min(), if any *)
             end in
    map (map (fun x => if x =? FILL then x else x - s)) t in
  match cv_data v with
  | C07_DInt t =>
      match c07_dict_get c07_s_fillvalue (cv_attrs v) with
      | Some (C07_ANum fv) =>
          if fv =? FILL then Some (shift t)                 (* standard dtype and fill: conn.copy() *)
          else Some (shift (map (map (fun x => if x =? fv then FILL else x)) t))
      | _ => Some (shift t)                                 (* original_fv = None <> FILL *)
      end
  | C07_DNaN t =>                                           (* float dtype: fill replaced, cast *)
      match c07_dict_get c07_s_fillvalue (cv_attrs v) with
      | Some (C07_ANum fv) =>
          Some (shift (map (map (fun x => match x with
                                          | None => FILL   (* astype(int) of NaN, not a fill *)
                                          | Some y => if y =? fv then FILL else y end)) t))
      | _ => Some (shift (map (map (fun x => match x with None => FILL | Some y => y end)) t))
      end
  | _ => None
  end.

Definition c07_float_data (v : c07_var) : option (list Z) :=
  match cv_data v with C07_DFloat l => Some l | _ => None end.

(* ds.filter_by_attrs(cf_role="mesh_topology"), first hit: c07_is_topology above *)

(* the rename dictionaries: (old name, new name); ds.rename fails on a missing old name *)
Definition c07_two_names (gt : c07_dict) (k : Z) : option (option (Z * Z)) :=
  match c07_dict_get k gt with
  | None => Some None
  | Some (C07_AStr [a; b]) => Some (Some (a, b))
  | Some _ => None                        (* .split() does not unpack into two names *)
  end.

Definition c07_rename_lookup (ren : list (Z * Z)) (newname : Z) : Z :=
  match find (fun p => Z.eqb newname (snd p)) ren with
  | Some p => fst p
  | None => newname
  end.

Record c07_decoded := {
  dc_fnc : table;
  dc_lon : list Z;
  dc_lat : list Z
}.

Definition c07_read_ugrid (via_file : bool) (ds : c07_ds) : option c07_decoded :=
  match find c07_is_topology ds with
  | None => None
  | Some tv =>
    let gt := cv_attrs tv in
    match c07_two_names gt c07_s_node_coordinates,
          c07_two_names gt c07_s_edge_coordinates,
          c07_two_names gt c07_s_face_coordinates with
    | Some (Some (nlon, nlat)), Some ec, Some fc =>
      let coord_ren :=
        [(nlon, c07_s_node_lon); (nlat, c07_s_node_lat)]
        ++ match ec with Some (a, b) => [(a, c07_s_edge_lon); (b, c07_s_edge_lat)] | None => [] end
        ++ match fc with Some (a, b) => [(a, c07_s_face_lon); (b, c07_s_face_lat)] | None => [] end in
      (* connectivity: attribute of the topology variable, else a variable with that cf_role *)
      let conn_ren :=
        flat_map (fun c =>
          match c07_dict_get c gt with
          | Some (C07_AStr [orig]) => [(orig, c)]
          | Some _ => [(c07_s_grid_topology, c)]   (* not a single name: rename cannot succeed *)
          | None =>
              match find (fun v => match c07_dict_get c07_s_cf_role (cv_attrs v) with
                                   | Some (C07_AStr [r]) => Z.eqb r c
                                   | _ => false end) ds with
              | Some v => [(cv_name v, c)]
              | None => []
              end
          end) c07_conn_names in
      if forallb (fun p => c07_has ds (fst p)) coord_ren
         && forallb (fun p => c07_has ds (fst p) && negb (Z.eqb (fst p) c07_s_grid_topology)) conn_ren
      then
        match c07_find (c07_rename_lookup conn_ren c07_s_fnc) ds,
              c07_find (c07_rename_lookup coord_ren c07_s_node_lon) ds,
              c07_find (c07_rename_lookup coord_ren c07_s_node_lat) ds with
        | Some vf, Some vlon, Some vlat =>
            match c07_standardize (if via_file then c07_file_var vf else vf),
                  c07_float_data vlon, c07_float_data vlat with
            | Some t, Some lon, Some lat => Some {| dc_fnc := t; dc_lon := lon; dc_lat := lat |}
            | _, _, _ => None
            end
        | _, _, _ => None
        end
      else None
    | _, _, _ => None
    end
  end.

(* ------------------------------------------------------------------------------------- *)
(* Exodus encoder                                                                          *)

(* where the node coordinates written to "coord" come from (trigonometry stays symbolic; the
   harness evaluates the description numerically, Proofs/C07_proofs.v reasons over R) *)
Inductive c07_coord :=
| C07_CoordXYZ (x y z : list Z)                 (* node_x/node_y/node_z copied *)
| C07_CoordFromLonLat (deg2rad : bool) (lon lat : list Z)
                                                 (* _lonlat_rad_to_xyz(lon, lat), with or without
                                                    the degree->radian conversion before it *)
| C07_CoordError.

Definition c07_exo_coord (vr : c07_variant) (ds : c07_ds) : c07_coord :=
  let fl n := match c07_find n ds with Some v => c07_float_data v | None => None end in
  if c07_has ds c07_s_node_x then
    match fl c07_s_node_x, fl c07_s_node_y, fl c07_s_node_z with
    | Some x, Some y, Some z => C07_CoordXYZ x y z
    | _, _, _ => C07_CoordError
    end
  else
    match fl c07_s_node_lon, fl c07_s_node_lat with
    | Some lon, Some lat => C07_CoordFromLonLat (vr_exo_deg2rad vr) lon lat
    | _, _ => C07_CoordError
    end.

(* np.where(row == c)[0][0] *)
Fixpoint c07_find_first (c : Z) (r : row) : option nat :=
  match r with
  | [] => None
  | x :: r' => if x =? c then Some 0%nat
               else match c07_find_first c r' with Some k => Some (S k) | None => None end
  end.

(* one iteration of the loop over face rows: (slot of num_el_all_blks, row without padding) *)
Definition c07_exo_classify (c : Z) (nmax : nat) (r : row) : nat * row :=
  match c07_find_first c r with
  | Some k => ((match k with O => nmax - 1 | S k' => k' end)%nat, firstn k r)
                                                (* num_el_all_blks[k - 1]: index -1 is the last *)
  | None => ((nmax - 1)%nat, r)
  end.

Fixpoint c07_incr (i : nat) (l : list nat) : list nat :=
  match l, i with
  | [], _ => []
  | x :: l', O => S x :: l'
  | x :: l', S i' => x :: c07_incr i' l'
  end.

Definition c07_exo_counts (c : Z) (nmax : nat) (t : table) : list nat :=
  fold_left (fun acc r => c07_incr (fst (c07_exo_classify c nmax r)) acc) t (repeat 0%nat nmax).

(* list.sort(key=len): stable insertion sort by length *)
Fixpoint c07_insert_len (x : row) (l : list row) : list row :=
  match l with
  | [] => [x]
  | y :: l' => if (length x <=? length y)%nat then x :: l else y :: c07_insert_len x l'
  end.
Definition c07_sort_len (l : list row) : list row := fold_right c07_insert_len [] l.

(* _get_element_type: ELEMENT_TYPE_DICT has keys 2..8 *)
Definition c07_exo_elem_ok (n : nat) : bool := (2 <=? n)%nat && (n <=? 8)%nat.

Record c07_exo_block := {
  eb_connect : table;         (* connect<b>: 1-based *)
  eb_width : nat;             (* num_nod_per_el<b> *)
  eb_first_gid : Z            (* global_id<b>[0] = start + 1 *)
}.

(* the loop over blocks; None = the encoder raises *)
Fixpoint c07_exo_blocks (acc : bool) (counts : list nat) (start : nat) (conn : list row)
  : option (list c07_exo_block) :=
  match counts with
  | [] => Some []
  | nf :: cs =>
      match nth_error conn start with
      | None => None                                   (* conn_nofill[start]: IndexError *)
      | Some r0 =>
          let w := length r0 in
          if negb (c07_exo_elem_ok w) then None        (* ELEMENT_TYPE_DICT[num_nodes]: KeyError *)
          else
            let blk := firstn nf (skipn start conn) in
            if negb ((length blk =? nf)%nat && forallb (fun r => (length r =? w)%nat) blk)
            then None                                  (* ragged np.array / conflicting sizes *)
            else
              match c07_exo_blocks acc cs (if acc then (start + nf)%nat else nf) conn with
              | None => None
              | Some bs =>
                  Some ({| eb_connect := map (map (Z.add 1)) blk; eb_width := w;
                           eb_first_gid := Z.of_nat start + 1 |} :: bs)
              end
      end
  end.

Record c07_exo_out := {
  xo_blocks : list c07_exo_block;
  xo_coord : c07_coord
}.

Definition c07_exo_connect (vr : c07_variant) (nmax : nat) (t : table) : option (list c07_exo_block) :=
  let counts := c07_exo_counts (vr_exo_fill vr) nmax t in
  let conn := c07_sort_len (map (fun r => snd (c07_exo_classify (vr_exo_fill vr) nmax r)) t) in
  c07_exo_blocks (vr_exo_accumulate vr) (filter (fun n => negb (n =? 0)%nat) counts) 0%nat conn.

Definition c07_encode_exodus (vr : c07_variant) (ds : c07_ds) : option c07_exo_out :=
  match c07_find c07_s_fnc ds with
  | Some v =>
      match cv_data v with
      | C07_DInt t =>
          let nmax := match t with r :: _ => length r | [] => 0%nat end in
          match c07_exo_coord vr ds, c07_exo_connect vr nmax t with
          | C07_CoordError, _ => None
          | c, Some bs => Some {| xo_blocks := bs; xo_coord := c |}
          | _, None => None
          end
      | _ => None
      end
  | None => None
  end.

(* ---- Exodus decoder (connectivity part of _read_exodus) ---- *)

Definition c07_exo_unshift (w : nat) (r : row) : row :=
  map (fun x => if x - 1 =? -1 then FILL else x - 1) (r ++ repeat 0 (w - length r)).

Definition c07_read_exodus_conn (vr : c07_variant) (bs : list c07_exo_block) : table :=
  let w := fold_left Nat.max (map eb_width bs) 0%nat in
  if vr_exo_read_all vr
  then flat_map (fun b => map (c07_exo_unshift w) (eb_connect b)) bs
  else match last (map Some bs) None with                     (* the last connect<b> wins *)
       | Some b => map (c07_exo_unshift (eb_width b)) (eb_connect b)
       | None => []
       end.

(* ------------------------------------------------------------------------------------- *)
(* SCRIP encoder and decoder                                                               *)

(* positional indexing node_lon[f_nodes]: negative indices wrap once, anything else raises *)
Definition c07_take (n : Z) (i : Z) : option nat :=
  if (0 <=? i) && (i <? n) then Some (Z.to_nat i)
  else if (- n <=? i) && (i <? 0) then Some (Z.to_nat (i + n))
  else None.

Fixpoint c07_all_some {A} (l : list (option A)) : option (list A) :=
  match l with
  | [] => Some []
  | None :: _ => None
  | Some x :: l' => match c07_all_some l' with Some r => Some (x :: r) | None => None end
  end.

(* encoder side (since /repo 5e414c62): a face with fewer corners repeats its last corner
   (n_per_face = number of non-fill entries; last = row[max(n_per_face - 1, 0)]) *)
Definition c07_scrip_fill_row (r : row) : row :=
  let k := length (filter (fun x => negb (is_fill x)) r) in
  let last := nth (k - 1) r FILL in
  map (fun x => if is_fill x then last else x) r.

(* grid_corner_lon / grid_corner_lat as one table of (lon, lat) tokens *)
Definition c07_encode_scrip (pad : bool) (t : table) (lon lat : list Z) : option (list (list (Z * Z))) :=
  let n := Z.of_nat (length lon) in
  c07_all_some
    (map (fun r => c07_all_some
            (map (fun i => match c07_take n i with
                           | Some k => Some (nth k lon 0, nth k lat 0)
                           | None => None end) r))
         (if pad then map c07_scrip_fill_row t else t)).

(* np.unique(axis=0) on (lon, lat) rows = sort lexicographically + drop repeats *)
Module C07PairOrder <: TotalLeBool.
  Definition t := (Z * Z)%type.
  Definition leb (p q : t) : bool :=
    (fst p <? fst q) || ((fst p =? fst q) && (snd p <=? snd q)).
  Theorem leb_total : forall a1 a2, leb a1 a2 = true \/ leb a2 a1 = true.
  Proof. intros [a b] [c d]; unfold leb; simpl; lia. Qed.
End C07PairOrder.
Module C07PairSort := Sort C07PairOrder.

Fixpoint c07_dedup (l : list (Z * Z)) : list (Z * Z) :=
  match l with
  | [] => []
  | x :: l' =>
      match l' with
      | [] => [x]
      | y :: _ => if pair_eqb x y then c07_dedup l' else x :: c07_dedup l'
      end
  end.

Definition c07_unique (l : list (Z * Z)) : list (Z * Z) := c07_dedup (C07PairSort.sort l).

Fixpoint c07_index_of (x : Z * Z) (u : list (Z * Z)) : nat :=
  match u with
  | [] => 0%nat
  | y :: u' => if pair_eqb x y then 0%nat else S (c07_index_of x u')
  end.

Fixpoint c07_chunk (m : nat) (fuel : nat) (l : list Z) : list (list Z) :=
  match fuel with
  | O => []
  | S f => firstn m l :: c07_chunk m f (skipn m l)
  end.

(* reader side (since /repo 5e414c62): entries equal to their left neighbour, from the right end of the
   row as long as that holds, become -1 (flip / logical_and.accumulate / flip) *)
Fixpoint c07_trail_go (l : list Z) : list Z :=
  match l with
  | [] => []
  | x :: l' => match l' with
               | y :: _ => if x =? y then (-1) :: c07_trail_go l' else l
               | [] => l
               end
  end.
Definition c07_trailing_pad (r : list Z) : list Z := rev (c07_trail_go (rev r)).

(* _to_ugrid: areas_ok = in_ds["grid_area"].all() *)
Definition c07_read_scrip (pad : bool) (areas_ok : bool) (corners : list (list (Z * Z))) : option c07_decoded :=
  if areas_ok then
    let flat := concat corners in
    let u := c07_unique flat in
    let inv := map (fun p => Z.of_nat (c07_index_of p u)) flat in
    let m := match corners with r :: _ => length r | [] => 0%nat end in
    let rows := c07_chunk m (length corners) inv in
    Some {| dc_fnc := map (map (fun x => if x =? -1 then FILL else x))
                          (if pad then map c07_trailing_pad rows else rows);
            dc_lon := map fst u; dc_lat := map snd u |}
  else None.

(* the faces of a decoded grid as lists of corner positions (lon, lat) *)
Definition c07_positions (lon lat : list Z) (t : table) : list (list (Z * Z)) :=
  map (fun r => map (fun i => (nth (Z.to_nat i) lon 0, nth (Z.to_nat i) lat 0)) (corners r)) t.

(* ------------------------------------------------------------------------------------- *)
(* entry points and histories                                                              *)

Inductive c07_fmt := C07_UGRID | C07_EXODUS | C07_SCRIP.

(* Grid.to_xarray(grid_format) / Grid.encode_as(grid_type): None = ValueError / RuntimeError *)
Definition c07_dispatch (encode_as : bool) (s : Z) : option c07_fmt :=
  match (if encode_as then c07_fmt_names_encode_as else c07_fmt_names_to_xarray) with
  | [u; e; sc] => if Z.eqb s u then Some C07_UGRID
                  else if Z.eqb s e then Some C07_EXODUS
                  else if Z.eqb s sc then Some C07_SCRIP else None
  | _ => None
  end.

(* one encode call: the entry point, the format string, the grid's dataset at that moment *)
Record c07_step := {
  sp_encode_as : bool;
  sp_format : Z;
  sp_ds : c07_ds;
  sp_areas_ok : bool            (* every face area is non-zero (SCRIP reader's guard) *)
}.

Definition c07_steps_wf (h : list c07_step) : list bool := map (fun sp => c07_ds_wfb (sp_ds sp)) h.

Record c07_result := {
  rs_fmt : option c07_fmt;
  rs_ugrid : option c07_ugrid_out;
  rs_closed : bool;
  rs_writable : bool;
  rs_exodus : option c07_exo_out;
  rs_scrip : option (list (list (Z * Z)));
  rs_direct : option c07_decoded;     (* ux.open_grid(encoded dataset) *)
  rs_file : option c07_decoded        (* to_netcdf + ux.open_grid(path) *)
}.

Definition c07_empty_result : c07_result :=
  {| rs_fmt := None; rs_ugrid := None; rs_closed := false; rs_writable := false;
     rs_exodus := None; rs_scrip := None; rs_direct := None; rs_file := None |}.

Definition c07_lonlat (ds : c07_ds) : option (list Z * list Z) :=
  match c07_find c07_s_node_lon ds, c07_find c07_s_node_lat ds with
  | Some a, Some b =>
      match c07_float_data a, c07_float_data b with
      | Some lon, Some lat => Some (lon, lat)
      | _, _ => None
      end
  | _, _ => None
  end.

Definition c07_fnc_table (ds : c07_ds) : option table :=
  match c07_find c07_s_fnc ds with
  | Some v => match cv_data v with C07_DInt t => Some t | _ => None end
  | None => None
  end.

Definition c07_one (vr : c07_variant) (tmpl : c07_dict) (sp : c07_step) : c07_dict * c07_result :=
  match c07_dispatch (sp_encode_as sp) (sp_format sp) with
  | None => (tmpl, c07_empty_result)
  | Some C07_UGRID =>
      let o := c07_encode_ugrid vr tmpl (sp_ds sp) in
      (uo_template o,
       {| rs_fmt := Some C07_UGRID; rs_ugrid := Some o;
          rs_closed := c07_closed (uo_ds o); rs_writable := c07_writable (uo_ds o);
          rs_exodus := None; rs_scrip := None;
          rs_direct := c07_read_ugrid false (uo_ds o);
          rs_file := if c07_writable (uo_ds o) then c07_read_ugrid true (uo_ds o) else None |})
  | Some C07_EXODUS =>
      let o := c07_encode_exodus vr (sp_ds sp) in
      let dec := match o with
                 | Some x =>
                     (* node positions are carried by xo_coord; lon/lat tokens are not produced *)
                     Some {| dc_fnc := c07_read_exodus_conn vr (xo_blocks x); dc_lon := []; dc_lat := [] |}
                 | None => None
                 end in
      (tmpl,
       {| rs_fmt := Some C07_EXODUS; rs_ugrid := None; rs_closed := true;
          rs_writable := match o with Some _ => true | None => false end;
          rs_exodus := o; rs_scrip := None; rs_direct := dec; rs_file := dec |})
  | Some C07_SCRIP =>
      let o := match c07_fnc_table (sp_ds sp), c07_lonlat (sp_ds sp) with
               | Some t, Some (lon, lat) => c07_encode_scrip (vr_scrip_pad vr) t lon lat
               | _, _ => None
               end in
      let dec := match o with Some c => c07_read_scrip (vr_scrip_pad vr) (sp_areas_ok sp) c | None => None end in
      (tmpl,
       {| rs_fmt := Some C07_SCRIP; rs_ugrid := None; rs_closed := true;
          rs_writable := match o with Some _ => true | None => false end;
          rs_exodus := None; rs_scrip := o; rs_direct := dec; rs_file := dec |})
  end.

(* a history of encode calls in one process, threading the module-level template *)
Fixpoint c07_run (vr : c07_variant) (tmpl : c07_dict) (h : list c07_step) : c07_dict * list c07_result :=
  match h with
  | [] => (tmpl, [])
  | sp :: h' =>
      let '(tmpl1, r) := c07_one vr tmpl sp in
      let '(tmpl2, rs) := c07_run vr tmpl1 h' in
      (tmpl2, r :: rs)
  end.

(* the template after a history *)
Definition c07_template_after (vr : c07_variant) (tmpl : c07_dict) (h : list c07_step) : c07_dict :=
  fst (c07_run vr tmpl h).

(* ------------------------------------------------------------------------------------- *)
(* a flat digest of a run (every number the run produced, with separators), used only by the
   harness to compare the extracted program with the kernel's vm_compute on a sample        *)

Definition c07_dg_bool (b : bool) : Z := if b then 1 else 0.
Definition c07_dg_list (l : list Z) : list Z := Z.of_nat (length l) :: l.
Definition c07_dg_table (t : table) : list Z :=
  Z.of_nat (length t) :: flat_map c07_dg_list t.
Definition c07_dg_aval (a : c07_aval) : list Z :=
  match a with
  | C07_AStr ws => 1 :: c07_dg_list ws
  | C07_ANum z => [2; z]
  | C07_ANumArr => [3]
  | C07_ABool => [4]
  | C07_AObj => [5]
  end.
Definition c07_dg_dict (d : c07_dict) : list Z :=
  Z.of_nat (length d) :: flat_map (fun kv => fst kv :: c07_dg_aval (snd kv)) d.
Definition c07_dg_decoded (d : option c07_decoded) : list Z :=
  match d with
  | None => [-1]
  | Some x => 1 :: c07_dg_table (dc_fnc x) ++ c07_dg_list (dc_lon x) ++ c07_dg_list (dc_lat x)
  end.
Definition c07_dg_result (r : c07_result) : list Z :=
  (match rs_fmt r with None => 0 | Some C07_UGRID => 1 | Some C07_EXODUS => 2 | Some C07_SCRIP => 3 end)
  :: c07_dg_bool (rs_closed r) :: c07_dg_bool (rs_writable r)
  :: (match rs_ugrid r with
      | None => [-1]
      | Some o => 1 :: c07_dg_dict (uo_template o) ++ c07_dg_list (map cv_name (uo_ds o))
                    ++ [c07_dg_bool (uo_same_object o)]
                    ++ flat_map (fun v => c07_dg_dict (cv_attrs v)) (uo_ds o)
      end)
  ++ (match rs_exodus r with
      | None => [-1]
      | Some o => 1 :: flat_map (fun b => c07_dg_table (eb_connect b) ++ [Z.of_nat (eb_width b); eb_first_gid b])
                                (xo_blocks o)
                    ++ (match xo_coord o with
                        | C07_CoordXYZ x y z => 1 :: c07_dg_list x ++ c07_dg_list y ++ c07_dg_list z
                        | C07_CoordFromLonLat b lon lat => 2 :: c07_dg_bool b :: c07_dg_list lon ++ c07_dg_list lat
                        | C07_CoordError => [3]
                        end)
      end)
  ++ (match rs_scrip r with
      | None => [-1]
      | Some c => 1 :: flat_map (fun row => Z.of_nat (length row) :: flat_map (fun p => [fst p; snd p]) row) c
      end)
  ++ c07_dg_decoded (rs_direct r) ++ c07_dg_decoded (rs_file r).

Definition c07_digest (vr : c07_variant) (tmpl : c07_dict) (h : list c07_step) : list Z :=
  let '(t, rs) := c07_run vr tmpl h in
  c07_dg_dict t ++ flat_map c07_dg_result rs.
