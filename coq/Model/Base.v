(* Base.v — shared executable definitions: fill value, tables, rows in standard form.
   Definitions only (no proofs) so that the model still runs when a proof breaks. *)
From Coq Require Export ZArith List Bool Lia.
Export ListNotations.
Open Scope Z_scope.

(* uxarray.constants.INT_FILL_VALUE = np.iinfo(np.intp).min ; tied to the source by Gen/Constants.v *)
Definition FILL : Z := -9223372036854775808.

Definition row := list Z.
Definition table := list row.

Definition is_fill (x : Z) : bool := x =? FILL.

(* np.argmax(row_extended_by_one_FILL == FILL): index of the first fill entry, or the row length *)
Fixpoint first_fill (r : row) : nat :=
  match r with
  | [] => 0%nat
  | x :: r' => if is_fill x then 0%nat else S (first_fill r')
  end.

(* the real corners of a row in standard form *)
Definition corners (r : row) : list Z := firstn (first_fill r) r.

(* standard form of one row: real entries (non-negative) followed only by FILL *)
Definition std_row (r : row) : Prop :=
  exists c n, r = c ++ repeat FILL n /\ Forall (fun x => 0 <= x) c.

Definition std_rowb (r : row) : bool :=
  forallb (fun x => 0 <=? x) (corners r) && forallb is_fill (skipn (first_fill r) r).

Definition std_table (m : nat) (t : table) : Prop :=
  Forall (fun r => length r = m /\ std_row r) t.

Definition std_tableb (m : nat) (t : table) : bool :=
  forallb (fun r => Nat.eqb (length r) m && std_rowb r) t.

(* consecutive corner pairs including the closing pair last->first *)
Definition cyc_pairs (c : list Z) : list (Z * Z) :=
  match c with
  | [] => []
  | x :: c' => combine c (c' ++ [x])
  end.

Definition norm_pair (p : Z * Z) : Z * Z :=
  if fst p <=? snd p then p else (snd p, fst p).

Definition pair_eqb (p q : Z * Z) : bool := (fst p =? fst q) && (snd p =? snd q).

Definition has_fill (p : Z * Z) : bool := is_fill (fst p) || is_fill (snd p).

(* guarded access; every theorem using it carries the in-range hypothesis *)
Definition nthZ (l : list Z) (i : nat) : Z := nth i l FILL.
Definition nthP (l : list (Z * Z)) (i : nat) : Z * Z := nth i l (FILL, FILL).
