(* C05_rules.v — the quadrature tables as get_gauss_quadratureDG / get_tri_quadratureDG return them
   (literal tables GENERATED into Gen/C05_tables.v; the scaling loop of the Gauss rule is modelled
   here) and the executable certificate checkers for them.  Definitions only. *)
From Verif Require Export Base.
From Verif Require Export C05_tables.

(* ------------------------------------------------------------------------------------------ *)
(* 1. the quadrature tables as the code returns them                                            *)

Fixpoint c05_lookup {A} (k : Z) (l : list (Z * A)) : option A :=
  match l with
  | [] => None
  | (k', v) :: l' => if k =? k' then Some v else c05_lookup k l'
  end.

(* a 1-D rule: (points, weights), numerators over one denominator *)
Definition c05_rule1 := (list Z * list Z)%type.
(* a triangle rule: rows (dG[p][0], dG[p][1], dG[p][2]) and weights *)
Definition c05_rule2 := (list (Z * Z * Z) * list Z)%type.

(* the scaling loop of get_gauss_quadratureDG with dXi0 = 0, dXi1 = 1:
     dG[0][i] = 0.5 * (dG[0][i] + 1.0) ; dW[i] = 0.5 * dW[i]
   numerators over c05_gden = 2 * c05_den, so that no division is needed *)
Definition c05_gden : Z := 2 * c05_den.
Definition c05_gauss_scale (t : c05_rule1) : c05_rule1 :=
  (map (fun g => g + c05_den) (fst t), snd t).

(* get_gauss_quadratureDG(nCount): None = the code falls through its if-chain (dG undefined) *)
Definition c05_gauss_rule (n : Z) : option c05_rule1 :=
  option_map c05_gauss_scale (c05_lookup n c05_gauss_raw_tables).

(* get_tri_quadratureDG(nOrder) *)
Definition c05_tri_rule (n : Z) : option c05_rule2 := c05_lookup n c05_tri_raw_tables.

(* ---- certificate checkers for the tables (run inside Coq by vm_compute, see Proofs) ---- *)

Definition c05_sumZ (l : list Z) : Z := fold_right Z.add 0 l.

Fixpoint c05_fact (n : nat) : Z :=
  match n with O => 1 | S m => Z.of_nat n * c05_fact m end.

(* tolerance of the moment conditions: c05_tol_num / c05_tol_den = 5e-15 *)
Definition c05_tol_num : Z := 5.
Definition c05_tol_den : Z := 1000000000000000.

(* | num/den - p/q | <= tol   (den, q > 0), as an integer inequality *)
Definition c05_closeb (num den p q : Z) : bool :=
  Z.abs (num * q - p * den) * c05_tol_den <=? c05_tol_num * (den * q).

(* k-th moment numerator of a 1-D rule over D: sum_i w_i g_i^k  (over D^(k+1)) *)
Definition c05_moment1 (r : c05_rule1) (k : nat) : Z :=
  c05_sumZ (map (fun gw => snd gw * fst gw ^ Z.of_nat k) (combine (fst r) (snd r))).

(* the rule integrates x^k over [0,1] (exact value 1/(k+1)) within the tolerance, for k <= deg *)
Definition c05_rule1_exactb (D : Z) (r : c05_rule1) (deg : nat) : bool :=
  forallb (fun k => c05_closeb (c05_moment1 r k) (D ^ Z.of_nat (S k)) 1 (Z.of_nat (S k)))
          (seq 0 (S deg)).

Definition c05_rule1_okb (D : Z) (r : c05_rule1) (deg : nat) : bool :=
  Nat.eqb (length (fst r)) (length (snd r))
  && forallb (fun w => 0 <? w) (snd r)
  && forallb (fun g => (0 <=? g) && (g <=? D)) (fst r)
  && c05_rule1_exactb D r deg.

(* (a,b)-moment numerator of a triangle rule in the two coordinates the code uses,
   dA = dG[p][0], dB = dG[p][1]:  sum_i w_i x_i^a y_i^b  (over D^(a+b+1)) *)
Definition c05_moment2 (r : c05_rule2) (a b : nat) : Z :=
  c05_sumZ (map (fun pw => snd pw * fst (fst (fst pw)) ^ Z.of_nat a * snd (fst (fst pw)) ^ Z.of_nat b)
                (combine (fst r) (snd r))).

(* pairs (a, b) with a + b <= deg *)
Definition c05_monomials (deg : nat) : list (nat * nat) :=
  flat_map (fun a => map (fun b => (a, b)) (seq 0 (S deg - a))) (seq 0 (S deg)).

(* weights normalised to sum 1: the mean of x^a y^b over the reference triangle is
   2 a! b! / (a+b+2)! *)
Definition c05_rule2_exactb (D : Z) (r : c05_rule2) (deg : nat) : bool :=
  forallb (fun ab => let a := fst ab in let b := snd ab in
             c05_closeb (c05_moment2 r a b) (D ^ Z.of_nat (S (a + b)))
                        (2 * c05_fact a * c05_fact b) (c05_fact (a + b + 2)))
          (c05_monomials deg).

Definition c05_rule2_okb (D : Z) (r : c05_rule2) (deg : nat) : bool :=
  Nat.eqb (length (fst r)) (length (snd r))
  && forallb (fun w => 0 <? w) (snd r)
  && forallb (fun p => let x := fst (fst p) in let y := snd (fst p) in
                       (0 <=? x) && (0 <=? y) && (x + y <=? D)) (fst r)
  && c05_rule2_exactb D r deg.

(* ---- the same certificates computed with shared power tables (x^0 .. x^deg per point, D^0 ..
   D^(deg+1)): an order of magnitude fewer big multiplications, so that the independent checker
   coqchk (which has no bytecode VM) can re-check the table theorems too.  Proofs/C05_tables_proofs.v
   shows these equal the direct definitions above. ---- *)
Fixpoint c05_pows_from (x acc : Z) (n : nat) : list Z :=
  match n with
  | O => [acc]
  | S k => acc :: c05_pows_from x (acc * x) k
  end.
Definition c05_pows (x : Z) (n : nat) : list Z := c05_pows_from x 1 n.

Definition c05_rule1_exactb_fast (D : Z) (r : c05_rule1) (deg : nat) : bool :=
  let tabs := map (fun gw => (snd gw, c05_pows (fst gw) deg)) (combine (fst r) (snd r)) in
  let dp := c05_pows D (S deg) in
  forallb (fun k => c05_closeb (c05_sumZ (map (fun t => fst t * nth k (snd t) 0) tabs))
                               (nth (S k) dp 0) 1 (Z.of_nat (S k)))
          (seq 0 (S deg)).

Definition c05_rule1_okb_fast (D : Z) (r : c05_rule1) (deg : nat) : bool :=
  Nat.eqb (length (fst r)) (length (snd r))
  && forallb (fun w => 0 <? w) (snd r)
  && forallb (fun g => (0 <=? g) && (g <=? D)) (fst r)
  && c05_rule1_exactb_fast D r deg.

Definition c05_rule2_exactb_fast (D : Z) (r : c05_rule2) (deg : nat) : bool :=
  let tabs := map (fun pw => (snd pw, (c05_pows (fst (fst (fst pw))) deg, c05_pows (snd (fst (fst pw))) deg)))
                  (combine (fst r) (snd r)) in
  let dp := c05_pows D (S deg) in
  forallb (fun ab => let a := fst ab in let b := snd ab in
             c05_closeb (c05_sumZ (map (fun t => fst t * nth a (fst (snd t)) 0 * nth b (snd (snd t)) 0) tabs))
                        (nth (S (a + b)) dp 0)
                        (2 * c05_fact a * c05_fact b) (c05_fact (a + b + 2)))
          (c05_monomials deg).

Definition c05_rule2_okb_fast (D : Z) (r : c05_rule2) (deg : nat) : bool :=
  Nat.eqb (length (fst r)) (length (snd r))
  && forallb (fun w => 0 <? w) (snd r)
  && forallb (fun p => let x := fst (fst p) in let y := snd (fst p) in
                       (0 <=? x) && (0 <=? y) && (x + y <=? D)) (fst r)
  && c05_rule2_exactb_fast D r deg.

(* ---- a third way to compute the triangle certificates: rigorous fixed-point enclosures.
   A pair (u, e) stands for any real r with u <= r * 2^88 <= u + e; products are rounded down by a
   shift and the error bound is propagated.  All integers stay below ~180 bits, so that the
   independent checker coqchk (no bytecode VM) re-checks the 25- and 33-point rules in seconds.
   Soundness (enclosure => the exact statement c05_rule2_ok) is proved in Proofs/C05_tables_proofs.v. *)
Definition c05_Ebits : Z := 88.
Definition c05_E : Z := 2 ^ c05_Ebits.
Definition c05_iv := (Z * Z)%type.
Definition c05_iv_in (D x : Z) : c05_iv := (Z.shiftl x c05_Ebits / D, 1).
Definition c05_iv_one : c05_iv := (c05_E, 0).
Definition c05_iv_mul (p q : c05_iv) : c05_iv :=
  (Z.shiftr (fst p * fst q) c05_Ebits, 1 + snd p + snd q + snd p * snd q).
Definition c05_iv_add (p q : c05_iv) : c05_iv := (fst p + fst q, snd p + snd q).
Definition c05_iv_sum (l : list c05_iv) : c05_iv := fold_right c05_iv_add (0, 0) l.
Fixpoint c05_iv_pows_from (x acc : c05_iv) (n : nat) : list c05_iv :=
  match n with
  | O => [acc]
  | S k => acc :: c05_iv_pows_from x (c05_iv_mul acc x) k
  end.
(* every real in the enclosure is within the tolerance of p / q *)
Definition c05_iv_closeb (s : c05_iv) (p q : Z) : bool :=
  (((fst s + snd s) * q - p * c05_E) * c05_tol_den <=? c05_tol_num * (c05_E * q))
  && ((p * c05_E - fst s * q) * c05_tol_den <=? c05_tol_num * (c05_E * q)).

Definition c05_rule2_exactb_iv (D : Z) (r : c05_rule2) (deg : nat) : bool :=
  let tabs := map (fun pw => (c05_iv_in D (snd pw),
                              (c05_iv_pows_from (c05_iv_in D (fst (fst (fst pw)))) c05_iv_one deg,
                               c05_iv_pows_from (c05_iv_in D (snd (fst (fst pw)))) c05_iv_one deg)))
                  (combine (fst r) (snd r)) in
  forallb (fun ab => let a := fst ab in let b := snd ab in
             c05_iv_closeb (c05_iv_sum (map (fun t => c05_iv_mul (c05_iv_mul (fst t) (nth a (fst (snd t)) (0, 0)))
                                                                 (nth b (snd (snd t)) (0, 0))) tabs))
                           (2 * c05_fact a * c05_fact b) (c05_fact (a + b + 2)))
          (c05_monomials deg).

Definition c05_rule2_okb_iv (D : Z) (r : c05_rule2) (deg : nat) : bool :=
  (0 <? D)
  && Nat.eqb (length (fst r)) (length (snd r))
  && forallb (fun w => (0 <? w) && (w <=? D)) (snd r)
  && forallb (fun p => let x := fst (fst p) in let y := snd (fst p) in
                       (0 <=? x) && (0 <=? y) && (x + y <=? D)) (fst r)
  && c05_rule2_exactb_iv D r deg.

(* nominal degrees: n-point Gauss-Legendre 2n-1; the 9-point table is Gauss-Lobatto (2n-3);
   the triangle rules carry their order *)
Definition c05_gauss_degree (n : Z) : nat :=
  if n =? 9 then 15%nat else Z.to_nat (2 * n - 1).
Definition c05_tri_degree (n : Z) : nat := Z.to_nat n.

Definition c05_gauss_okb (n : Z) : bool :=
  match c05_gauss_rule n with
  | Some r => c05_rule1_okb c05_gden r (c05_gauss_degree n)
  | None => false
  end.
Definition c05_tri_okb (n : Z) : bool :=
  match c05_tri_rule n with
  | Some r => c05_rule2_okb c05_den r (c05_tri_degree n)
  | None => false
  end.


Definition c05_gauss_okb_fast (n : Z) : bool :=
  match c05_gauss_rule n with
  | Some r => c05_rule1_okb_fast c05_gden r (c05_gauss_degree n)
  | None => false
  end.
Definition c05_tri_okb_fast (n : Z) : bool :=
  match c05_tri_rule n with
  | Some r => c05_rule2_okb_fast c05_den r (c05_tri_degree n)
  | None => false
  end.
Definition c05_tri_okb_iv (n : Z) : bool :=
  match c05_tri_rule n with
  | Some r => c05_rule2_okb_iv c05_den r (c05_tri_degree n)
  | None => false
  end.
