(* C03.v — executable model of the incidence builders of uxarray/grid/connectivity.py and
   geometry._construct_hole_edge_indices:
     _build_node_faces_connectivity, _build_edge_face_connectivity, _build_face_face_connectivity.
   Loops are modelled by folds in the same iteration order. Definitions only. *)
From Verif Require Export Base.

(* ---------- _build_edge_face_connectivity (the numba loop) ---------- *)

(* edge_faces[e,0] == FILL ? write column 0 : write column 1 *)
Definition c03_upd (r : Z * Z) (f : Z) : Z * Z :=
  if is_fill (fst r) then (f, snd r) else (fst r, f).

Fixpoint c03_set_row (i : nat) (v : Z * Z) (l : list (Z * Z)) : list (Z * Z) :=
  match l, i with
  | [], _ => []
  | _ :: l', O => v :: l'
  | x :: l', S i' => x :: c03_set_row i' v l'
  end.

(* one (edge, face) visit *)
Definition c03_visit (st : list (Z * Z)) (ev : nat * Z) : list (Z * Z) :=
  c03_set_row (fst ev) (c03_upd (nth (fst ev) st (FILL, FILL)) (snd ev)) st.

(* the visits in loop order: for each face, its first n_nodes_per_face edges *)
Fixpoint c03_events (fe : table) (npf : list Z) (f : Z) : list (nat * Z) :=
  match fe, npf with
  | r :: fe', k :: npf' =>
      map (fun e => (Z.to_nat e, f)) (firstn (Z.to_nat k) r) ++ c03_events fe' npf' (f + 1)
  | _, _ => []
  end.

Definition c03_edge_faces (fe : table) (npf : list Z) (n_edge : nat) : list (Z * Z) :=
  fold_left c03_visit (c03_events fe npf 0) (repeat (FILL, FILL) n_edge).

(* ---------- hole edges: np.where(edge_face[:,1] == FILL)[0] ---------- *)
Fixpoint c03_holes_from (k : Z) (ef : list (Z * Z)) : list Z :=
  match ef with
  | [] => []
  | r :: ef' => if is_fill (snd r) then k :: c03_holes_from (k + 1) ef' else c03_holes_from (k + 1) ef'
  end.
Definition c03_hole_edges (ef : list (Z * Z)) : list Z := c03_holes_from 0 ef.

(* ---------- _build_node_faces_connectivity ---------- *)
(* node_face_conn[n] collects face_i once per occurrence of n in row face_i, faces in increasing order *)
Fixpoint c03_faces_of_node (t : table) (f : Z) (v : Z) : list Z :=
  match t with
  | [] => []
  | r :: t' => map (fun _ => f) (filter (fun x => negb (is_fill x) && (x =? v)) r)
               ++ c03_faces_of_node t' (f + 1) v
  end.

Definition c03_pad (w : nat) (l : list Z) : list Z := l ++ repeat FILL (w - length l).

Definition c03_maxlen (ls : list (list Z)) : nat := fold_right (fun l m => Nat.max (length l) m) 0%nat ls.

Definition c03_node_faces (t : table) (n_node : nat) : table :=
  let rows := map (fun n => c03_faces_of_node t 0 (Z.of_nat n)) (seq 0 n_node) in
  map (c03_pad (c03_maxlen rows)) rows.

(* ---------- _build_face_face_connectivity ---------- *)
(* for every edge with two real faces: append face2 to face1's list and face1 to face2's list *)
Definition c03_other (f : Z) (r : Z * Z) : list Z :=
  if is_fill (fst r) || is_fill (snd r) then []
  else (if fst r =? f then [snd r] else []) ++ (if snd r =? f then [fst r] else []).

Definition c03_neighbours (ef : list (Z * Z)) (f : Z) : list Z := flat_map (c03_other f) ef.

Definition c03_face_faces (ef : list (Z * Z)) (n_face : nat) (width : nat) : table :=
  map (fun f => c03_pad width (c03_neighbours ef (Z.of_nat f))) (seq 0 n_face).

(* ---------- specification side ---------- *)
(* the faces (in loop order, once per occurrence) that list edge e among their first npf entries *)
Definition c03_occ (fe : table) (npf : list Z) (e : nat) : list Z :=
  map snd (filter (fun ev => Nat.eqb (fst ev) e) (c03_events fe npf 0)).

(* what an edge_face row must be for an occurrence list *)
Definition c03_row_of (occ : list Z) : Z * Z :=
  match occ with
  | [] => (FILL, FILL)
  | f :: rest => (f, last rest FILL)
  end.
