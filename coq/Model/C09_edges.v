(* C09_edges.v — what _slice_face_indices does with an edge table the source grid already holds:
     edge_indices = np.unique(grid.face_edge_connectivity.values[face_indices].ravel()); drop fill
     ds = ds.isel(n_edge=edge_indices)                      (rows of edge_node_connectivity, in that order)
     edge_node_connectivity <- node_indices_dict[...]        (renumbered through the recorded node indices)
   The subset keeps that table (it carries no inverse_indices any more), so it is the table the subset reports and
   the one edge-centred data sliced with subgrid_edge_indices are attached to.  Definitions only. *)
From Verif Require Export Base C02 C09.

Definition c09_pmap (f : Z -> Z) (q : Z * Z) : Z * Z := (f (fst q), f (snd q)).

(* subgrid_edge_indices *)
Definition c09_edge_indices (FE : table) (idx : list Z) : list Z := c09_faces_touching FE idx.

(* edge_node_connectivity[edge_indices] *)
Definition c09_pick_edges (E : list (Z * Z)) (ei : list Z) : list (Z * Z) :=
  map (fun e => nthP E (Z.to_nat e)) ei.

(* (edge table carried by the subset, subgrid_edge_indices) for a source whose tables were derived by the library *)
Definition c09_slice_edge_table (T : table) (m : nat) (idx : list Z) : list (Z * Z) * list Z :=
  let ei := c09_edge_indices (face_edges T m) idx in
  (map (c09_pmap (c09_renumber (c09_node_indices T idx))) (c09_pick_edges (edges T) ei), ei).

(* the same for a source that holds ANY edge table E with its face_edge table FE (e.g. supplied by the file) *)
Definition c09_slice_edge_table_of (T : table) (E : list (Z * Z)) (FE : table) (idx : list Z) : list (Z * Z) * list Z :=
  let ei := c09_edge_indices FE idx in
  (map (c09_pmap (c09_renumber (c09_node_indices T idx))) (c09_pick_edges E ei), ei).
