(* C20.v — model of Grid equality.  The decision formula over the five atoms is GENERATED from
   Grid.__eq__ (Gen/C20_eq.v); the atoms themselves are modelled here: DataArray.equals on
   node_lon / node_lat (1-D) and face_node_connectivity (2-D) = same shape and same values.
   Coordinate values are exact rationals (numerator, denominator) in lowest terms, so value
   equality is pair equality (NaN is never generated). *)
From Verif Require Export Base.
From Verif Require Export C20_eq.

Definition c20_val := (Z * Z)%type.

Record c20_grid := {
  c20_spec : Z;                    (* source_grid_spec, as an enumeration code *)
  c20_lon : list c20_val;
  c20_lat : list c20_val;
  c20_conn : list (list Z)
}.

Fixpoint c20_list_eqb {A} (eqb : A -> A -> bool) (l1 l2 : list A) : bool :=
  match l1, l2 with
  | [], [] => true
  | x :: l1', y :: l2' => eqb x y && c20_list_eqb eqb l1' l2'
  | _, _ => false
  end.

Definition c20_vals_equal : list c20_val -> list c20_val -> bool := c20_list_eqb pair_eqb.
Definition c20_table_equal : list (list Z) -> list (list Z) -> bool := c20_list_eqb (c20_list_eqb Z.eqb).

(* g == h for two Grid objects *)
Definition c20_eq (g h : c20_grid) : bool :=
  c20_eq_formula true (c20_spec g =? c20_spec h)
    (c20_vals_equal (c20_lon g) (c20_lon h))
    (c20_vals_equal (c20_lat g) (c20_lat h))
    (c20_table_equal (c20_conn g) (c20_conn h)).

(* g == x for x not a Grid: the atoms after isinstance are never evaluated; any values *)
Definition c20_eq_nongrid (b c d e : bool) : bool := c20_eq_formula false b c d e.

Definition c20_ne (g h : c20_grid) : bool := c20_ne_formula (c20_eq g h).

(* replace entry i of a list *)
Fixpoint c20_set {A} (i : nat) (v : A) (l : list A) : list A :=
  match l, i with
  | [], _ => []
  | _ :: l', O => v :: l'
  | x :: l', S i' => x :: c20_set i' v l'
  end.
