(* C08_lonrange.v — the listed finding C08-antimeridian-node-sign-after-lazy-lon as a machine-checked statement:
   coordinates.py:_set_desired_longitude_range rewrites a longitude array only when its maximum exceeds 180
       if ds[lon].max() > 180: ds[lon].data = (ds[lon].data + 180) % 360 - 180
   Longitudes are modelled in whole degrees (Z); the witness needs nothing finer.  The rewrite never moves a point
   (every entry stays the same longitude modulo 360), but it is not LOCAL: restricting the rewritten array (a subset made
   after node_lon was derived on the source) differs from rewriting the restricted array (a subset of a fresh grid). *)
From Verif Require Export Base.
Local Open Scope Z_scope.

Definition c08_wrap1 (x : Z) : Z := (x + 180) mod 360 - 180.

Definition c08_range_fix (l : list Z) : list Z :=
  if existsb (fun x => 180 <? x) l then map c08_wrap1 l else l.
