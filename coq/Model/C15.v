(* C15.v — executable model of the polygon / line exports of uxarray:
     grid/geometry.py   _pad_closed_face_nodes, _build_polygon_shells (closed, padded shells),
                        _build_antimeridian_face_indices (|diff lon| >= 180 on the shell),
                        _grid_to_polygon_geodataframe, _grid_to_matplotlib_polycollection,
                        _get_polygons / _grid_to_matplotlib_linecollection (index pipelines:
                        np.delete of the antimeridian faces, NaN filter with np.where, split map)
     core/dataarray.py  UxDataArray.to_geodataframe / to_polycollection (data re-indexing with
                        the side tables read back from the grid's cache dictionaries)
     grid/grid.py       the three cache state machines Grid.to_geodataframe / to_polycollection /
                        to_linecollection (compared and stored keys come from Gen/C15_keys.v,
                        regenerated from the source by harness/translators/c15_keys.py)
   Longitudes are integers (micro-degrees).  An output polygon is represented by the index of
   the face whose shell it is built from; third-party steps (antimeridian.fix_polygon: number of
   pieces per face; cartopy: which projected shells contain NaN) are explicit arguments.
   Definitions only. *)
From Verif Require Export Base.
From Verif Require Export C15_keys.

(* ---------------------------------------------------------------- A. shells, antimeridian *)

(* one row of _pad_closed_face_nodes for a face with corner values c, table width m:
   closed has m+1 columns; columns from n_nodes on are filled with the first corner *)
Definition c15_shell (m : nat) (c : list Z) : list Z := c ++ repeat (hd 0 c) (S m - length c).

Fixpoint c15_diffs (l : list Z) : list Z :=
  match l with
  | a :: (b :: _) as t => (b - a) :: c15_diffs t
  | _ => []
  end.

Definition c15_H : Z := 180000000.

(* np.any(np.abs(np.diff(shell_x)) >= 180) *)
Definition c15_crosses (shell : list Z) : bool := existsb (fun d => c15_H <=? Z.abs d) (c15_diffs shell).

(* the property's wording: some edge (consecutive corners, closing edge included) spans >= 180 *)
Definition c15_spans (c : list Z) : bool :=
  existsb (fun p => c15_H <=? Z.abs (snd p - fst p)) (cyc_pairs c).

Fixpoint c15_where_from (k : nat) (mask : list bool) : list nat :=
  match mask with
  | [] => []
  | b :: t => if b then k :: c15_where_from (S k) t else c15_where_from (S k) t
  end.
(* np.where(mask)[0] / np.argwhere(mask)[:, 0] *)
Definition c15_where (mask : list bool) : list nat := c15_where_from 0 mask.

(* Grid.antimeridian_face_indices: faces = corner longitudes per face *)
Definition c15_am_faces (m : nat) (faces : list (list Z)) : list nat :=
  c15_where (map (fun c => c15_crosses (c15_shell m c)) faces).

(* ---------------------------------------------------------------- B. index primitives *)

Definition c15_mem (i : nat) (l : list nat) : bool := existsb (Nat.eqb i) l.

(* np.delete(arr, idx, axis=0) *)
Fixpoint c15_delete_from {A} (k : nat) (idx : list nat) (l : list A) : list A :=
  match l with
  | [] => []
  | x :: t => if c15_mem k idx then c15_delete_from (S k) idx t else x :: c15_delete_from (S k) idx t
  end.
Definition c15_delete {A} (idx : list nat) (l : list A) : list A := c15_delete_from 0 idx l.

(* arr[idx] *)
Definition c15_gather {A} (d : A) (l : list A) (idx : list nat) : list A := map (fun i => nth i l d) idx.

(* np.where(~np.isnan(shells).any(axis=(1, 2)))[0] *)
Definition c15_where_nonan (flags : list (bool * bool)) : list nat :=
  c15_where (map (fun p => negb (fst p || snd p)) flags).

(* ---------------------------------------------------------------- C. the export pipelines *)

Inductive c15_periodic := C15Exclude | C15Split | C15Ignore.

(* an export result: for every output polygon the face it shows; for a data export also the
   value attached to every polygon; the table returned with return_indices *)
Record c15_out := { o_faces : list nat; o_data : list Z; o_c2o : list nat }.

Definition c15_split_map (pieces : list nat) : list nat :=
  flat_map (fun p => repeat (fst p) (snd p)) (combine (seq 0 (length pieces)) pieces).

(* _grid_to_matplotlib_polycollection + UxDataArray.to_polycollection.
   n faces, am = antimeridian faces, nan = Some flags (per face: x has NaN, y has NaN) when a
   projection is given, pieces = number of polygons antimeridian.fix_polygon makes of each face,
   values = the face-centred data *)
Definition c15_poly (per : c15_periodic) (n : nat) (am : list nat) (nan : option (list (bool * bool)))
           (pieces : list nat) (values : list Z) : c15_out :=
  let non_nan := match nan with
                 | Some fl => Some (c15_where_nonan (c15_delete am fl))
                 | None => None
                 end in
  match per with
  | C15Exclude =>
      let kept := c15_delete am (seq 0 n) in
      let dat := c15_delete am values in
      match non_nan with
      | Some nn => {| o_faces := c15_gather 0%nat kept nn; o_data := c15_gather 0 dat nn; o_c2o := kept |}
      | None => {| o_faces := kept; o_data := dat; o_c2o := kept |}
      end
  | C15Split =>
      let c2o := c15_split_map pieces in
      {| o_faces := c2o; o_data := c15_gather 0 values c2o; o_c2o := c2o |}
  | C15Ignore =>
      (* the NaN table is applied to the data only where the polygons were filtered with it (exclude) *)
      {| o_faces := seq 0 n; o_data := values; o_c2o := [] |}
  end.

(* _grid_to_polygon_geodataframe + Grid.to_geodataframe + UxDataArray.to_geodataframe.
   (split with a projection raises before anything is built: not modelled here) *)
Definition c15_gdf (per : c15_periodic) (n : nat) (am : list nat)
           (nan : option (list (bool * bool))) (values : list Z) : c15_out :=
  let non_nan := match nan with
                 | Some fl => Some (c15_where_nonan (c15_delete am fl))
                 | None => None
                 end in
  match per with
  | C15Exclude =>
      let kept := c15_delete am (seq 0 n) in
      let dat := c15_delete am values in
      match non_nan with
      | Some nn => {| o_faces := c15_gather 0%nat kept nn; o_data := c15_gather 0 dat nn; o_c2o := [] |}
      | None => {| o_faces := kept; o_data := dat; o_c2o := [] |}
      end
  | _ =>
      (* split / ignore: one row per face; the NaN table (indices into the antimeridian-free array)
         is applied to rows and data alike *)
      match non_nan with
      | Some nn => {| o_faces := c15_gather 0%nat (seq 0 n) nn; o_data := c15_gather 0 values nn; o_c2o := [] |}
      | None => {| o_faces := seq 0 n; o_data := values; o_c2o := [] |}
      end
  end.

(* _get_polygons (lines): exclude / ignore as for the PolyCollection, split one polygon per face *)
Definition c15_line (per : c15_periodic) (n : nat) (am : list nat) (nan : option (list (bool * bool))) : list nat :=
  match per with
  | C15Exclude =>
      let kept := c15_delete am (seq 0 n) in
      match nan with
      | Some fl => c15_gather 0%nat kept (c15_where_nonan (c15_delete am fl))
      | None => kept
      end
  | _ => seq 0 n
  end.

(* ---------------------------------------------------------------- C'. per-face decisions and the builders' bookkeeping *)

(* the whole PolyCollection conversion from the corner longitudes of the faces (in the frame of
   the requested projection): the antimeridian table is computed from the shells, then the pipeline *)
(* 'split' in the PolyCollection path (_build_corrected_polygon_shells): antimeridian.fix_polygon is
   applied only to the polygons with an edge spanning >= 180; every other face keeps its own ring.
   `pieces` says what fix_polygon would make of each face if it were applied. *)
Definition c15_effective_pieces (m : nat) (faces : list (list Z)) (pieces : list nat) : list nat :=
  map (fun p => if c15_crosses (c15_shell m (fst p)) then snd p else 1%nat) (combine faces pieces).

Definition c15_poly_full (per : c15_periodic) (m : nat) (faces : list (list Z))
           (nan : option (list (bool * bool))) (pieces : list nat) (values : list Z) : c15_out :=
  c15_poly per (length faces) (c15_am_faces m faces) nan (c15_effective_pieces m faces pieces) values.

(* the same conversion told face by face: how many output polygons a face contributes *)
Definition c15_face_rows (per : c15_periodic) (crosses : bool) (pieces : nat) : nat :=
  match per with
  | C15Exclude => if crosses then 0%nat else 1%nat
  | C15Split => if crosses then pieces else 1%nat
  | C15Ignore => 1%nat
  end.

Definition c15_rows (per : c15_periodic) (m : nat) (faces : list (list Z)) (pieces : list nat) : list nat :=
  flat_map (fun p => repeat (fst p)
                       (c15_face_rows per (c15_crosses (c15_shell m (fst (snd p)))) (snd (snd p))))
           (combine (seq 0 (length faces)) (combine faces pieces)).

(* row at which the polygons of face i start under 'split' *)
Definition c15_offset (pieces : list nat) (i : nat) : nat := fold_right Nat.add 0%nat (firstn i pieces).

(* the side tables the builder leaves behind (Grid._poly_collection_cached_parameters / the returned
   index table) *)
Record c15_tables := { t_am : list nat; t_non_nan : option (list nat); t_c2o : list nat }.

Definition c15_poly_tables (per : c15_periodic) (m : nat) (faces : list (list Z))
           (nan : option (list (bool * bool))) (pieces : list nat) : c15_tables :=
  let am := c15_am_faces m faces in
  {| t_am := am;
     t_non_nan := match nan with Some fl => Some (c15_where_nonan (c15_delete am fl)) | None => None end;
     t_c2o := match per with
              | C15Exclude => c15_delete am (seq 0 (length faces))
              | C15Split => c15_split_map (c15_effective_pieces m faces pieces)
              | C15Ignore => []
              end |}.

(* UxDataArray.to_polycollection: the data re-indexed with side tables read back from the grid *)
Definition c15_da_from_tables (per : c15_periodic) (t : c15_tables) (values : list Z) : list Z :=
  match per with
  | C15Exclude =>
      let dat := c15_delete (t_am t) values in
      match t_non_nan t with Some nn => c15_gather 0 dat nn | None => dat end
  | C15Split => c15_gather 0 values (t_c2o t)
  | C15Ignore => values
  end.

(* ---------------------------------------------------------------- D. cache state machines *)

Record c15_args := { a_periodic : Z; a_projection : Z; a_engine : Z; a_cache : bool; a_override : bool }.

Definition c15_key (k : Z) (a : c15_args) : Z :=
  if k =? 1 then a_periodic a else if k =? 2 then a_projection a else if k =? 3 then a_engine a else 0.

(* what a conversion on a fresh grid depends on: the values of the relevant arguments *)
Definition c15_relevant (R : list Z) (a : c15_args) : list Z := map (fun k => c15_key k a) R.

Fixpoint c15_lookup (k : Z) (l : list (Z * list Z)) : list Z :=
  match l with
  | [] => []
  | (k', v) :: t => if k' =? k then v else c15_lookup k t
  end.

Fixpoint c15_lookupZ (k : Z) (l : list (Z * Z)) : Z :=
  match l with
  | [] => 0                 (* the dictionaries are initialised with None *)
  | (k', v) :: t => if k' =? k then v else c15_lookupZ k t
  end.

Record c15_state := {
  s_obj : option (nat * list Z);        (* cached object: its identity and what it was built from *)
  s_keys : list (Z * Z);                (* stored argument values *)
  s_tables : list (Z * list Z);         (* side tables: key -> arguments of the build that wrote it *)
  s_next : nat                          (* object ids handed out so far *)
}.

Definition c15_init : c15_state := {| s_obj := None; s_keys := []; s_tables := []; s_next := 0 |}.

(* key lists of one method: relevant args R, compared C, stored under `if cache` S, stored whatever
   the cache flag SU, tables stored with the cache flag TS, tables written by the builder regardless
   of it TU *)
Record c15_spec := { k_R : list Z; k_C : list Z; k_S : list Z; k_SU : list Z; k_TS : list Z; k_TU : list Z; k_copy : bool }.

Definition c15_set_tables (keys : list Z) (v : list Z) (t : list (Z * list Z)) : list (Z * list Z) :=
  map (fun k => (k, v)) keys ++ t.

(* a fresh build with arguments a *)
Definition c15_build (sp : c15_spec) (st : c15_state) (a : c15_args) : list Z * nat * c15_state :=
  let r := c15_relevant (k_R sp) a in
  let t1 := c15_set_tables (k_TU sp) r (s_tables st) in
  let id := s_next st in
  if a_cache a then
    (* the built object is cached; a deep copy (new object) is returned when k_copy *)
    (r, if k_copy sp then S id else id,
     {| s_obj := Some (id, r);
        s_keys := map (fun k => (k, c15_key k a)) (k_S sp) ++ map (fun k => (k, c15_key k a)) (k_SU sp) ++ s_keys st;
        s_tables := c15_set_tables (k_TS sp) r t1; s_next := if k_copy sp then S (S id) else S id |})
  else
    (r, if k_copy sp then S id else id,
     {| s_obj := s_obj st; s_keys := map (fun k => (k, c15_key k a)) (k_SU sp) ++ s_keys st; s_tables := t1;
        s_next := if k_copy sp then S (S id) else S id |}).

(* one Grid.to_* call: (what the returned object was built from, identity of the returned object,
   new state) *)
Definition c15_call (sp : c15_spec) (st : c15_state) (a : c15_args) : list Z * nat * c15_state :=
  let differs := existsb (fun k => negb (c15_lookupZ k (s_keys st) =? c15_key k a)) (k_C sp) in
  match s_obj st with
  | Some (id, built) =>
      if negb (a_override a || differs) then
        if k_copy sp then
          (built, s_next st, {| s_obj := s_obj st; s_keys := s_keys st; s_tables := s_tables st; s_next := S (s_next st) |})
        else (built, id, st)
      else c15_build sp st a
  | None => c15_build sp st a
  end.

Definition c15_run (sp : c15_spec) (st : c15_state) (hist : list c15_args) : c15_state :=
  fold_left (fun s a => snd (c15_call sp s a)) hist st.

(* UxDataArray.to_*: the grid call, then the side tables in `reads` are read back from the state;
   result = (what the geometry was built from, what each table read was built from) *)
Definition c15_da_call (sp : c15_spec) (reads : list Z) (st : c15_state) (a : c15_args)
  : list Z * list (list Z) * c15_state :=
  let '(built, _, st') := c15_call sp st a in
  (built, map (fun k => c15_lookup k (s_tables st')) reads, st').

(* the key lists are usable: every relevant argument is compared, every compared key is stored
   together with the object, and no key is written when nothing is cached *)
Definition c15_incl (a b : list Z) : bool := forallb (fun x => existsb (Z.eqb x) b) a.
Definition c15_keys_ok (sp : c15_spec) : bool :=
  c15_incl (k_R sp) (k_C sp) && c15_incl (k_C sp) (k_S sp) && match k_SU sp with [] => true | _ => false end.

(* ---------------------------------------------------------------- E. returned objects *)

(* objects handed out so far: id -> content (what it was built from, columns written into it) *)
Definition c15_objs := list (nat * (list Z * list Z)).

Fixpoint c15_obj_get (i : nat) (o : c15_objs) : option (list Z * list Z) :=
  match o with
  | [] => None
  | (j, c) :: t => if Nat.eqb i j then Some c else c15_obj_get i t
  end.

Fixpoint c15_obj_addcol (i : nat) (col : Z) (o : c15_objs) : c15_objs :=
  match o with
  | [] => []
  | (j, (b, cols)) :: t => if Nat.eqb i j then (j, (b, cols ++ [col])) :: t else (j, (b, cols)) :: c15_obj_addcol i col t
  end.

(* a step of a history: a Grid-level call (None), or a UxDataArray-level call for variable `var`.
   writes: UxDataArray.to_geodataframe assigns gdf[var] on the frame it received;
   UxDataArray.to_polycollection calls set_array on the collection it received.
   copies: the UxDataArray-level method copies the received object before writing into it *)
Definition c15_step (sp : c15_spec) (writes copies : bool) (so : c15_state * c15_objs) (call : option Z * c15_args)
  : c15_state * c15_objs * nat :=
  let '(st, objs) := so in
  let '(built, id, st') := c15_call sp st (snd call) in
  let objs1 := match c15_obj_get id objs with Some _ => objs | None => (id, (built, [])) :: objs end in
  match fst call with
  | Some var =>
      if copies then
        let id2 := s_next st' in
        ({| s_obj := s_obj st'; s_keys := s_keys st'; s_tables := s_tables st'; s_next := S id2 |},
         (id2, (built, if writes then [var] else [])) :: objs1, id2)
      else (st', if writes then c15_obj_addcol id var objs1 else objs1, id)
  | None => (st', objs1, id)
  end.

Definition c15_steps (sp : c15_spec) (writes copies : bool) (so : c15_state * c15_objs) (hist : list (option Z * c15_args))
  : c15_state * c15_objs :=
  fold_left (fun s c => fst (c15_step sp writes copies s c)) hist so.

(* ---------------------------------------------------------------- the three machines as found in the source *)
Definition c15_sp_gdf : c15_spec :=
  {| k_R := [1; 2; 3]%Z; k_C := c15_gdf_compared; k_S := c15_gdf_stored; k_SU := c15_gdf_stored_uncond; k_TS := c15_gdf_stored_tables;
     k_TU := c15_gdf_uncond_tables; k_copy := c15_gdf_returns_copy |}.
Definition c15_sp_poly : c15_spec :=
  {| k_R := [1; 2]%Z; k_C := c15_poly_compared; k_S := c15_poly_stored; k_SU := c15_poly_stored_uncond; k_TS := c15_poly_stored_tables;
     k_TU := c15_poly_uncond_tables; k_copy := c15_poly_returns_copy |}.
Definition c15_sp_line : c15_spec :=
  {| k_R := [1; 2]%Z; k_C := c15_line_compared; k_S := c15_line_stored; k_SU := c15_line_stored_uncond; k_TS := c15_line_stored_tables;
     k_TU := c15_line_uncond_tables; k_copy := c15_line_returns_copy |}.

Definition c15_mk (per proj : Z) (cache : bool) : c15_args :=
  {| a_periodic := per; a_projection := proj; a_engine := 0; a_cache := cache; a_override := false |}.


(* writes into the object received from the grid: UxDataArray.to_geodataframe assigns the data
   column (flag from the source), UxDataArray.to_polycollection calls set_array, lines: nothing *)
Definition c15_sp_of (meth : Z) : c15_spec :=
  if meth =? 1 then c15_sp_gdf else if meth =? 2 then c15_sp_poly else c15_sp_line.
Definition c15_writes_of (meth : Z) : bool :=
  if meth =? 1 then c15_da_gdf_writes_column else if meth =? 2 then true else false.
Definition c15_copies_of (meth : Z) : bool := if meth =? 1 then c15_da_gdf_copies else false.
Definition c15_reads_of (meth : Z) : list Z :=
  if meth =? 1 then c15_gdf_read_tables else if meth =? 2 then c15_poly_read_tables else c15_line_read_tables.
