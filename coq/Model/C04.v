(* C04.v — executable model of the coordinate provenance dataflow of uxarray:
     uxarray/grid/coordinates.py : _lonlat_rad_to_xyz, _xyz_to_lonlat_rad, _xyz_to_lonlat_deg,
        _normalize_xyz, _populate_node_latlon, _populate_node_xyz, _populate_face_centroids,
        _construct_face_centroids, _populate_edge_centroids, _construct_edge_centroids,
        _set_desired_longitude_range
     uxarray/grid/grid.py        : Grid.__init__ (range fix), the 18 coordinate property getters,
        normalize_cartesian_coordinates
     uxarray/grid/validation.py  : _check_normalization

   Part 1 (symbolic, extracted): the Grid's coordinate state is six optional coordinate groups
   (node/edge/face x lonlat/xyz) + the `_normalized` flag.  Every group holds an *expression*
   recording which library operators produced it from the source arrays.  `c04_step` mirrors the
   `if name not in ds` branching of the getters and populate functions, defects included
   (parameter fx : c04_fixes selects, for each of the seven defective code sites, the code as it
   was found (false) or its one-line repair (true; the node-longitude site has two alternative
   repairs); Gen/C04_variant.v records which variant the
   current source contains).
   `c04_ty_ll / c04_ty_xyz` is a unit-and-range checker of expressions (degrees vs radians,
   longitude interval, unit vs scaled length, which element kind the direction belongs to).

   Part 2 (over R, for theorems only): the meaning of every operator and of every expression.

   Definitions only. *)
From Coq Require Import Reals.
From Verif Require Export Base.

(* ------------------------------------------------------------------------------------------ *)
(* Part 1: symbolic dataflow                                                                    *)

(* element kinds, and — for the directions an expression is about — two further families of face
   centres that the public mutator Grid.construct_face_centers can install in place of the
   source's: KFaceMean (normalised mean of the corner nodes, method "cartesian average" when no
   Cartesian centres are stored) and KFaceWelzl (the lon/lat returned by the randomised
   smallest-enclosing-circle routine, method "welzl"; an opaque input of the model) *)
Inductive c04_kind := KNode | KEdge | KFace | KFaceMean | KFaceWelzl.

Definition c04_kind_eqb (a b : c04_kind) : bool :=
  match a, b with
  | KNode, KNode | KEdge, KEdge | KFace, KFace | KFaceMean, KFaceMean | KFaceWelzl, KFaceWelzl => true
  | _, _ => false
  end.

(* what the source supplies for one element kind *)
Inductive c04_prov := PNone | PLL | PXYZ | PBoth.

Definition c04_has_ll (p : c04_prov) : bool := match p with PLL | PBoth => true | _ => false end.
Definition c04_has_xyz (p : c04_prov) : bool := match p with PXYZ | PBoth => true | _ => false end.

(* a source: provenance of the three coordinate families and whether the supplied Cartesian
   coordinates of a family are scaled (not of unit length, e.g. metres on a sphere of radius R) *)
Record c04_case := {
  cs_node : c04_prov; cs_edge : c04_prov; cs_face : c04_prov;
  cs_sc_node : bool; cs_sc_edge : bool; cs_sc_face : bool }.

Definition c04_prov_of (c : c04_case) (k : c04_kind) : c04_prov :=
  match k with KNode => cs_node c | KEdge => cs_edge c | KFace => cs_face c
  | KFaceMean => PNone | KFaceWelzl => PLL end.
Definition c04_scaled (c : c04_case) (k : c04_kind) : bool :=
  match k with KNode => cs_sc_node c | KEdge => cs_sc_edge c | KFace => cs_sc_face c | _ => false end.
Definition c04_supplied (c : c04_case) (k : c04_kind) : bool :=
  match c04_prov_of c k with PNone => false | _ => true end.

(* the element kind whose dimension a family of directions lives on *)
Definition c04_base (k : c04_kind) : c04_kind :=
  match k with KFaceMean | KFaceWelzl => KFace | _ => k end.

(* expressions: lon/lat pairs and Cartesian triples (whole arrays over one element kind) *)
Inductive c04_ll :=
| LSrc (k : c04_kind)                      (* source lon/lat, degrees *)
| LCondWrap (k : c04_kind) (l : c04_ll)    (* _set_desired_longitude_range: wrap iff max > 180 *)
| LWrap (l : c04_ll)                       (* (lon + 180) % 360 - 180 *)
| LRad2Deg (l : c04_ll)
| LDeg2Rad (l : c04_ll)
| LOfXyz (normalize : bool) (x : c04_xyz)  (* _xyz_to_lonlat_rad(normalize=...) *)
with c04_xyz :=
| XSrc (k : c04_kind)                      (* source x,y,z *)
| XOfLL (l : c04_ll)                       (* _lonlat_rad_to_xyz: reads its arguments as radians *)
| XNorm (x : c04_xyz)                      (* _normalize_xyz *)
| XMean (k : c04_kind) (x : c04_xyz).      (* per element of kind k: mean over its corner nodes *)

Record c04_state := {
  st_nll : option c04_ll; st_nxyz : option c04_xyz;
  st_ell : option c04_ll; st_exyz : option c04_xyz;
  st_fll : option c04_ll; st_fxyz : option c04_xyz;
  st_norm : bool }.

Definition c04_get_ll (s : c04_state) (k : c04_kind) : option c04_ll :=
  match k with KNode => st_nll s | KEdge => st_ell s | _ => st_fll s end.
Definition c04_get_xyz (s : c04_state) (k : c04_kind) : option c04_xyz :=
  match k with KNode => st_nxyz s | KEdge => st_exyz s | _ => st_fxyz s end.

Definition c04_set_ll (k : c04_kind) (v : option c04_ll) (s : c04_state) : c04_state :=
  match k with
  | KNode => {| st_nll := v; st_nxyz := st_nxyz s; st_ell := st_ell s; st_exyz := st_exyz s;
                st_fll := st_fll s; st_fxyz := st_fxyz s; st_norm := st_norm s |}
  | KEdge => {| st_nll := st_nll s; st_nxyz := st_nxyz s; st_ell := v; st_exyz := st_exyz s;
                st_fll := st_fll s; st_fxyz := st_fxyz s; st_norm := st_norm s |}
  | _ => {| st_nll := st_nll s; st_nxyz := st_nxyz s; st_ell := st_ell s; st_exyz := st_exyz s;
                st_fll := v; st_fxyz := st_fxyz s; st_norm := st_norm s |}
  end.
Definition c04_set_xyz (k : c04_kind) (v : option c04_xyz) (s : c04_state) : c04_state :=
  match k with
  | KNode => {| st_nll := st_nll s; st_nxyz := v; st_ell := st_ell s; st_exyz := st_exyz s;
                st_fll := st_fll s; st_fxyz := st_fxyz s; st_norm := st_norm s |}
  | KEdge => {| st_nll := st_nll s; st_nxyz := st_nxyz s; st_ell := st_ell s; st_exyz := v;
                st_fll := st_fll s; st_fxyz := st_fxyz s; st_norm := st_norm s |}
  | _ => {| st_nll := st_nll s; st_nxyz := st_nxyz s; st_ell := st_ell s; st_exyz := st_exyz s;
                st_fll := st_fll s; st_fxyz := v; st_norm := st_norm s |}
  end.
Definition c04_set_norm (b : bool) (s : c04_state) : c04_state :=
  {| st_nll := st_nll s; st_nxyz := st_nxyz s; st_ell := st_ell s; st_exyz := st_exyz s;
     st_fll := st_fll s; st_fxyz := st_fxyz s; st_norm := b |}.

(* _set_desired_longitude_range(ds): every longitude variable present is wrapped when its
   maximum exceeds 180 *)
Definition c04_set_range (s : c04_state) : c04_state :=
  {| st_nll := option_map (LCondWrap KNode) (st_nll s); st_nxyz := st_nxyz s;
     st_ell := option_map (LCondWrap KEdge) (st_ell s); st_exyz := st_exyz s;
     st_fll := option_map (LCondWrap KFace) (st_fll s); st_fxyz := st_fxyz s;
     st_norm := st_norm s |}.

(* Grid.__init__: the source variables, then the range fix *)
Definition c04_init (c : c04_case) : c04_state :=
  let src_ll k := if c04_has_ll (c04_prov_of c k) then Some (LSrc k) else None in
  let src_xyz k := if c04_has_xyz (c04_prov_of c k) then Some (XSrc k) else None in
  c04_set_range
    {| st_nll := src_ll KNode; st_nxyz := src_xyz KNode; st_ell := src_ll KEdge;
       st_exyz := src_xyz KEdge; st_fll := src_ll KFace; st_fxyz := src_xyz KFace;
       st_norm := false |}.

(* the eight code sites with a known defect: false = as found, true = repaired
     fx_node_wrap  _populate_node_latlon wraps the derived longitudes into [-180,180)
     fx_node_after Grid.node_lon/node_lat call _set_desired_longitude_range AFTER
                   _populate_node_latlon instead of before (/repo commit f9f02c9f); either of the
                   two repairs the node-longitude site
     fx_*_deg      _populate_{face,edge}_centroids convert stored lon/lat to radians before
                   _lonlat_rad_to_xyz
     fx_*_norm     _populate_{face,edge}_centroids call _xyz_to_lonlat_deg(normalize=True)
     fx_*_check    the edge_x / face_x branch of _check_normalization tests its own coordinates
     fx_welzl_deg  _populate_face_centerpoints converts the Welzl lon/lat (degrees) to radians before
                   _lonlat_rad_to_xyz (/repo commit ed0eee67) *)
Record c04_fixes := {
  fx_node_wrap : bool; fx_node_after : bool; fx_face_deg : bool; fx_edge_deg : bool;
  fx_face_norm : bool; fx_edge_norm : bool; fx_edge_check : bool; fx_face_check : bool;
  fx_welzl_deg : bool }.

Definition c04_fixed_all : c04_fixes :=
  {| fx_node_wrap := false; fx_node_after := true; fx_face_deg := true; fx_edge_deg := true;
     fx_face_norm := true; fx_edge_norm := true; fx_edge_check := true; fx_face_check := true;
     fx_welzl_deg := true |}.
Definition c04_as_found : c04_fixes :=
  {| fx_node_wrap := false; fx_node_after := false; fx_face_deg := false; fx_edge_deg := false;
     fx_face_norm := false; fx_edge_norm := false; fx_edge_check := false; fx_face_check := false;
     fx_welzl_deg := false |}.
Definition c04_all_fixed (fx : c04_fixes) : bool :=
  (fx_node_wrap fx || fx_node_after fx) && fx_face_deg fx && fx_edge_deg fx && fx_face_norm fx &&
  fx_edge_norm fx && fx_edge_check fx && fx_face_check fx && fx_welzl_deg fx.

Definition c04_fx_deg (fx : c04_fixes) (k : c04_kind) : bool :=
  match k with KFace => fx_face_deg fx | KEdge => fx_edge_deg fx | _ => true end.
Definition c04_fx_norm (fx : c04_fixes) (k : c04_kind) : bool :=
  match k with KFace => fx_face_norm fx | KEdge => fx_edge_norm fx | _ => true end.
Definition c04_fx_check (fx : c04_fixes) (k : c04_kind) : bool :=
  match k with KFace => fx_face_check fx | KEdge => fx_edge_check fx | _ => true end.

(* reading a group that must exist (the totalising default is never reached from a
   well-formed source; statements carry that hypothesis) *)
Definition c04_the_ll (s : c04_state) (k : c04_kind) : c04_ll :=
  match c04_get_ll s k with Some l => l | None => LSrc k end.
Definition c04_the_xyz (s : c04_state) (k : c04_kind) : c04_xyz :=
  match c04_get_xyz s k with Some x => x | None => XSrc k end.

(* Grid.node_x/y/z getter: _populate_node_xyz when absent *)
Definition c04_ensure_node_xyz (s : c04_state) : c04_state :=
  match st_nxyz s with
  | Some _ => s
  | None => c04_set_xyz KNode (Some (XOfLL (LDeg2Rad (c04_the_ll s KNode)))) s
  end.

(* Grid.node_lon/lat getter.  As found: range fix FIRST, then _populate_node_latlon (rad2deg of
   _xyz_to_lonlat_rad, longitudes in [0,360)).  Repair fx_node_wrap: the populate function wraps the
   derived longitudes.  Repair fx_node_after (the one in /repo): populate first, range fix after. *)
Definition c04_get_node_ll (fx : c04_fixes) (s : c04_state) : c04_state :=
  match st_nll s with
  | Some _ => s
  | None =>
      let s1 := if fx_node_after fx then s else c04_set_range s in
      let l := LRad2Deg (LOfXyz true (c04_the_xyz s1 KNode)) in
      let s2 := c04_set_ll KNode (Some (if fx_node_wrap fx then LWrap l else l)) s1 in
      if fx_node_after fx then c04_set_range s2 else s2
  end.

(* _populate_face_centroids / _populate_edge_centroids (repopulate=False), k = KFace / KEdge *)
Definition c04_populate_centroids (fx : c04_fixes) (k : c04_kind) (s0 : c04_state) : c04_state :=
  let s := c04_ensure_node_xyz s0 in                     (* node_x = grid.node_x.values ... *)
  match c04_get_ll s k with
  | None =>
      let c := match c04_get_xyz s k with
               | None => XNorm (XMean k (c04_the_xyz s KNode))   (* _construct_*_centroids *)
               | Some x => x                                     (* stored Cartesian centres *)
               end in
      (* _xyz_to_lonlat_deg(..., normalize=False); the repair normalises *)
      let l := LWrap (LRad2Deg (LOfXyz (c04_fx_norm fx k) c)) in
      let s1 := c04_set_ll k (Some l) s in
      match c04_get_xyz s k with None => c04_set_xyz k (Some c) s1 | Some _ => s1 end
  | Some l =>
      (* stored lon/lat centres (degrees) handed to _lonlat_rad_to_xyz; the repair converts *)
      let c := XOfLL (if c04_fx_deg fx k then LDeg2Rad l else l) in
      match c04_get_xyz s k with None => c04_set_xyz k (Some c) s | Some _ => s end
  end.

(* whether an array of triples has unit length (decided by np.isclose on the data in the code;
   here from how the array was produced) *)
Definition c04_is_unit (c : c04_case) (x : c04_xyz) : bool :=
  match x with
  | XSrc k => negb (c04_scaled c k)
  | XOfLL _ => true
  | XNorm _ => true
  | XMean _ _ => false
  end.

(* _check_normalization: returns the state (the node getter may populate) and the answer *)
Definition c04_check_normalization (fx : c04_fixes) (c : c04_case) (s : c04_state) : c04_state * bool :=
  if st_norm s then (s, true) else
  let test (k : c04_kind) (sb : c04_state * bool) : c04_state * bool :=
    let '(s1, ok) := sb in
    if negb ok then (s1, ok) else
    match c04_get_xyz s1 k with
    | None => (s1, true)
    | Some own =>
        if c04_fx_check fx k then (s1, c04_is_unit c own)
        else (* the edge and face branches test grid.node_x/y/z *)
          let s2 := c04_ensure_node_xyz s1 in (s2, c04_is_unit c (c04_the_xyz s2 KNode))
    end in
  let '(s3, ok) := test KFace (test KEdge (test KNode (s, true))) in
  if ok then (c04_set_norm true s3, true) else (s3, false).

(* Grid.normalize_cartesian_coordinates *)
Definition c04_normalize (fx : c04_fixes) (c : c04_case) (s : c04_state) : c04_state :=
  let '(s1, ok) := c04_check_normalization fx c s in
  if ok then s1 else
  {| st_nll := st_nll s1; st_nxyz := option_map XNorm (st_nxyz s1);
     st_ell := st_ell s1; st_exyz := option_map XNorm (st_exyz s1);
     st_fll := st_fll s1; st_fxyz := option_map XNorm (st_fxyz s1);
     st_norm := st_norm s1 |}.

(* operations of a history: first (or repeated) access of a coordinate group, or normalisation.
   node_lon/node_lat share one code path, likewise the other five groups. *)
Inductive c04_op := OGetLL (k : c04_kind) | OGetXYZ (k : c04_kind) | ONormalize
                  | OWelzl | OCartAvg | ONop.

(* Grid.construct_face_centers("welzl") = _populate_face_centerpoints(repopulate=True): reads
   grid.node_lon/node_lat (getter), takes the routine's lon/lat (degrees) and stores them and their
   Cartesian image; no range fix *)
Definition c04_welzl (fx : c04_fixes) (s0 : c04_state) : c04_state :=
  let s := c04_get_node_ll fx s0 in
  let l := LSrc KFaceWelzl in
  let x := XOfLL (if fx_welzl_deg fx then LDeg2Rad l else l) in
  c04_set_xyz KFace (Some x) (c04_set_ll KFace (Some l) s).

(* Grid.construct_face_centers("cartesian average") = _populate_face_centroids(repopulate=True):
   stored Cartesian centres are KEPT (only absent ones are constructed from the nodes); lon/lat are
   re-derived from them; both groups are stored again *)
Definition c04_cart_avg (fx : c04_fixes) (s0 : c04_state) : c04_state :=
  let s := c04_ensure_node_xyz s0 in
  let c := match st_fxyz s with
           | None => XNorm (XMean KFaceMean (c04_the_xyz s KNode))
           | Some x => x
           end in
  let l := LWrap (LRad2Deg (LOfXyz (fx_face_norm fx) c)) in
  c04_set_xyz KFace (Some c) (c04_set_ll KFace (Some l) s).

Definition c04_step (fx : c04_fixes) (c : c04_case) (s : c04_state) (o : c04_op) : c04_state :=
  match o with
  | OGetLL KNode => c04_get_node_ll fx s
  | OGetXYZ KNode => c04_ensure_node_xyz s
  | OGetLL KFace =>
      match st_fll s with
      | Some _ => s
      | None => c04_set_range (c04_populate_centroids fx KFace s)
      end
  | OGetLL KEdge =>
      c04_set_range (match st_ell s with
                     | Some _ => s
                     | None => c04_populate_centroids fx KEdge s
                     end)
  | OGetLL KFaceMean | OGetLL KFaceWelzl | OGetXYZ KFaceMean | OGetXYZ KFaceWelzl => s
  | OGetXYZ k =>
      match c04_get_xyz s k with
      | Some _ => s
      | None => c04_populate_centroids fx k s
      end
  | ONormalize => c04_normalize fx c s
  | OWelzl => c04_welzl fx s
  | OCartAvg => c04_cart_avg fx s
  | ONop => s
  end.

Definition c04_run (fx : c04_fixes) (c : c04_case) (ops : list c04_op) : c04_state :=
  fold_left (c04_step fx c) ops (c04_init c).

(* the states after each operation (what each access reported) *)
Fixpoint c04_trace (fx : c04_fixes) (c : c04_case) (s : c04_state) (ops : list c04_op) : list c04_state :=
  match ops with
  | [] => []
  | o :: r => let s' := c04_step fx c s o in s' :: c04_trace fx c s' r
  end.

(* ---- unit / range / provenance checker ---- *)

Inductive c04_lltag :=
| TDegStd (k : c04_kind)     (* degrees, lon in [-180,180], lat in [-90,90], direction of kind k *)
| TDegWide (k : c04_kind)    (* degrees, lon in [-180,360] *)
| TRad2pi (k : c04_kind)     (* radians, lon in [0,2pi) *)
| TRadAny (k : c04_kind).    (* radians, any lon *)
Inductive c04_xyztag :=
| TUnit (k : c04_kind)       (* unit vectors, direction of kind k *)
| TScaled (k : c04_kind)     (* the source's scaled vectors of kind k *)
| TMean (k : c04_kind).      (* un-normalised mean of the corner node vectors of kind k *)

Fixpoint c04_ty_ll (c : c04_case) (e : c04_ll) : option c04_lltag :=
  match e with
  | LSrc KFaceWelzl => Some (TDegStd KFaceWelzl)      (* the routine's own output, in range *)
  | LSrc k => if c04_has_ll (c04_prov_of c k) then Some (TDegWide k) else None
  | LCondWrap k l =>
      (* the range fix of variable k_lon applies to whatever family of centres is stored there *)
      match c04_ty_ll c l with
      | Some (TDegStd k') | Some (TDegWide k') =>
          if c04_kind_eqb (c04_base k) (c04_base k') then Some (TDegStd k') else None
      | _ => None
      end
  | LWrap l =>
      match c04_ty_ll c l with
      | Some (TDegStd k) | Some (TDegWide k) => Some (TDegStd k)
      | _ => None
      end
  | LRad2Deg l =>
      match c04_ty_ll c l with
      | Some (TRad2pi k) => Some (TDegWide k)
      | _ => None
      end
  | LDeg2Rad l =>
      match c04_ty_ll c l with
      | Some (TDegStd k) | Some (TDegWide k) => Some (TRadAny k)
      | _ => None
      end
  | LOfXyz n x =>
      match c04_ty_xyz c x with
      | Some (TUnit k) => Some (TRad2pi k)
      | Some (TScaled k) => if n then Some (TRad2pi k) else None
      | _ => None
      end
  end
with c04_ty_xyz (c : c04_case) (e : c04_xyz) : option c04_xyztag :=
  match e with
  | XSrc k => if c04_has_xyz (c04_prov_of c k)
              then Some (if c04_scaled c k then TScaled k else TUnit k) else None
  | XOfLL l =>
      match c04_ty_ll c l with
      | Some (TRad2pi k) | Some (TRadAny k) => Some (TUnit k)
      | _ => None
      end
  | XNorm x =>
      match c04_ty_xyz c x with
      | Some (TUnit k) | Some (TScaled k) => Some (TUnit k)
      | Some (TMean k) => if c04_supplied c k then None else Some (TUnit k)
      | None => None
      end
  | XMean k x =>
      match k, c04_ty_xyz c x with
      | KNode, _ => None
      | _, Some (TUnit KNode) | _, Some (TScaled KNode) => Some (TMean k)
      | _, _ => None
      end
  end.

(* what a Grid must report: lon/lat in degrees within the standard ranges; Cartesian of the
   right direction, unit unless it is the source's own scaled array *)
Definition c04_ll_ok (c : c04_case) (k : c04_kind) (e : c04_ll) : bool :=
  match c04_ty_ll c e with Some (TDegStd k') => c04_kind_eqb k k' | _ => false end.
Definition c04_xyz_ok (c : c04_case) (k : c04_kind) (e : c04_xyz) : bool :=
  match c04_ty_xyz c e with
  | Some (TUnit k') => c04_kind_eqb k k'
  | Some (TScaled k') => c04_kind_eqb k k'
  | _ => false
  end.
Definition c04_xyz_unit_ok (c : c04_case) (k : c04_kind) (e : c04_xyz) : bool :=
  match c04_ty_xyz c e with Some (TUnit k') => c04_kind_eqb k k' | _ => false end.

Definition c04_opt {A} (f : A -> bool) (o : option A) : bool :=
  match o with Some a => f a | None => true end.

(* the face centres a Grid holds belong to one of three families (the source's / derived ones, or
   one installed by construct_face_centers); lon/lat and Cartesian must be of the SAME family *)
Definition c04_is_face_fam (k : c04_kind) : bool :=
  match k with KFace | KFaceMean | KFaceWelzl => true | _ => false end.

Definition c04_face_ok (c : c04_case) (ol : option c04_ll) (ox : option c04_xyz) (F : c04_kind) : bool :=
  c04_is_face_fam F && c04_opt (c04_ll_ok c F) ol && c04_opt (c04_xyz_ok c F) ox.
Definition c04_face_unit_ok (c : c04_case) (ox : option c04_xyz) : bool :=
  c04_opt (c04_xyz_unit_ok c KFace) ox || c04_opt (c04_xyz_unit_ok c KFaceMean) ox
  || c04_opt (c04_xyz_unit_ok c KFaceWelzl) ox.

Definition c04_state_ok (c : c04_case) (s : c04_state) : bool :=
  c04_opt (c04_ll_ok c KNode) (st_nll s) && c04_opt (c04_xyz_ok c KNode) (st_nxyz s) &&
  c04_opt (c04_ll_ok c KEdge) (st_ell s) && c04_opt (c04_xyz_ok c KEdge) (st_exyz s) &&
  (c04_face_ok c (st_fll s) (st_fxyz s) KFace || c04_face_ok c (st_fll s) (st_fxyz s) KFaceMean
   || c04_face_ok c (st_fll s) (st_fxyz s) KFaceWelzl).

(* after normalize_cartesian_coordinates every Cartesian group present has unit length *)
Definition c04_state_unit (c : c04_case) (s : c04_state) : bool :=
  c04_opt (c04_xyz_unit_ok c KNode) (st_nxyz s) && c04_opt (c04_xyz_unit_ok c KEdge) (st_exyz s) &&
  c04_face_unit_ok c (st_fxyz s).

(* a well-formed source: nodes supplied in at least one system; scaling only of supplied xyz *)
Definition c04_wf_case (c : c04_case) : bool :=
  c04_supplied c KNode &&
  (c04_has_xyz (cs_node c) || negb (cs_sc_node c)) &&
  (c04_has_xyz (cs_edge c) || negb (cs_sc_edge c)) &&
  (c04_has_xyz (cs_face c) || negb (cs_sc_face c)).

(* ---- flat integer encoding (prefix code) for the driver and the in-kernel audit ---- *)
Definition c04_kind_code (k : c04_kind) : Z :=
  match k with KNode => 0 | KEdge => 1 | KFace => 2 | KFaceMean => 3 | KFaceWelzl => 4 end.

Fixpoint c04_enc_ll (e : c04_ll) : list Z :=
  match e with
  | LSrc k => [10; c04_kind_code k]
  | LCondWrap k l => 11 :: c04_kind_code k :: c04_enc_ll l
  | LWrap l => 12 :: c04_enc_ll l
  | LRad2Deg l => 13 :: c04_enc_ll l
  | LDeg2Rad l => 14 :: c04_enc_ll l
  | LOfXyz n x => 15 :: (if n then 1 else 0) :: c04_enc_xyz x
  end
with c04_enc_xyz (e : c04_xyz) : list Z :=
  match e with
  | XSrc k => [20; c04_kind_code k]
  | XOfLL l => 21 :: c04_enc_ll l
  | XNorm x => 22 :: c04_enc_xyz x
  | XMean k x => 23 :: c04_kind_code k :: c04_enc_xyz x
  end.

Definition c04_enc_oll (o : option c04_ll) : list Z := match o with Some e => c04_enc_ll e | None => [0] end.
Definition c04_enc_oxyz (o : option c04_xyz) : list Z := match o with Some e => c04_enc_xyz e | None => [0] end.

Definition c04_b2z (b : bool) : Z := if b then 1 else 0.

(* one state: six encoded groups, their checker verdicts (1 ok / 0 not / for absent groups 1),
   the unit verdicts of the three Cartesian groups, the flag *)
Definition c04_enc_state (c : c04_case) (s : c04_state) : list (list Z) :=
  [ c04_enc_oll (st_nll s); c04_enc_oxyz (st_nxyz s); c04_enc_oll (st_ell s);
    c04_enc_oxyz (st_exyz s); c04_enc_oll (st_fll s); c04_enc_oxyz (st_fxyz s);
    [ c04_b2z (c04_opt (c04_ll_ok c KNode) (st_nll s)); c04_b2z (c04_opt (c04_xyz_ok c KNode) (st_nxyz s));
      c04_b2z (c04_opt (c04_ll_ok c KEdge) (st_ell s)); c04_b2z (c04_opt (c04_xyz_ok c KEdge) (st_exyz s));
      c04_b2z (c04_face_ok c (st_fll s) None KFace || c04_face_ok c (st_fll s) None KFaceMean
               || c04_face_ok c (st_fll s) None KFaceWelzl);
      c04_b2z (c04_face_ok c (st_fll s) (st_fxyz s) KFace || c04_face_ok c (st_fll s) (st_fxyz s) KFaceMean
               || c04_face_ok c (st_fll s) (st_fxyz s) KFaceWelzl) ];
    [ c04_b2z (c04_opt (c04_xyz_unit_ok c KNode) (st_nxyz s));
      c04_b2z (c04_opt (c04_xyz_unit_ok c KEdge) (st_exyz s));
      c04_b2z (c04_face_unit_ok c (st_fxyz s)) ];
    [ c04_b2z (st_norm s) ] ].

Definition c04_prov_of_code (z : Z) : c04_prov :=
  if z =? 1 then PLL else if z =? 2 then PXYZ else if z =? 3 then PBoth else PNone.
Definition c04_kind_of_code (z : Z) : c04_kind :=
  if z =? 1 then KEdge else if z =? 2 then KFace else KNode.
(* op codes: 0,1,2 = lon/lat of node,edge,face; 3,4,5 = xyz of node,edge,face; 6 = normalise;
   7 = construct_face_centers("welzl"); 8 = construct_face_centers("cartesian average");
   9 = a setter re-assigning a group its current values *)
Definition c04_op_of_code (z : Z) : c04_op :=
  if z =? 6 then ONormalize else if z =? 7 then OWelzl else if z =? 8 then OCartAvg else if z =? 9 then ONop
  else if z <? 3 then OGetLL (c04_kind_of_code z)
  else OGetXYZ (c04_kind_of_code (z - 3)).
Definition c04_case_of_codes (l : list Z) : c04_case :=
  {| cs_node := c04_prov_of_code (nth 0 l 0); cs_edge := c04_prov_of_code (nth 1 l 0);
     cs_face := c04_prov_of_code (nth 2 l 0);
     cs_sc_node := negb (nth 3 l 0 =? 0); cs_sc_edge := negb (nth 4 l 0 =? 0);
     cs_sc_face := negb (nth 5 l 0 =? 0) |}.

Definition c04_fixes_of_codes (l : list Z) : c04_fixes :=
  let b i := negb (nth i l 0 =? 0) in
  {| fx_node_wrap := b 0%nat; fx_node_after := b 1%nat; fx_face_deg := b 2%nat; fx_edge_deg := b 3%nat;
     fx_face_norm := b 4%nat; fx_edge_norm := b 5%nat; fx_edge_check := b 6%nat; fx_face_check := b 7%nat;
     fx_welzl_deg := b 8%nat |}.

(* driver entry: variant codes, case codes, op codes -> initial state followed by the state after
   every op *)
Definition c04_run_enc (fl : list Z) (cl : list Z) (ol : list Z) : list (list (list Z)) :=
  let fx := c04_fixes_of_codes fl in
  let c := c04_case_of_codes cl in
  let s0 := c04_init c in
  map (c04_enc_state c) (s0 :: c04_trace fx c s0 (map c04_op_of_code ol)).

(* ------------------------------------------------------------------------------------------ *)
(* Part 2: meaning over R                                                                        *)

Local Open Scope R_scope.

Definition c04_v3 := (R * R * R)%type.
Definition c04_px (p : c04_v3) : R := fst (fst p).
Definition c04_py (p : c04_v3) : R := snd (fst p).
Definition c04_pz (p : c04_v3) : R := snd p.
Definition c04_dot (p q : c04_v3) : R := c04_px p * c04_px q + c04_py p * c04_py q + c04_pz p * c04_pz q.
Definition c04_scale (k : R) (p : c04_v3) : c04_v3 := (k * c04_px p, k * c04_py p, k * c04_pz p).
Definition c04_add (p q : c04_v3) : c04_v3 := (c04_px p + c04_px q, c04_py p + c04_py q, c04_pz p + c04_pz q).
Definition c04_cross (p q : c04_v3) : c04_v3 :=
  (c04_py p * c04_pz q - c04_pz p * c04_py q,
   c04_pz p * c04_px q - c04_px p * c04_pz q,
   c04_px p * c04_py q - c04_py p * c04_px q).
Definition c04_len (p : c04_v3) : R := sqrt (c04_dot p p).
Definition c04_zero3 : c04_v3 := (0, 0, 0).

(* _lonlat_rad_to_xyz *)
Definition c04_ll2xyz (ll : R * R) : c04_v3 :=
  (cos (fst ll) * cos (snd ll), sin (fst ll) * cos (snd ll), sin (snd ll)).

(* _normalize_xyz *)
Definition c04_normalize3 (p : c04_v3) : c04_v3 := c04_scale (/ c04_len p) p.

(* the extra division by |x^2+y^2+z^2| inside _xyz_to_lonlat_rad(normalize=True) *)
Definition c04_normalize_twice (p : c04_v3) : c04_v3 :=
  let q := c04_normalize3 p in c04_scale (/ Rabs (c04_dot q q)) q.

(* np.arctan2 *)
Definition c04_atan2 (y x : R) : R :=
  if Rlt_dec 0 x then atan (y / x)
  else if Rlt_dec x 0 then (if Rle_dec 0 y then atan (y / x) + PI else atan (y / x) - PI)
  else if Rlt_dec 0 y then PI / 2
  else if Rlt_dec y 0 then - (PI / 2)
  else 0.

(* np.mod for a positive modulus *)
Definition c04_rmod (x m : R) : R := x - IZR (Int_part (x / m)) * m.

(* ERROR_TOLERANCE *)
Definition c04_tol : R := / 100000000.

Definition c04_sign (z : R) : R := if Rlt_dec 0 z then 1 else if Rlt_dec z 0 then -1 else 0.

(* _xyz_to_lonlat_rad(normalize=False): radians, lon in [0,2pi), pole snap *)
Definition c04_xyz2ll (p : c04_v3) : R * R :=
  if Rlt_dec (1 - c04_tol) (Rabs (c04_pz p))
  then (0, c04_sign (c04_pz p) * PI / 2)
  else (c04_rmod (c04_atan2 (c04_py p) (c04_px p)) (2 * PI), asin (c04_pz p)).

Definition c04_deg2rad (d : R) : R := d * PI / 180.
Definition c04_rad2deg (r : R) : R := r * 180 / PI.
Definition c04_wrap180 (d : R) : R := c04_rmod (d + 180) 360 - 180.

Definition c04_map_ll (f : R -> R) (ll : R * R) : R * R := (f (fst ll), f (snd ll)).
Definition c04_wrap_ll (ll : R * R) : R * R := (c04_wrap180 (fst ll), snd ll).

Fixpoint c04_any_gt180 (f : nat -> R) (n : nat) : bool :=
  match n with
  | O => false
  | S m => if Rlt_dec 180 (f m) then true else c04_any_gt180 f m
  end.

(* _set_desired_longitude_range on one longitude array of n entries *)
Definition c04_range_fix (f : nat -> R) (n : nat) (i : nat) : R :=
  if c04_any_gt180 f n then c04_wrap180 (f i) else f i.

Definition c04_sum3 (l : list c04_v3) : c04_v3 := fold_right c04_add c04_zero3 l.
Definition c04_mean3 (l : list c04_v3) : c04_v3 := c04_scale (/ INR (length l)) (c04_sum3 l).

(* the concrete source a Grid was built from, and the directions it describes *)
Record c04_env := {
  en_count : c04_kind -> nat;                 (* n_node, n_edge, n_face *)
  en_corners : c04_kind -> nat -> list nat;   (* corner nodes of edge / face i *)
  en_ll : c04_kind -> nat -> R * R;           (* supplied lon/lat (degrees) *)
  en_xyz : c04_kind -> nat -> c04_v3;         (* supplied x,y,z *)
  en_dir : c04_kind -> nat -> c04_v3;         (* the point element i of kind k is at *)
  en_scale : c04_kind -> R }.                 (* length of the supplied Cartesian vectors *)

Fixpoint c04_sem_ll (en : c04_env) (e : c04_ll) (i : nat) : R * R :=
  match e with
  | LSrc k => en_ll en k i
  | LCondWrap k l =>
      if c04_any_gt180 (fun j => fst (c04_sem_ll en l j)) (en_count en k)
      then c04_wrap_ll (c04_sem_ll en l i) else c04_sem_ll en l i
  | LWrap l => c04_wrap_ll (c04_sem_ll en l i)
  | LRad2Deg l => c04_map_ll c04_rad2deg (c04_sem_ll en l i)
  | LDeg2Rad l => c04_map_ll c04_deg2rad (c04_sem_ll en l i)
  | LOfXyz n x => c04_xyz2ll (if n then c04_normalize_twice (c04_sem_xyz en x i) else c04_sem_xyz en x i)
  end
with c04_sem_xyz (en : c04_env) (e : c04_xyz) (i : nat) : c04_v3 :=
  match e with
  | XSrc k => en_xyz en k i
  | XOfLL l => c04_ll2xyz (c04_sem_ll en l i)
  | XNorm x => c04_normalize3 (c04_sem_xyz en x i)
  | XMean k x => c04_mean3 (map (c04_sem_xyz en x) (en_corners en k i))
  end.
