(* C17.v — executable model of uxarray/core/aggregation.py (node -> face, node -> edge topological
   aggregations) and uxarray/grid/connectivity.py:get_face_node_partitions.

   Mirrors the code step by step:
     get_face_node_partitions: argsort of n_nodes_per_face, np.unique(return_counts) (= run
       lengths of the sorted values), the second argsort over the element sizes, cumsum,
       concatenate([0], ...);
     _apply_node_to_face_aggregation_numpy: result = np.empty(... n_face) (cells start as None =
       "uninitialised"), loop over zip(element_sizes, change_ind[:-1], change_ind[1:]):
       face_inds = sorted_ind[start:end]; face_nodes_par = face_node_conn[face_inds, 0:e];
       aggregation_func(data[..., face_nodes_par], axis=-1); result allocated at the first store;
       result[..., face_inds] = ...;
     _apply_node_to_edge_aggregation_numpy: aggregation_func(data[..., edge_node_conn], axis=-1);
     _uxda_grid_aggregate: dispatch and error paths; the dims/shape bookkeeping of
       UxDataArray(data=..., dims=uxda.dims).rename({"n_node": dest}).
   The reduction is a parameter (agg : list A -> B).  NumPy integer indexing of the LAST axis is
   modelled with its wrap-around for negative indices and IndexError (= None) out of range.
   Definitions only. *)
From Coq Require Import QArith.
From Verif Require Export Base C02.

Local Open Scope Z_scope.

(* ------------------------------------------------------------------------------------------ *)
(* numpy primitives                                                                             *)

(* v[i] on a 1-D axis: 0 <= i < n, or -n <= i < 0 (wraps); otherwise IndexError *)
Definition c17_np_index {A} (v : list A) (i : Z) : option A :=
  let n := Z.of_nat (length v) in
  if 0 <=? i then nth_error v (Z.to_nat i)
  else if (- n) <=? i then nth_error v (Z.to_nat (n + i))
  else None.

(* all-or-nothing map (an exception anywhere aborts the whole expression) *)
Fixpoint c17_all_some {X} (l : list (option X)) : option (list X) :=
  match l with
  | [] => Some []
  | None :: _ => None
  | Some x :: l' => match c17_all_some l' with Some r => Some (x :: r) | None => None end
  end.

(* v[idx] for a 1-D index list *)
Definition c17_gather {A} (v : list A) (idx : list Z) : option (list A) :=
  c17_all_some (map (c17_np_index v) idx).

(* np.arange(n) *)
Definition c17_iota (n : nat) : list Z := map Z.of_nat (seq 0 n).

(* stable insertion sort of (key, index) pairs by key: the model of np.argsort.  (NumPy's default
   argsort is not stable; Proofs/C17_proofs.v proves the result for EVERY index vector that is an
   argsort of the keys, this one being an instance.) *)
Fixpoint c17_insert (p : Z * Z) (l : list (Z * Z)) : list (Z * Z) :=
  match l with
  | [] => [p]
  | q :: l' => if fst p <=? fst q then p :: l else q :: c17_insert p l'
  end.
Definition c17_isort (l : list (Z * Z)) : list (Z * Z) := fold_right c17_insert [] l.

Definition c17_argsort (k : list Z) : list Z :=
  map snd (c17_isort (combine k (c17_iota (length k)))).

(* plain sort of values (inside np.unique) *)
Fixpoint c17_insertZ (x : Z) (l : list Z) : list Z :=
  match l with
  | [] => [x]
  | y :: l' => if x <=? y then x :: l else y :: c17_insertZ x l'
  end.
Definition c17_isortZ (l : list Z) : list Z := fold_right c17_insertZ [] l.

(* run-length encoding; on a sorted list = (unique values, counts) *)
Fixpoint c17_rle (l : list Z) : list (Z * nat) :=
  match l with
  | [] => []
  | x :: l' =>
      match c17_rle l' with
      | (y, c) :: r => if x =? y then (y, S c) :: r else (x, 1%nat) :: (y, c) :: r
      | [] => [(x, 1%nat)]
      end
  end.

(* np.unique(a, return_counts=True) *)
Definition c17_unique_counts (a : list Z) : list (Z * nat) := c17_rle (c17_isortZ a).

(* a[idx] with in-range indices produced by argsort *)
Definition c17_take {X} (idx : list Z) (a : list X) (d : X) : list X :=
  map (fun i => nth (Z.to_nat i) a d) idx.

(* np.cumsum *)
Fixpoint c17_cumsum (acc : nat) (l : list nat) : list nat :=
  match l with
  | [] => []
  | c :: l' => (acc + c)%nat :: c17_cumsum (acc + c) l'
  end.

(* a[s:e] *)
Definition c17_slice {X} (a : list X) (s e : nat) : list X := firstn (e - s) (skipn s a).

(* ------------------------------------------------------------------------------------------ *)
(* get_face_node_partitions, parametrised by the index vector np.argsort returned              *)

Record c17_parts := {
  c17_change_ind : list nat;
  c17_sorted_ind : list Z;
  c17_element_sizes : list Z;
  c17_size_counts : list nat
}.

Definition c17_partitions_with (sorted_ind : list Z) (npf : list Z) : c17_parts :=
  let uc := c17_unique_counts npf in
  let sizes0 := map fst uc in
  let counts0 := map snd uc in
  let sidx := c17_argsort sizes0 in                       (* element_sizes_sorted_ind *)
  let sizes := c17_take sidx sizes0 0 in
  let counts := c17_take sidx counts0 0%nat in
  {| c17_change_ind := 0%nat :: c17_cumsum 0 counts;
     c17_sorted_ind := sorted_ind;
     c17_element_sizes := sizes;
     c17_size_counts := counts |}.

Definition c17_partitions (npf : list Z) : c17_parts :=
  c17_partitions_with (c17_argsort npf) npf.

(* the loop header: zip(element_sizes, change_ind[:-1], change_ind[1:]) with face_inds resolved *)
Definition c17_loop (p : c17_parts) : list (Z * list Z) :=
  map (fun x => (fst x, c17_slice (c17_sorted_ind p) (fst (snd x)) (snd (snd x))))
      (combine (c17_element_sizes p)
               (combine (removelast (c17_change_ind p)) (tl (c17_change_ind p)))).

(* face_node_conn[face_inds, 0:e] : one (face, index row) per face of the partition, loop order *)
Definition c17_gathers_with (sorted_ind : list Z) (t : table) : list (Z * list Z) :=
  flat_map (fun it => map (fun f => (f, firstn (Z.to_nat (fst it)) (nth (Z.to_nat f) t [])))
                          (snd it))
           (c17_loop (c17_partitions_with sorted_ind (n_nodes_per_face t))).

Definition c17_gathers (t : table) : list (Z * list Z) :=
  c17_gathers_with (c17_argsort (n_nodes_per_face t)) t.

(* every node index the aggregation reads *)
Definition c17_reads (t : table) : list Z := flat_map snd (c17_gathers t).

(* result[..., face_inds] = values : cell-wise store into the np.empty buffer *)
Fixpoint c17_upd {X} (l : list X) (i : nat) (v : X) : list X :=
  match l, i with
  | [], _ => []
  | _ :: l', O => v :: l'
  | x :: l', S i' => x :: c17_upd l' i' v
  end.

Definition c17_scatter {B} (res : list (option B)) (ws : list (Z * B)) : list (option B) :=
  fold_left (fun r w => c17_upd r (Z.to_nat (fst w)) (Some (snd w))) ws res.

Section Agg.
  Context {A B : Type}.
  Variable agg : list A -> B.

  (* one leading index: data is the vector along the LAST axis.  An IndexError in any iteration
     leaves no result (None); otherwise the stores of all iterations are applied in loop order. *)
  (* the loop body applied to a list of (face, index row) gathers in the given processing order *)
  Definition c17_face_row_of_gathers (gs : list (Z * list Z)) (t : table) (data : list A)
    : option (list (option B)) :=
    match c17_all_some (map (fun g => match c17_gather data (snd g) with
                                      | Some vals => Some (fst g, agg vals)
                                      | None => None end) gs) with
    | Some ws => Some (c17_scatter (repeat None (length t)) ws)
    | None => None
    end.

  Definition c17_face_row_body (sorted_ind : list Z) (t : table) (data : list A)
    : option (list (option B)) :=
    c17_face_row_of_gathers (c17_gathers_with sorted_ind t) t data.

  (* result = None before the loop; the buffer is allocated at the first store (with the dtype the
     reduction produces — dtypes are not modelled).  Without faces the loop body never runs and no
     array is produced. *)
  Definition c17_face_row_with (sorted_ind : list Z) (t : table) (data : list A)
    : option (list (option B)) :=
    match t with
    | [] => None
    | _ :: _ => c17_face_row_body sorted_ind t data
    end.

  Definition c17_face_row (t : table) (data : list A) : option (list (option B)) :=
    c17_face_row_with (c17_argsort (n_nodes_per_face t)) t data.

  (* data[..., :] for every leading index (leading axes flattened) *)
  Definition c17_node_to_face (t : table) (data : list (list A)) : option (list (list (option B))) :=
    c17_all_some (map (c17_face_row t) data).

  (* node -> edge: aggregation_func(data[..., edge_node_conn], axis=-1), edge table of C02 *)
  Definition c17_edge_row (en : list (Z * Z)) (data : list A) : option (list B) :=
    c17_all_some (map (fun e => match c17_gather data [fst e; snd e] with
                                | Some vals => Some (agg vals)
                                | None => None end) en).

  Definition c17_node_to_edge (t : table) (data : list (list A)) : option (list (list B)) :=
    c17_all_some (map (c17_edge_row (edges t)) data).
End Agg.

(* ------------------------------------------------------------------------------------------ *)
(* dispatch (_uxda_grid_aggregate) and dims bookkeeping                                        *)

Inductive c17_dim := C17_n_node | C17_n_edge | C17_n_face | C17_other (k : Z).
Inductive c17_dest := C17_to_face | C17_to_edge | C17_to_node | C17_to_bad.       (* C17_to_bad: any other string *)
Inductive c17_outcome :=
  | C17_run (d : c17_dest)            (* the node->face / node->edge kernel runs *)
  | C17_ValueError
  | C17_NotImplemented.

Definition c17_dim_eqb (a b : c17_dim) : bool :=
  match a, b with
  | C17_n_node, C17_n_node | C17_n_edge, C17_n_edge | C17_n_face, C17_n_face => true
  | C17_other x, C17_other y => x =? y
  | _, _ => false
  end.

Definition c17_has (d : c17_dim) (dims : list c17_dim) : bool := existsb (c17_dim_eqb d) dims.

Definition c17_dispatch (dims : list c17_dim) (dest : option c17_dest) : c17_outcome :=
  match dest with
  | None => C17_ValueError
  | Some d =>
      if c17_has C17_n_node dims then
        (* if uxda.dims[-1] != "n_node": raise ValueError(... 'n_node' to be the last dimension) *)
        if negb (c17_dim_eqb (last dims C17_n_node) C17_n_node) then C17_ValueError else
        match d with
        | C17_to_face => C17_run C17_to_face
        | C17_to_edge => C17_run C17_to_edge
        | _ => C17_ValueError
        end
      else if c17_has C17_n_edge dims then C17_NotImplemented
      else if c17_has C17_n_face dims then C17_NotImplemented
      else C17_ValueError
  end.

Definition c17_dest_dim (d : c17_dest) : c17_dim :=
  match d with C17_to_face => C17_n_face | C17_to_edge => C17_n_edge | _ => C17_n_node end.

(* .rename({"n_node": dest}) on dims = uxda.dims *)
Definition c17_result_dims (dims : list c17_dim) (d : c17_dest) : list c17_dim :=
  map (fun x => if c17_dim_eqb x C17_n_node then c17_dest_dim d else x) dims.

(* shape of the array the kernel returns: data.shape[:-1] + (n_dest,) *)
Definition c17_result_shape (shape : list Z) (n_dest : Z) : list Z := removelast shape ++ [n_dest].

(* size the result reports for its destination dimension *)
Fixpoint c17_dim_size (dims : list c17_dim) (shape : list Z) (d : c17_dim) : option Z :=
  match dims, shape with
  | x :: dims', s :: shape' => if c17_dim_eqb x d then Some s else c17_dim_size dims' shape' d
  | _, _ => None
  end.

(* ------------------------------------------------------------------------------------------ *)
(* frame: the call reads the grid's tables and returns them untouched                            *)

Record c17_grid_state := { c17_st_face_nodes : table; c17_st_npf : list Z }.

Definition c17_face_call {A B} (agg : list A -> B) (st : c17_grid_state) (data : list (list A))
  : option (list (list (option B))) * c17_grid_state :=
  (c17_node_to_face agg (c17_st_face_nodes st) data, st).

(* ------------------------------------------------------------------------------------------ *)
(* defective variants (the classes of seeded changes), kept to be refuted                        *)

(* (a) the shared n_nodes_per_face array is sorted IN PLACE: afterwards argsort of it is the
       identity, so partition k is paired with the first faces in table order *)
Definition c17_gathers_inplace_sort (t : table) : list (Z * list Z) :=
  let npf_sorted := c17_isortZ (n_nodes_per_face t) in
  flat_map (fun it => map (fun f => (f, firstn (Z.to_nat (fst it)) (nth (Z.to_nat f) t [])))
                          (snd it))
           (c17_loop (c17_partitions_with (c17_argsort npf_sorted) npf_sorted)).

(* (b) the permutation is applied instead of its inverse: partition values are stored at the
       positions start..end of the sorted order, not at face_inds *)
Definition c17_positional_writes {B} (ws : list (Z * B)) : list (Z * B) :=
  combine (c17_iota (length ws)) (map snd ws).

Section AggBad.
  Context {A B : Type}.
  Variable agg : list A -> B.
  Definition c17_face_row_inplace_sort (t : table) (data : list A) : option (list (option B)) :=
    c17_face_row_of_gathers agg (c17_gathers_inplace_sort t) t data.
  Definition c17_face_row_positional (t : table) (data : list A) : option (list (option B)) :=
    match c17_all_some (map (fun g => match c17_gather data (snd g) with
                                      | Some vals => Some (fst g, agg vals)
                                      | None => None end) (c17_gathers t)) with
    | Some ws => Some (c17_scatter (repeat None (length t)) (c17_positional_writes ws))
    | None => None
    end.
End AggBad.

(* ------------------------------------------------------------------------------------------ *)
(* dtype of the result, as NumPy promotes (both destinations, since fix 997ba86d)                *)

Inductive c17_dtype := C17_bool | C17_int32 | C17_int64 | C17_float32 | C17_float64.
Inductive c17_aggname := C17_mean | C17_max | C17_min | C17_prod | C17_sum | C17_std | C17_var
                       | C17_median | C17_all | C17_any.

Definition c17_is_float (d : c17_dtype) : bool :=
  match d with C17_float32 | C17_float64 => true | _ => false end.

Definition c17_result_dtype (a : c17_aggname) (src : c17_dtype) : c17_dtype :=
  match a with
  | C17_all | C17_any => C17_bool
  | C17_max | C17_min => src
  | C17_sum | C17_prod => if c17_is_float src then src else C17_int64          (* bool/int32/int64 -> int64 *)
  | C17_mean | C17_std | C17_var | C17_median => if c17_is_float src then src else C17_float64
  end.

(* ------------------------------------------------------------------------------------------ *)
(* concrete reductions over Q used for the correspondence run (np.sum, prod, min, max, mean,    *)
(* var, median, all, any; std = sqrt(var) is taken by the harness)                              *)

(* fractions are kept in lowest terms (Qred) so that float-valued data stay small *)
Definition c17_qadd (a b : Q) : Q := Qred (Qplus a b).
Definition c17_qmul (a b : Q) : Q := Qred (Qmult a b).
Definition c17_qsum (l : list Q) : Q := fold_left c17_qadd l (0#1)%Q.
Definition c17_qprod (l : list Q) : Q := fold_left c17_qmul l (1#1)%Q.
Definition c17_qmin2 (a b : Q) : Q := if Qle_bool a b then a else b.
Definition c17_qmax2 (a b : Q) : Q := if Qle_bool a b then b else a.
Definition c17_qmin (l : list Q) : Q := match l with [] => (0#1)%Q | x :: l' => fold_left c17_qmin2 l' x end.
Definition c17_qmax (l : list Q) : Q := match l with [] => (0#1)%Q | x :: l' => fold_left c17_qmax2 l' x end.
Definition c17_qlen (l : list Q) : Q := inject_Z (Z.of_nat (length l)).
Definition c17_qmean (l : list Q) : Q := Qred (Qdiv (c17_qsum l) (c17_qlen l)).
Definition c17_qvar (l : list Q) : Q :=
  let m := c17_qmean l in
  Qred (Qdiv (c17_qsum (map (fun x => let dx := Qred (Qminus x m) in c17_qmul dx dx) l)) (c17_qlen l)).
Fixpoint c17_qinsert (x : Q) (l : list Q) : list Q :=
  match l with
  | [] => [x]
  | y :: l' => if Qle_bool x y then x :: l else y :: c17_qinsert x l'
  end.
Definition c17_qsort (l : list Q) : list Q := fold_right c17_qinsert [] l.
Definition c17_qmedian (l : list Q) : Q :=
  let s := c17_qsort l in
  let n := length l in
  if Nat.even n
  then Qdiv (Qplus (nth (n / 2 - 1) s (0#1)%Q) (nth (n / 2) s (0#1)%Q)) (2#1)%Q
  else nth (n / 2) s (0#1)%Q.
Definition c17_qnonzero (x : Q) : bool := negb (Qeq_bool x (0#1)%Q).
Definition c17_qall (l : list Q) : Q := if forallb c17_qnonzero l then (1#1)%Q else (0#1)%Q.
Definition c17_qany (l : list Q) : Q := if existsb c17_qnonzero l then (1#1)%Q else (0#1)%Q.

(* 0 mean 1 max 2 min 3 prod 4 sum 5 std(var) 6 var 7 median 8 all 9 any *)
Definition c17_agg_of (k : Z) : list Q -> Q :=
  match k with
  | 0 => c17_qmean | 1 => c17_qmax | 2 => c17_qmin | 3 => c17_qprod | 4 => c17_qsum
  | 5 => c17_qvar | 6 => c17_qvar | 7 => c17_qmedian | 8 => c17_qall | _ => c17_qany
  end.

Definition c17_run_face (k : Z) (t : table) (data : list (list Q)) := c17_node_to_face (c17_agg_of k) t data.
Definition c17_run_edge (k : Z) (t : table) (data : list (list Q)) := c17_node_to_edge (c17_agg_of k) t data.
