#!/bin/bash
# usage: goal.sh file line  -- show goals after executing the first <line> lines
f=$1; n=$2
( head -n $n $f; echo; echo "Show."; ) > /tmp/goal_$$.v
timeout 120 coqtop -Q /verif/coq Verif -batch -l /tmp/goal_$$.v 2>&1 | tail -${3:-40}
rm -f /tmp/goal_$$.v
