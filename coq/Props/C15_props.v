(* C15 — exported polygons and lines correspond to faces.
   Statements only (about Model/C15.v, which follows the code after the fix commits e27ba52e 9933f425
   78ab318c 1fc12f82 fef78d05, and the key lists regenerated from the source in Gen/C15_keys.v); each closed by `exact` of a lemma from Proofs/C15_proofs.v. *)
From Coq Require Import Sorting.Sorted.
From Verif Require Import Base C15 C15_keys C15_proofs.

(* antimeridian faces: the test on the closed, padded float shell row = "some edge of the face
   (closing edge included) spans at least 180 degrees", for every face and table width *)
Theorem C15_am : forall m c, c <> [] -> (length c <= m)%nat -> c15_crosses (c15_shell m c) = c15_spans c.
Proof. exact c15_crosses_shell. Qed.
Print Assumptions C15_am.

(* exclude: polygon k shows the k-th face that does not cross; the returned index table is the same *)
Theorem C15_exclude : forall n am pieces values,
  o_faces (c15_poly C15Exclude n am None pieces values) = filter (c15_notam am) (seq 0 n) /\
  o_c2o (c15_poly C15Exclude n am None pieces values) = filter (c15_notam am) (seq 0 n).
Proof. exact c15_poly_exclude_faces. Qed.
Print Assumptions C15_exclude.

(* ... that is: exactly the non-crossing faces, *)
Theorem C15_exclude_exact : forall am n i,
  In i (filter (c15_notam am) (seq 0 n)) <-> (i < n)%nat /\ ~ In i am.
Proof. exact c15_filter_seq_spec. Qed.
Print Assumptions C15_exclude_exact.

(* ... each once *)
Theorem C15_exclude_once : forall am n, NoDup (filter (c15_notam am) (seq 0 n)).
Proof. exact c15_filter_seq_NoDup. Qed.
Print Assumptions C15_exclude_once.

(* with a projection only non-crossing faces are shown *)
Theorem C15_exclude_projection : forall n am fl pieces values i,
  length fl = n ->
  In i (o_faces (c15_poly C15Exclude n am (Some fl) pieces values)) -> (i < n)%nat /\ ~ In i am.
Proof. exact c15_poly_exclude_faces_nan. Qed.
Print Assumptions C15_exclude_projection.

(* split: the index table lists face i once per piece *)
Theorem C15_split : forall pieces i,
  count_occ Nat.eq_dec (c15_split_map pieces) i = nth i pieces 0%nat.
Proof. exact c15_split_map_count. Qed.
Print Assumptions C15_split.

(* data stay attached to the polygons of their own face *)
Theorem C15_data_exclude : forall am nan pieces values,
  (match nan with Some fl => length fl = length values | None => True end) ->
  c15_aligned values (c15_poly C15Exclude (length values) am nan pieces values).
Proof. exact c15_poly_exclude_aligned. Qed.
Print Assumptions C15_data_exclude.

Theorem C15_data_split : forall n am nan pieces values,
  c15_aligned values (c15_poly C15Split n am nan pieces values).
Proof. exact c15_poly_split_aligned. Qed.
Print Assumptions C15_data_split.

(* ignore: with or without a projection *)
Theorem C15_data_ignore : forall am nan pieces values,
  c15_aligned values (c15_poly C15Ignore (length values) am nan pieces values).
Proof. exact c15_poly_ignore_aligned. Qed.
Print Assumptions C15_data_ignore.

(* GeoDataFrame: under every option, with or without projection *)
Theorem C15_data_gdf : forall per am nan values,
  (match nan with Some fl => length fl = length values | None => True end) ->
  c15_aligned values (c15_gdf per (length values) am nan values).
Proof. exact c15_gdf_aligned. Qed.
Print Assumptions C15_data_gdf.

(* one-to-one: no face is listed twice in the frame, with or without projection *)
Theorem C15_gdf_once : forall per n am nan values,
  (match nan with Some fl => length fl = n | None => True end) ->
  NoDup (o_faces (c15_gdf per n am nan values)).
Proof. exact c15_gdf_NoDup. Qed.
Print Assumptions C15_gdf_once.

(* ---- from the corner longitudes; face by face; the tables in detail ---- *)

(* a face is in the antimeridian table iff one of its edges (closing edge included) spans >= 180 *)
Theorem C15_am_table : forall m faces i, c15_faces_wf m faces ->
  (In i (c15_am_faces m faces) <-> (i < length faces)%nat /\ c15_spans (nth i faces []) = true).
Proof. exact c15_am_faces_spec. Qed.
Print Assumptions C15_am_table.

(* exclude, whole conversion: the kept rows are exactly the non-crossing faces, in face order *)
Theorem C15_exclude_full : forall m faces pieces values, c15_faces_wf m faces ->
  o_faces (c15_poly_full C15Exclude m faces None pieces values) =
  filter (fun i => negb (c15_spans (nth i faces []))) (seq 0 (length faces)).
Proof. exact c15_exclude_full. Qed.
Print Assumptions C15_exclude_full.

(* the face-by-face account (dropped / one polygon / its pieces) and the array pipeline agree *)
Theorem C15_rows : forall per m faces pieces values, length faces = length pieces ->
  c15_rows per m faces pieces = o_faces (c15_poly_full per m faces None pieces values).
Proof. exact c15_rows_pipeline. Qed.
Print Assumptions C15_rows.

(* split: a face that does not cross is never handed to the antimeridian correction and shows as
   exactly one polygon; a crossing face as its pieces *)
Theorem C15_split_per_face : forall m faces pieces values i,
  length faces = length pieces -> (i < length faces)%nat ->
  count_occ Nat.eq_dec (o_faces (c15_poly_full C15Split m faces None pieces values)) i =
  if c15_crosses (c15_shell m (nth i faces [])) then nth i pieces 0%nat else 1%nat.
Proof. exact c15_split_rows_per_face. Qed.
Print Assumptions C15_split_per_face.

(* ... and that is the shape of the correction site in the current source (translator flag) *)
Theorem C15_split_site_current : c15_poly_split_only_crossing = true.
Proof. exact c15_split_site_current. Qed.
Print Assumptions C15_split_site_current.

(* the corrected -> original table is monotone, *)
Theorem C15_split_monotone : forall pieces, StronglySorted le (c15_split_map pieces).
Proof. exact c15_split_map_sorted. Qed.
Print Assumptions C15_split_monotone.

(* onto the faces that have a piece and nothing else, *)
Theorem C15_split_onto : forall pieces i,
  In i (c15_split_map pieces) <-> (i < length pieces)%nat /\ (1 <= nth i pieces 0)%nat.
Proof. exact c15_split_map_onto. Qed.
Print Assumptions C15_split_onto.

(* and face i owns the consecutive rows offset(i) .. offset(i) + pieces(i) - 1 *)
Theorem C15_split_rows : forall pieces i j,
  (i < length pieces)%nat -> (j < nth i pieces 0)%nat ->
  nth (c15_offset pieces i + j) (c15_split_map pieces) 0%nat = i.
Proof. exact c15_split_rows. Qed.
Print Assumptions C15_split_rows.

(* data through the table: every polygon of every face carries that face's value *)
Theorem C15_data_split_every_face : forall n am nan pieces values i j,
  (i < length pieces)%nat -> (j < nth i pieces 0)%nat ->
  nth (c15_offset pieces i + j) (o_data (c15_poly C15Split n am nan pieces values)) 0 = nth i values 0.
Proof. exact c15_split_data_every_face. Qed.
Print Assumptions C15_data_split_every_face.

(* bookkeeping: re-indexing the data with the side tables of the same build is the pipeline and is aligned *)
Theorem C15_tables_same_build : forall per m faces nan pieces values,
  length values = length faces ->
  (match nan with Some fl => length fl = length values | None => True end) ->
  c15_da_from_tables per (c15_poly_tables per m faces nan pieces) values =
  map (fun f => nth f values 0) (o_faces (c15_poly_full per m faces nan pieces values)).
Proof. exact c15_tables_same_build_aligned. Qed.
Print Assumptions C15_tables_same_build.

(* ... with the tables another build left behind it is not (value level of the stale-table finding) *)
Theorem C15_tables_foreign_refuted : exists per m faces faces' pieces values,
  length values = length faces /\ length faces' = length faces /\
  c15_da_from_tables per (c15_poly_tables per m faces' None pieces) values <>
  map (fun f => nth f values 0) (o_faces (c15_poly_full per m faces None pieces values)).
Proof. exact c15_tables_foreign_refuted. Qed.
Print Assumptions C15_tables_foreign_refuted.

(* cache transparency of any machine whose compared keys cover the relevant arguments and are
   all stored: for every history of earlier conversions and every call *)
Theorem C15_cache : forall sp, c15_keys_ok sp = true -> forall hist a,
  fst (fst (c15_call sp (c15_run sp c15_init hist) a)) = c15_relevant (k_R sp) a.
Proof. exact c15_cache_transparent. Qed.
Print Assumptions C15_cache.

(* ... instantiated with the key lists found in the current source *)
Theorem C15_cache_gdf : forall hist a,
  fst (fst (c15_call c15_sp_gdf (c15_run c15_sp_gdf c15_init hist) a)) = c15_relevant [1; 2; 3] a.
Proof. exact c15_cache_gdf. Qed.
Print Assumptions C15_cache_gdf.

Theorem C15_cache_poly : forall hist a,
  fst (fst (c15_call c15_sp_poly (c15_run c15_sp_poly c15_init hist) a)) = c15_relevant [1; 2] a.
Proof. exact c15_cache_poly. Qed.
Print Assumptions C15_cache_poly.

Theorem C15_cache_line : forall hist a,
  fst (fst (c15_call c15_sp_line (c15_run c15_sp_line c15_init hist) a)) = c15_relevant [1; 2] a.
Proof. exact c15_cache_line. Qed.
Print Assumptions C15_cache_line.

Theorem C15_cache_missing_key_refuted : exists sp hist a,
  c15_keys_ok sp = false /\
  fst (fst (c15_call sp (c15_run sp c15_init hist) a)) <> c15_relevant (k_R sp) a.
Proof. exact c15_missing_key_refuted. Qed.
Print Assumptions C15_cache_missing_key_refuted.

Theorem C15_cache_uncond_key_refuted : exists sp hist a,
  c15_keys_ok sp = false /\
  fst (fst (c15_call sp (c15_run sp c15_init hist) a)) <> c15_relevant (k_R sp) a.
Proof. exact c15_uncond_key_refuted. Qed.
Print Assumptions C15_cache_uncond_key_refuted.

(* the side tables UxDataArray.* reads back belong to the returned object — PARTIAL: only under
   the hypothesis that every conversion so far was made with cache=True; what is missing is the
   general case, which is false for the code as written (next theorem) *)
Theorem C15_data_cache_partial : forall sp reads, c15_keys_ok sp = true ->
  (forall k, In k reads -> In k (k_TU sp ++ k_TS sp)) ->
  forall hist a, Forall (fun x => a_cache x = true) hist -> a_cache a = true ->
  let '(built, tables, _) := c15_da_call sp reads (c15_run sp c15_init hist) a in
  built = c15_relevant (k_R sp) a /\ Forall (fun t => t = built) tables.
Proof. exact c15_da_consistent_partial. Qed.
Print Assumptions C15_data_cache_partial.

Theorem C15_data_cache_refuted :
  (let '(built, tables, _) := c15_da_call c15_sp_poly c15_poly_read_tables
        (c15_run c15_sp_poly c15_init [c15_mk 1 7 true; c15_mk 1 0 false]) (c15_mk 1 7 true) in
   ~ Forall (fun t => t = built) tables) /\
  (let '(built, tables, _) := c15_da_call c15_sp_gdf c15_gdf_read_tables
        (c15_run c15_sp_gdf c15_init [c15_mk 1 7 true; c15_mk 1 0 false]) (c15_mk 1 7 true) in
   ~ Forall (fun t => t = built) tables).
Proof. exact c15_da_stale_tables_refuted. Qed.
Print Assumptions C15_data_cache_refuted.

(* returned objects are not altered by later conversions: whenever the conversion hands out
   copies (Grid level or UxDataArray level) or nothing writes into handed-out objects *)
Theorem C15_noalias : forall sp writes copies, (writes = false \/ k_copy sp = true \/ copies = true) ->
  forall hist st objs, c15_objs_inv st objs ->
  forall i c, c15_obj_get i objs = Some c ->
  c15_obj_get i (snd (c15_steps sp writes copies (st, objs) hist)) = Some c.
Proof. exact c15_noalias_thm. Qed.
Print Assumptions C15_noalias.

Theorem C15_noalias_line : forall hist st objs, c15_objs_inv st objs ->
  forall i c, c15_obj_get i objs = Some c ->
  c15_obj_get i (snd (c15_steps c15_sp_line false false (st, objs) hist)) = Some c.
Proof. exact c15_noalias_line. Qed.
Print Assumptions C15_noalias_line.

Theorem C15_noalias_poly : forall hist st objs, c15_objs_inv st objs ->
  forall i c, c15_obj_get i objs = Some c ->
  c15_obj_get i (snd (c15_steps c15_sp_poly true false (st, objs) hist)) = Some c.
Proof. exact c15_noalias_poly. Qed.
Print Assumptions C15_noalias_poly.

(* GeoDataFrame: UxDataArray.to_geodataframe works on a copy of the frame it received (writes /
   copies flags regenerated from the source) *)
Theorem C15_noalias_gdf : forall hist st objs, c15_objs_inv st objs ->
  forall i c, c15_obj_get i objs = Some c ->
  c15_obj_get i (snd (c15_steps c15_sp_gdf c15_da_gdf_writes_column c15_da_gdf_copies (st, objs) hist)) = Some c.
Proof. exact c15_noalias_gdf. Qed.
Print Assumptions C15_noalias_gdf.

(* what the copy is for: writing the column into the received (cached) frame alters earlier results *)
Theorem C15_noalias_without_copy_refuted : exists hist,
  let '(st1, objs1, id) := c15_step c15_sp_gdf true false (c15_init, []) (None, c15_mk 1 0 true) in
  c15_obj_get id (snd (c15_steps c15_sp_gdf true false (st1, objs1) hist)) <> c15_obj_get id objs1.
Proof. exact c15_noalias_nocopy_refuted. Qed.
Print Assumptions C15_noalias_without_copy_refuted.

(* the frame returned for a variable carries that variable's column only, after any history *)
Theorem C15_gdf_columns : forall st objs var a,
  let '(st', objs', id) := c15_step c15_sp_gdf c15_da_gdf_writes_column c15_da_gdf_copies (st, objs) (Some var, a) in
  exists built, c15_obj_get id objs' = Some (built, [var]).
Proof. exact c15_gdf_columns. Qed.
Print Assumptions C15_gdf_columns.
