(* C11 — neighbour queries agree with brute-force search under the tree's metric.
   Statements only; each closed by `exact` of a lemma from Proofs/, followed by Print Assumptions. *)
From Coq Require Import Reals Sorted Permutation.
From Verif Require Import Base C11 C11_keys C11_proofs.

(* the model of a k-nearest query (sklearn tree := brute force) returns min(k,n) distinct valid
   indices, each with its own distance key, nearest first, and nothing left out is strictly nearer *)
Theorem C11_knn : forall keys k, c11_knn_ok keys k (c11_knn keys k).
Proof. exact c11_knn_spec. Qed.
Print Assumptions C11_knn.

(* the distances answered are the first k entries of the sorted list of all distances ... *)
Theorem C11_knn_sorted_prefix : forall keys k,
  exists sorted, Sorted Z.le sorted /\ Permutation sorted keys /\ map fst (c11_knn keys k) = firstn k sorted.
Proof. exact c11_knn_sorted_prefix. Qed.
Print Assumptions C11_knn_sorted_prefix.

(* ... hence invariant under renumbering the elements (the answer is determined up to exact ties) *)
Theorem C11_knn_permutation_invariant : forall keys1 keys2 k, Permutation keys1 keys2 ->
  map fst (c11_knn keys1 k) = map fst (c11_knn keys2 k).
Proof. exact c11_knn_permutation_invariant. Qed.
Print Assumptions C11_knn_permutation_invariant.

(* tie rule of the model: (distance, index) lexicographic - among equal distances the lower index first *)
Theorem C11_knn_tie_rule : forall keys k, StronglySorted c11_le2 (c11_knn keys k).
Proof. exact c11_knn_tie_rule. Qed.
Print Assumptions C11_knn_tie_rule.

(* a radius query returns exactly the elements whose key is within the threshold, each once *)
Theorem C11_radius : forall keys rk d j,
  In (d, j) (c11_within keys rk) <-> nth_error keys j = Some d /\ d <= rk.
Proof. exact c11_within_spec. Qed.
Print Assumptions C11_radius.

Theorem C11_radius_once : forall keys rk, NoDup (map snd (c11_within keys rk)).
Proof. exact c11_within_NoDup. Qed.
Print Assumptions C11_radius_once.

(* the wrappers' query = brute force over the coordinates of the requested kind and system against
   the prepared query, for every admissible k; None exactly in the error branches *)
Theorem C11_query : forall num T g kd s m q rad k res,
  c11_query num T g kd s m q rad k = Some res ->
  (1 <= k <= c11_n_elements g kd)%nat /\
  exists pq, c11_prepare num T s m q rad = Some pq /\ length res = length pq /\
    forall i p r, nth_error pq i = Some p -> nth_error res i = Some r ->
      c11_knn_ok (c11_keys m (c11_tree_coords num g kd s) p) k r.
Proof. exact c11_query_spec. Qed.
Print Assumptions C11_query.

Theorem C11_query_radius : forall num T pi t g kd s m q rad r res,
  c11_query_radius num T pi t g kd s m q rad r = Some res ->
  0 <= r /\
  exists pq, c11_prepare num T s m q rad = Some pq /\ length res = length pq /\
    forall i p l, nth_error pq i = Some p -> nth_error res i = Some l ->
      NoDup (map snd l) /\
      forall d j, In (d, j) l <->
        nth_error (c11_keys m (c11_tree_coords num g kd s) p) j = Some d
        /\ d <= c11_rkey m (c11_radius_units num T pi t s r).
Proof. exact c11_query_radius_spec. Qed.
Print Assumptions C11_query_radius.

(* which arrays, which order, which unit: element i of the requested kind sits in the spherical
   tree at (deg2rad lat_i, deg2rad lon_i), in the Cartesian tree at (x_i, y_i, z_i) *)
Theorem C11_tree_coords_spherical : forall num g kd i lon lat,
  nth_error (cs_lon (c11_select g kd)) i = Some lon ->
  nth_error (cs_lat (c11_select g kd)) i = Some lat ->
  nth_error (c11_tree_coords num g kd C11Spherical) i = Some [c11_deg2rad num lat; c11_deg2rad num lon].
Proof. exact c11_tree_coords_spherical. Qed.
Print Assumptions C11_tree_coords_spherical.

Theorem C11_tree_coords_cartesian : forall num g kd i x y z,
  nth_error (cs_x (c11_select g kd)) i = Some x ->
  nth_error (cs_y (c11_select g kd)) i = Some y ->
  nth_error (cs_z (c11_select g kd)) i = Some z ->
  nth_error (c11_tree_coords num g kd C11Cartesian) i = Some [x; y; z].
Proof. exact c11_tree_coords_cartesian. Qed.
Print Assumptions C11_tree_coords_cartesian.

(* the documented query ((lon, lat) for haversine, (lat, lon) otherwise; degrees or radians) is
   prepared into the tree's own component order and unit *)
Theorem C11_prepare_degrees : forall num T m lon lat,
  c11_prepare_xy num T [c11_doc_query m lon lat] false m
  = Some [[c11_deg2rad num lat; c11_deg2rad num lon]].
Proof. exact c11_prepare_xy_deg. Qed.
Print Assumptions C11_prepare_degrees.

Theorem C11_prepare_radians : forall num T m lon lat,
  c11_prepare_xy num T [c11_doc_query m lon lat] true m
  = Some [[c11_rad_units T lat; c11_rad_units T lon]].
Proof. exact c11_prepare_xy_rad. Qed.
Print Assumptions C11_prepare_radians.

(* a query placed on an element finds it at distance zero and nothing nearer *)
Theorem C11_query_own_element : forall num T g kd m i lon lat,
  nth_error (cs_lon (c11_select g kd)) i = Some lon ->
  nth_error (cs_lat (c11_select g kd)) i = Some lat ->
  m <> C11Hav ->
  exists pq, c11_prepare num T C11Spherical m [c11_doc_query m lon lat] false = Some [pq] /\
    nth_error (c11_keys m (c11_tree_coords num g kd C11Spherical) pq) i = Some 0 /\
    forall j d, nth_error (c11_keys m (c11_tree_coords num g kd C11Spherical) pq) j = Some d -> 0 <= d.
Proof. exact c11_query_own_element. Qed.
Print Assumptions C11_query_own_element.

(* the squared key decides the radius comparison *)
Theorem C11_radius_squared_key : forall d r, 0 <= d -> 0 <= r -> (d * d <= r * r <-> d <= r).
Proof. exact c11_rkey_sq. Qed.
Print Assumptions C11_radius_squared_key.

(* haversine distance is the arc of the chord between the unit vectors of (lat, lon) ... *)
Theorem C11_haversine_chord : forall p1 l1 p2 l2, (4 * c11_hav p1 l1 p2 l2 = c11_chord2 p1 l1 p2 l2)%R.
Proof. exact c11_haversine_chord. Qed.
Print Assumptions C11_haversine_chord.

(* ... and the arc 2*asin(c/2) is strictly increasing in the chord on [0,2]: the chord-nearest
   element is the great-circle-nearest element (Cartesian trees; haversine ordering in the model) *)
Theorem C11_chord_arc : forall c1 c2, (0 <= c1 <= 2 -> 0 <= c2 <= 2 -> (c1 < c2 <-> c11_arc c1 < c11_arc c2))%R.
Proof. exact c11_chord_arc. Qed.
Print Assumptions C11_chord_arc.

Theorem C11_arc_is_angle : forall c, (0 <= c <= 2 -> 0 <= c11_arc c <= PI /\ 2 * sin (c11_arc c / 2) = c)%R.
Proof. exact c11_arc_angle. Qed.
Print Assumptions C11_arc_is_angle.

(* the great-circle radius of a ball tree on spherical coordinates is read in degrees and clamped at
   the half turn (np.pi), which changes no answer because no arc exceeds PI *)
Theorem C11_radius_units_ball_spherical : forall num T pi r,
  c11_radius_units num T pi C11Ball C11Spherical r = Z.min (c11_deg2rad num r) pi.
Proof. exact c11_radius_units_ball_spherical. Qed.
Print Assumptions C11_radius_units_ball_spherical.

Theorem C11_radius_clamp : forall c r, (0 <= c <= 2 -> (c11_arc c <= r <-> c11_arc c <= Rmin r PI))%R.
Proof. exact c11_radius_clamp. Qed.
Print Assumptions C11_radius_clamp.

(* either side of the antimeridian, and at the poles *)
Theorem C11_antimeridian : forall p1 l1 p2 l2, (c11_hav p1 (l1 + 2 * PI) p2 l2 = c11_hav p1 l1 p2 l2)%R.
Proof. exact c11_hav_antimeridian. Qed.
Print Assumptions C11_antimeridian.

Theorem C11_pole : forall l l' p2 l2, (c11_hav (PI / 2) l p2 l2 = c11_hav (PI / 2) l' p2 l2)%R.
Proof. exact c11_hav_pole. Qed.
Print Assumptions C11_pole.

(* cache: for every history of earlier requests, the tree handed back reflects kind, system and
   metric of the call, provided get_*_tree compares all of them (c11_cfg_complete) ... *)
Theorem C11_cache_complete : forall cfb cfk rs r,
  c11_cfg_complete (c11_cfg_of (rq_tree r) cfb cfk) = true ->
  c11_reflects (snd (c11_step cfb cfk (c11_run cfb cfk c11_init rs) r)) r.
Proof. exact c11_cache_complete. Qed.
Print Assumptions C11_cache_complete.

(* ... and whenever one is not compared, a two-request history is answered with a stale tree *)
Theorem C11_cache_incomplete_refuted : forall cfb cfk t,
  c11_cfg_complete (c11_cfg_of t cfb cfk) = false ->
  exists r1 r2, rq_tree r2 = t /\ rq_reconstruct r2 = false /\
    ~ c11_reflects (snd (c11_step cfb cfk (c11_run cfb cfk c11_init [r1]) r2)) r2.
Proof. exact c11_cache_incomplete_refuted. Qed.
Print Assumptions C11_cache_incomplete_refuted.

(* the element kind is always the requested one as soon as the kind is compared or switched *)
Theorem C11_cache_kind : forall cfb cfk rs r,
  (let cf := c11_cfg_of (rq_tree r) cfb cfk in cf_rb_kind cf || cf_switch cf) = true ->
  fst (c11_observe (snd (c11_step cfb cfk (c11_run cfb cfk c11_init rs) r))) = rq_kind r.
Proof. exact c11_cache_kind. Qed.
Print Assumptions C11_cache_kind.

(* the element count the handed-back tree validates k against (_n_elements) is that of the kind it
   currently serves, after any history X -> Y -> X ... (so with C11_cache_kind: of the requested kind) *)
Theorem C11_cache_count : forall cfb cfk rs r,
  let o := snd (c11_step cfb cfk (c11_run cfb cfk c11_init rs) r) in ob_n o = ob_kind o.
Proof. exact c11_cache_count. Qed.
Print Assumptions C11_cache_count.

(* reconstruct=True always hands back a tree for exactly this call *)
Theorem C11_cache_reconstruct : forall cfb cfk rs r, rq_reconstruct r = true ->
  c11_reflects (snd (c11_step cfb cfk (c11_run cfb cfk c11_init rs) r)) r.
Proof. exact c11_cache_reconstruct. Qed.
Print Assumptions C11_cache_reconstruct.

(* queries are pure in their argument: the caller's array is unchanged, so the same array handed in again
   (any tree, any k) is the same query; the in-place variant (np.deg2rad(xy, out=xy)) is refuted *)
Theorem C11_query_repeatable : forall num T g kd s m q rad k kd' k',
  c11_query num T g kd' s m (c11_arg_after false num s q rad) rad k' = c11_query num T g kd' s m q rad k'
  /\ (c11_query num T g kd s m q rad k = c11_query num T g kd s m (c11_arg_after false num s q rad) rad k).
Proof. exact c11_query_repeatable. Qed.
Print Assumptions C11_query_repeatable.

Theorem C11_arg_inplace_refuted : exists num T g kd s m q k,
  c11_query num T g kd s m (c11_arg_after true num s q false) false k <> c11_query num T g kd s m q false k.
Proof. exact c11_arg_inplace_refuted. Qed.
Print Assumptions C11_arg_inplace_refuted.

(* a grid derived from another (copy / isel / dual) has its own caches: requests on it leave what the
   handles of the first grid answer unchanged (and vice versa); sharing the wrappers by reference is refuted *)
Theorem C11_derived_grid_independent : forall cfb cfk rs ops,
  Forall (fun o => match o with C11OnDerived _ => True | _ => False end) ops ->
  let sa := c11_run cfb cfk c11_init rs in
  c11_handles (fst (c11_run2 false cfb cfk sa (c11_derive false sa) ops)) = c11_handles sa.
Proof. exact c11_derived_independent. Qed.
Print Assumptions C11_derived_grid_independent.

Theorem C11_original_grid_independent : forall cfb cfk ops sa sb,
  Forall (fun o => match o with C11OnOriginal _ => True | _ => False end) ops ->
  snd (c11_run2 false cfb cfk sa sb ops) = sb.
Proof. exact c11_run2_original_only. Qed.
Print Assumptions C11_original_grid_independent.

Theorem C11_shared_trees_refuted : exists cf r0 r1,
  let sa := c11_run cf cf c11_init [r0] in
  c11_handles (fst (c11_run2 true cf cf sa (c11_derive true sa) [C11OnDerived r1])) <> c11_handles sa.
Proof. exact c11_shared_trees_refuted. Qed.
Print Assumptions C11_shared_trees_refuted.

(* the current source (keys regenerated from Grid.get_ball_tree / get_kd_tree, Gen/C11_keys.v):
   decided one way or the other, for both tree types *)
Theorem C11_cache_current_source : forall t,
  if c11_cfg_complete (c11_cfg_of t c11_ball_cfg c11_kd_cfg)
  then forall rs r, rq_tree r = t ->
         c11_reflects (snd (c11_step c11_ball_cfg c11_kd_cfg (c11_run c11_ball_cfg c11_kd_cfg c11_init rs) r)) r
  else exists r1 r2, rq_tree r2 = t /\ rq_reconstruct r2 = false /\
         ~ c11_reflects (snd (c11_step c11_ball_cfg c11_kd_cfg (c11_run c11_ball_cfg c11_kd_cfg c11_init [r1]) r2)) r2.
Proof. exact c11_cache_current_source. Qed.
Print Assumptions C11_cache_current_source.
