(* C04 — the obligation that depends on the CURRENT source: Gen/C04_variant.v (regenerated from /repo
   on every run by the fail-closed translator harness/translators/c04_variant.py) must describe a
   fully repaired variant of the eight once-defective code sites.  Reverting any of the fixes
   (f9f02c9f, 5e5d8a23, 36f6a0be, 06d6f1a7, ed0eee67) makes this statement false: the file stops
   compiling and the check reports the broken obligation next to the counterexample.  Kept apart from
   C04_props.v so that the source-independent theorems stay discharged. *)
From Verif Require Import Base C04 C04_proofs C04_variant.

Theorem C04_repo_all_fixed : c04_all_fixed c04_repo_fixes = true.
Proof. exact (eq_refl true). Qed.
Print Assumptions C04_repo_all_fixed.

(* hence, for the code as it is now: every source, every history -> every group well-united, the
   two systems of one family, unit right after normalisation *)
Theorem C04_repo_holds : forall c ops, c04_wf_case c = true ->
  c04_state_ok c (c04_run c04_repo_fixes c ops) = true /\
  c04_state_unit c (c04_run c04_repo_fixes c (ops ++ [ONormalize])) = true.
Proof. exact (c04_verdict_all c04_repo_fixes). Qed.
Print Assumptions C04_repo_holds.
