(* C13 — face latitude/longitude bounds enclose the face and are tight.
   Statements only; each closed by `exact` of a lemma from Proofs/, followed by Print Assumptions.
   Angles are integers in a fixed unit; P = full circle, H = pole latitude, FILL = uninitialised entry. *)
From Verif Require Import Base C13 C13_proofs.
Local Open Scope Z_scope.

(* one insertion into the periodic longitude box: the result holds two normalised longitudes, contains the
   inserted longitude, and every longitude that was inside stays inside (the box only grows) *)
Theorem C13_insert_lon_grow : forall P H, 0 < P -> 0 < H -> FILL < - H -> forall b lat lon,
  lon <> FILL -> c13_lon_ok P b ->
  let b' := c13_insert P H b lat lon in
  (0 <= c13_lon_lo b' < P /\ 0 <= c13_lon_hi b' < P) /\
  c13_lon_in b' (c13_norm P lon) = true /\
  (forall x, 0 <= x < P -> c13_lon_init b -> c13_lon_in b x = true -> c13_lon_in b' x = true).
Proof. exact c13_insert_lon. Qed.
Print Assumptions C13_insert_lon_grow.

(* latitude part of one insertion: the latitude is enclosed, the interval only grows, each new bound is an old
   bound or the inserted latitude *)
Theorem C13_insert_lat : forall P H, 0 < P -> 0 < H -> FILL < - H -> forall b lat lon,
  lon <> FILL -> lat <> FILL ->
  let b' := c13_insert P H b lat lon in
  c13_lat_lo b' <= lat <= c13_lat_hi b' /\
  (c13_lat_lo b <> FILL -> c13_lat_lo b' <= c13_lat_lo b) /\
  (c13_lat_hi b <> FILL -> c13_lat_hi b <= c13_lat_hi b') /\
  (c13_lat_lo b' = lat \/ c13_lat_lo b' = c13_lat_lo b) /\
  (c13_lat_hi b' = lat \/ c13_lat_hi b' = c13_lat_hi b).
Proof. exact c13_insert_lat. Qed.
Print Assumptions C13_insert_lat.

(* any sequence of insertions starting from the empty box encloses every inserted point (latitude and longitude),
   and both latitude bounds are latitudes of inserted points *)
Theorem C13_inserted_points_enclosed_tight : forall P H, 0 < P -> 0 < H -> FILL < - H -> forall pts,
  Forall c13_regular pts ->
  let b := c13_ins_list P H c13_empty pts in
  (forall p, In p pts -> c13_lon_in b (c13_norm P (snd p)) = true /\ c13_lat_lo b <= fst p <= c13_lat_hi b) /\
  (pts <> [] -> In (c13_lat_lo b) (map fst pts) /\ In (c13_lat_hi b) (map fst pts)).
Proof. exact c13_ins_list_spec. Qed.
Print Assumptions C13_inserted_points_enclosed_tight.

(* normal branch (the code since fix bb1965a6: node, then both extremes of the edge): every corner latitude, both
   extremes of every edge and every corner longitude are enclosed, and each latitude bound is attained by a corner or an
   edge extreme (this statement was refuted for the previous branch by the face (0,40) (60,40.5) (60,60) (0,60)) *)
Theorem C13_normal_encloses_and_tight : forall P H, 0 < P -> 0 < H -> FILL < - H -> forall es,
  Forall (c13_edge_ok H) es ->
  let b := c13_bounds_normal P H es in
  (forall e, In e es ->
     c13_lat_lo b <= c13_lat1 e <= c13_lat_hi b /\ c13_lat_lo b <= c13_emin e /\ c13_emax e <= c13_lat_hi b /\
     c13_lon_in b (c13_norm P (c13_lon1 e)) = true) /\
  (es <> [] ->
   (exists e, In e es /\ (c13_lat_lo b = c13_lat1 e \/ c13_lat_lo b = c13_emax e \/ c13_lat_lo b = c13_emin e)) /\
   (exists e, In e es /\ (c13_lat_hi b = c13_lat1 e \/ c13_lat_hi b = c13_emax e \/ c13_lat_hi b = c13_emin e))).
Proof. exact c13_normal_encloses. Qed.
Print Assumptions C13_normal_encloses_and_tight.

(* pole branches: the enclosed pole's latitude is reported, every corner latitude and the far extreme of every edge are
   enclosed; with the pole on no edge the full circle [0, P] is reported, otherwise every corner longitude is enclosed *)
Theorem C13_pole : forall P H, 0 < P -> 0 < H -> FILL < - H -> forall north es,
  es <> [] -> Forall (c13_edge_ok H) es ->
  let b := c13_bounds_pole P H north es in
  (if north then c13_lat_hi b = H else c13_lat_lo b = - H) /\
  (forall e, In e es ->
     if north then c13_lat_lo b <= c13_lat1 e /\ c13_lat_lo b <= c13_emin e
     else c13_lat1 e <= c13_lat_hi b /\ c13_emax e <= c13_lat_hi b) /\
  (forallb (fun e => negb (c13_pole_here e)) es = true -> c13_lon_lo b = 0 /\ c13_lon_hi b = P) /\
  (forallb (fun e => negb (c13_pole_here e)) es = false ->
     forall e, In e es -> c13_lon_in b (c13_norm P (c13_lon1 e)) = true).
Proof. exact c13_pole_spec. Qed.
Print Assumptions C13_pole.
