(* C13 — face latitude/longitude bounds enclose the face and are tight.
   Statements only; each closed by `exact` of a lemma from Proofs/, followed by Print Assumptions.
   Angles are integers in a fixed unit; P = full circle, H = pole latitude, FILL = uninitialised entry. *)
From Verif Require Import Base C14_consts C14 C13 C13_proofs.
Local Open Scope Z_scope.

(* one insertion into the periodic longitude box: the result holds two normalised longitudes, contains the
   inserted longitude, and every longitude that was inside stays inside (the box only grows) *)
Theorem C13_insert_lon_grow : forall P H, 0 < P -> 0 < H -> FILL < - H -> forall b lat lon,
  lon <> FILL -> c13_lon_ok P b ->
  let b' := c13_insert P H b lat lon in
  (0 <= c13_lon_lo b' < P /\ 0 <= c13_lon_hi b' < P) /\
  c13_lon_in b' (c13_norm P lon) = true /\
  (forall x, 0 <= x < P -> c13_lon_init b -> c13_lon_in b x = true -> c13_lon_in b' x = true).
Proof. exact c13_insert_lon. Qed.
Print Assumptions C13_insert_lon_grow.

(* latitude part of one insertion: the latitude is enclosed, the interval only grows, each new bound is an old
   bound or the inserted latitude *)
Theorem C13_insert_lat : forall P H, 0 < P -> 0 < H -> FILL < - H -> forall b lat lon,
  lon <> FILL -> lat <> FILL ->
  let b' := c13_insert P H b lat lon in
  c13_lat_lo b' <= lat <= c13_lat_hi b' /\
  (c13_lat_lo b <> FILL -> c13_lat_lo b' <= c13_lat_lo b) /\
  (c13_lat_hi b <> FILL -> c13_lat_hi b <= c13_lat_hi b') /\
  (c13_lat_lo b' = lat \/ c13_lat_lo b' = c13_lat_lo b) /\
  (c13_lat_hi b' = lat \/ c13_lat_hi b' = c13_lat_hi b).
Proof. exact c13_insert_lat. Qed.
Print Assumptions C13_insert_lat.

(* any sequence of insertions starting from the empty box encloses every inserted point (latitude and longitude),
   and both latitude bounds are latitudes of inserted points *)
Theorem C13_inserted_points_enclosed_tight : forall P H, 0 < P -> 0 < H -> FILL < - H -> forall pts,
  Forall c13_regular pts ->
  let b := c13_ins_list P H c13_empty pts in
  (forall p, In p pts -> c13_lon_in b (c13_norm P (snd p)) = true /\ c13_lat_lo b <= fst p <= c13_lat_hi b) /\
  (pts <> [] -> In (c13_lat_lo b) (map fst pts) /\ In (c13_lat_hi b) (map fst pts)).
Proof. exact c13_ins_list_spec. Qed.
Print Assumptions C13_inserted_points_enclosed_tight.

(* normal branch (the code since fix bb1965a6: node, then both extremes of the edge): every corner latitude, both
   extremes of every edge and every corner longitude are enclosed, and each latitude bound is attained by a corner or an
   edge extreme (this statement was refuted for the previous branch by the face (0,40) (60,40.5) (60,60) (0,60)) *)
Theorem C13_normal_encloses_and_tight : forall P H, 0 < P -> 0 < H -> FILL < - H -> forall es,
  Forall (c13_edge_ok H) es ->
  let b := c13_bounds_normal P H es in
  (forall e, In e es ->
     c13_lat_lo b <= c13_lat1 e <= c13_lat_hi b /\ c13_lat_lo b <= c13_emin e /\ c13_emax e <= c13_lat_hi b /\
     c13_lon_in b (c13_norm P (c13_lon1 e)) = true) /\
  (es <> [] ->
   (exists e, In e es /\ (c13_lat_lo b = c13_lat1 e \/ c13_lat_lo b = c13_emax e \/ c13_lat_lo b = c13_emin e)) /\
   (exists e, In e es /\ (c13_lat_hi b = c13_lat1 e \/ c13_lat_hi b = c13_emax e \/ c13_lat_hi b = c13_emin e))).
Proof. exact c13_normal_encloses. Qed.
Print Assumptions C13_normal_encloses_and_tight.

(* pole branches: the enclosed pole's latitude is reported, every corner latitude and the far extreme of every edge are
   enclosed; with the pole on no edge the full circle [0, P] is reported, otherwise every corner longitude is enclosed *)
Theorem C13_pole : forall P H, 0 < P -> 0 < H -> FILL < - H -> forall north es,
  es <> [] -> Forall (c13_edge_ok H) es ->
  let b := c13_bounds_pole P H north es in
  (if north then c13_lat_hi b = H else c13_lat_lo b = - H) /\
  (forall e, In e es ->
     if north then c13_lat_lo b <= c13_lat1 e /\ c13_lat_lo b <= c13_emin e
     else c13_lat1 e <= c13_lat_hi b /\ c13_emax e <= c13_lat_hi b) /\
  (forallb (fun e => negb (c13_pole_here e)) es = true -> c13_lon_lo b = 0 /\ c13_lon_hi b = P) /\
  (forallb (fun e => negb (c13_pole_here e)) es = false ->
     forall e, In e es -> c13_lon_in b (c13_norm P (c13_lon1 e)) = true).
Proof. exact c13_pole_spec. Qed.
Print Assumptions C13_pole.

(* --- pole containment (_pole_point_inside_polygon modelled on top of the C14 model of gca_gca_intersection) --- *)

(* a face entirely on one hemisphere is never reported to contain the opposite pole *)
Theorem C13_pole_opposite_hemisphere : forall edges,
  (c13_location edges = c13_North -> c13_pole_inside false edges = Some false) /\
  (c13_location edges = c13_South -> c13_pole_inside true edges = Some false).
Proof. exact c13_pole_opposite_hemisphere. Qed.
Print Assumptions C13_pole_opposite_hemisphere.

(* machine-checked counterparts of the four known findings (each witness reproduces on the real code) *)
Theorem C13_pole_detection_vertex_on_meridian_refuted :
  exists edges, c13_pole_in_face c13_NPOLE edges = true /\ c13_pole_inside true edges = Some false.
Proof. exact c13_pole_detection_vertex_on_meridian_refuted. Qed.
Print Assumptions C13_pole_detection_vertex_on_meridian_refuted.

Theorem C13_pole_detection_edge_through_ref_refuted :
  exists edges, c13_pole_in_face c13_NPOLE edges = false /\ c13_pole_in_face c13_SPOLE edges = false /\
                c13_pole_inside true edges = Some true /\ c13_pole_inside false edges = Some true.
Proof. exact c13_pole_detection_edge_through_ref_refuted. Qed.
Print Assumptions C13_pole_detection_edge_through_ref_refuted.

Theorem C13_pole_detection_equator_south_refuted :
  exists edges, c13_location edges = c13_Equator /\
                c13_pole_in_face c13_SPOLE edges = true /\ c13_pole_in_face c13_NPOLE edges = false /\
                c13_pole_inside true edges = Some true /\ c13_pole_inside false edges = Some true.
Proof. exact c13_pole_detection_equator_south_refuted. Qed.
Print Assumptions C13_pole_detection_equator_south_refuted.

Theorem C13_pole_corner_longitude_refuted :
  let P := 360000000 in let H := 90000000 in
  Forall (c13_edge_ok H) c13_w_pole_corner /\
  (forall e, In e c13_w_pole_corner -> c13_lat1 e <> H -> 10000000 <= c13_lon1 e <= 60000000) /\
  c13_lon_lo (c13_face_bounds P H true false c13_w_pole_corner) = 0 /\
  c13_lon_hi (c13_face_bounds P H true false c13_w_pole_corner) = 60000000.
Proof. exact c13_pole_corner_longitude_refuted. Qed.
Print Assumptions C13_pole_corner_longitude_refuted.

(* --- bounds assembly, latitude (normal branch): the lower bound is the least edge minimum and the upper bound the greatest
       edge maximum: tight at an edge apex whenever that apex is the extreme --- *)
Theorem C13_normal_lat_min_max : forall P H, 0 < P -> 0 < H -> FILL < - H -> forall es,
  es <> [] -> Forall (c13_edge_ok H) es ->
  let b := c13_bounds_normal P H es in
  (exists e, In e es /\ c13_lat_lo b = c13_emin e) /\ (forall e, In e es -> c13_lat_lo b <= c13_emin e) /\
  (exists e, In e es /\ c13_lat_hi b = c13_emax e) /\ (forall e, In e es -> c13_emax e <= c13_lat_hi b).
Proof. exact c13_normal_lat_min_max. Qed.
Print Assumptions C13_normal_lat_min_max.

(* --- ... hence invariant under the start corner and the traversal direction: edge lists with the same sets of edge minima
       and maxima give the same latitude bounds --- *)
Theorem C13_normal_lat_invariant : forall P H, 0 < P -> 0 < H -> FILL < - H -> forall es es',
  es <> [] -> es' <> [] -> Forall (c13_edge_ok H) es -> Forall (c13_edge_ok H) es' ->
  (forall v, (exists e, In e es /\ c13_emin e = v) <-> (exists e, In e es' /\ c13_emin e = v)) ->
  (forall v, (exists e, In e es /\ c13_emax e = v) <-> (exists e, In e es' /\ c13_emax e = v)) ->
  c13_lat_lo (c13_bounds_normal P H es) = c13_lat_lo (c13_bounds_normal P H es') /\
  c13_lat_hi (c13_bounds_normal P H es) = c13_lat_hi (c13_bounds_normal P H es').
Proof. exact c13_normal_lat_invariant. Qed.
Print Assumptions C13_normal_lat_invariant.
