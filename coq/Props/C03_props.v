(* C03 — incidence tables are exact transposes of one another. Statements only. *)
From Verif Require Import Base C02 C02_sup C03 C03_proofs C03_C02_proofs C03_C02_sup_proofs C03_ff_pipeline_proofs.
From Verif Require Import C03_sym_proofs.

(* edge_face row e = (first face listing e, last face listing e or padding); loop-order model *)
Theorem C03_edge_face : forall fe npf n e,
  Forall (fun ev => (fst ev < n)%nat) (c03_events fe npf 0) -> (e < n)%nat ->
  nth e (c03_edge_faces fe npf n) (FILL, FILL) = c03_row_of (c03_occ fe npf e).
Proof. exact edge_faces_spec. Qed.
Print Assumptions C03_edge_face.

(* a boundary edge has its one face followed by padding *)
Theorem C03_edge_face_boundary : forall fe npf n e f,
  Forall (fun ev => (fst ev < n)%nat) (c03_events fe npf 0) -> (e < n)%nat ->
  c03_occ fe npf e = [f] -> nth e (c03_edge_faces fe npf n) (FILL, FILL) = (f, FILL).
Proof. exact edge_faces_boundary. Qed.
Print Assumptions C03_edge_face_boundary.

(* an interior edge of a manifold grid has exactly its two faces *)
Theorem C03_edge_face_interior : forall fe npf n e f g,
  Forall (fun ev => (fst ev < n)%nat) (c03_events fe npf 0) -> (e < n)%nat ->
  c03_occ fe npf e = [f; g] -> nth e (c03_edge_faces fe npf n) (FILL, FILL) = (f, g).
Proof. exact edge_faces_interior. Qed.
Print Assumptions C03_edge_face_interior.

(* hole_edge_indices = the edges whose second slot is padding ... *)
Theorem C03_hole_edges : forall ef x,
  In x (c03_hole_edges ef) <-> exists e, x = Z.of_nat e /\ (e < length ef)%nat /\ snd (nth e ef (FILL, FILL)) = FILL.
Proof. exact hole_edges_spec. Qed.
Print Assumptions C03_hole_edges.

(* ... = exactly the edges with a single adjacent face *)
Theorem C03_hole_edges_single : forall fe npf n e,
  Forall (fun ev => (fst ev < n)%nat) (c03_events fe npf 0) -> (e < n)%nat ->
  (In (Z.of_nat e) (c03_hole_edges (c03_edge_faces fe npf n)) <-> (length (c03_occ fe npf e) <= 1)%nat).
Proof. exact hole_edges_single. Qed.
Print Assumptions C03_hole_edges_single.

(* node_face row n = the faces having n as a corner, then only padding *)
Theorem C03_node_face_row : forall t n v, (v < n)%nat ->
  exists k, nth_error (c03_node_faces t n) v = Some (c03_faces_of_node t 0 (Z.of_nat v) ++ repeat FILL k).
Proof. exact node_faces_spec. Qed.
Print Assumptions C03_node_face_row.

Theorem C03_node_face_member : forall t v g,
  In g (c03_faces_of_node t 0 v) <-> exists i r, nth_error t i = Some r /\ g = Z.of_nat i /\ In v r /\ v <> FILL.
Proof. exact node_faces_member. Qed.
Print Assumptions C03_node_face_member.

(* each face once *)
Theorem C03_node_face_once : forall t f v, Forall real_nodup t -> NoDup (c03_faces_of_node t f v).
Proof. exact faces_of_node_NoDup. Qed.
Print Assumptions C03_node_face_once.

(* face_face row f contains g once per interior edge shared by f and g *)
Theorem C03_face_face_count : forall ef f g, f <> g ->
  count_occ Z.eq_dec (c03_neighbours ef f) g = length (filter (joins f g) ef).
Proof. exact neighbours_count. Qed.
Print Assumptions C03_face_face_count.

Theorem C03_face_face_row : forall ef nf w f, (f < nf)%nat ->
  nth_error (c03_face_faces ef nf w) f =
  Some (c03_neighbours ef (Z.of_nat f) ++ repeat FILL (w - length (c03_neighbours ef (Z.of_nat f)))).
Proof. exact face_faces_row. Qed.
Print Assumptions C03_face_face_row.

Theorem C03_face_face_real : forall ef f g, In g (c03_neighbours ef f) -> g <> FILL.
Proof. exact neighbours_real. Qed.
Print Assumptions C03_face_face_real.

(* whole pipeline from a standard-form face-node table (C02's derived tables feeding C03's builder):
   face f is listed in edge_face_connectivity[e] iff the segment edge_node_connectivity[e] is one of
   f's consecutive corner pairs *)
Theorem C03_edge_face_iff_edge_of_face : forall m t e f, std_table m t -> (e < length (edges t))%nat ->
  (In f (c03_occ (face_edges t m) (n_nodes_per_face t) e) <->
   exists i r q, nth_error t i = Some r /\ f = Z.of_nat i /\ In q (cyc_pairs (corners r))
                 /\ nth_error (edges t) e = Some (norm_pair q)).
Proof. exact occ_geometric. Qed.
Print Assumptions C03_edge_face_iff_edge_of_face.

Theorem C03_edge_face_pipeline : forall m t e, std_table m t -> (e < length (edges t))%nat ->
  nth e (c03_edge_faces (face_edges t m) (n_nodes_per_face t) (length (edges t))) (FILL, FILL)
  = c03_row_of (c03_occ (face_edges t m) (n_nodes_per_face t) e).
Proof. exact edge_face_of_table. Qed.
Print Assumptions C03_edge_face_pipeline.

(* ---- grids whose source supplied edge_node_connectivity (C02_sup model of the keep-or-replace branch) ---- *)

(* every visit of the edge_face loop addresses a row of the edge table the grid reports *)
Theorem C03_supplied_events_in_range : forall m t S, std_table m t ->
  let R := sup_face_edges t m S in
  Forall (fun ev => (fst ev < length (sr_edges R))%nat) (c03_events (sr_face_edges R) (n_nodes_per_face t) 0).
Proof. exact sup_events_in_range. Qed.
Print Assumptions C03_supplied_events_in_range.

(* face f is listed for edge e iff row e of the REPORTED table is (up to orientation) a consecutive corner pair of f *)
Theorem C03_supplied_edge_face_iff_edge_of_face : forall m t S, std_table m t -> forall e f,
  let R := sup_face_edges t m S in
  In f (c03_occ (sr_face_edges R) (n_nodes_per_face t) e) <->
  exists i r q, nth_error t i = Some r /\ f = Z.of_nat i /\ In q (cyc_pairs (corners r)) /\
     exists p, nth_error (sr_edges R) e = Some p /\ norm_pair p = norm_pair q.
Proof. exact sup_occ_geometric. Qed.
Print Assumptions C03_supplied_edge_face_iff_edge_of_face.

Theorem C03_supplied_edge_face_pipeline : forall m t S, std_table m t -> forall e,
  let R := sup_face_edges t m S in
  (e < length (sr_edges R))%nat ->
  nth e (c03_edge_faces (sr_face_edges R) (n_nodes_per_face t) (length (sr_edges R))) (FILL, FILL)
  = c03_row_of (c03_occ (sr_face_edges R) (n_nodes_per_face t) e).
Proof. exact sup_edge_face_of_table. Qed.
Print Assumptions C03_supplied_edge_face_pipeline.

(* ---- face_face of the whole pipeline on a manifold table ---- *)
(* row f of face_face_connectivity lists g once per edge whose two faces are exactly f and g *)
Theorem C03_face_face_pipeline : forall m t f g, std_table m t ->
  let FE := face_edges t m in let NPF := n_nodes_per_face t in let n := length (edges t) in
  (forall e, (e < n)%nat -> (length (c03_occ FE NPF e) <= 2)%nat) ->
  f <> g ->
  count_occ Z.eq_dec (c03_neighbours (c03_edge_faces FE NPF n) f) g
  = length (filter (fun e => occ_is f g (c03_occ FE NPF e)) (seq 0 n)).
Proof. exact face_face_of_table. Qed.
Print Assumptions C03_face_face_pipeline.

(* face_face_connectivity is its own transpose: g is listed in row f exactly as often as f in row g ... *)
Theorem C03_face_face_symmetric : forall ef f g, f <> g ->
  count_occ Z.eq_dec (c03_neighbours ef f) g = count_occ Z.eq_dec (c03_neighbours ef g) f.
Proof. exact face_face_symmetric. Qed.
Print Assumptions C03_face_face_symmetric.

Theorem C03_face_face_symmetric_in : forall ef f g, f <> g ->
  (In g (c03_neighbours ef f) <-> In f (c03_neighbours ef g)).
Proof. exact face_face_symmetric_in. Qed.
Print Assumptions C03_face_face_symmetric_in.

(* ... and a face is its own neighbour only through a degenerate edge_face row (f, f) *)
Theorem C03_face_face_self : forall ef f, In f (c03_neighbours ef f) -> In (f, f) ef.
Proof. exact face_face_self. Qed.
Print Assumptions C03_face_face_self.
