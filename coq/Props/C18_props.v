(* C18 — the dual mesh swaps nodes and faces with correct ring order.
   Statements only; each closed by `exact` of a lemma from Proofs/C18_proofs.v, followed by
   Print Assumptions.  Positions are arbitrary integer 3-vectors (any common dyadic unit); tables arbitrary. *)
From Coq Require Import Permutation Sorting.Sorted.
From Verif Require Import Base C18 C18_proofs.
Local Open Scope Z_scope.

(* the node_face rows the dual is built from: face f is listed for node v iff v is a corner of f *)
Theorem C18_node_faces : forall v t s f,
  In f (c18_faces_of_node v s t) <->
  exists i r, f = s + Z.of_nat i /\ nth_error t i = Some r /\ In v (corners r).
Proof. exact c18_faces_of_node_in. Qed.
Print Assumptions C18_node_faces.

(* ... each face once and in increasing face id when no face repeats a corner *)
Theorem C18_node_faces_once : forall v t s, Forall (fun r => NoDup (corners r)) t ->
  StronglySorted Z.lt (c18_faces_of_node v s t) /\ Forall (fun f => s <= f) (c18_faces_of_node v s t).
Proof. exact c18_faces_of_node_sorted. Qed.
Print Assumptions C18_node_faces_once.

(* count: dual faces exist for exactly the nodes with >= 3 faces, in increasing node id ... *)
Theorem C18_count : forall t n,
  c18_dual_face_nodes t n = filter (fun v => (3 <=? length (c18_faces_of_node v 0 t))%nat) (c18_iota n).
Proof. exact c18_dual_face_nodes_spec. Qed.
Print Assumptions C18_count.

(* ... one connectivity row per such node, row k being the ordered ring of the k-th such node *)
Theorem C18_rows : forall t np dp,
  c18_dual_faces t np dp
  = map (fun v => c18_order_nodes (c18_faces_of_node v 0 t) (c18_pos np v) dp
                                  (c18_max_len (c18_node_faces t (length np))))
        (c18_dual_face_nodes t (length np)).
Proof. exact c18_dual_faces_rows. Qed.
Print Assumptions C18_rows.

(* corners and padding, for ANY positions (ties included): every row has the common width,
   padding only at the end, and every real entry is a face having the node as a corner *)
Theorem C18_pad : forall t np dp k v,
  nth_error (c18_dual_face_nodes t (length np)) k = Some v ->
  exists row ring,
    nth_error (c18_dual_faces t np dp) k = Some row /\
    row = ring ++ repeat FILL (c18_max_len (c18_node_faces t (length np)) - length ring) /\
    (1 <= length ring)%nat /\
    Forall (fun f => exists i r, f = Z.of_nat i /\ nth_error t i = Some r /\ In v (corners r)) ring /\
    0 <= v < Z.of_nat (length np) /\ (3 <= length (c18_faces_of_node v 0 t))%nat.
Proof. exact c18_dual_rows_pad. Qed.
Print Assumptions C18_pad.

(* corners, complete: when the angles of _order_nodes are pairwise distinct and none is 0 or 2*pi
   (the code's three comparisons agree with an injective rank), the ring is a permutation of the
   node's faces — none dropped, none repeated — listed by strictly increasing angle *)
Theorem C18_corners : forall f0 rest nc dp max_edges (rank : c18_key -> Z),
  let mk := fun f => c18_make_key (c18_pos dp f0) nc (c18_pos dp f) in
  let keys := map mk rest in
  (forall a b, In a keys -> In b keys -> c18_angle_lt a b = (rank a <? rank b)) ->
  (forall a, In a keys -> c18_angle_gt0 a = true /\ c18_angle_lt2pi a = true) ->
  (forall i j a b, nth_error keys i = Some a -> nth_error keys j = Some b -> rank a = rank b -> i = j) ->
  (S (length rest) <= max_edges)%nat ->
  exists ring, c18_order_nodes (f0 :: rest) nc dp max_edges
                 = (f0 :: ring) ++ repeat FILL (max_edges - S (length rest)) /\
               Permutation ring rest /\
               StronglySorted (fun f g => rank (mk f) < rank (mk g)) ring.
Proof. exact c18_order_nodes_perm. Qed.
Print Assumptions C18_corners.

(* since fix c8b893ff the angles are taken between the tangent-plane projections of the chords:
   the executable model (keys from N(a.b) - (a.n)(b.n)) equals the literal form "project node_zero
   and node_diff with x - (x.n)n (scaled by N = n.n), then take dot products" for every n <> 0 *)
Theorem C18_projection : forall temp_face nc dp max_edges,
  0 < c18_dot nc nc ->
  c18_order_nodes_literal temp_face nc dp max_edges = c18_order_nodes temp_face nc dp max_edges.
Proof. exact c18_order_nodes_literal_eq. Qed.
Print Assumptions C18_projection.

(* ... and the projected vectors are tangent at the node *)
Theorem C18_projection_tangent : forall n x, c18_dot (c18_proj n x) n = 0.
Proof. exact c18_proj_orth. Qed.
Print Assumptions C18_projection_tangent.

(* ring order, PARTIAL: if the angle order agrees with the umbrella order u (the node's other
   faces counter-clockwise, consecutive ones sharing an edge), the ring is exactly f0 :: u.
   Missing: that the azimuth order of the face CENTRES about the node equals the umbrella order.
   With the tangent-plane angles of c8b893ff this holds for convex faces smaller than a hemisphere
   (the centre lies in the face's sector at the node) — a fact of spherical convexity not
   formalised here — and fails for faces with a reflex corner (known finding
   C18-nonconvex-centre-order); decided per output by the harness's exact checker. *)
Theorem C18_ring_partial : forall f0 rest u nc dp max_edges (rank : c18_key -> Z),
  let mk := fun f => c18_make_key (c18_pos dp f0) nc (c18_pos dp f) in
  let keys := map mk rest in
  (forall a b, In a keys -> In b keys -> c18_angle_lt a b = (rank a <? rank b)) ->
  (forall a, In a keys -> c18_angle_gt0 a = true /\ c18_angle_lt2pi a = true) ->
  (forall i j a b, nth_error keys i = Some a -> nth_error keys j = Some b -> rank a = rank b -> i = j) ->
  (S (length rest) <= max_edges)%nat ->
  Permutation u rest -> StronglySorted (fun f g => rank (mk f) < rank (mk g)) u ->
  c18_order_nodes (f0 :: rest) nc dp max_edges = (f0 :: u) ++ repeat FILL (max_edges - S (length rest)).
Proof. exact c18_ring_partial. Qed.
Print Assumptions C18_ring_partial.

(* dual nodes are the primal face centres, in face order *)
Theorem C18_nodes : forall (C : Type) (face_lonlat : list C) t np dp,
  fst (c18_get_dual face_lonlat t np dp) = face_lonlat /\
  snd (c18_get_dual face_lonlat t np dp) = c18_dual_faces t np dp.
Proof. exact @c18_dual_nodes. Qed.
Print Assumptions C18_nodes.

(* data: values unchanged, n_node <-> n_face swapped (an involution), and on grids where every
   node has >= 3 faces dual face k belongs to primal node k (unpermuted) *)
Theorem C18_data : forall (A : Type) (dims : list c18_dim) (data : list A) t n,
  snd (c18_dual_data dims data) = data /\
  fst (c18_dual_data dims data) = map c18_swap dims /\
  map c18_swap (fst (c18_dual_data dims data)) = dims /\
  (Forall (fun v => (3 <= length (c18_faces_of_node v 0 t))%nat) (c18_iota n) ->
   c18_dual_face_nodes t n = c18_iota n).
Proof. exact @c18_data_spec. Qed.
Print Assumptions C18_data.

(* the dual as a grid of its own: dual face k (around primal node v_k) has dual node f as a corner
   only if v_k is a corner of primal face f — the dual's node_face table lives in dual-face numbering
   k, which differs from the primal node numbering whenever a node with < 3 faces was skipped *)
Theorem C18_dual_node_face : forall t np dp k v row f,
  nth_error (c18_dual_face_nodes t (length np)) k = Some v ->
  nth_error (c18_dual_faces t np dp) k = Some row ->
  In f (c18_real row) ->
  exists i r, f = Z.of_nat i /\ nth_error t i = Some r /\ In v (corners r).
Proof. exact c18_dual_node_face. Qed.
Print Assumptions C18_dual_node_face.

(* handing the primal face_node table to the dual as its node_face table is wrong on partial grids *)
Theorem C18_handover_refuted :
  let t := [[0;2;4];[2;1;4];[1;3;4]] in
  let dp := [(1,1,1);(-1,1,1);(-1,-1,1)] in
  c18_dual_face_nodes t 6 = [4] /\
  nth_error (c18_dual_faces t c18_octa_nodes dp) 0 = Some [0;1;2] /\
  In 1 (c18_real [0;1;2]) /\ ~ In 0 (corners [2;1;4]) /\ In 4 (corners [2;1;4]).
Proof. exact c18_handover_refuted. Qed.
Print Assumptions C18_handover_refuted.
