(* C09 — subsets and cross-sections are faithful restrictions. Statements only. *)
From Coq Require Import Sorting.Sorted Permutation.
From Verif Require Import Base C02 C02_sup C09 C09_proofs C09_commute_proofs C09_edges C09_edge_table_proofs C03 C09_C03_proofs C09_edge_data_proofs C02_check C02_check_proofs C09_subset_std_proofs.
From Verif Require Import C09_efd C09_efd_proofs C09_efd_repo C09_efd_repo_proofs.

(* face k of the subset is source face idx[k]: reading its row back through the recorded node
   indices gives the source row (same corners, same cyclic order and start, same padding) *)
Theorem C09_faces : forall t idx k i, nth_error idx k = Some i ->
  exists r', nth_error (fst (c09_slice_faces t idx)) k = Some r'
    /\ map (c09_back (snd (c09_slice_faces t idx))) r' = nth (Z.to_nat i) t [].
Proof. exact slice_faces_faithful. Qed.
Print Assumptions C09_faces.

Theorem C09_face_count : forall t idx, length (fst (c09_slice_faces t idx)) = length idx.
Proof. exact slice_faces_count. Qed.
Print Assumptions C09_face_count.

(* recorded node indices = exactly the corners of the selected faces, without duplicates *)
Theorem C09_nodes : forall t idx x,
  In x (snd (c09_slice_faces t idx)) <-> x <> FILL /\ exists i, In i idx /\ In x (nth (Z.to_nat i) t []).
Proof. exact slice_node_indices_spec. Qed.
Print Assumptions C09_nodes.

Theorem C09_nodes_nodup : forall t idx, NoDup (snd (c09_slice_faces t idx)).
Proof. exact slice_node_indices_NoDup. Qed.
Print Assumptions C09_nodes_nodup.

(* node / edge selections: every face touching a selected node / edge, and only those *)
Theorem C09_inclusive : forall inc idx f,
  In f (c09_faces_touching inc idx) <-> f <> FILL /\ exists i, In i idx /\ In f (nth (Z.to_nat i) inc []).
Proof. exact faces_touching_spec. Qed.
Print Assumptions C09_inclusive.

(* ... without duplicates (sorted) *)
Theorem C09_inclusive_nodup : forall inc idx, NoDup (c09_faces_touching inc idx).
Proof. exact faces_touching_NoDup. Qed.
Print Assumptions C09_inclusive_nodup.

(* cross-section: an edge is selected iff its end nodes lie strictly on opposite sides *)
Theorem C09_cross : forall ez c x,
  In x (c09_lat_edges ez c) <->
  exists e z0 z1, x = Z.of_nat e /\ nth_error ez e = Some (z0, z1) /\ (z0 < c < z1 \/ z1 < c < z0).
Proof. exact lat_edges_spec. Qed.
Print Assumptions C09_cross.

(* the parallel latitude scan gives the same mask under every schedule *)
Theorem C09_schedule : forall (A : Type) (zero : A) (f : nat -> A) order n,
  Permutation order (seq 0 n) -> c09_scan zero f order n = map f (seq 0 n).
Proof. exact @scan_schedule_independent. Qed.
Print Assumptions C09_schedule.

(* data sliced with the recorded indices stay on the same element *)
Theorem C09_data : forall (A : Type) (d : A) data idx k i,
  nth_error idx k = Some i -> nth_error (c09_gather d data idx) k = Some (nth (Z.to_nat i) data d).
Proof. exact @gather_spec. Qed.
Print Assumptions C09_data.

(* derived connectivity commutes with slicing: the edge table derived ON the subset equals the edge
   table derived on the selected source rows, renumbered through the recorded node indices — the same
   segments in the same order (so edge-centred data sliced with the recorded edge indices stay aligned) *)
Theorem C09_commute_edges : forall t idx,
  Forall (Forall (fun x => x = FILL \/ 0 <= x)) (c09_rows t idx) ->
  edges (fst (c09_slice_faces t idx))
  = map (pmap (c09_renumber (snd (c09_slice_faces t idx)))) (edges (c09_rows t idx)).
Proof. exact slice_edges_commute. Qed.
Print Assumptions C09_commute_edges.

(* ---- the edge table a subset CARRIES OVER from its source (ds.isel(n_edge=edge_indices) + node renumbering) ---- *)

(* the rows picked by the recorded edge indices, in recorded order, are exactly the edge table of the selected rows *)
Theorem C09_recorded_edges : forall m T idx, std_table m T ->
  Forall (fun i => 0 <= i < Z.of_nat (length T)) idx ->
  c09_pick_edges (edges T) (c09_edge_indices (face_edges T m) idx) = edges (c09_rows T idx).
Proof. exact pick_edges_eq. Qed.
Print Assumptions C09_recorded_edges.

(* and the carried table (renumbered through the recorded node indices) IS the edge table derived on the subset:
   same segments, same order — so edge-centred data sliced with subgrid_edge_indices stay on their edges *)
Theorem C09_carried_edge_table : forall m T idx, std_table m T ->
  Forall (fun i => 0 <= i < Z.of_nat (length T)) idx ->
  fst (c09_slice_edge_table T m idx) = edges (fst (c09_slice_faces T idx)).
Proof. exact slice_edge_table_eq. Qed.
Print Assumptions C09_carried_edge_table.

(* the subset's own face_edge derivation therefore accepts and keeps it (C02's keep-or-replace branch) *)
Theorem C09_carried_edge_table_kept : forall m T idx, std_table m T ->
  Forall (fun i => 0 <= i < Z.of_nat (length T)) idx ->
  sup_accepts (fst (c09_slice_faces T idx)) (fst (c09_slice_edge_table T m idx)) = true.
Proof. exact slice_edge_table_accepted. Qed.
Print Assumptions C09_carried_edge_table_kept.

(* ---- node / edge selections through the whole pipeline (C03's derived incidence tables feeding the selection) ---- *)

(* selecting nodes: exactly the faces having a selected node as a corner *)
Theorem C09_node_selection_pipeline : forall t n idx f,
  Forall (fun v => 0 <= v < Z.of_nat n) idx ->
  (In f (c09_faces_touching (c03_node_faces t n) idx) <->
   exists v i r, In v idx /\ nth_error t i = Some r /\ f = Z.of_nat i /\ In v r).
Proof. exact node_selection_pipeline. Qed.
Print Assumptions C09_node_selection_pipeline.

(* selecting edges on a manifold grid: exactly the faces having a selected edge among their consecutive corner pairs *)
Theorem C09_edge_selection_pipeline : forall m t idx f, std_table m t ->
  let FE := face_edges t m in let NPF := n_nodes_per_face t in let n := length (edges t) in
  (forall e, (e < n)%nat -> (length (c03_occ FE NPF e) <= 2)%nat) ->
  Forall (fun e => 0 <= e < Z.of_nat n) idx ->
  (In f (c09_faces_touching (ef_table (c03_edge_faces FE NPF n)) idx) <->
   exists e i r q, In e idx /\ nth_error t i = Some r /\ f = Z.of_nat i /\ In q (cyc_pairs (corners r)) /\
                   nth_error (edges t) (Z.to_nat e) = Some (norm_pair q)).
Proof. exact edge_selection_pipeline. Qed.
Print Assumptions C09_edge_selection_pipeline.

(* ---- edge-centred data stay on their physical edges ---- *)
(* the data gathered with subgrid_edge_indices put at position k the source value of edge ei[k], and edge k of the table the
   subset derives, read back through the recorded node indices, is that very source edge *)
Theorem C09_edge_data_aligned : forall m T idx, std_table m T ->
  Forall (fun i => 0 <= i < Z.of_nat (length T)) idx ->
  forall (A : Type) (d : A) (data : list A) k e,
  nth_error (c09_edge_indices (face_edges T m) idx) k = Some e ->
  nth_error (c09_gather d data (c09_edge_indices (face_edges T m) idx)) k = Some (nth (Z.to_nat e) data d) /\
  exists q, nth_error (edges (fst (c09_slice_faces T idx))) k = Some q /\
            pmap (c09_back (c09_node_indices T idx)) q = nthP (edges T) (Z.to_nat e).
Proof. intros m T idx H1 H2 A d data k e. exact (edge_data_aligned m T idx H1 H2 d data k e). Qed.
Print Assumptions C09_edge_data_aligned.

Theorem C09_edge_count : forall m T idx, std_table m T ->
  Forall (fun i => 0 <= i < Z.of_nat (length T)) idx ->
  length (edges (fst (c09_slice_faces T idx))) = length (c09_edge_indices (face_edges T m) idx).
Proof. exact derived_edge_count. Qed.
Print Assumptions C09_edge_count.

(* ---- a subset is a grid in standard form again: everything C02 proves about derived tables holds ON the subset ---- *)
Theorem C09_subset_standard_form : forall m T idx, std_table m T ->
  Forall (fun i => 0 <= i < Z.of_nat (length T)) idx -> std_table m (fst (c09_slice_faces T idx)).
Proof. exact subset_std. Qed.
Print Assumptions C09_subset_standard_form.

Theorem C09_subset_meets_C02 : forall m T idx, std_table m T ->
  Forall (fun i => 0 <= i < Z.of_nat (length T)) idx ->
  let S := fst (c09_slice_faces T idx) in
  C02_spec S (edges S) (face_edges S m) (n_nodes_per_face S).
Proof. exact subset_meets_C02. Qed.
Print Assumptions C09_subset_meets_C02.

(* ---- centre-to-centre distances carried over by a subset (slice.py as it is now: Gen/C09_efd_repo.v) ---- *)
(* whatever the source had computed before slicing, the table the subset reports for an edge is what the subset derives on
   its own from the faces it kept: the source's value when both faces of the edge were selected, zero when the selection
   left it a single face.  Depends on the current source through the regenerated definition c09_efd_repo. *)
Theorem C09_efd_repo_verdict : forall dist sel l, (length l <= 2)%nat ->
  c09_efd_repo dist sel l = c09_efd_derived dist (c09_efd_kept sel l).
Proof. exact efd_repo_verdict. Qed.
Print Assumptions C09_efd_repo_verdict.

Theorem C09_efd_boundary_zero : forall dist sel l, (length (filter sel l) < 2)%nat -> c09_efd_carried dist sel l = 0%Z.
Proof. exact efd_boundary_zero. Qed.
Print Assumptions C09_efd_boundary_zero.

Theorem C09_efd_interior_kept : forall dist sel a b, sel a = true -> sel b = true ->
  c09_efd_carried dist sel [a; b] = dist a b.
Proof. exact efd_interior_kept. Qed.
Print Assumptions C09_efd_interior_kept.

(* the code before fix 91b2cd46 (table sliced along n_edge, nothing else): refuted *)
Theorem C09_efd_before_fix_refuted : exists dist sel l, (length l <= 2)%nat /\
  c09_efd_carried_old dist l <> c09_efd_derived dist (c09_efd_kept sel l).
Proof. exact efd_old_refuted. Qed.
Print Assumptions C09_efd_before_fix_refuted.
