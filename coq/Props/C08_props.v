(* C08 — reading from a grid never changes what any grid reports. Statements only. *)
From Coq Require Import String.
From Verif Require Import Base C08 C08_proofs C08_spawn C08_spawn_proofs C08_reach_proofs.
From Verif Require Import C08_lonrange C08_lonrange_proofs.

(* invariant over every finite history of read-only operations: every stored variable is the
   canonical function of the source *)
Theorem C08_invariant : forall ops s, AllCanon s -> AllCanon (c08_run s ops).
Proof. exact run_inv. Qed.
Print Assumptions C08_invariant.

(* hence any observation after any history equals the observation on a fresh grid *)
Theorem C08_history : forall s ops v, AllCanon s -> c08_observe (c08_run s ops) v = c08_observe s v.
Proof. exact observe_fresh_eq. Qed.
Print Assumptions C08_history.

Theorem C08_observe_canonical : forall s ops v, AllCanon s -> c08_observe (c08_run s ops) v = Some Canon.
Proof. exact observe_history. Qed.
Print Assumptions C08_observe_canonical.

(* derived variables computed so far are never dropped (exports only gain variables) *)
Theorem C08_monotone : forall ops s v, c08_present s v = true -> c08_present (c08_run s ops) v = true.
Proof. exact run_present_mono. Qed.
Print Assumptions C08_monotone.

(* nothing stored is ever rewritten by a read: a variable the source supplied (its own edge table, its own
   centres, ...) or one derived earlier keeps exactly its value through every later history, and reading it
   returns that value *)
Theorem C08_stored_never_rewritten : forall ops s v x,
  c08_lookup s v = Some x -> c08_lookup (c08_run s ops) v = Some x /\ c08_observe (c08_run s ops) v = Some x.
Proof. exact stored_never_rewritten. Qed.
Print Assumptions C08_stored_never_rewritten.

(* a cache whose compared and stored key fields cover everything the value depends on is
   transparent for every history of calls (any cache/override flags) *)
Theorem C08_cache_transparent : forall (V : Type) (compute : c08_key -> V) (compared stored dep : list string),
  (forall k1 k2, (forall f, c08_mem f dep = true -> k1 f = k2 f) -> compute k1 = compute k2) ->
  c08_subset dep compared = true -> c08_subset dep stored = true ->
  forall calls call,
  fst (c08_cache_step V compute compared stored (c08_cache_run V compute compared stored None calls) call)
  = compute (c_key call).
Proof. exact cache_transparent. Qed.
Print Assumptions C08_cache_transparent.

(* the key sets regenerated from grid.py satisfy that premise for all five caches *)
Theorem C08_caches_complete :
  c08_subset c08_gdf_dep c08_gdf_compared = true /\ c08_subset c08_gdf_dep c08_gdf_stored = true /\
  c08_subset c08_poly_dep c08_poly_compared = true /\ c08_subset c08_poly_dep c08_poly_stored = true /\
  c08_subset c08_line_dep c08_line_compared = true /\ c08_subset c08_line_dep c08_line_stored = true /\
  c08_subset c08_tree_dep c08_ball_compared = true /\ c08_subset c08_tree_dep c08_ball_stored = true /\
  c08_subset c08_tree_dep c08_kd_compared = true /\ c08_subset c08_tree_dep c08_kd_stored = true.
Proof. exact caches_complete. Qed.
Print Assumptions C08_caches_complete.

(* several grids in one process: operations on other grids leave grid j and the module constants
   untouched, and every observation on every grid after any interleaved history is the fresh one *)
Theorem C08_other_grids_untouched : forall ops w j,
  Forall (fun io => fst io <> j) ops ->
  nth_error (w_grids (c08_world_run w ops)) j = nth_error (w_grids w) j
  /\ w_globals (c08_world_run w ops) = w_globals w.
Proof. exact world_frame. Qed.
Print Assumptions C08_other_grids_untouched.

Theorem C08_interleaved_history : forall ops w j s v,
  Forall AllCanon (w_grids w) -> nth_error (w_grids (c08_world_run w ops)) j = Some s ->
  c08_observe s v = Some Canon.
Proof. exact world_observe. Qed.
Print Assumptions C08_interleaved_history.

(* ---- worlds in which grids are also created during the history: copy() (starts from the original's stored variables)
   and isel / subset / cross_section / get_dual (a fresh grid) ---- *)

(* creating grids and operating on other grids — the copies and derived grids included — never changes what an existing
   grid holds, nor the module constants *)
Theorem C08_created_grids_frame : forall ops w j, (j < length (w_grids w))%nat ->
  forallb (fun x => negb (c08_targets j x)) ops = true ->
  nth_error (w_grids (c08_wrun w ops)) j = nth_error (w_grids w) j /\ w_globals (c08_wrun w ops) = w_globals w.
Proof. exact spawn_frame. Qed.
Print Assumptions C08_created_grids_frame.

(* and every observation on every grid that exists after the history — initial, copied or derived — is the fresh-grid one *)
Theorem C08_created_grids_observe : forall ops w j s v,
  Forall AllCanon (w_grids w) -> nth_error (w_grids (c08_wrun w ops)) j = Some s -> c08_observe s v = Some Canon.
Proof. exact spawn_observe. Qed.
Print Assumptions C08_created_grids_observe.

(* a copy starts from exactly what its original held at that moment; the original is untouched by the copying *)
Theorem C08_copy_snapshot : forall w i s, nth_error (w_grids w) i = Some s ->
  nth_error (w_grids (c08_wstep w (WCopy i))) (length (w_grids w)) = Some s /\
  nth_error (w_grids (c08_wstep w (WCopy i))) i = Some s.
Proof. exact copy_snapshot. Qed.
Print Assumptions C08_copy_snapshot.

(* ---- a read derives only what it needs ---- *)
(* repeating any read-only operation changes nothing *)
Theorem C08_step_idempotent : forall s o, c08_step (c08_step s o) o = c08_step s o.
Proof. exact step_idempotent. Qed.
Print Assumptions C08_step_idempotent.

(* after any history the dataset holds what it held before plus members of the dependency closures of the variables that
   were asked for: an export gains exactly "derived variables computed so far", never anything unrelated *)
Theorem C08_only_requested_derived : forall ops s v,
  c08_present (c08_run s ops) v = true -> c08_present s v = true \/ In v (flat_map c08_requested ops).
Proof. exact run_only_requested. Qed.
Print Assumptions C08_only_requested_derived.

(* exports and pure queries (to_xarray, trees, conversions, isel/subset/get_dual) store nothing in the grid *)
Theorem C08_pure_ops_store_nothing : forall s o, o = OpEncodeUgrid \/ o = OpPure -> c08_step s o = s.
Proof. exact pure_ops_store_nothing. Qed.
Print Assumptions C08_pure_ops_store_nothing.

(* no variable is ever stored twice: one entry per name after every history *)
Theorem C08_names_stay_unique : forall ops s, NoDup (c08_names s) -> NoDup (c08_names (c08_run s ops)).
Proof. exact run_nodup. Qed.
Print Assumptions C08_names_stay_unique.

(* ---- the listed finding C08-antimeridian-node-sign-after-lazy-lon, machine-checked (Model/C08_lonrange.v) ---- *)
(* the longitude-range rewrite never moves a point ... *)
Theorem C08_range_fix_same_points : forall l, Forall2 (fun a b => ((a - b) mod 360 = 0)%Z) (c08_range_fix l) l.
Proof. exact range_fix_same_points. Qed.
Print Assumptions C08_range_fix_same_points.

(* ... and commutes with taking part of the array away from the antimeridian ... *)
Theorem C08_range_fix_local_off_antimeridian : forall l n,
  Forall (fun x => (0 <= x < 360)%Z /\ x <> 180%Z) l ->
  firstn n (c08_range_fix l) = map c08_wrap1 (firstn n l) /\
  c08_range_fix (firstn n l) = map c08_wrap1 (firstn n l).
Proof. exact range_fix_local_off_antimeridian. Qed.
Print Assumptions C08_range_fix_local_off_antimeridian.

(* ... but not at exactly 180 degrees: rewriting then restricting differs from restricting then rewriting (the finding) *)
Theorem C08_range_fix_not_local_refuted : exists l n, firstn n (c08_range_fix l) <> c08_range_fix (firstn n l).
Proof. exact range_fix_not_local_refuted. Qed.
Print Assumptions C08_range_fix_not_local_refuted.
