(* C05 — face areas are the spherical-polygon areas, invariantly.
   Statements only; each closed by `exact` of a lemma from Proofs/, followed by Print Assumptions.

   What is proved here (about Model/C05.v, whose tables are regenerated from area.py on every run):
   * every quadrature table: positive weights, points inside the reference element, and exactness
     (within 5e-15) on all monomials up to the nominal degree (Gauss-Legendre 2n-1; the 9-point table
     is Gauss-Lobatto, degree 15; triangle rules 1, 4, 8, 10, 12);
   * sign, fan structure, exact additivity along fan diagonals, coordinate entry points (function
     level and Grid level for the current tree), node/face numbering independence, cache
     transparency, invariance under every orthogonal map.
   What is NOT proved (validated every run against the exact spherical excess by harness/c05.py):
   the accuracy figures 1e-2 / 1e-4 / 1e-6 and the convergence with the order; independence of the
   starting corner and additivity over cuts that are not fan diagonals hold only up to the
   quadrature error and are validated numerically. *)
From Coq Require Import Reals.
From Verif Require Import Base C05 C05_tables_proofs C05_proofs.

(* ---- tables (one obligation per supported rule) ---- *)
Theorem C05_table_gauss_1 : c05_gauss_ok 1.  Proof. exact c05_gauss_1_ok. Qed.
Print Assumptions C05_table_gauss_1.
Theorem C05_table_gauss_2 : c05_gauss_ok 2.  Proof. exact c05_gauss_2_ok. Qed.
Print Assumptions C05_table_gauss_2.
Theorem C05_table_gauss_3 : c05_gauss_ok 3.  Proof. exact c05_gauss_3_ok. Qed.
Print Assumptions C05_table_gauss_3.
Theorem C05_table_gauss_4 : c05_gauss_ok 4.  Proof. exact c05_gauss_4_ok. Qed.
Print Assumptions C05_table_gauss_4.
Theorem C05_table_gauss_5 : c05_gauss_ok 5.  Proof. exact c05_gauss_5_ok. Qed.
Print Assumptions C05_table_gauss_5.
Theorem C05_table_gauss_6 : c05_gauss_ok 6.  Proof. exact c05_gauss_6_ok. Qed.
Print Assumptions C05_table_gauss_6.
Theorem C05_table_gauss_7 : c05_gauss_ok 7.  Proof. exact c05_gauss_7_ok. Qed.
Print Assumptions C05_table_gauss_7.
Theorem C05_table_gauss_8 : c05_gauss_ok 8.  Proof. exact c05_gauss_8_ok. Qed.
Print Assumptions C05_table_gauss_8.
Theorem C05_table_gauss_9 : c05_gauss_ok 9.  Proof. exact c05_gauss_9_ok. Qed.
Print Assumptions C05_table_gauss_9.
Theorem C05_table_gauss_10 : c05_gauss_ok 10.  Proof. exact c05_gauss_10_ok. Qed.
Print Assumptions C05_table_gauss_10.
Theorem C05_table_tri_1 : c05_tri_ok 1.  Proof. exact c05_tri_1_ok. Qed.
Print Assumptions C05_table_tri_1.
Theorem C05_table_tri_4 : c05_tri_ok 4.  Proof. exact c05_tri_4_ok. Qed.
Print Assumptions C05_table_tri_4.
Theorem C05_table_tri_8 : c05_tri_ok 8.  Proof. exact c05_tri_8_ok. Qed.
Print Assumptions C05_table_tri_8.
Theorem C05_table_tri_10 : c05_tri_ok 10.  Proof. exact c05_tri_10_ok. Qed.
Print Assumptions C05_table_tri_10.
Theorem C05_table_tri_12 : c05_tri_ok 12.  Proof. exact c05_tri_12_ok. Qed.
Print Assumptions C05_table_tri_12.

(* the supported orders are exactly gaussian 1..10 and triangular 1, 4, 8, 10, 12 *)
Theorem C05_gauss_orders : forall n, c05_gauss_rule n <> None <-> (1 <= n <= 10)%Z.
Proof. exact c05_gauss_supported. Qed.
Print Assumptions C05_gauss_orders.
Theorem C05_tri_orders : forall n, c05_tri_rule n <> None <-> (n = 1 \/ n = 4 \/ n = 8 \/ n = 10 \/ n = 12)%Z.
Proof. exact c05_tri_supported. Qed.
Print Assumptions C05_tri_orders.

(* ---- never negative: every rule, order, coordinate path, corner list (real arithmetic) ---- *)
Theorem C05_nonneg : forall rule order conv xs r,
  c05_face_area c05_R rule order conv xs = Some r -> (0 <= fst r)%R.
Proof. exact c05_R_face_area_nonneg. Qed.
Print Assumptions C05_nonneg.
(* ... and in the fixed-point arithmetic the extracted model runs on *)
Theorem C05_nonneg_fx : forall rule order conv xs r,
  c05_face_area c05_fx rule order conv xs = Some r -> (0 <= fst r)%Z.
Proof. exact c05_fx_face_area_nonneg. Qed.
Print Assumptions C05_nonneg_fx.

(* ---- calculate_face_area visits exactly the fan triangles (x0, x_{j+1}, x_{j+2}) in order ---- *)
Theorem C05_fan : forall (T : Type) (O : c05_ops T) tb conv xs,
  c05_face_loop O tb conv xs =
  fold_left (fun acc t => c05_quad_tri O tb (c05_cv conv (fst (fst t))) (c05_cv conv (snd (fst t)))
                                       (c05_cv conv (snd t)) acc)
            (c05_fan xs) (c05_zero O, c05_zero O).
Proof. exact @c05_face_loop_fan. Qed.
Print Assumptions C05_fan.
(* ... and the face area is the sum of the sub-triangle areas *)
Theorem C05_fan_sum : forall tb conv xs,
  fst (c05_face_loop c05_R tb conv xs) =
  c05_sum c05_R (map (c05_tri_area c05_R tb) (c05_fan (map (c05_cv conv) xs))).
Proof. exact c05_R_fan_sum. Qed.
Print Assumptions C05_fan_sum.

(* ---- a face cut along the diagonal corner 0 -- corner k: the pieces add up exactly ---- *)
Theorem C05_subdivision : forall tb conv x0 xk l1 l2,
  fst (c05_face_loop c05_R tb conv (x0 :: l1 ++ xk :: l2)) =
  (fst (c05_face_loop c05_R tb conv (x0 :: l1 ++ [xk])) + fst (c05_face_loop c05_R tb conv (x0 :: xk :: l2)))%R.
Proof. exact c05_R_subdivision. Qed.
Print Assumptions C05_subdivision.
Theorem C05_subdivision_fx : forall tb conv x0 xk l1 l2,
  fst (c05_face_loop c05_fx tb conv (x0 :: l1 ++ xk :: l2)) =
  (fst (c05_face_loop c05_fx tb conv (x0 :: l1 ++ [xk])) + fst (c05_face_loop c05_fx tb conv (x0 :: xk :: l2)))%Z.
Proof. exact c05_fx_subdivision. Qed.
Print Assumptions C05_subdivision_fx.

(* ---- coordinate input: "spherical" = the Cartesian computation on the converted corners ---- *)
Theorem C05_coords : forall (T : Type) (O : c05_ops T) rule order f xs,
  c05_face_area O rule order (Some f) xs =
  c05_face_area O rule order None (map (fun p => f (c05_v0 p) (c05_v1 p)) xs).
Proof. exact @c05_face_area_coords. Qed.
Print Assumptions C05_coords.
(* Grid.compute_face_areas of the CURRENT tree (the `dim` flag c05_dim_cartesian3 is regenerated from
   grid.py on every run; `dim = 2 if latlon else 3` since fix 4eed51d9): lon/lat and Cartesian node
   coordinates give exactly the same areas when node_xyz is the conversion of node_lon/lat *)
Theorem C05_coords_grid : forall (T : Type) (O : c05_ops T) conv g rule order,
  (forall i, c05_xyz g i = conv (c05_v0 (c05_lonlat g i)) (c05_v1 (c05_lonlat g i))) ->
  c05_compute_cur O conv g rule order false = c05_compute_cur O conv g rule order true.
Proof. exact @c05_compute_cur_coords. Qed.
Print Assumptions C05_coords_grid.
(* the same for the explicit dim = 3 variant, whatever the generated flag is *)
Theorem C05_coords_grid_repaired : forall (T : Type) (O : c05_ops T) conv g rule order,
  (forall i, c05_xyz g i = conv (c05_v0 (c05_lonlat g i)) (c05_v1 (c05_lonlat g i))) ->
  c05_compute O true conv g rule order false = c05_compute O true conv g rule order true.
Proof. exact @c05_compute_coords. Qed.
Print Assumptions C05_coords_grid_repaired.
(* record of the repaired defect: with `dim = 2` hard-wired (before 4eed51d9) the Cartesian path
   replaced node_z by zeros ... *)
Theorem C05_coords_grid_dim2_drops_z : forall (T : Type) (O : c05_ops T) conv g rule order,
  c05_compute O false conv g rule order false =
  c05_all_areas O (fun i => (c05_v0 (c05_xyz g i), c05_v1 (c05_xyz g i),
                            c05_mul O (c05_v0 (c05_xyz g i)) (c05_zero O)))
                (c05_conn g) (c05_npf g) true rule order None.
Proof. exact @c05_compute_cart_drops_z. Qed.
Print Assumptions C05_coords_grid_dim2_drops_z.
(* ... so the two inputs disagreed (area 0 against pi/2 for the octant triangle) *)
Theorem C05_coords_grid_dim2_refuted :
  exists lonlat xyz t npf tbl a b,
    c05_fx_grid_areas false 1 4 false tbl lonlat xyz t npf = Some [a] /\
    c05_fx_face_area 1 4 false tbl xyz = Some b /\
    fst a = 0%Z /\ (3 * c05_S / 2 < fst b)%Z.
Proof. exact c05_coords_grid_refuted. Qed.
Print Assumptions C05_coords_grid_dim2_refuted.

(* ---- numbering: nodes may be renumbered, and a face's area depends on its own row only ---- *)
Theorem C05_renumber : forall (T : Type) (O : c05_ops T) (pos pos' : Z -> c05_vec) (pi : Z -> Z)
                              t npf dim3 rule order conv,
  (forall i, pos' (pi i) = pos i) ->
  c05_all_areas O pos' (map (map pi) t) npf dim3 rule order conv =
  c05_all_areas O pos t npf dim3 rule order conv.
Proof. exact @c05_renumber. Qed.
Print Assumptions C05_renumber.
Theorem C05_face_local : forall (T : Type) (O : c05_ops T) pos t npf dim3 rule order conv res f r k,
  c05_all_areas O pos t npf dim3 rule order conv = Some res ->
  nth_error t f = Some r -> nth_error npf f = Some k ->
  c05_face_area O rule order conv (c05_gather O pos dim3 r k) = nth_error res f.
Proof. exact @c05_face_local. Qed.
Print Assumptions C05_face_local.

(* padding: the width of the connectivity table (how many fill entries follow the corners) does not
   enter any face area *)
Theorem C05_padding_width : forall (T : Type) (O : c05_ops T) pos t npf w dim3 rule order conv,
  Forall2 (fun r k => (Z.to_nat k <= length r)%nat) t npf ->
  c05_all_areas O pos (map (fun r => r ++ repeat FILL w) t) npf dim3 rule order conv =
  c05_all_areas O pos t npf dim3 rule order conv.
Proof. exact @c05_all_areas_padding. Qed.
Print Assumptions C05_padding_width.

(* ---- cache: after ANY history of compute_face_areas / calculate_total_face_area / face_areas /
   face_jacobian calls, face_areas returns the default-rule computation ---- *)
Theorem C05_cache : forall (T : Type) (O : c05_ops T) fixdim conv g ops,
  snd (c05_step O fixdim conv g (c05_run O fixdim conv g c05_init ops) C05_get_areas) =
  match c05_compute O fixdim conv g (c05_default_rule) c05_default_order c05_default_latlon with
  | Some r => C05_areas (map fst r)
  | None => C05_raise
  end.
Proof. exact @c05_cache_transparent. Qed.
Print Assumptions C05_cache.

(* compute_face_areas and calculate_total_face_area keep no memo: after ANY history of area
   operations they return what a fresh grid returns, and leave the state as it was *)
Theorem C05_compute_history_independent : forall (T : Type) (O : c05_ops T) fixdim conv g ops rule order latlon,
  c05_step O fixdim conv g (c05_run O fixdim conv g c05_init ops) (C05_compute rule order latlon) =
  (c05_run O fixdim conv g c05_init ops,
   snd (c05_step O fixdim conv g c05_init (C05_compute rule order latlon))).
Proof. exact @c05_compute_history_independent. Qed.
Print Assumptions C05_compute_history_independent.
Theorem C05_total_history_independent : forall (T : Type) (O : c05_ops T) fixdim conv g ops rule order,
  c05_step O fixdim conv g (c05_run O fixdim conv g c05_init ops) (C05_total rule order) =
  (c05_run O fixdim conv g c05_init ops,
   snd (c05_step O fixdim conv g c05_init (C05_total rule order))).
Proof. exact @c05_total_history_independent. Qed.
Print Assumptions C05_total_history_independent.

(* every listed corner is used: the fan has exactly len - 2 triangles, the j-th being
   (x0, x_{j+1}, x_{j+2}), independently of the corners' coordinates and of the face's size *)
Theorem C05_fan_length : forall (A : Type) (l : list A), length (c05_fan l) = (length l - 2)%nat.
Proof. exact @c05_fan_length. Qed.
Print Assumptions C05_fan_length.
Theorem C05_fan_nth : forall (A : Type) (d : A) (l : list A) j,
  (j + 2 < length l)%nat ->
  nth j (c05_fan l) (d, d, d) = (nth 0 l d, nth (j + 1) l d, nth (j + 2) l d).
Proof. exact @c05_fan_nth. Qed.
Print Assumptions C05_fan_nth.

(* ---- rigid motions: the Jacobian at every quadrature point depends on the corners only through
   their Gram matrix, so every orthogonal map (rotation, reflection, axis permutation) leaves the
   (area, jacobian) pair of a face unchanged in exact arithmetic ---- *)
Theorem C05_rigid_jacobian_gauss : forall n1 n2 n3 m1 m2 m3 dA dB,
  c05_gram n1 n2 n3 = c05_gram m1 m2 m3 ->
  c05_jac_gauss c05_R n1 n2 n3 dA dB = c05_jac_gauss c05_R m1 m2 m3 dA dB.
Proof. exact c05_jac_gauss_rigid. Qed.
Print Assumptions C05_rigid_jacobian_gauss.
Theorem C05_rigid_jacobian_bary : forall n1 n2 n3 m1 m2 m3 dA dB,
  c05_gram n1 n2 n3 = c05_gram m1 m2 m3 ->
  c05_jac_bary c05_R n1 n2 n3 dA dB = c05_jac_bary c05_R m1 m2 m3 dA dB.
Proof. exact c05_jac_bary_rigid. Qed.
Print Assumptions C05_rigid_jacobian_bary.
Theorem C05_rigid : forall M rule order xs,
  c05_orth M ->
  c05_face_area c05_R rule order None (map (c05_ap M) xs) = c05_face_area c05_R rule order None xs.
Proof. exact c05_face_area_rigid. Qed.
Print Assumptions C05_rigid.
