(* C16 — edge distances, differences and gradients follow the edge's own neighbours.
   Statements only; each closed by `exact` of a lemma from Proofs/C16_proofs.v, followed by
   Print Assumptions. *)
From Coq Require Import QArith Qabs Reals List.
From Verif Require Import Base C16 C16_proofs.
Import ListNotations.

(* the argument of arccos in both distance kernels is the dot product of the two unit vectors *)
Theorem C16_loc : forall lon_a lat_a lon_b lat_b,
  c16_loc_arg lon_a lat_a lon_b lat_b = c16_dot3 (c16_unit_vec lon_a lat_a) (c16_unit_vec lon_b lat_b).
Proof. exact c16_loc. Qed.
Print Assumptions C16_loc.

(* hence the distance is the angle between them: in [0,pi] with that cosine *)
Theorem C16_loc_angle : forall a b,
  let u := c16_unit_vec (c16_deg2rad (fst a)) (c16_deg2rad (snd a)) in
  let v := c16_unit_vec (c16_deg2rad (fst b)) (c16_deg2rad (snd b)) in
  (0 <= c16_loc_dist a b <= PI)%R /\ cos (c16_loc_dist a b) = c16_dot3 u v.
Proof. exact c16_dist_angle. Qed.
Print Assumptions C16_loc_angle.

(* edge_node_distances[e]: the two nodes of edge e (or the source's own table) *)
Theorem C16_end : forall co en e a b,
  nth_error en e = Some (a, b) ->
  exists x, nth_error (c16_grid_end false en) e = Some x /\
    c16_entry_value co x = c16_loc_dist (co_node co a) (co_node co b).
Proof. exact c16_end_value. Qed.
Print Assumptions C16_end.

(* edge_face_distances[e]: the centres of the two faces sharing e ... *)
Theorem C16_efd : forall co ef e a b,
  nth_error ef e = Some (a, b) -> is_fill b = false ->
  exists en, nth_error (c16_grid_efd false ef) e = Some en /\
    c16_entry_value co en = c16_loc_dist (co_face co a) (co_face co b).
Proof. exact c16_efd_value. Qed.
Print Assumptions C16_efd.

(* ... zero for boundary edges *)
Theorem C16_efd_boundary : forall co ef e a,
  nth_error ef e = Some (a, FILL) ->
  exists en, nth_error (c16_grid_efd false ef) e = Some en /\ c16_entry_value co en = 0%R.
Proof. exact c16_efd_value_boundary. Qed.
Print Assumptions C16_efd_boundary.

(* source-supplied tables are passed through *)
Theorem C16_supplied : forall ef e a b,
  nth_error ef e = Some (a, b) -> nth_error (c16_grid_efd true ef) e = Some (ESupplied e).
Proof. exact c16_efd_supplied. Qed.
Print Assumptions C16_supplied.

(* handing the node coordinates to the face-distance kernel (the call before /repo commit
   bc905d22; the "wrong array" mutation class) is a different function *)
Theorem C16_efd_wrong_array_differs :
  exists co ef e a b en, nth_error ef e = Some (a, b) /\ is_fill b = false /\
    nth_error (c16_efd_plan_of SNode ef) e = Some en /\
    c16_entry_value co en <> c16_loc_dist (co_face co a) (co_face co b).
Proof. exact c16_efd_wrong_array_differs. Qed.
Print Assumptions C16_efd_wrong_array_differs.

(* face-centred data: |value on face a - value on face b| on the edge's own two faces *)
Theorem C16_diff : forall d ef e a b,
  nth_error ef e = Some (a, b) -> is_fill b = false ->
  nth_error (c16_edge_face_diff d ef) e = Some (Qabs (c16_at d a - c16_at d b)%Q).
Proof. exact c16_diff. Qed.
Print Assumptions C16_diff.

(* node-centred data: the edge's own two nodes *)
Theorem C16_node_diff : forall d en e a b,
  nth_error en e = Some (a, b) ->
  nth_error (c16_edge_node_diff d en) e = Some (Qabs (c16_at d a - c16_at d b)%Q).
Proof. exact c16_node_diff. Qed.
Print Assumptions C16_node_diff.

(* gradient = difference / centre-to-centre distance on interior edges *)
Theorem C16_grad : forall d ef dist e a b D,
  nth_error ef e = Some (a, b) -> is_fill b = false -> nth_error dist e = Some D ->
  nth_error (c16_gradient d ef dist) e = Some (Qabs (c16_at d a - c16_at d b) / D)%Q.
Proof. exact c16_gradient_interior. Qed.
Print Assumptions C16_grad.

(* zero on boundary edges: difference and gradient *)
Theorem C16_boundary : forall d ef dist e a D,
  nth_error ef e = Some (a, FILL) -> nth_error dist e = Some D ->
  (exists v, nth_error (c16_edge_face_diff d ef) e = Some v /\ (v == 0)%Q) /\
  (exists v, nth_error (c16_gradient d ef dist) e = Some v /\ (v == 0)%Q).
Proof. exact c16_boundary_both. Qed.
Print Assumptions C16_boundary.

(* zero for constant fields *)
Theorem C16_const : forall d ef en dist,
  (forall i j, (c16_at d i == c16_at d j)%Q) ->
  Forall (fun v => (v == 0)%Q) (c16_edge_face_diff d ef) /\
  Forall (fun v => (v == 0)%Q) (c16_edge_node_diff d en) /\
  Forall (fun v => (v == 0)%Q) (c16_gradient d ef dist).
Proof. exact c16_const_all. Qed.
Print Assumptions C16_const.

(* with normalisation the result has unit Euclidean norm (when it is not identically zero) *)
Theorem C16_unit : forall g, (0 < c16_sumsq g)%R -> c16_l2 (c16_normalize g) = 1%R.
Proof. exact c16_unit_norm. Qed.
Print Assumptions C16_unit.

(* independent along leading dimensions, one value per edge *)
Theorem C16_leading : forall rows ef en dist r d,
  nth_error rows r = Some d ->
  nth_error (c16_edge_face_diff_nd rows ef) r = Some (c16_edge_face_diff d ef) /\
  nth_error (c16_edge_node_diff_nd rows en) r = Some (c16_edge_node_diff d en) /\
  nth_error (c16_gradient_nd rows ef dist) r = Some (c16_gradient d ef dist) /\
  length (c16_edge_face_diff_nd rows ef) = length rows /\
  length (c16_gradient_nd rows ef dist) = length rows.
Proof. exact c16_leading. Qed.
Print Assumptions C16_leading.

Theorem C16_edge_dimensioned : forall d ef en dist,
  length dist = length ef ->
  length (c16_edge_face_diff d ef) = length ef /\ length (c16_edge_node_diff d en) = length en /\
  length (c16_gradient d ef dist) = length ef.
Proof. exact c16_edge_dimensioned. Qed.
Print Assumptions C16_edge_dimensioned.

(* a source may list the two faces of an interior edge in either order (incl. face 0 second):
   difference, gradient and edge_face_distances of that row are the same *)
Theorem C16_face_order_free : forall d dist co ef ef' e a b D,
  nth_error ef e = Some (a, b) -> nth_error ef' e = Some (b, a) ->
  is_fill a = false -> is_fill b = false -> nth_error dist e = Some D ->
  (exists v v', nth_error (c16_edge_face_diff d ef) e = Some v /\
                nth_error (c16_edge_face_diff d ef') e = Some v' /\ (v == v')%Q) /\
  (exists g g', nth_error (c16_gradient d ef dist) e = Some g /\
                nth_error (c16_gradient d ef' dist) e = Some g' /\ (g == g')%Q) /\
  (exists x x', nth_error (c16_grid_efd false ef) e = Some x /\
                nth_error (c16_grid_efd false ef') e = Some x' /\
                c16_entry_value co x = c16_entry_value co x').
Proof. exact c16_face_order_free. Qed.
Print Assumptions C16_face_order_free.

(* ... and the two nodes of an edge in either orientation *)
Theorem C16_node_order_free : forall d co en en' e a b,
  nth_error en e = Some (a, b) -> nth_error en' e = Some (b, a) ->
  (exists v v', nth_error (c16_edge_node_diff d en) e = Some v /\
                nth_error (c16_edge_node_diff d en') e = Some v' /\ (v == v')%Q) /\
  (exists x x', nth_error (c16_grid_end false en) e = Some x /\
                nth_error (c16_grid_end false en') e = Some x' /\
                c16_entry_value co x = c16_entry_value co x').
Proof. exact c16_node_order_free. Qed.
Print Assumptions C16_node_order_free.

(* --- for every grid and every leading shape ------------------------------------------------- *)

(* swapping the two faces of every interior row of edge_face_connectivity changes no difference and
   no gradient, row by row of any leading shape *)
Theorem C16_swap_all : forall rows ef dist,
  Forall (fun p => is_fill (fst p) = false) ef ->
  Forall2 (Forall2 Qeq) (c16_edge_face_diff_nd rows ef) (c16_edge_face_diff_nd rows (map c16_swap ef)) /\
  Forall2 (Forall2 Qeq) (c16_gradient_nd rows ef dist) (c16_gradient_nd rows (map c16_swap ef) dist).
Proof. exact c16_swap_all_nd. Qed.
Print Assumptions C16_swap_all.

(* fields constant along the element dimension: differences (face and node) and gradients vanish on
   every edge of every grid, for every leading shape *)
Theorem C16_const_all_shapes : forall rows ef en dist,
  Forall (fun d => forall i j, (c16_at d i == c16_at d j)%Q) rows ->
  Forall (Forall (fun v => (v == 0)%Q)) (c16_edge_face_diff_nd rows ef) /\
  Forall (Forall (fun v => (v == 0)%Q)) (c16_edge_node_diff_nd rows en) /\
  Forall (Forall (fun v => (v == 0)%Q)) (c16_gradient_nd rows ef dist).
Proof. exact c16_const_nd. Qed.
Print Assumptions C16_const_all_shapes.

(* normalised gradient: unit Euclidean norm unless every entry is 0 *)
Theorem C16_unit_unless_zero : forall g,
  ~ Forall (fun x => x = 0%R) g -> c16_l2 (c16_normalize g) = 1%R.
Proof. exact c16_unit_norm_unless_zero. Qed.
Print Assumptions C16_unit_unless_zero.

(* --- histories ------------------------------------------------------------------------------- *)

(* frame: along any sequence of table reads, difference() and gradient() calls a stored distance
   table is never changed *)
Theorem C16_history_frame : forall se sf en ef ops s,
  (forall t, gs_end s = Some t -> gs_end (fold_left (c16_hstep se sf en ef) ops s) = Some t) /\
  (forall t, gs_efd s = Some t -> gs_efd (fold_left (c16_hstep se sf en ef) ops s) = Some t).
Proof. exact c16_history_frame. Qed.
Print Assumptions C16_history_frame.

(* after any history a table that is present is the kernel's plan for this grid (or the source's
   own table) *)
Theorem C16_history_tables : forall se sf en ef ops,
  c16_tables_right se sf en ef (c16_hrun se sf en ef ops).
Proof. exact c16_history_tables. Qed.
Print Assumptions C16_history_tables.

(* two reads anywhere in a history return the same table *)
Theorem C16_reads_agree : forall se sf en ef ops1 ops2 t1 t2,
  gs_efd (c16_hrun se sf en ef ops1) = Some t1 ->
  gs_efd (c16_hrun se sf en ef (ops1 ++ ops2)) = Some t2 -> t1 = t2.
Proof. exact c16_reads_agree. Qed.
Print Assumptions C16_reads_agree.
