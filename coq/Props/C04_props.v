(* C04 — spherical and Cartesian coordinates denote the same points.
   Statements only; each closed by `exact` of a lemma from Proofs/C04_proofs.v, followed by
   Print Assumptions.  c04_run fx: the model of the getters/populate functions/normalisation for the
   variant fx of the eight once-defective code sites (Model/C04.v; the node-longitude site has two
   alternative repairs): c04_all_fixed fx = true = every site repaired, c04_as_found = the code as
   it was found, c04_repo_fixes = what the current source contains
   (Gen/C04_variant.v, regenerated from /repo by harness/translators/c04_variant.py on every run). *)
From Coq Require Import Reals List.
From Verif Require Import Base C04 C04_proofs C04_range_proofs C04_variant.
Import ListNotations.
Local Open Scope R_scope.

(* --- the operators --------------------------------------------------------------------------- *)

(* derived Cartesian coordinates have unit length: |_lonlat_rad_to_xyz(lon,lat)| = 1 *)
Theorem C04_unit : forall ll, c04_dot (c04_ll2xyz ll) (c04_ll2xyz ll) = 1.
Proof. exact c04_unit. Qed.
Print Assumptions C04_unit.

(* Cartesian -> lon/lat -> Cartesian is the identity on unit vectors outside the snap zone (and on
   the exact poles); the lon/lat produced are in [0,2pi) x [-pi/2,pi/2] *)
Theorem C04_roundtrip_xyz : forall p, c04_dot p p = 1 -> c04_safe p ->
  0 <= fst (c04_xyz2ll p) < 2 * PI /\ - (PI / 2) <= snd (c04_xyz2ll p) <= PI / 2 /\
  c04_ll2xyz (c04_xyz2ll p) = p.
Proof. exact c04_xyz2ll_spec. Qed.
Print Assumptions C04_roundtrip_xyz.

(* lon/lat -> Cartesian -> lon/lat is the identity outside the snap zone *)
Theorem C04_roundtrip_ll : forall lon lat,
  0 <= lon < 2 * PI -> - (PI / 2) <= lat <= PI / 2 -> Rabs (sin lat) <= 1 - c04_tol ->
  c04_xyz2ll (c04_ll2xyz (lon, lat)) = (lon, lat).
Proof. exact c04_roundtrip_ll. Qed.
Print Assumptions C04_roundtrip_ll.

(* inside the snap zone (|z| > 1 - 1e-8) the reported point is the pole, < 1.5e-4 rad away *)
Theorem C04_snap : forall p, c04_dot p p = 1 -> 1 - c04_tol < Rabs (c04_pz p) ->
  c04_ll2xyz (c04_xyz2ll p) = (0, 0, c04_sign (c04_pz p)) /\
  cos (15 / 100000) < c04_dot p (c04_ll2xyz (c04_xyz2ll p)).
Proof. exact c04_snap. Qed.
Print Assumptions C04_snap.

(* (lon + 180) % 360 - 180 lands in [-180, 180) ... *)
Theorem C04_wrap_range : forall d, -180 <= c04_wrap180 d < 180.
Proof. exact c04_wrap_range. Qed.
Print Assumptions C04_wrap_range.

(* ... and denotes the same point *)
Theorem C04_wrap_same_point : forall lon lat,
  c04_ll2xyz (c04_deg2rad (c04_wrap180 lon), lat) = c04_ll2xyz (c04_deg2rad lon, lat).
Proof. exact c04_wrap_same_point. Qed.
Print Assumptions C04_wrap_same_point.

(* ... idempotently *)
Theorem C04_wrap_idempotent : forall d, c04_wrap180 (c04_wrap180 d) = c04_wrap180 d.
Proof. exact c04_wrap_idem. Qed.
Print Assumptions C04_wrap_idempotent.

(* _set_desired_longitude_range (wrap the whole array iff its maximum exceeds 180) on any array whose
   longitudes are >= -180: every entry lands in [-180,180], applying it again changes nothing, and
   every entry denotes the same point as before *)
Theorem C04_range_fix : forall f n,
  (forall j, (j < n)%nat -> -180 <= f j) ->
  forall i lat, (i < n)%nat ->
    -180 <= c04_range_fix f n i <= 180 /\
    c04_range_fix (c04_range_fix f n) n i = c04_range_fix f n i /\
    c04_ll2xyz (c04_deg2rad (c04_range_fix f n i), lat) = c04_ll2xyz (c04_deg2rad (f i), lat).
Proof. exact c04_range_fix_spec. Qed.
Print Assumptions C04_range_fix.

(* the LCondWrap operator of the dataflow model (evaluated against the implementation in every
   correspondence run) is exactly this function *)
Theorem C04_condwrap_is_range_fix : forall en k l i,
  c04_sem_ll en (LCondWrap k l) i =
    (c04_range_fix (fun j => fst (c04_sem_ll en l j)) (en_count en k) i, snd (c04_sem_ll en l i)).
Proof. exact c04_sem_condwrap. Qed.
Print Assumptions C04_condwrap_is_range_fix.

(* normalising changes lengths only: a positive multiple, of unit length *)
Theorem C04_normalize_dir : forall p, 0 < c04_dot p p ->
  exists k, 0 < k /\ c04_normalize3 p = c04_scale k p /\
            c04_dot (c04_normalize3 p) (c04_normalize3 p) = 1.
Proof. exact c04_normalize_dir. Qed.
Print Assumptions C04_normalize_dir.

(* a centre is the normalised mean = the normalised sum of the corner vectors: unit, a positive
   multiple of the sum *)
Theorem C04_centroid : forall l, l <> [] -> 0 < c04_dot (c04_sum3 l) (c04_sum3 l) ->
  c04_normalize3 (c04_mean3 l) = c04_normalize3 (c04_sum3 l) /\
  c04_dot (c04_normalize3 (c04_mean3 l)) (c04_normalize3 (c04_mean3 l)) = 1 /\
  exists k, 0 < k /\ c04_normalize3 (c04_mean3 l) = c04_scale k (c04_sum3 l).
Proof. exact c04_centroid. Qed.
Print Assumptions C04_centroid.

(* an edge centre is the arc midpoint: unit, in the plane of the two nodes, equidistant, at half
   the angle (cos = sqrt((1 + a.b)/2)) *)
Theorem C04_edge_mid : forall a b, c04_dot a a = 1 -> c04_dot b b = 1 -> -1 < c04_dot a b ->
  let m := c04_normalize3 (c04_mean3 [a; b]) in
  c04_dot m m = 1 /\ c04_dot m a = c04_dot m b /\ c04_dot m (c04_cross a b) = 0 /\
  c04_dot m a = sqrt ((1 + c04_dot a b) / 2).
Proof. exact c04_edge_mid. Qed.
Print Assumptions C04_edge_mid.

(* --- the provenance dataflow ------------------------------------------------------------------ *)

(* the unit/range checker is sound for the meaning over R: a well-united expression evaluates,
   on every concrete source meeting c04_env_ok, to what its tag says *)
Theorem C04_checker_sound : forall c en, c04_env_ok c en ->
  (forall e t, c04_ty_ll c e = Some t -> c04_ll_sem en t (c04_sem_ll en e)) /\
  (forall e t, c04_ty_xyz c e = Some t -> c04_xyz_sem en t (c04_sem_xyz en e)).
Proof. exact c04_ty_sound. Qed.
Print Assumptions C04_checker_sound.

(* History theorem, symbolic form: every well-formed source, every finite history of accesses of
   the coordinate properties and normalize_cartesian_coordinates: every group the repaired Grid
   holds is well-united ... *)
Theorem C04_provenance_units : forall fx c ops,
  c04_all_fixed fx = true -> c04_wf_case c = true -> c04_state_ok c (c04_run fx c ops) = true.
Proof. exact c04_provenance_sym. Qed.
Print Assumptions C04_provenance_units.

(* ... at every intermediate state (what each access reported) as well *)
Theorem C04_provenance_every_report : forall fx c ops,
  c04_all_fixed fx = true -> c04_wf_case c = true ->
  Forall (fun s => c04_state_ok c s = true) (c04_trace fx c (c04_init c) ops).
Proof. exact c04_every_report_sym. Qed.
Print Assumptions C04_provenance_every_report.

(* History theorem, semantic form.  Histories include accesses of the 18 coordinate properties,
   construct_face_centers("welzl" / "cartesian average"), re-assignment through the setters and
   normalize_cartesian_coordinates.  lon/lat reported are in [-180,180] x [-90,90] and denote exactly
   the direction of the element's family; Cartesian coordinates are a positive multiple of the SAME
   direction, of unit length whenever the source did not supply them.  For faces the family is the
   source's / derived centres or the one installed by construct_face_centers. *)
Theorem C04_provenance : forall fx c en ops,
  c04_all_fixed fx = true -> c04_wf_case c = true -> c04_env_ok c en ->
  let s := c04_run fx c ops in
  (forall l, st_nll s = Some l -> c04_ll_denotes en KNode l) /\
  (forall x, st_nxyz s = Some x -> c04_xyz_denotes c en KNode x) /\
  (forall l, st_ell s = Some l -> c04_ll_denotes en KEdge l) /\
  (forall x, st_exyz s = Some x -> c04_xyz_denotes c en KEdge x) /\
  exists F, c04_is_face_fam F = true /\
    (forall l, st_fll s = Some l -> c04_ll_denotes en F l) /\
    (forall x, st_fxyz s = Some x -> c04_xyz_denotes c en F x).
Proof. exact c04_provenance_sem. Qed.
Print Assumptions C04_provenance.

(* directly after normalize_cartesian_coordinates every Cartesian group has unit length *)
Theorem C04_normalize_all_unit : forall fx c ops,
  c04_all_fixed fx = true -> c04_wf_case c = true ->
  c04_state_unit c (c04_run fx c (ops ++ [ONormalize])) = true.
Proof. exact c04_normalize_unit_sym. Qed.
Print Assumptions C04_normalize_all_unit.

(* --- the code as found, and the current source ------------------------------------------------ *)

(* each of the eight sites alone breaks the property, whatever the state of the others
   (c04_bad: a well-formed source and a history after which a reported group is not well-united,
   or a Cartesian group is not unit right after normalisation) *)
Theorem C04_node_lon_refuted : forall fx, fx_node_wrap fx = false -> fx_node_after fx = false ->
  c04_bad fx c04_case_xyz_nodes [OGetLL KNode].
Proof. exact c04_node_lon_refuted. Qed.
Print Assumptions C04_node_lon_refuted.

(* ... semantically: node (0,-1,0) of a Cartesian-only grid is reported at longitude 270 *)
Theorem C04_node_lon_270_refuted :
  exists c en ops l i, c04_wf_case c = true /\ c04_env_ok c en /\
    c04_get_ll (c04_run c04_as_found c ops) KNode = Some l /\ (i < en_count en KNode)%nat /\
    fst (c04_sem_ll en l i) = 270.
Proof. exact c04_node_lon_sem_refuted. Qed.
Print Assumptions C04_node_lon_270_refuted.

Theorem C04_face_units_refuted : forall fx, fx_face_deg fx = false -> c04_bad fx c04_case_ll_faces [OGetXYZ KFace].
Proof. exact c04_face_deg_refuted. Qed.
Print Assumptions C04_face_units_refuted.

Theorem C04_edge_units_refuted : forall fx, fx_edge_deg fx = false -> c04_bad fx c04_case_ll_edges [OGetXYZ KEdge].
Proof. exact c04_edge_deg_refuted. Qed.
Print Assumptions C04_edge_units_refuted.

Theorem C04_face_scaled_refuted : forall fx, fx_face_norm fx = false -> c04_bad fx c04_case_scaled_faces [OGetLL KFace].
Proof. exact c04_face_norm_refuted. Qed.
Print Assumptions C04_face_scaled_refuted.

Theorem C04_edge_scaled_refuted : forall fx, fx_edge_norm fx = false -> c04_bad fx c04_case_scaled_edges [OGetLL KEdge].
Proof. exact c04_edge_norm_refuted. Qed.
Print Assumptions C04_edge_scaled_refuted.

Theorem C04_face_normalize_refuted : forall fx, fx_face_check fx = false -> c04_bad fx c04_case_scaled_faces [].
Proof. exact c04_face_check_refuted. Qed.
Print Assumptions C04_face_normalize_refuted.

Theorem C04_edge_normalize_refuted : forall fx, fx_edge_check fx = false -> c04_bad fx c04_case_scaled_edges [].
Proof. exact c04_edge_check_refuted. Qed.
Print Assumptions C04_edge_normalize_refuted.

(* construct_face_centers("welzl"): the routine's degrees read as radians (before /repo ed0eee67) *)
Theorem C04_welzl_refuted : forall fx, fx_welzl_deg fx = false -> c04_bad fx c04_case_xyz_nodes [OWelzl].
Proof. exact c04_welzl_refuted. Qed.
Print Assumptions C04_welzl_refuted.

(* the verdict for every variant: all eight repaired -> the property holds for every source and
   history; otherwise it fails on a concrete source and history *)
Theorem C04_verdict : forall fx, c04_verdict fx.
Proof. exact c04_verdict_all. Qed.
Print Assumptions C04_verdict.

(* ... in particular for the variant the current source contains *)
Theorem C04_repo_verdict : c04_verdict c04_repo_fixes.
Proof. exact (c04_verdict_all c04_repo_fixes). Qed.
Print Assumptions C04_repo_verdict.
