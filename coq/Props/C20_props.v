(* C20 — grid equality distinguishes any difference in coordinates or connectivity.
   c20_eq_formula / c20_ne_formula are regenerated from Grid.__eq__/__ne__ on every run. *)
From Verif Require Import Base C20 C20_proofs C20_more_proofs.

Theorem C20_formula : forall a b c d e, c20_eq_formula a b c d e = a && b && c && d && e.
Proof. exact c20_formula_conj. Qed.
Print Assumptions C20_formula.

Theorem C20_iff : forall g h, c20_eq g h = true <->
  c20_spec g = c20_spec h /\ c20_lon g = c20_lon h /\ c20_lat g = c20_lat h /\ c20_conn g = c20_conn h.
Proof. exact c20_eq_iff. Qed.
Print Assumptions C20_iff.

Theorem C20_single_lon : forall g i old v, nth_error (c20_lon g) i = Some old -> v <> old ->
  c20_eq g (c20_with_lon g (c20_set i v (c20_lon g))) = false.
Proof. exact c20_single_lon. Qed.
Print Assumptions C20_single_lon.

Theorem C20_single_lat : forall g i old v, nth_error (c20_lat g) i = Some old -> v <> old ->
  c20_eq g (c20_with_lat g (c20_set i v (c20_lat g))) = false.
Proof. exact c20_single_lat. Qed.
Print Assumptions C20_single_lat.

Theorem C20_single_conn : forall g f r j old v,
  nth_error (c20_conn g) f = Some r -> nth_error r j = Some old -> v <> old ->
  c20_eq g (c20_with_conn g (c20_set f (c20_set j v r) (c20_conn g))) = false.
Proof. exact c20_single_conn. Qed.
Print Assumptions C20_single_conn.

Theorem C20_count : forall g h,
  (length (c20_lon g) <> length (c20_lon h) \/ length (c20_lat g) <> length (c20_lat h)
   \/ length (c20_conn g) <> length (c20_conn h)) -> c20_eq g h = false.
Proof. exact c20_count. Qed.
Print Assumptions C20_count.

Theorem C20_format : forall g s, s <> c20_spec g -> c20_eq g (c20_with_spec g s) = false.
Proof. exact c20_format. Qed.
Print Assumptions C20_format.

Theorem C20_refl : forall g, c20_eq g g = true.
Proof. exact c20_eq_refl. Qed.
Print Assumptions C20_refl.

Theorem C20_sym : forall g h, c20_eq g h = c20_eq h g.
Proof. exact c20_eq_sym. Qed.
Print Assumptions C20_sym.

Theorem C20_ne : forall g h, c20_ne g h = negb (c20_eq g h).
Proof. exact c20_ne_is_negation. Qed.
Print Assumptions C20_ne.

Theorem C20_nongrid : forall b c d e, c20_eq_nongrid b c d e = false.
Proof. exact c20_nongrid_false. Qed.
Print Assumptions C20_nongrid.

(* equality is the identity of the four observed components, hence an equivalence; != is its complement *)
Theorem C20_eq_is_identity : forall g h, c20_eq g h = true <-> g = h.
Proof. exact c20_eq_is_identity. Qed.
Print Assumptions C20_eq_is_identity.

Theorem C20_trans : forall g h k, c20_eq g h = true -> c20_eq h k = true -> c20_eq g k = true.
Proof. exact c20_eq_trans. Qed.
Print Assumptions C20_trans.

Theorem C20_ne_iff : forall g h, c20_ne g h = true <-> g <> h.
Proof. exact c20_ne_iff. Qed.
Print Assumptions C20_ne_iff.

Theorem C20_eq_xor_ne : forall g h, xorb (c20_eq g h) (c20_ne g h) = true.
Proof. exact c20_eq_xor_ne. Qed.
Print Assumptions C20_eq_xor_ne.
