(* C19 — a grid shares no mutable state with its inputs, copies or exports.
   Statements only (about the heap model Model/C19.v); each closed by `exact` of a lemma from
   Proofs/C19_proofs.v, followed by Print Assumptions.
   Reading: c19_obs h d = everything the dataset rooted at d reports (names, data, attrs);
   c19_run h d ops = any sequence of public mutators applied through root d;
   c19_ext h h' = every cell that existed in h is still there, unchanged, in h'. *)
From Verif Require Import Base C19 C19_proofs.

(* frame: mutating one root never changes what a separated root reports (any heap, any history) *)
Theorem C19_frame : forall ops h d1 d2,
  c19_wt h d1 = true -> c19_wt h d2 = true -> c19_disjoint h d1 d2 ->
  c19_obs (c19_run h d1 ops) d2 = c19_obs h d2.
Proof. exact c19_frame_thm. Qed.
Print Assumptions C19_frame.

(* ... also at every point of every interleaved history on both sides *)
Theorem C19_interleaved : forall ops h d1 d2 o, c19_sep h d1 d2 ->
  let h' := c19_run2 h d1 d2 ops in
  c19_obs (c19_apply h' d1 o) d2 = c19_obs h' d2 /\ c19_obs (c19_apply h' d2 o) d1 = c19_obs h' d1.
Proof. exact c19_interleave_thm. Qed.
Print Assumptions C19_interleaved.

(* copy(), repaired (deep copy of _ds): equal at copy time, and any later history on either side
   leaves the other side exactly as it was *)
Theorem C19_copy : forall h d h' d' ops,
  c19_wt h d = true -> c19_copy_fixed h d = (h', d') ->
  c19_obs h' d' = c19_obs h d /\
  c19_obs (c19_run h' d ops) d' = c19_obs h d /\
  c19_obs (c19_run h' d' ops) d = c19_obs h d.
Proof. exact c19_copy_fixed_independent. Qed.
Print Assumptions C19_copy.

Theorem C19_copy_interleaved : forall h d h' d' ops o,
  c19_wt h d = true -> c19_copy_fixed h d = (h', d') ->
  let hh := c19_run2 h' d d' ops in
  c19_obs (c19_apply hh d o) d' = c19_obs hh d' /\ c19_obs (c19_apply hh d' o) d = c19_obs hh d.
Proof. exact c19_copy_fixed_interleaved. Qed.
Print Assumptions C19_copy_interleaved.

(* copy() as written (Grid(self._ds)) violates the clause *)
Theorem C19_copy_refuted : exists h d ops,
  c19_wt h d = true /\
  let '(h', d') := c19_copy_faithful h d in
  c19_obs (c19_run h' d ops) d' <> c19_obs h' d'.
Proof. exact c19_copy_faithful_refuted. Qed.
Print Assumptions C19_copy_refuted.

(* from_topology's connectivity argument: the caller's array is written iff the in-place branch
   is taken (fill value given and (fill = INT_FILL_VALUE or dtype already intp)) and the
   standardised values differ *)
Theorem C19_inputs_connectivity : forall h conn x dtype_std fv si h' r,
  c19_get h conn = Some (C19Buf x) ->
  c19_process_connectivity h conn dtype_std fv si = (h', r) ->
  (c19_get h' conn <> c19_get h conn <->
   c19_pc_inplace dtype_std fv = true /\ c19_pc_result x fv si <> x).
Proof. exact c19_pc_input_modified. Qed.
Print Assumptions C19_inputs_connectivity.

(* ... all other cells are untouched; the result holds the standardised values; fresh unless in place *)
Theorem C19_inputs_connectivity_frame : forall h conn x dtype_std fv si h' r,
  c19_get h conn = Some (C19Buf x) ->
  c19_process_connectivity h conn dtype_std fv si = (h', r) ->
  c19_buf_data h' r = c19_pc_result x fv si /\
  (forall i, i <> conn -> (i < length h)%nat -> c19_get h' i = c19_get h i) /\
  (c19_pc_inplace dtype_std fv = true ->
     r = conn /\ c19_get h' conn = Some (C19Buf (c19_pc_result x fv si)) /\ length h' = length h) /\
  (c19_pc_inplace dtype_std fv = false -> r = length h /\ c19_ext h h').
Proof. exact c19_pc_spec. Qed.
Print Assumptions C19_inputs_connectivity_frame.

(* the standardised values equal the given ones exactly when no entry is the caller's fill value
   and no real entry is shifted *)
Theorem C19_inputs_connectivity_values : forall x o si, o <> FILL ->
  (c19_std_conn x o si = x <-> Forall (fun v => v <> o /\ (v = FILL \/ si = 0)) x).
Proof. exact c19_std_conn_fix. Qed.
Print Assumptions C19_inputs_connectivity_values.

Theorem C19_inputs_connectivity_fixed : forall h conn x dtype_std fv si h' r,
  c19_get h conn = Some (C19Buf x) ->
  c19_process_connectivity_fixed h conn dtype_std fv si = (h', r) ->
  c19_ext h h' /\ r = length h /\ c19_buf_data h' r = c19_pc_result x fv si.
Proof. exact c19_pc_fixed_spec. Qed.
Print Assumptions C19_inputs_connectivity_fixed.

Theorem C19_inputs_connectivity_refuted : exists h conn dtype_std fv si,
  let '(h', r) := c19_process_connectivity h conn dtype_std fv si in
  c19_get h' conn <> c19_get h conn.
Proof. exact c19_pc_refuted. Qed.
Print Assumptions C19_inputs_connectivity_refuted.

(* from_topology with the repaired helper: no argument cell is written, whatever the arguments *)
Theorem C19_inputs_from_topology_fixed : forall h coords conns dtype_std fv si h' g,
  c19_from_topology_fixed h coords true conns dtype_std fv si = Some (h', g) ->
  c19_ext h h' /\ (length h <= g)%nat.
Proof. exact c19_from_topology_fixed_inputs. Qed.
Print Assumptions C19_inputs_from_topology_fixed.

Theorem C19_inputs_from_topology_refuted : exists h coords conns dtype_std fv si,
  match c19_from_topology h coords true conns dtype_std fv si with
  | Some (h', g) => c19_get h' 2%nat <> c19_get h 2%nat
  | None => False
  end.
Proof. exact c19_from_topology_refuted. Qed.
Print Assumptions C19_inputs_from_topology_refuted.

(* table-driven readers (MPAS, Exodus, SCRIP, ESMF, GEOS-CS, ICON): for every table and input *)
Theorem C19_inputs_readers : forall h d t cg over h' g,
  c19_read_table h d t cg over = (h', g) -> c19_ext h h' /\ (length h <= g)%nat.
Proof. exact c19_read_table_inputs. Qed.
Print Assumptions C19_inputs_readers.

(* UGRID reader with the repaired standardisation *)
Theorem C19_inputs_ugrid_fixed : forall h d names dtype_std h' g,
  c19_read_ugrid_fixed h d names dtype_std = (h', g) -> c19_ext h h' /\ (length h <= g)%nat.
Proof. exact c19_read_ugrid_fixed_inputs. Qed.
Print Assumptions C19_inputs_ugrid_fixed.

Theorem C19_inputs_ugrid_refuted : exists h d names dtype_std,
  c19_wt h d = true /\
  let '(h', g) := c19_read_ugrid h d names dtype_std in c19_obs h' d <> c19_obs h d.
Proof. exact c19_read_ugrid_refuted. Qed.
Print Assumptions C19_inputs_ugrid_refuted.

(* Grid(ds) / from_dataset(ds, source_grid_spec=...) *)
Theorem C19_inputs_adopt_fixed : forall h d h' g,
  c19_wt h d = true -> c19_grid_init_fixed h d = (h', g) -> c19_ext h h' /\ (length h <= g)%nat.
Proof. exact c19_grid_init_fixed_inputs. Qed.
Print Assumptions C19_inputs_adopt_fixed.

Theorem C19_inputs_adopt_refuted : exists h d,
  c19_wt h d = true /\
  let '(h', g) := c19_grid_init h d in g = d /\ c19_obs h' d <> c19_obs h d.
Proof. exact c19_grid_init_adopt_refuted. Qed.
Print Assumptions C19_inputs_adopt_refuted.

(* exports *)
Theorem C19_export : forall h d h' e ops,
  c19_wt h d = true -> c19_to_xarray_ugrid_fixed h d = (h', e) ->
  c19_obs h' d = c19_obs h d /\
  c19_obs (c19_run h' e ops) d = c19_obs h d /\
  c19_obs (c19_run h' d ops) e = c19_obs h' e.
Proof. exact c19_export_fixed_independent. Qed.
Print Assumptions C19_export.

Theorem C19_export_refuted : exists h d ops,
  c19_wt h d = true /\
  let '(h', e) := c19_to_xarray_ugrid h d in
  c19_obs (c19_run h' e ops) d <> c19_obs h' d.
Proof. exact c19_export_ugrid_refuted. Qed.
Print Assumptions C19_export_refuted.

Theorem C19_export_second_refuted : exists h d ops,
  c19_wt h d = true /\
  let '(h1, e1) := c19_to_xarray_ugrid h d in
  let '(h2, e2) := c19_to_xarray_ugrid h1 d in
  e2 <> d /\ c19_obs (c19_run h2 e2 ops) d <> c19_obs h2 d.
Proof. exact c19_export_ugrid_second_refuted. Qed.
Print Assumptions C19_export_second_refuted.

(* geometry exports: a deep copy (to_polycollection) is never the cached object *)
Theorem C19_export_geo_deep : forall h cached c h' e c',
  c19_get h cached = Some c -> c19_export_geo true h cached = (h', e) ->
  e <> cached /\ c19_get h' e = Some c /\ c19_get (c19_upd h' e c') cached = Some c.
Proof. exact c19_export_geo_deep. Qed.
Print Assumptions C19_export_geo_deep.

(* ... while handing out the cached object (to_geodataframe, to_linecollection) lets every
   caller edit reach the cache *)
Theorem C19_export_geo_shared_refuted : forall h cached c c',
  c19_get h cached = Some c ->
  let '(h', e) := c19_export_geo false h cached in
  e = cached /\ c19_get (c19_upd h' e c') cached = Some c'.
Proof. exact c19_export_geo_shared. Qed.
Print Assumptions C19_export_geo_shared_refuted.
