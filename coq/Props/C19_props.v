(* C19 — a grid shares no mutable state with its inputs, copies or exports.
   Statements only (about the heap model Model/C19.v, which follows the code after the fix commits
   75630b91 13d5671e 232e20ba e6f5fdf9 944273fc 3e9b47d4 fef78d05); each closed by `exact` of a lemma
   from Proofs/C19_proofs.v, followed by Print Assumptions.
   Reading: c19_obs h d = everything the dataset rooted at d reports (names, data, attrs);
   c19_run h d ops = any sequence of public mutators applied through root d;
   c19_ext h h' = every cell that existed in h is still there, unchanged, in h'. *)
From Verif Require Import Base C19 C19_proofs.

(* frame: mutating one root never changes what a separated root reports (any heap, any history) *)
Theorem C19_frame : forall ops h d1 d2,
  c19_wt h d1 = true -> c19_wt h d2 = true -> c19_disjoint h d1 d2 ->
  c19_obs (c19_run h d1 ops) d2 = c19_obs h d2.
Proof. exact c19_frame_thm. Qed.
Print Assumptions C19_frame.

(* ... also at every point of every interleaved history on both sides *)
Theorem C19_interleaved : forall ops h d1 d2 o, c19_sep h d1 d2 ->
  let h' := c19_run2 h d1 d2 ops in
  c19_obs (c19_apply h' d1 o) d2 = c19_obs h' d2 /\ c19_obs (c19_apply h' d2 o) d1 = c19_obs h' d1.
Proof. exact c19_interleave_thm. Qed.
Print Assumptions C19_interleaved.

(* Grid.copy(): equal at copy time, and any later history on either side leaves the other side
   exactly as it was *)
Theorem C19_copy : forall h d h' d' ops,
  c19_wt h d = true -> c19_copy h d = (h', d') ->
  c19_obs h' d' = c19_obs h d /\
  c19_obs (c19_run h' d ops) d' = c19_obs h d /\
  c19_obs (c19_run h' d' ops) d = c19_obs h d.
Proof. exact c19_copy_independent. Qed.
Print Assumptions C19_copy.

Theorem C19_copy_interleaved : forall h d h' d' ops o,
  c19_wt h d = true -> c19_copy h d = (h', d') ->
  let hh := c19_run2 h' d d' ops in
  c19_obs (c19_apply hh d o) d' = c19_obs hh d' /\ c19_obs (c19_apply hh d' o) d = c19_obs hh d.
Proof. exact c19_copy_interleaved. Qed.
Print Assumptions C19_copy_interleaved.

(* from_topology's connectivity arguments: nothing that exists is written, the result is a new
   array holding the standardised values *)
Theorem C19_inputs_connectivity : forall h conn x dtype_std fv si h' r,
  c19_get h conn = Some (C19Buf x) ->
  c19_process_connectivity h conn dtype_std fv si = (h', r) ->
  c19_ext h h' /\ r = length h /\ c19_buf_data h' r = c19_pc_result x fv si.
Proof. exact c19_pc_spec. Qed.
Print Assumptions C19_inputs_connectivity.

(* what the protective copy is for: without it the caller's array is written iff a fill value is
   given, no astype copy happens and the standardised values differ *)
Theorem C19_connectivity_without_copy : forall h conn x dtype_std fv si h' r,
  c19_get h conn = Some (C19Buf x) ->
  c19_process_connectivity_nocopy h conn dtype_std fv si = (h', r) ->
  (c19_get h' conn <> c19_get h conn <->
   c19_pc_inplace dtype_std fv = true /\ c19_pc_result x fv si <> x).
Proof. exact c19_pc_nocopy_input_modified. Qed.
Print Assumptions C19_connectivity_without_copy.

(* the standardised values equal the given ones exactly when no entry is the caller's fill value
   and no real entry is shifted *)
Theorem C19_connectivity_values : forall x o si, o <> FILL ->
  (c19_std_conn x o si = x <-> Forall (fun v => v <> o /\ (v = FILL \/ si = 0)) x).
Proof. exact c19_std_conn_fix. Qed.
Print Assumptions C19_connectivity_values.

(* from_topology / open_grid(dict): no argument cell is written, whatever the arguments *)
Theorem C19_inputs_from_topology : forall h coords conns dtype_std fv si h' g,
  c19_from_topology h coords conns dtype_std fv si = (h', g) ->
  c19_ext h h' /\ (length h <= g)%nat.
Proof. exact c19_from_topology_inputs. Qed.
Print Assumptions C19_inputs_from_topology.

(* table-driven readers (MPAS, Exodus, SCRIP, ESMF, GEOS-CS, ICON): for every table and input *)
Theorem C19_inputs_readers : forall h d t cg over h' g,
  c19_read_table h d t cg over = (h', g) -> c19_ext h h' /\ (length h <= g)%nat.
Proof. exact c19_read_table_inputs. Qed.
Print Assumptions C19_inputs_readers.

(* UGRID reader *)
Theorem C19_inputs_ugrid : forall h d names dtype_std h' g,
  c19_read_ugrid h d names dtype_std = (h', g) -> c19_ext h h' /\ (length h <= g)%nat.
Proof. exact c19_read_ugrid_inputs. Qed.
Print Assumptions C19_inputs_ugrid.

(* Grid(ds) / from_dataset(ds, source_grid_spec=...): building writes nothing of the caller's
   dataset, and neither does any later sequence of public mutators of the grid (everything except
   an in-place numpy write into a shared array) *)
Theorem C19_inputs_adopt : forall h d h' g ops,
  c19_grid_init h d = (h', g) -> forallb c19_not_writebuf ops = true ->
  c19_ext h h' /\ (length h <= g)%nat /\ c19_ext h (c19_run h' g ops).
Proof. exact c19_grid_init_inputs. Qed.
Print Assumptions C19_inputs_adopt.

(* to_xarray("ugrid") / encode_as("UGRID"): grid and returned dataset are independent both ways *)
Theorem C19_export : forall h d h' e ops,
  c19_wt h d = true -> c19_to_xarray_ugrid h d = (h', e) ->
  c19_obs h' d = c19_obs h d /\
  c19_obs (c19_run h' e ops) d = c19_obs h d /\
  c19_obs (c19_run h' d ops) e = c19_obs h' e.
Proof. exact c19_export_independent. Qed.
Print Assumptions C19_export.

(* geometry exports: a deep copy (to_polycollection, to_linecollection) is never the cached object *)
Theorem C19_export_geo_deep : forall h cached c h' e c',
  c19_get h cached = Some c -> c19_export_geo true h cached = (h', e) ->
  e <> cached /\ c19_get h' e = Some c /\ c19_get (c19_upd h' e c') cached = Some c.
Proof. exact c19_export_geo_deep. Qed.
Print Assumptions C19_export_geo_deep.

(* ... while handing out the cached object (Grid.to_geodataframe, pinned by the suite's
   `gdf_a is gdf_b`) lets every caller edit reach the cache *)
Theorem C19_export_geo_shared_refuted : forall h cached c c',
  c19_get h cached = Some c ->
  let '(h', e) := c19_export_geo false h cached in
  e = cached /\ c19_get (c19_upd h' e c') cached = Some c'.
Proof. exact c19_export_geo_shared. Qed.
Print Assumptions C19_export_geo_shared_refuted.

(* the Grid object itself: every helper container of a copy (geometry cache dictionaries, tree
   slots) is a new object; storing into one grid's containers never touches the other's *)
Theorem C19_copy_containers : forall h g h' g',
  c19_grid_copy h g = (h', g') ->
  (forall i, In i (g_aux g') -> (length h <= i)%nat) /\
  (forall i j c, In i (g_aux g') -> In j (g_aux g) -> (j < length h)%nat ->
     c19_get (c19_upd h' i c) j = c19_get h' j) /\
  (forall i j c, In i (g_aux g') -> In j (g_aux g) -> (j < length h)%nat -> (i < length h')%nat ->
     c19_get (c19_upd h' j c) i = c19_get h' i).
Proof. exact c19_grid_copy_containers. Qed.
Print Assumptions C19_copy_containers.

(* what duplicating the object with copy.copy would do: the containers stay shared *)
Theorem C19_copy_containers_shallow_refuted : exists h g c,
  let '(h', g') := c19_grid_copy_shallow h g in
  exists i, In i (g_aux g') /\ In i (g_aux g) /\ c19_get (c19_upd h' i c) i <> c19_get h' i.
Proof. exact c19_grid_copy_shallow_refuted. Qed.
Print Assumptions C19_copy_containers_shallow_refuted.

(* ---- sessions: objects, operations, ownership ---- *)

(* ownership invariant (every live root well-typed, no two live roots reach a common cell) along
   every sequence of copies, exports and mutations, when copy and export go through a deep copy *)
Theorem C19_session_invariant : forall fl, fl_copy_deep fl = true -> fl_export_deep fl = true ->
  forall l w, c19_allsep (fst w) (snd w) -> c19_allsep (fst (c19_srun fl w l)) (snd (c19_srun fl w l)).
Proof. exact c19_session_inv. Qed.
Print Assumptions C19_session_invariant.

(* hence at every point of every session one more operation leaves every other root — grid or
   exported dataset — reporting what it reported before (caller edits may be in-place writes) *)
Theorem C19_session : forall fl, fl_copy_deep fl = true -> fl_export_deep fl = true ->
  forall l w s, c19_allsep (fst w) (snd w) ->
  let w1 := c19_srun fl w l in
  forall j b, nth_error (snd w1) j = Some b -> match s with C19SOp k _ => j <> k | _ => True end ->
              c19_obs (fst (c19_sstep fl w1 s)) b = c19_obs (fst w1) b.
Proof. exact c19_session_thm. Qed.
Print Assumptions C19_session.

(* the copy points the model relies on, as found in the current source by the translator *)
Theorem C19_flags_current :
  c19_f_pc_copies = true /\ c19_f_std_copies = true /\ c19_f_init_copies = true /\
  c19_f_copy_deep = true /\ c19_f_export_deep = true /\ c19_f_scrip_copies = true /\
  c19_f_scrip_area_copies = true /\ c19_f_esmf_area_copies = true /\
  c19_f_poly_returns_copy = true /\ c19_f_line_returns_copy = true /\
  c19_f_poly_indices_hit_copy = true /\ c19_f_poly_indices_final_copy = true /\ c19_f_gdf_returns_copy = false.
Proof. exact c19_flags_current. Qed.
Print Assumptions C19_flags_current.

(* ... instantiated with those flags *)
Theorem C19_session_current : forall l w s, c19_allsep (fst w) (snd w) ->
  let w1 := c19_srun c19_sflags_current w l in
  forall j b, nth_error (snd w1) j = Some b -> match s with C19SOp k _ => j <> k | _ => True end ->
              c19_obs (fst (c19_sstep c19_sflags_current w1 s)) b = c19_obs (fst w1) b.
Proof. exact c19_session_current. Qed.
Print Assumptions C19_session_current.

(* with either flag off there is a session in which a mutation through one root shows on another *)
Theorem C19_session_shallow_refuted :
  (exists w l j b, c19_allsep (fst w) (snd w) /\
     let w1 := c19_srun {| fl_copy_deep := false; fl_export_deep := true |} w l in
     nth_error (snd w1) j = Some b /\ j <> 0%nat /\
     c19_obs (fst (c19_sstep {| fl_copy_deep := false; fl_export_deep := true |} w1 (C19SOp 0 (C19SetAttr (-1) 7 7)))) b
       <> c19_obs (fst w1) b) /\
  (exists w l j b, c19_allsep (fst w) (snd w) /\
     let w1 := c19_srun {| fl_copy_deep := true; fl_export_deep := false |} w l in
     nth_error (snd w1) j = Some b /\ j <> 0%nat /\
     c19_obs (fst (c19_sstep {| fl_copy_deep := true; fl_export_deep := false |} w1 (C19SOp 0 (C19SetAttr (-1) 7 7)))) b
       <> c19_obs (fst w1) b).
Proof. exact c19_session_shallow_refuted. Qed.
Print Assumptions C19_session_shallow_refuted.

(* geometry exports under the flags of the source: PolyCollection and LineCollection are never the
   cached object; Grid.to_geodataframe hands out the cached frame — the known finding *)
Theorem C19_export_geo_current : forall h cached c c',
  c19_get h cached = Some c ->
  (let '(h', e) := c19_export_geo c19_f_poly_returns_copy h cached in
   e <> cached /\ c19_get (c19_upd h' e c') cached = Some c) /\
  (let '(h', e) := c19_export_geo c19_f_line_returns_copy h cached in
   e <> cached /\ c19_get (c19_upd h' e c') cached = Some c) /\
  (let '(h', e) := c19_export_geo c19_f_gdf_returns_copy h cached in
   e = cached /\ c19_get (c19_upd h' e c') cached = Some c').
Proof. exact c19_export_geo_current. Qed.
Print Assumptions C19_export_geo_current.
