(* C06 — integration is the area-weighted sum over faces.
   Statements only; each closed by `exact` of a lemma from Proofs/, followed by Print Assumptions.
   c06_integrate_cur = c06_integrate true = UxDataArray.integrate as it is (since fix 3b40859b a last
   dimension named n_node / n_edge is rejected before sizes are compared);
   c06_integrate false = the code before the fix (dispatch on values.shape[-1] only), kept as a
   record of the repaired defect.  The value/linear/dims/one theorems hold for both (forall bn). *)
From Verif Require Import Base C06 C06_proofs.

(* for every index i of the leading dimensions the result is sum_f area[f] * value[i, f] *)
Theorem C06_value : forall bn g areas a r,
  c06_integrate bn g areas a = C06_ok r ->
  length areas = Z.to_nat (c06_nface g) ->
  length (c06_data r) = Z.to_nat (c06_prod (removelast (c06_shape a))) /\
  forall i, (i < Z.to_nat (c06_prod (removelast (c06_shape a))))%nat ->
    nth i (c06_data r) 0 =
    c06_sum (fun f => nth f areas 0 * nth (i * Z.to_nat (c06_nface g) + f) (c06_data a) 0)
            (Z.to_nat (c06_nface g)).
Proof. exact c06_value. Qed.
Print Assumptions C06_value.

(* linear in the data *)
Theorem C06_linear : forall bn g areas a al be x y rx ry,
  length x = length y ->
  c06_integrate bn g areas (c06_with_data a x) = C06_ok rx ->
  c06_integrate bn g areas (c06_with_data a y) = C06_ok ry ->
  c06_integrate bn g areas (c06_with_data a (c06_lincomb al be x y)) =
  C06_ok (c06_with_data rx (c06_lincomb al be (c06_data rx) (c06_data ry))).
Proof. exact c06_linear. Qed.
Print Assumptions C06_linear.

(* removes exactly the last dimension (which has the size of n_face), keeps name and grid, and the
   result is again a well-formed array *)
Theorem C06_dims : forall bn g areas a r,
  c06_wf a -> c06_integrate bn g areas a = C06_ok r ->
  c06_shape r = removelast (c06_shape a) /\ c06_dims r = removelast (c06_dims a) /\
  S (length (c06_shape r)) = length (c06_shape a) /\
  last (c06_shape a) 0 = c06_nface g /\
  c06_name r = c06_name a /\ c06_grid r = c06_grid a /\ c06_wf r.
Proof. exact c06_dims_spec. Qed.
Print Assumptions C06_dims.

(* the constant 1 integrates to the sum of the face areas *)
Theorem C06_one : forall bn g areas nm tg,
  0 <= c06_nface g -> length areas = Z.to_nat (c06_nface g) ->
  c06_integrate bn g areas {| c06_shape := [c06_nface g]; c06_dims := [0]; c06_name := nm; c06_grid := tg;
                              c06_data := repeat 1 (Z.to_nat (c06_nface g)) |} =
  C06_ok {| c06_shape := []; c06_dims := []; c06_name := nm; c06_grid := tg;
            c06_data := [fold_right Z.add 0 areas] |}.
Proof. exact c06_one. Qed.
Print Assumptions C06_one.

(* rejection (current tree): node- and edge-dimensioned data are never integrated, for all element
   counts (including n_node = n_face and n_edge = n_face) and all leading dimensions *)
Theorem C06_reject : forall g areas a,
  c06_shape a <> [] -> (last (c06_dims a) 3 = 1 \/ last (c06_dims a) 3 = 2) ->
  forall r, c06_integrate_cur g areas a <> C06_ok r.
Proof. exact c06_reject_cur. Qed.
Print Assumptions C06_reject.
(* ... more precisely they raise the node / edge ValueError *)
Theorem C06_reject_repaired : forall g areas a,
  c06_shape a <> [] -> (last (c06_dims a) 3 = 1 \/ last (c06_dims a) 3 = 2) ->
  c06_integrate true g areas a = C06_node_error \/ c06_integrate true g areas a = C06_edge_error.
Proof. exact c06_reject_repaired. Qed.
Print Assumptions C06_reject_repaired.
(* whatever is integrated is not node/edge-dimensioned and its last dimension has n_face entries *)
Theorem C06_accept : forall g areas a r,
  c06_integrate_cur g areas a = C06_ok r ->
  last (c06_dims a) 3 <> 1 /\ last (c06_dims a) 3 <> 2 /\ last (c06_shape a) 0 = c06_nface g.
Proof. exact c06_accept_cur. Qed.
Print Assumptions C06_accept.
(* the name check changes nothing for data whose last dimension is not named n_node / n_edge *)
Theorem C06_repair_conservative : forall g areas a,
  last (c06_dims a) 3 <> 1 -> last (c06_dims a) 3 <> 2 ->
  c06_integrate true g areas a = c06_integrate false g areas a.
Proof. exact c06_repair_conservative. Qed.
Print Assumptions C06_repair_conservative.

(* ---- record of the repaired defect (code before 3b40859b, size dispatch only) ---- *)
Theorem C06_size_dispatch_reject_by_size_partial : forall g areas a,
  last (c06_shape a) 0 <> c06_nface g -> forall r, c06_integrate false g areas a <> C06_ok r.
Proof. exact c06_reject_by_size. Qed.
Print Assumptions C06_size_dispatch_reject_by_size_partial.
Theorem C06_size_dispatch_refuted :
  exists g areas a r, last (c06_dims a) 3 = 1 /\ c06_wf a /\
                      c06_nnode g = c06_nface g /\ c06_integrate false g areas a = C06_ok r.
Proof. exact c06_reject_refuted. Qed.
Print Assumptions C06_size_dispatch_refuted.
Theorem C06_size_dispatch_edge_refuted :
  exists g areas a r, last (c06_dims a) 3 = 2 /\ c06_wf a /\
                      c06_nedge g = c06_nface g /\ c06_integrate false g areas a = C06_ok r.
Proof. exact c06_reject_edge_refuted. Qed.
Print Assumptions C06_size_dispatch_edge_refuted.

(* ---- round 4 ---- *)
From Coq Require Import Permutation.

(* additivity over disjoint face sets / sub-grids: the faces 0..n1-1 and the remaining ones *)
Theorem C06_additive_faces : forall a1 a2 r1 r2,
  length a1 = length r1 -> c06_dot (a1 ++ a2) (r1 ++ r2) = c06_dot a1 r1 + c06_dot a2 r2.
Proof. exact c06_dot_app. Qed.
Print Assumptions C06_additive_faces.

(* invariance under face renumbering (one permutation applied to areas and values) *)
Theorem C06_face_renumbering : forall areas row areas' row',
  Permutation (combine areas row) (combine areas' row') -> c06_dot areas row = c06_dot areas' row'.
Proof. exact c06_dot_renumber. Qed.
Print Assumptions C06_face_renumbering.

(* invariance under the order of the leading dimensions: transposed input, transposed result *)
Theorem C06_leading_transpose : forall areas k1 k2 m data data',
  length areas = m ->
  (forall i j f, (i < k1)%nat -> (j < k2)%nat -> (f < m)%nat ->
      nth ((j * k1 + i) * m + f) data' 0 = nth ((i * k2 + j) * m + f) data 0) ->
  forall i j, (i < k1)%nat -> (j < k2)%nat ->
    nth (j * k1 + i) (c06_einsum areas [Z.of_nat k2; Z.of_nat k1; Z.of_nat m] data') 0 =
    nth (i * k2 + j) (c06_einsum areas [Z.of_nat k1; Z.of_nat k2; Z.of_nat m] data) 0.
Proof. exact c06_leading_transpose. Qed.
Print Assumptions C06_leading_transpose.

(* dtype promotion: boolean data integrate to exactly the area of the selected faces, integer data
   scale exactly (the result is the exact sum, nothing is truncated to the input's dtype) *)
Theorem C06_bool_data : forall areas mask,
  Forall (fun m => m = 0 \/ m = 1) mask -> c06_dot areas mask = c06_mask_sum areas mask.
Proof. exact c06_dot_mask. Qed.
Print Assumptions C06_bool_data.
Theorem C06_integer_scaling : forall areas row c, c06_dot areas (map (Z.mul c) row) = c * c06_dot areas row.
Proof. exact c06_dot_scale. Qed.
Print Assumptions C06_integer_scaling.

(* independence from what the grid stores (face_areas derived, supplied by the source, or assigned) and
   from any history of integrate / compute_face_areas / face_areas / assignment operations *)
Theorem C06_history_independent : forall areas_of g dr dor ops s rule order a,
  c06_integrate_grid areas_of g (c06_grun areas_of dr dor s ops) rule order a =
  c06_integrate_cur g (areas_of rule order) a.
Proof. exact c06_history_independent. Qed.
Print Assumptions C06_history_independent.
Theorem C06_integrate_keeps_state : forall areas_of dr dor s rule order a,
  c06_gstep areas_of dr dor s (C06_op_integrate rule order a) = s.
Proof. exact c06_integrate_keeps_state. Qed.
Print Assumptions C06_integrate_keeps_state.

(* which dimension is integrated: a last dimension named n_face with n_face entries always is *)
Theorem C06_face_dim_integrated : forall g areas a,
  c06_shape a <> [] -> last (c06_dims a) 3 = 0 -> last (c06_shape a) 0 = c06_nface g ->
  exists r, c06_integrate_cur g areas a = C06_ok r.
Proof. exact c06_face_dim_integrated. Qed.
Print Assumptions C06_face_dim_integrated.
(* PARTIAL: for names other than n_node / n_edge the code still decides by size -- "only dimensions
   named n_face are integrated" is refuted (a "time" dimension of n_face entries is integrated); not
   observable inside the property's quantifier (face dimension last) *)
Theorem C06_only_face_named_dims_refuted_partial :
  exists g areas a r, last (c06_dims a) 3 = 3 /\ c06_wf a /\ c06_integrate_cur g areas a = C06_ok r.
Proof. exact c06_only_face_named_dims_refuted. Qed.
Print Assumptions C06_only_face_named_dims_refuted_partial.
