(* C06 — integration is the area-weighted sum over faces.
   Statements only; each closed by `exact` of a lemma from Proofs/, followed by Print Assumptions.
   c06_integrate_cur = c06_integrate true = UxDataArray.integrate as it is (since fix 3b40859b a last
   dimension named n_node / n_edge is rejected before sizes are compared);
   c06_integrate false = the code before the fix (dispatch on values.shape[-1] only), kept as a
   record of the repaired defect.  The value/linear/dims/one theorems hold for both (forall bn). *)
From Verif Require Import Base C06 C06_proofs.

(* for every index i of the leading dimensions the result is sum_f area[f] * value[i, f] *)
Theorem C06_value : forall bn g areas a r,
  c06_integrate bn g areas a = C06_ok r ->
  length areas = Z.to_nat (c06_nface g) ->
  length (c06_data r) = Z.to_nat (c06_prod (removelast (c06_shape a))) /\
  forall i, (i < Z.to_nat (c06_prod (removelast (c06_shape a))))%nat ->
    nth i (c06_data r) 0 =
    c06_sum (fun f => nth f areas 0 * nth (i * Z.to_nat (c06_nface g) + f) (c06_data a) 0)
            (Z.to_nat (c06_nface g)).
Proof. exact c06_value. Qed.
Print Assumptions C06_value.

(* linear in the data *)
Theorem C06_linear : forall bn g areas a al be x y rx ry,
  length x = length y ->
  c06_integrate bn g areas (c06_with_data a x) = C06_ok rx ->
  c06_integrate bn g areas (c06_with_data a y) = C06_ok ry ->
  c06_integrate bn g areas (c06_with_data a (c06_lincomb al be x y)) =
  C06_ok (c06_with_data rx (c06_lincomb al be (c06_data rx) (c06_data ry))).
Proof. exact c06_linear. Qed.
Print Assumptions C06_linear.

(* removes exactly the last dimension (which has the size of n_face), keeps name and grid, and the
   result is again a well-formed array *)
Theorem C06_dims : forall bn g areas a r,
  c06_wf a -> c06_integrate bn g areas a = C06_ok r ->
  c06_shape r = removelast (c06_shape a) /\ c06_dims r = removelast (c06_dims a) /\
  S (length (c06_shape r)) = length (c06_shape a) /\
  last (c06_shape a) 0 = c06_nface g /\
  c06_name r = c06_name a /\ c06_grid r = c06_grid a /\ c06_wf r.
Proof. exact c06_dims_spec. Qed.
Print Assumptions C06_dims.

(* the constant 1 integrates to the sum of the face areas *)
Theorem C06_one : forall bn g areas nm tg,
  0 <= c06_nface g -> length areas = Z.to_nat (c06_nface g) ->
  c06_integrate bn g areas {| c06_shape := [c06_nface g]; c06_dims := [0]; c06_name := nm; c06_grid := tg;
                              c06_data := repeat 1 (Z.to_nat (c06_nface g)) |} =
  C06_ok {| c06_shape := []; c06_dims := []; c06_name := nm; c06_grid := tg;
            c06_data := [fold_right Z.add 0 areas] |}.
Proof. exact c06_one. Qed.
Print Assumptions C06_one.

(* rejection (current tree): node- and edge-dimensioned data are never integrated, for all element
   counts (including n_node = n_face and n_edge = n_face) and all leading dimensions *)
Theorem C06_reject : forall g areas a,
  c06_shape a <> [] -> (last (c06_dims a) 3 = 1 \/ last (c06_dims a) 3 = 2) ->
  forall r, c06_integrate_cur g areas a <> C06_ok r.
Proof. exact c06_reject_cur. Qed.
Print Assumptions C06_reject.
(* ... more precisely they raise the node / edge ValueError *)
Theorem C06_reject_repaired : forall g areas a,
  c06_shape a <> [] -> (last (c06_dims a) 3 = 1 \/ last (c06_dims a) 3 = 2) ->
  c06_integrate true g areas a = C06_node_error \/ c06_integrate true g areas a = C06_edge_error.
Proof. exact c06_reject_repaired. Qed.
Print Assumptions C06_reject_repaired.
(* whatever is integrated is not node/edge-dimensioned and its last dimension has n_face entries *)
Theorem C06_accept : forall g areas a r,
  c06_integrate_cur g areas a = C06_ok r ->
  last (c06_dims a) 3 <> 1 /\ last (c06_dims a) 3 <> 2 /\ last (c06_shape a) 0 = c06_nface g.
Proof. exact c06_accept_cur. Qed.
Print Assumptions C06_accept.
(* the name check changes nothing for data whose last dimension is not named n_node / n_edge *)
Theorem C06_repair_conservative : forall g areas a,
  last (c06_dims a) 3 <> 1 -> last (c06_dims a) 3 <> 2 ->
  c06_integrate true g areas a = c06_integrate false g areas a.
Proof. exact c06_repair_conservative. Qed.
Print Assumptions C06_repair_conservative.

(* ---- record of the repaired defect (code before 3b40859b, size dispatch only) ---- *)
Theorem C06_size_dispatch_reject_by_size_partial : forall g areas a,
  last (c06_shape a) 0 <> c06_nface g -> forall r, c06_integrate false g areas a <> C06_ok r.
Proof. exact c06_reject_by_size. Qed.
Print Assumptions C06_size_dispatch_reject_by_size_partial.
Theorem C06_size_dispatch_refuted :
  exists g areas a r, last (c06_dims a) 3 = 1 /\ c06_wf a /\
                      c06_nnode g = c06_nface g /\ c06_integrate false g areas a = C06_ok r.
Proof. exact c06_reject_refuted. Qed.
Print Assumptions C06_size_dispatch_refuted.
Theorem C06_size_dispatch_edge_refuted :
  exists g areas a r, last (c06_dims a) 3 = 2 /\ c06_wf a /\
                      c06_nedge g = c06_nface g /\ c06_integrate false g areas a = C06_ok r.
Proof. exact c06_reject_edge_refuted. Qed.
Print Assumptions C06_size_dispatch_edge_refuted.
