(* C12 — remapping picks true nearest sources and never invents values.
   Statements only; each closed by `exact` of a lemma from Proofs/, followed by Print Assumptions. *)
From Coq Require Import QArith.
From Verif Require Import Base C11 C11_proofs C12 C12_flags C12_proofs.

(* nearest neighbour: for every leading index l and destination i the result holds the value of a
   source element (of the kind chosen as coded) whose distance key is minimal *)
Theorem C12_nn : forall nn nf ne t data res, c12_nn nn nf ne t data = Some res ->
  exists r0 kd, hd_error data = Some r0 /\
    c12_kind_by_length nn nf ne (Z.of_nat (length r0)) = Some kd /\
    length res = length data /\
    forall l row, nth_error data l = Some row ->
      exists out, nth_error res l = Some out /\ length out = length (c12_table t kd) /\
        forall i keys, nth_error (c12_table t kd) i = Some keys -> keys <> [] ->
          exists s d, nth_error out i = Some (nth s row 0%Q) /\ nth_error keys s = Some d /\
                      forall j dj, nth_error keys j = Some dj -> d <= dj.
Proof. exact c12_nn_spec. Qed.
Print Assumptions C12_nn.

(* tie rule made explicit: of the sources at minimal distance the one with the lowest index is taken *)
Theorem C12_nn_tie_rule : forall keys, keys <> [] ->
  exists d, nth_error keys (c12_nn_index keys) = Some d /\
    forall j dj, nth_error keys j = Some dj -> d < dj \/ (d = dj /\ (c12_nn_index keys <= j)%nat).
Proof. exact c12_nn_tie_rule. Qed.
Print Assumptions C12_nn_tie_rule.

(* remapping onto the source grid's own elements (distinct positions) is the identity,
   whenever the coded choice of the element kind is the data's kind *)
Theorem C12_identity : forall nn nf ne t data kd r0,
  hd_error data = Some r0 ->
  c12_kind_by_length nn nf ne (Z.of_nat (length r0)) = Some kd ->
  c12_own_table (c12_table t kd) ->
  Forall (fun row => length row = length (c12_table t kd)) data ->
  c12_nn nn nf ne t data = Some data.
Proof. exact c12_nn_identity. Qed.
Print Assumptions C12_identity.

(* the coded choice is the data's kind when the three element counts differ ... *)
Theorem C12_kind_by_length_distinct : forall nn nf ne kd, nn <> nf -> nn <> ne -> nf <> ne ->
  c12_kind_by_length nn nf ne (c12_count nn nf ne kd) = Some kd.
Proof. exact c12_kind_by_length_distinct. Qed.
Print Assumptions C12_kind_by_length_distinct.

(* ... and is not when they coincide (tetrahedron: face data taken for node data) *)
Theorem C12_kind_by_length_refuted : exists nn nf ne kd,
  0 < nn /\ 0 < nf /\ 0 < ne /\ c12_kind_by_length nn nf ne (c12_count nn nf ne kd) <> Some kd.
Proof. exact c12_kind_by_length_refuted. Qed.
Print Assumptions C12_kind_by_length_refuted.

(* repaired variant (kind from the dimension name): always the data's kind, identity unconditional *)
Theorem C12_kind_by_dim : forall kd, c12_kind_by_dim (c12_dim_of kd) = Some kd.
Proof. exact c12_kind_by_dim_ok. Qed.
Print Assumptions C12_kind_by_dim.

Theorem C12_identity_by_dim : forall kd t data,
  c12_own_table (c12_table t kd) ->
  Forall (fun row => length row = length (c12_table t kd)) data ->
  c12_nn_by_dim (c12_dim_of kd) t data = Some data.
Proof. exact c12_nn_by_dim_identity. Qed.
Print Assumptions C12_identity_by_dim.

(* IDW: guards and shape; every leading index alike *)
Theorem C12_idw : forall nn nf ne t data scale p eps k res,
  c12_idw nn nf ne t data scale p eps k = Some res ->
  (2 <= k)%nat /\
  exists r0 kd, hd_error data = Some r0 /\ (k <= length r0)%nat /\
    c12_kind_by_length nn nf ne (Z.of_nat (length r0)) = Some kd /\
    Z.of_nat k <= c12_count nn nf ne kd /\
    length res = length data /\
    forall l row, nth_error data l = Some row ->
      nth_error res l = Some (map (c12_idw_point scale p eps k row) (c12_table t kd)).
Proof. exact c12_idw_spec. Qed.
Print Assumptions C12_idw.

(* every admissible k (2 <= k <= number of source elements carrying the data) is answered, whatever the
   element kind and the number of destination points *)
Theorem C12_idw_answers : forall nn nf ne t data scale p eps k r0 kd,
  hd_error data = Some r0 -> c12_kind_by_length nn nf ne (Z.of_nat (length r0)) = Some kd ->
  (2 <= k <= length r0)%nat -> exists res, c12_idw nn nf ne t data scale p eps k = Some res.
Proof. exact c12_idw_answers. Qed.
Print Assumptions C12_idw_answers.

(* the k neighbours entering the weighted value are the k nearest (brute-force specification of C11) *)
Theorem C12_idw_neighbours : forall keys k, c11_knn_ok keys k (c11_knn keys k).
Proof. exact c11_knn_spec. Qed.
Print Assumptions C12_idw_neighbours.

(* convex combination: the value lies between any bounds of the k neighbours' values *)
Theorem C12_convex : forall scale p eps k row keys lo hi,
  (0 < eps)%Q -> (1 <= k)%nat -> keys <> [] -> Forall (fun d => 0 <= d) keys ->
  (forall x, In x (c11_knn keys k) -> (lo <= nth (snd x) row 0 <= hi)%Q) ->
  (lo <= c12_idw_point scale p eps k row keys <= hi)%Q.
Proof. exact c12_idw_convex. Qed.
Print Assumptions C12_convex.

(* constant fields are reproduced *)
Theorem C12_const : forall scale p eps k row keys c,
  (0 < eps)%Q -> (1 <= k)%nat -> keys <> [] -> Forall (fun d => 0 <= d) keys ->
  (forall x, In x (c11_knn keys k) -> (nth (snd x) row 0 == c)%Q) ->
  (c12_idw_point scale p eps k row keys == c)%Q.
Proof. exact c12_idw_const. Qed.
Print Assumptions C12_const.

(* the IDW value is linear in the data *)
Theorem C12_linear : forall scale p eps k keys r1 r2 r3 a b,
  (forall j, nth j r3 0 == a * nth j r1 0 + b * nth j r2 0)%Q ->
  (c12_idw_point scale p eps k r3 keys
   == a * c12_idw_point scale p eps k r1 keys + b * c12_idw_point scale p eps k r2 keys)%Q.
Proof. exact c12_idw_linear. Qed.
Print Assumptions C12_linear.

(* coincident points: the weight at d = 0 is 1/eps (positive power) resp. 1/(1+eps) (power 0); no division
   by zero, and monotonicity holds there too: it is the largest weight *)
Theorem C12_weight_at_zero : forall scale p eps, (c12_weight scale (S p) eps 0%Z == / eps)%Q.
Proof. exact c12_weight_at_zero. Qed.
Print Assumptions C12_weight_at_zero.

Theorem C12_weight_power_zero : forall scale eps d, (c12_weight scale 0 eps d == / (1 + eps))%Q.
Proof. exact c12_weight_power_zero. Qed.
Print Assumptions C12_weight_power_zero.

Theorem C12_weight_max_at_zero : forall scale p eps d, (0 < eps)%Q -> 0 <= d ->
  (c12_weight scale p eps d <= c12_weight scale p eps 0%Z)%Q.
Proof. exact c12_weight_max_at_zero. Qed.
Print Assumptions C12_weight_max_at_zero.

(* weights 1/(d^p + eps) do not increase with distance, for every power p >= 0 *)
Theorem C12_monotone : forall scale p eps d1 d2, (0 < eps)%Q -> 0 <= d1 <= d2 ->
  (c12_weight scale p eps d2 <= c12_weight scale p eps d1)%Q.
Proof. exact c12_weight_monotone. Qed.
Print Assumptions C12_monotone.

(* the normalised weights sit on the k nearest, are positive and sum to one *)
Theorem C12_weights : forall scale p eps k keys,
  (0 < eps)%Q -> (1 <= k)%nat -> keys <> [] -> Forall (fun d => 0 <= d) keys ->
  let ws := c12_idw_weights scale p eps k keys in
  map fst ws = map snd (c11_knn keys k)
  /\ (forall iw, In iw ws -> (0 < snd iw)%Q)
  /\ (c12_qsum (map snd ws) == 1)%Q.
Proof. exact c12_idw_weights_spec. Qed.
Print Assumptions C12_weights.

(* ... and the normalised weight of a nearer neighbour is not smaller *)
Theorem C12_weights_monotone : forall scale p eps k keys x y,
  (0 < eps)%Q -> (1 <= k)%nat -> keys <> [] -> Forall (fun d => 0 <= d) keys ->
  In x (c11_knn keys k) -> In y (c11_knn keys k) -> fst x <= fst y ->
  let s := c12_qsum (map (fun z => c12_weight scale p eps (fst z)) (c11_knn keys k)) in
  (c12_weight scale p eps (fst y) / s <= c12_weight scale p eps (fst x) / s)%Q.
Proof. exact c12_idw_weights_monotone. Qed.
Print Assumptions C12_weights_monotone.

(* the one-division form that is extracted and run equals the coded normalise-then-sum form *)
Theorem C12_idw_fast : forall nn nf ne t data scale p eps k,
  match c12_idw nn nf ne t data scale p eps k, c12_idw_fast nn nf ne t data scale p eps k with
  | Some a, Some b => Forall2 (Forall2 Qeq) a b
  | None, None => True
  | _, _ => False
  end.
Proof. exact c12_idw_fast_shape. Qed.
Print Assumptions C12_idw_fast.

(* output dimensions: the input's with the last replaced by the destination's *)
Theorem C12_dims : forall dims dest, dims <> [] ->
  length (c12_out_dims dims dest) = length dims
  /\ (forall i, (S i < length dims)%nat -> nth_error (c12_out_dims dims dest) i = nth_error dims i)
  /\ nth_error (c12_out_dims dims dest) (length dims - 1) = Some (c12_dim_of dest).
Proof. exact c12_out_dims_spec. Qed.
Print Assumptions C12_dims.

(* nearest-neighbour remapping answers whenever the trailing length is one of the counts, whatever the
   rank of the data and the number of destination elements (one included) *)
Theorem C12_nn_answers : forall nn nf ne t data r0 kd,
  hd_error data = Some r0 -> c12_kind_by_length nn nf ne (Z.of_nat (length r0)) = Some kd ->
  exists res, c12_nn nn nf ne t data = Some res.
Proof. exact c12_nn_answers. Qed.
Print Assumptions C12_nn_answers.

(* histories on one source grid (earlier remaps, then public mutators of its coordinates, then a
   remap): with reconstruct=True on every tree request the tree is built from the current coordinates ... *)
Theorem C12_fresh_tree : forall ops cur cache p,
  In p (c12_run_ops true cur cache ops) -> fst p = snd p.
Proof. exact c12_fresh_tree. Qed.
Print Assumptions C12_fresh_tree.

(* ... without it a remap after a mutation reuses the stale tree *)
Theorem C12_cached_tree_refuted : exists ops p, In p (c12_run_ops false 0 None ops) /\ fst p <> snd p.
Proof. exact c12_cached_tree_refuted. Qed.
Print Assumptions C12_cached_tree_refuted.

(* decided for the current source (flag regenerated from _remap_grid_parse, Gen/C12_flags.v) *)
Theorem C12_source_tree_current_source :
  if c12_remap_reconstruct
  then forall ops cur cache p, In p (c12_run_ops c12_remap_reconstruct cur cache ops) -> fst p = snd p
  else exists ops p, In p (c12_run_ops c12_remap_reconstruct 0 None ops) /\ fst p <> snd p.
Proof. exact c12_source_tree_current_source. Qed.
Print Assumptions C12_source_tree_current_source.
