(* C14 — arc predicates and intersections agree with exact spherical geometry.
   Statements only; each closed by `exact` of a lemma from Proofs/, followed by Print Assumptions.
   Points are integer direction vectors (homogeneous coordinates of rational points). *)
From Coq Require Import Reals.
From Verif Require Import Base C14_consts C14 C14_proofs.
Local Open Scope Z_scope.

(* --- the specification predicate is the minor arc: non-negative combinations of the endpoints --- *)
Theorem C14_on_arc_is_cone_fwd : forall a b p, c14_on_arc a b p = true ->
  exists al be, 0 <= al /\ 0 <= be /\
    c14_scale (c14_nsq (c14_cross a b)) p = c14_add (c14_scale al a) (c14_scale be b).
Proof. exact c14_on_arc_cone_fwd. Qed.
Print Assumptions C14_on_arc_is_cone_fwd.

Theorem C14_on_arc_is_cone_bwd : forall a b p k al be, 0 < k -> 0 <= al -> 0 <= be ->
  c14_scale k p = c14_add (c14_scale al a) (c14_scale be b) -> c14_on_arc a b p = true.
Proof. exact c14_on_arc_cone_bwd. Qed.
Print Assumptions C14_on_arc_is_cone_bwd.

(* --- well defined on rational points: invariant under positive scaling of each vector --- *)
Theorem C14_on_arc_scale : forall k l m a b p, 0 < k -> 0 < l -> 0 < m ->
  c14_on_arc (c14_scale k a) (c14_scale l b) (c14_scale m p) = c14_on_arc a b p.
Proof. exact c14_on_arc_scale. Qed.
Print Assumptions C14_on_arc_scale.

(* --- answers unchanged by swapping an arc's endpoints --- *)
Theorem C14_on_arc_swap_endpoints : forall a b p, c14_on_arc a b p = c14_on_arc b a p.
Proof. exact c14_on_arc_swap. Qed.
Print Assumptions C14_on_arc_swap_endpoints.

(* --- ... or rotating everything about the polar axis (every rational rotation angle) --- *)
Theorem C14_on_arc_zrot : forall c s r, 0 < r -> c * c + s * s = r * r -> forall a b p,
  c14_on_arc (c14_zrot c s r a) (c14_zrot c s r b) (c14_zrot c s r p) = c14_on_arc a b p.
Proof. exact c14_on_arc_zrot. Qed.
Print Assumptions C14_on_arc_zrot.

(* --- intersections: every reported point lies on both arcs (and on both great circles) --- *)
Theorem C14_cross_on_both : forall a b c d y, In y (c14_arc_cross a b c d) ->
  c14_on_arc a b y = true /\ c14_on_arc c d y = true /\ y <> (0, 0, 0) /\
  c14_dot (c14_cross a b) y = 0 /\ c14_dot (c14_cross c d) y = 0.
Proof. exact c14_arc_cross_sound. Qed.
Print Assumptions C14_cross_on_both.

(* --- two arcs on different great circles have at most one common point --- *)
Theorem C14_cross_unique : forall a b c d p q,
  c14_cross (c14_cross a b) (c14_cross c d) <> (0, 0, 0) -> p <> (0, 0, 0) -> q <> (0, 0, 0) ->
  c14_on_arc a b p = true -> c14_on_arc c d p = true -> c14_on_arc a b q = true -> c14_on_arc c d q = true ->
  c14_same_dir p q.
Proof. exact c14_common_point_unique. Qed.
Print Assumptions C14_cross_unique.

Theorem C14_cross_at_most_one : forall a b c d, (length (c14_arc_cross a b c d) <= 1)%nat.
Proof. exact c14_arc_cross_at_most_one. Qed.
Print Assumptions C14_cross_at_most_one.

(* --- ... and every common point is reported (none for disjoint arcs, one for a crossing) --- *)
Theorem C14_cross_complete : forall a b c d p,
  c14_cross (c14_cross a b) (c14_cross c d) <> (0, 0, 0) -> p <> (0, 0, 0) ->
  c14_on_arc a b p = true -> c14_on_arc c d p = true ->
  exists y, In y (c14_arc_cross a b c d) /\ c14_same_dir y p.
Proof. exact c14_arc_cross_complete. Qed.
Print Assumptions C14_cross_complete.

(* --- invariances of the intersection --- *)
Theorem C14_cross_swap_arcs : forall a b c d, c14_arc_cross a b c d = c14_arc_cross c d a b.
Proof. exact c14_arc_cross_swap_arcs. Qed.
Print Assumptions C14_cross_swap_arcs.

Theorem C14_cross_swap_endpoints : forall a b c d,
  c14_arc_cross b a c d = c14_arc_cross a b c d /\ c14_arc_cross a b d c = c14_arc_cross a b c d.
Proof. exact c14_arc_cross_swap_endpoints_both. Qed.
Print Assumptions C14_cross_swap_endpoints.

Theorem C14_cross_zrot : forall cc s r a b c d, 0 < r -> cc * cc + s * s = r * r ->
  c14_arc_cross (c14_zrot cc s r a) (c14_zrot cc s r b) (c14_zrot cc s r c) (c14_zrot cc s r d)
  = map (fun y => c14_scale (r * r * r) (c14_zrot cc s r y)) (c14_arc_cross a b c d).
Proof. exact c14_arc_cross_zrot. Qed.
Print Assumptions C14_cross_zrot.

(* --- point_within_gca as coded since a3bf7a7f (undirected: on-plane test + two sign tests): for EVERY arc shorter than
       180 degrees (through a pole, meridional, almost meridional, anywhere) and every query that is exactly on the great
       circle or fails the on-plane tolerance, and is not within MACHINE_EPSILON beyond an endpoint, the decision is
       exactly the specification --- *)
Theorem C14_pwg_correct : forall a b p,
  c14_cross a b <> (0, 0, 0) ->
  (c14_triple a b p = 0 \/ c14_plane_ok a b p = false) ->
  c14_clear_pt a b p ->
  c14_pwg a b p = Some (c14_on_arc a b p).
Proof. exact c14_pwg_correct. Qed.
Print Assumptions C14_pwg_correct.

(* --- ... and the undirected decision never depends on the order of the endpoints (no hypotheses) --- *)
Theorem C14_pwg_swap_endpoints : forall a b p, c14_pwg a b p = c14_pwg b a p.
Proof. exact c14_pwg_swap. Qed.
Print Assumptions C14_pwg_swap_endpoints.

(* --- HISTORICAL (code before a3bf7a7f, model c14_pwg_lonlat): the longitude-interval logic decided exactly the
       specification for every arc whose plane does not contain the polar axis --- *)
Theorem C14_old_lonlat_general_correct : forall a b p,
  c14_z (c14_cross a b) <> 0 ->
  c14_is_pole a = false -> c14_is_pole b = false -> c14_is_pole p = false ->
  p <> (0, 0, 0) ->
  (c14_triple a b p = 0 \/ c14_plane_ok a b p = false) ->
  c14_pwg_lonlat a b p = Some (c14_on_arc a b p).
Proof. exact c14_lonlat_general_correct. Qed.
Print Assumptions C14_old_lonlat_general_correct.

(* --- ... and for every arc lying on one meridian half (both endpoints at the same longitude, no pole): the
       same-longitude branch (latitude interval) decides exactly the specification --- *)
Theorem C14_old_lonlat_meridian_correct : forall a b p,
  c14_lon_eq (c14_lon_f a) (c14_lon_f b) = true ->
  c14_cross a b <> (0, 0, 0) ->
  c14_is_pole a = false -> c14_is_pole b = false -> c14_is_pole p = false ->
  (c14_x a <> 0 \/ c14_y a <> 0) -> (c14_x b <> 0 \/ c14_y b <> 0) -> (c14_x p <> 0 \/ c14_y p <> 0) ->
  (c14_triple a b p = 0 \/ c14_plane_ok a b p = false) ->
  c14_pwg_lonlat a b p = Some (c14_on_arc a b p).
Proof. exact c14_lonlat_meridian_correct. Qed.
Print Assumptions C14_old_lonlat_meridian_correct.

(* --- ... but not in the pole branch: with a pole strictly inside the arc the old logic violated the property
       (fixed in /repo by a3bf7a7f) --- *)
Theorem C14_old_lonlat_through_pole_refuted :
  exists a b p, c14_cross a b <> (0, 0, 0) /\ c14_on_arc a b (0, 0, 1) = true /\
                c14_on_arc a b p = false /\ c14_pwg_lonlat a b p = Some true.
Proof. exact c14_lonlat_through_pole_refuted. Qed.
Print Assumptions C14_old_lonlat_through_pole_refuted.

(* fixed in /repo (b3cc87d4): _decide_pole_latitude picks the same pole for either order of the endpoints *)
Theorem C14_decide_pole_order_independent : forall l1 l2,
  c14_lat_le (c14_lat_abs l1) (c14_lat_abs l2) = false ->
  c14_decide_pole l1 l2 = c14_decide_pole l2 l1.
Proof. exact c14_decide_pole_sym. Qed.
Print Assumptions C14_decide_pole_order_independent.

Theorem C14_old_lonlat_swap_refuted :
  exists a b p, c14_cross a b <> (0, 0, 0) /\ c14_pwg_lonlat a b p <> c14_pwg_lonlat b a p.
Proof. exact c14_lonlat_swap_refuted. Qed.
Print Assumptions C14_old_lonlat_swap_refuted.

(* --- gca_gca_intersection (faithful model) returns exactly the specified common points whenever its four
       membership tests are right and the circles are not numerically parallel --- *)
Theorem C14_gca_gca_structure : forall w0 w1 v0 v1,
  let x := c14_cross (c14_cross w0 w1) (c14_cross v0 v1) in
  let q := c14_nsq w0 * c14_nsq w1 * c14_nsq v0 * c14_nsq v1 in
  c14_small (c14_x x) q && c14_small (c14_y x) q && c14_small (c14_z x) q = false ->
  c14_pwg w0 w1 x = Some (c14_on_arc w0 w1 x) -> c14_pwg v0 v1 x = Some (c14_on_arc v0 v1 x) ->
  c14_pwg w0 w1 (c14_neg x) = Some (c14_on_arc w0 w1 (c14_neg x)) ->
  c14_pwg v0 v1 (c14_neg x) = Some (c14_on_arc v0 v1 (c14_neg x)) ->
  c14_gca_gca w0 w1 v0 v1 = Some (c14_arc_cross w0 w1 v0 v1).
Proof. exact c14_gca_gca_structure. Qed.
Print Assumptions C14_gca_gca_structure.

(* --- end to end, no restriction on the position of the arcs: when the circles are not numerically parallel and neither
       candidate is within MACHINE_EPSILON beyond an endpoint, gca_gca_intersection's model returns exactly the specified
       common points --- *)
Theorem C14_gca_gca_correct : forall w0 w1 v0 v1,
  let x := c14_cross (c14_cross w0 w1) (c14_cross v0 v1) in
  let q := c14_nsq w0 * c14_nsq w1 * c14_nsq v0 * c14_nsq v1 in
  c14_small (c14_x x) q && c14_small (c14_y x) q && c14_small (c14_z x) q = false ->
  x <> (0, 0, 0) ->
  c14_clear_pt w0 w1 x -> c14_clear_pt v0 v1 x -> c14_clear_pt w0 w1 (c14_neg x) -> c14_clear_pt v0 v1 (c14_neg x) ->
  c14_gca_gca w0 w1 v0 v1 = Some (c14_arc_cross w0 w1 v0 v1).
Proof. exact c14_gca_gca_correct. Qed.
Print Assumptions C14_gca_gca_correct.

(* --- extreme latitude: the apex |n|^2 e_z - n_z n is on the circle and no point of the circle is higher --- *)
Theorem C14_apex_highest : forall n q, n <> (0, 0, 0) -> c14_dot n q = 0 ->
  c14_dot n (c14_apex n) = 0 /\ c14_lat_le (c14_lat_of q) (c14_lat_of (c14_apex n)) = true.
Proof. exact c14_apex_highest. Qed.
Print Assumptions C14_apex_highest.

(* sin(lat q) |n|^2 = q . apex : latitude along the circle is governed by the angle to the apex *)
Theorem C14_z_is_dot_apex : forall n q, c14_dot n q = 0 -> c14_z q * c14_nsq n = c14_dot q (c14_apex n).
Proof. exact c14_z_is_dot_apex. Qed.
Print Assumptions C14_z_is_dot_apex.

(* the closed-form parameter d_a_max of extreme_gca_latitude: for exactly unit endpoints its candidate point is
   parallel to the apex, and when 0 < d_a_max < 1 it is a point of the arc *)
Theorem C14_extreme_candidate_is_apex : forall a da b db,
  c14_nsq a = da * da -> c14_nsq b = db * db ->
  c14_cross (c14_node3 a da b db) (c14_apex (c14_cross a b)) = (0, 0, 0).
Proof. exact c14_node3_parallel_apex. Qed.
Print Assumptions C14_extreme_candidate_is_apex.

Theorem C14_extreme_candidate_on_arc : forall a da b db, 0 < da -> 0 < db ->
  let dt := c14_dot a b in
  let num := (c14_z a * dt - c14_z b * (da * da)) * db in
  let den := (c14_z a * db + c14_z b * da) * (dt - da * db) in
  ((0 < den /\ 0 < num < den) \/ (den < 0 /\ den < num < 0)) ->
  c14_on_arc a b (c14_scale (Z.sgn den) (c14_node3 a da b db)) = true.
Proof. exact c14_node3_on_arc. Qed.
Print Assumptions C14_extreme_candidate_on_arc.

(* over R: z along the circle is Zc cos(t - t0): at most the apex value, and on a parameter interval without
   apex angle it is largest at an endpoint *)
Theorem C14_extreme_R : forall z1 z2 Zc t0 t1 t2 t : R,
  (0 <= Zc)%R -> z1 = (Zc * cos t0)%R -> z2 = (Zc * sin t0)%R ->
  let z := fun s => (z1 * cos s + z2 * sin s)%R in
  (t1 <= t <= t2)%R ->
  (z t <= Zc)%R /\ ((t0 <= t1)%R -> (t2 <= t0 + 2 * PI)%R -> (z t <= Rmax (z t1) (z t2))%R).
Proof. exact c14_extreme_R. Qed.
Print Assumptions C14_extreme_R.
