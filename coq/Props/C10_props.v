(* C10 — xarray operations keep a UxDataArray attached to a consistent grid. Statements only.
   c10_routes is re-measured on the installed xarray on every run (Gen/C10_route.v). *)
From Coq Require Import String.
From Verif Require Import Base C10 C10_route C10_proofs.

(* for all finite compositions (any depth) of operations whose final hook attaches the grid, and of
   uxarray's own operations: the result is a UxDataArray on a grid whose element counts equal the
   lengths of its node/edge/face dimensions *)
Theorem C10_closure : forall sz prog v,
  c10_consistent sz v = true -> forallb c10_op_ok prog = true -> c10_consistent sz (c10_eval sz prog v) = true.
Proof. exact closure. Qed.
Print Assumptions C10_closure.

(* xarray operations keep the very same grid object ... *)
Theorem C10_same_grid : forall v h o, h = HReplace \/ h = HCopyShallow ->
  v_grid (c10_apply_hook h v (c10_apply_dimop o (v_dims v))) = v_grid v.
Proof. exact same_grid_object. Qed.
Print Assumptions C10_same_grid.

(* ... deep copies an equal (same family) but distinct (next generation) one *)
Theorem C10_deep_copy : forall v o f g, v_grid v = Some (f, g) ->
  v_grid (c10_apply_hook HCopyDeep v (c10_apply_dimop o (v_dims v))) = Some (f, g + 1)%Z.
Proof. exact deep_copy_equal_distinct. Qed.
Print Assumptions C10_deep_copy.

(* every operation the property names is routed, on this run, to a hook that attaches the grid *)
Theorem C10_required_routes : c10_all_attach c10_required_ops c10_routes = true.
Proof. exact required_routes_attach. Qed.
Print Assumptions C10_required_routes.

(* an operation routed to the plain constructor loses the property (the known findings) *)
Theorem C10_plain_refuted : forall sz v o h,
  h = HPlain \/ h = HConstructDirect \/ h = HInit \/ h = HRaises ->
  c10_consistent sz (c10_step sz v (XOp h o)) = false.
Proof. exact plain_route_refuted. Qed.
Print Assumptions C10_plain_refuted.
