(* C10 — xarray operations keep a UxDataArray attached to a consistent grid. Statements only.
   c10_routes is re-measured on the installed xarray on every run (Gen/C10_route.v). *)
From Coq Require Import String.
From Verif Require Import Base C10 C10_route C10_proofs C10_more_proofs C10_reach_proofs.

(* for all finite compositions (any depth) of operations whose final hook attaches the grid, and of
   uxarray's own operations: the result is a UxDataArray on a grid whose element counts equal the
   lengths of its node/edge/face dimensions *)
Theorem C10_closure : forall sz prog v,
  c10_consistent sz v = true -> forallb c10_op_ok prog = true -> c10_consistent sz (c10_eval sz prog v) = true.
Proof. exact closure. Qed.
Print Assumptions C10_closure.

(* xarray operations keep the very same grid object ... *)
Theorem C10_same_grid : forall v h o, h = HReplace \/ h = HCopyShallow ->
  v_grid (c10_apply_hook h v (c10_apply_dimop o (v_dims v))) = v_grid v.
Proof. exact same_grid_object. Qed.
Print Assumptions C10_same_grid.

(* ... deep copies an equal (same family) but distinct (next generation) one *)
Theorem C10_deep_copy : forall v o f g, v_grid v = Some (f, g) ->
  v_grid (c10_apply_hook HCopyDeep v (c10_apply_dimop o (v_dims v))) = Some (f, g + 1)%Z.
Proof. exact deep_copy_equal_distinct. Qed.
Print Assumptions C10_deep_copy.

(* every operation the property names is routed, on this run, to a hook that attaches the grid *)
Theorem C10_required_routes : c10_all_attach c10_required_ops c10_routes = true.
Proof. exact required_routes_attach. Qed.
Print Assumptions C10_required_routes.

(* an operation routed to the plain constructor loses the property (the known findings) *)
Theorem C10_plain_refuted : forall sz v o h,
  h = HPlain \/ h = HConstructDirect \/ h = HInit \/ h = HRaises ->
  c10_consistent sz (c10_step sz v (XOp h o)) = false.
Proof. exact plain_route_refuted. Qed.
Print Assumptions C10_plain_refuted.

(* what an operation must NOT change: uxarray's own operations touch the grid dimension only *)
Theorem C10_ux_ops_keep_other_dims : forall sz v op,
  match op with XOp _ _ => False | UTopoAgg dst | URemap _ dst => c10_is_grid_dim dst = true | _ => True end ->
  nongrid (v_dims (c10_step sz v op)) = nongrid (v_dims v).
Proof. exact ux_ops_keep_other_dims. Qed.
Print Assumptions C10_ux_ops_keep_other_dims.

(* which grid the result is attached to: the family changes exactly at isel/subset, remap and dual *)
Theorem C10_result_family : forall sz v op f g, v_grid v = Some (f, g) -> c10_op_ok op = true ->
  exists g', v_grid (c10_step sz v op) = Some (c10_family_after op f, g').
Proof. exact result_family. Qed.
Print Assumptions C10_result_family.

(* k deep copies in a row: an equal grid (same family), k objects away *)
Theorem C10_deep_copies_generation : forall sz k v f g, v_grid v = Some (f, g) ->
  v_grid (c10_eval sz (repeat (XOp HCopyDeep DKeep) k) v) = Some (f, g + Z.of_nat k).
Proof. exact deep_copies_generation. Qed.
Print Assumptions C10_deep_copies_generation.

(* machine-checked counterparts of the listed findings *)
Theorem C10_griddim_index_refuted :
  exists sz v n, c10_consistent sz v = true /\
    c10_consistent sz (c10_step sz v (XOp HReplace (DResize 2 n))) = false.
Proof. exact griddim_index_refuted. Qed.
Print Assumptions C10_griddim_index_refuted.

Theorem C10_gridless_route_refuted : forall sz v o, c10_consistent sz (c10_step sz v (XOp HInit o)) = false.
Proof. exact gridless_route_refuted. Qed.
Print Assumptions C10_gridless_route_refuted.

(* every REACHABLE intermediate value, not only the final one: after any prefix of an admissible program the value is a
   UxDataArray on a grid whose element counts equal the lengths of its element dimensions *)
Theorem C10_closure_every_prefix : forall sz prog v n,
  c10_consistent sz v = true -> forallb c10_op_ok prog = true ->
  c10_consistent sz (c10_eval sz (firstn n prog) v) = true.
Proof. exact closure_prefixes. Qed.
Print Assumptions C10_closure_every_prefix.

(* no admissible operation creates an element dimension ... *)
Theorem C10_element_dims_never_created : forall sz v op, c10_op_ok op = true ->
  (length (griddims (v_dims (c10_step sz v op))) <= length (griddims (v_dims v)))%nat.
Proof. exact griddims_never_created. Qed.
Print Assumptions C10_element_dims_never_created.

(* ... hence a value with one element dimension never comes to carry two, at any depth *)
Theorem C10_element_dims_bounded : forall sz prog v, forallb c10_op_ok prog = true ->
  (length (griddims (v_dims (c10_eval sz prog v))) <= length (griddims (v_dims v)))%nat.
Proof. exact griddims_bounded_by_start. Qed.
Print Assumptions C10_element_dims_bounded.

(* the dims of an xarray operation's result are those plain xarray computes, whichever hook builds the object *)
Theorem C10_xop_dims_as_plain : forall sz v h o, v_dims (c10_step sz v (XOp h o)) = c10_apply_dimop o (v_dims v).
Proof. exact xop_dims_as_plain. Qed.
Print Assumptions C10_xop_dims_as_plain.

(* integrate: same grid object, the face dimension gone, every other dimension kept *)
Theorem C10_integrate_drops_face : forall sz v,
  v_grid (c10_step sz v UIntegrate) = v_grid v /\
  (forall n, ~ In (2, n)%Z (v_dims (c10_step sz v UIntegrate))) /\
  (forall d n, d <> 2%Z -> (In (d, n) (v_dims (c10_step sz v UIntegrate)) <-> In (d, n) (v_dims v))).
Proof. exact integrate_drops_face. Qed.
Print Assumptions C10_integrate_drops_face.
