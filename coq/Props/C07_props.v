(* C07 — encoding a grid (UGRID / Exodus / SCRIP) and reading it back preserves the grid, for
   every history of earlier encodes and materialised derived variables.
   Statements only; each closed by `exact` of a lemma from Proofs/, followed by Print Assumptions.
   A dataset `ds` is ANY list of variables (so "which derived quantities were materialised" is
   quantified over by `forall ds`); a history `h` is ANY list of encode calls on ANY datasets;
   `vr` selects the code as it is (c07_faithful) or its repairs. *)
From Coq Require Import Reals Permutation.
From Verif Require Import Base C07 C07_proofs C07_reals C07_exodus_repaired C07_scrip_repaired C07_frame.

(* ---- the module-level template -------------------------------------------------------- *)

(* after every history, for every variant, each entry of BASE_GRID_TOPOLOGY_ATTRS is one of the
   canonical entries and no base entry was lost *)
Theorem C07_template_invariant : forall vr h, c07_tmpl_ok (c07_template_after vr c07_base_template h).
Proof. exact c07_template_invariant. Qed.
Print Assumptions C07_template_invariant.

(* aliased template (before 0ec27eb7): it accumulates exactly what earlier UGRID encodes assigned *)
Theorem C07_template_accumulates : forall vr h kv, vr_copy_template vr = false ->
  (In kv (c07_template_after vr c07_base_template h) <->
   In kv c07_base_template \/ exists sp, In sp h /\ c07_step_adds sp kv).
Proof. exact c07_template_accumulates. Qed.
Print Assumptions C07_template_accumulates.

(* with the template copied (the code as it is) it never changes *)
Theorem C07_template_copied : forall vr h tmpl, vr_copy_template vr = true -> c07_template_after vr tmpl h = tmpl.
Proof. exact c07_template_copied. Qed.
Print Assumptions C07_template_copied.

(* ---- self-consistency of the encoded UGRID dataset ------------------------------------ *)

(* fresh process: every name in the topology metadata exists, whatever was materialised *)
Theorem C07_ugrid_closed_fresh : forall vr ds, c07_ds_wfb ds = true ->
  c07_closed (uo_ds (c07_encode_ugrid vr c07_base_template ds)) = true.
Proof. exact c07_ugrid_closed_fresh. Qed.
Print Assumptions C07_ugrid_closed_fresh.

(* every history, aliased template (the code before 0ec27eb7): closed exactly when every entry added by an earlier UGRID
   encode (of any grid) is satisfied by the dataset encoded now *)
Theorem C07_ugrid_closed_history : forall vr h ds, vr_copy_template vr = false -> c07_ds_wfb ds = true ->
  (c07_closed (uo_ds (c07_encode_ugrid vr (c07_template_after vr c07_base_template h) ds)) = true <->
   forall sp kv, In sp h -> c07_step_adds sp kv -> c07_entry_closed (c07_ds1 ds) kv = true).
Proof. exact c07_ugrid_closed_history. Qed.
Print Assumptions C07_ugrid_closed_history.

(* ... hence, with the aliased template (before /repo 0ec27eb7), not for all histories *)
Theorem C07_ugrid_closed_alias_refuted :
  exists h ds, c07_ds_wfb ds = true /\
    c07_closed (uo_ds (c07_encode_ugrid c07_before_fixes (c07_template_after c07_before_fixes c07_base_template h) ds)) = false.
Proof. exact c07_ugrid_closed_refuted. Qed.
Print Assumptions C07_ugrid_closed_alias_refuted.

(* every history, template copied (the code as it is, c07_faithful): always closed *)
Theorem C07_ugrid_closed_every_history : forall vr h ds, vr_copy_template vr = true -> c07_ds_wfb ds = true ->
  c07_closed (uo_ds (c07_encode_ugrid vr (c07_template_after vr c07_base_template h) ds)) = true.
Proof. exact c07_ugrid_closed_repaired. Qed.
Print Assumptions C07_ugrid_closed_every_history.

(* the hypothesis c07_ds_wfb matters: _encode_ugrid applied to a Cartesian-only dataset (node_x/y/z,
   no node_lon) names variables it does not have and the result cannot be read back (its Exodus
   encoding works); since /repo 180a4a66 the dispatch derives node_lon/node_lat first, so the
   encoder no longer sees such a dataset *)
Theorem C07_ugrid_cartesian_only_refuted :
  exists ds, c07_has ds c07_s_node_x = true /\ c07_has ds c07_s_node_lon = false /\
    c07_closed (uo_ds (c07_encode_ugrid c07_faithful c07_base_template ds)) = false /\
    c07_read_ugrid false (uo_ds (c07_encode_ugrid c07_faithful c07_base_template ds)) = None /\
    (exists o, c07_encode_exodus c07_faithful ds = Some o).
Proof. exact c07_ugrid_cartesian_only_refuted. Qed.
Print Assumptions C07_ugrid_cartesian_only_refuted.

(* ---- can be written to NetCDF --------------------------------------------------------- *)

(* for every template a history can produce: writable iff the grid's own variables — and the
   dataset's global attributes, carried as one more entry — hold only storable attributes (the
   topology variable never blocks; Example c07_ugrid_writable_global_attrs) *)
Theorem C07_ugrid_writable : forall vr tmpl ds, c07_tmpl_ok tmpl ->
  c07_writable (uo_ds (c07_encode_ugrid vr tmpl ds)) = c07_writable (c07_ds1 (c07_ds0 vr ds)).
Proof. exact c07_ugrid_writable. Qed.
Print Assumptions C07_ugrid_writable.

(* without the stripping (before /repo 9a5ff0a0): not after edge_node_connectivity (boolean
   fill_value_mask) was built *)
Theorem C07_ugrid_writable_refuted :
  exists ds, c07_ds_wfb ds = true /\
    c07_writable (uo_ds (c07_encode_ugrid c07_before_fixes c07_base_template ds)) = false.
Proof. exact c07_ugrid_writable_refuted. Qed.
Print Assumptions C07_ugrid_writable_refuted.

(* the code as it is (since 9a5ff0a0; the dispatch hands over a private deep copy; drop the helper objects inverse_indices / fill_value_mask /
   latitude_intervalsIndex / latitude_intervals_name_map from the copy's attrs): writable whenever
   those are the only unstorable attributes, for every template a history can produce *)
Theorem C07_ugrid_writable_stripped : forall vr tmpl ds,
  vr_strip_helpers vr = true -> c07_tmpl_ok tmpl ->
  (forall v kv, In v ds -> In kv (cv_attrs v) -> c07_netcdf_ok (snd kv) = false ->
                c07_is_helper (cv_name v) (fst kv) = true) ->
  c07_writable (uo_ds (c07_encode_ugrid vr tmpl ds)) = true.
Proof. exact c07_ugrid_writable_stripped. Qed.
Print Assumptions C07_ugrid_writable_stripped.

Theorem C07_ugrid_writable_faithful : forall tmpl ds,
  c07_tmpl_ok tmpl ->
  (forall v kv, In v ds -> In kv (cv_attrs v) -> c07_netcdf_ok (snd kv) = false ->
                c07_is_helper (cv_name v) (fst kv) = true) ->
  c07_writable (uo_ds (c07_encode_ugrid c07_faithful tmpl ds)) = true.
Proof. exact c07_ugrid_writable_faithful. Qed.
Print Assumptions C07_ugrid_writable_faithful.

(* ---- UGRID round trip ------------------------------------------------------------------ *)

(* for every template a history can produce and both routes (dataset / NetCDF file): when the
   encoded dataset is self-consistent, the decoder returns the grid's own connectivity table and
   node coordinates, literally (same faces, same order, same corners, same positions).  No hypothesis
   restricts which node indices the faces use: orphan nodes (node 0 included) keep every index in place
   (Example c07_ugrid_roundtrip_orphan_nodes) *)
Theorem C07_ugrid_roundtrip : forall vr tmpl ds via_file,
  c07_tmpl_ok tmpl -> c07_ds_wfb ds = true ->
  c07_closed (uo_ds (c07_encode_ugrid vr tmpl ds)) = true ->
  exists t lon lat,
    c07_fnc_table ds = Some t /\ c07_lonlat ds = Some (lon, lat) /\
    c07_read_ugrid via_file (uo_ds (c07_encode_ugrid vr tmpl ds))
      = Some {| dc_fnc := t; dc_lon := lon; dc_lat := lat |}.
Proof. exact c07_ugrid_roundtrip. Qed.
Print Assumptions C07_ugrid_roundtrip.

(* THE CODE AS IT IS, on the executable run the harness executes: after any history `h` of encode
   calls (any entry point, format, dataset), a UGRID encode of any well-formed dataset is
   self-consistent, decodes to the grid's own connectivity and node coordinates directly and —
   whenever it can be written — through a NetCDF file; it can be written iff the grid's own
   variables carry only storable attributes *)
Theorem C07_run_ugrid : forall h sp,
  c07_dispatch (sp_encode_as sp) (sp_format sp) = Some C07_UGRID -> c07_ds_wfb (sp_ds sp) = true ->
  exists r t lon lat,
    snd (c07_run c07_faithful c07_base_template (h ++ [sp]))
      = snd (c07_run c07_faithful c07_base_template h) ++ [r] /\
    rs_closed r = true /\
    c07_fnc_table (sp_ds sp) = Some t /\ c07_lonlat (sp_ds sp) = Some (lon, lat) /\
    rs_direct r = Some {| dc_fnc := t; dc_lon := lon; dc_lat := lat |} /\
    (rs_writable r = true -> rs_file r = Some {| dc_fnc := t; dc_lon := lon; dc_lat := lat |}) /\
    rs_writable r = c07_writable (c07_ds1 (c07_ds0 c07_faithful (sp_ds sp))).
Proof. exact c07_run_ugrid_faithful. Qed.
Print Assumptions C07_run_ugrid.

(* FRAME: with the template copied (the code as it is), every encode call of a run — whatever was
   encoded before it, of this or of OTHER grids, in any formats, interleaved in any way — returns
   exactly what it returns as the first call of a fresh process; the template is never changed *)
Theorem C07_frame : forall vr h, vr_copy_template vr = true -> forall tmpl,
  snd (c07_run vr tmpl h) = map (fun sp => snd (c07_one vr tmpl sp)) h.
Proof. exact c07_frame. Qed.
Print Assumptions C07_frame.

Theorem C07_frame_histories : forall vr h1 h2 sp, vr_copy_template vr = true ->
  last (snd (c07_run vr c07_base_template (h1 ++ [sp]))) c07_empty_result
  = last (snd (c07_run vr c07_base_template (h2 ++ [sp]))) c07_empty_result.
Proof. exact c07_frame_histories. Qed.
Print Assumptions C07_frame_histories.

(* the aliased template had no frame property *)
Theorem C07_frame_alias_refuted :
  exists h sp,
    last (snd (c07_run c07_before_fixes c07_base_template (h ++ [sp]))) c07_empty_result
    <> snd (c07_one c07_before_fixes c07_base_template sp).
Proof. exact c07_frame_alias_refuted. Qed.
Print Assumptions C07_frame_alias_refuted.

(* ANY SET OF DERIVED VARIABLES (and arbitrary extra variables / global attributes): a well-formed
   grid dataset ds extended by any list S of further variables that do not reuse the core names and
   are not topology variables, coordinates in pairs — after any history the UGRID export is
   self-consistent and decodes, on both routes, to the connectivity and node coordinates of ds *)
Theorem C07_any_derived_set : forall h api fmt ds S ok,
  c07_dispatch api fmt = Some C07_UGRID ->
  c07_ds_wfb ds = true -> c07_derived_ok S = true -> c07_pairs_ok (ds ++ S) = true ->
  exists r t lon lat,
    snd (c07_run c07_faithful c07_base_template
           (h ++ [{| sp_encode_as := api; sp_format := fmt; sp_ds := ds ++ S; sp_areas_ok := ok |}]))
      = snd (c07_run c07_faithful c07_base_template h) ++ [r] /\
    c07_fnc_table ds = Some t /\ c07_lonlat ds = Some (lon, lat) /\
    rs_closed r = true /\
    rs_direct r = Some {| dc_fnc := t; dc_lon := lon; dc_lat := lat |} /\
    (rs_writable r = true -> rs_file r = Some {| dc_fnc := t; dc_lon := lon; dc_lat := lat |}).
Proof. exact c07_any_derived_set. Qed.
Print Assumptions C07_any_derived_set.

(* with the aliased template the reader could fail after a history *)
Theorem C07_ugrid_roundtrip_alias_refuted :
  exists h ds, c07_ds_wfb ds = true /\
    c07_read_ugrid false (uo_ds (c07_encode_ugrid c07_before_fixes
                                   (c07_template_after c07_before_fixes c07_base_template h) ds)) = None.
Proof. exact c07_ugrid_roundtrip_refuted. Qed.
Print Assumptions C07_ugrid_roundtrip_alias_refuted.

(* ---- Exodus ----------------------------------------------------------------------------- *)

(* padding test == -1 (the code before /repo 5ac9d665): the connectivity of every standard-form
   table with 2..8 columns came back unchanged "by accident" (one block of n_max-gons) *)
Theorem C07_exodus_minus1_roundtrip : forall vr nmax t,
  vr_exo_fill vr = -1 -> std_table nmax t -> t <> [] -> c07_exo_elem_ok nmax = true ->
  exists b, c07_exo_connect vr nmax t = Some [b] /\ c07_read_exodus_conn vr [b] = t.
Proof. exact c07_exodus_faithful_roundtrip. Qed.
Print Assumptions C07_exodus_minus1_roundtrip.

(* ... but raised when the table had more than 8 columns although all faces are triangles *)
Theorem C07_exodus_width_refuted :
  exists nmax t, std_tableb nmax t = true /\ t <> [] /\
    Forall (fun r => (3 <= length (corners r) <= 8)%nat) t /\
    c07_exo_connect c07_before_fixes nmax t = None.
Proof. exact c07_exodus_width_refuted. Qed.
Print Assumptions C07_exodus_width_refuted.

(* repairing only the padding test while keeping `start = num_faces` loses a face *)
Theorem C07_exodus_start_refuted :
  exists vr nmax t, vr_exo_fill vr = FILL /\ vr_exo_accumulate vr = false /\ vr_exo_read_all vr = true /\
    std_tableb nmax t = true /\
    exists bs, c07_exo_connect vr nmax t = Some bs /\
      ~ Permutation (map corners (c07_read_exodus_conn vr bs)) (map corners t).
Proof. exact c07_exodus_start_refuted. Qed.
Print Assumptions C07_exodus_start_refuted.

(* padding test == INT_FILL_VALUE, start += num_faces, reader concatenating all connect blocks (the
   code as it is): for every mix of face sizes the decoded faces are the grid's faces as a
   multiset (grouped by size, order kept inside a group) *)
Theorem C07_exodus_roundtrip : forall vr nmax t,
  vr_exo_fill vr = FILL -> vr_exo_accumulate vr = true -> vr_exo_read_all vr = true ->
  std_table nmax t -> Forall (fun r => c07_exo_elem_ok (length (corners r)) = true) t ->
  exists bs, c07_exo_connect vr nmax t = Some bs /\
    Permutation (map corners (c07_read_exodus_conn vr bs)) (map corners t).
Proof. exact c07_exodus_repaired_roundtrip. Qed.
Print Assumptions C07_exodus_roundtrip.

Theorem C07_exodus_roundtrip_faithful : forall nmax t,
  std_table nmax t -> Forall (fun r => c07_exo_elem_ok (length (corners r)) = true) t ->
  exists bs, c07_exo_connect c07_faithful nmax t = Some bs /\
    Permutation (map corners (c07_read_exodus_conn c07_faithful bs)) (map corners t).
Proof. exact c07_exodus_roundtrip_faithful. Qed.
Print Assumptions C07_exodus_roundtrip_faithful.

(* the blocks made explicit, for any number of blocks: block k = the faces with the k-th smallest
   occurring corner count, in their original order, 1-based; the reader returns them block after
   block (c07_size_groups: non-empty buckets by corner count, ascending) *)
Theorem C07_exodus_blocks_explicit : forall vr nmax t,
  vr_exo_fill vr = FILL -> vr_exo_accumulate vr = true -> vr_exo_read_all vr = true ->
  std_table nmax t -> Forall (fun r => c07_exo_elem_ok (length (corners r)) = true) t ->
  exists bs, c07_exo_connect vr nmax t = Some bs /\
    map eb_connect bs = map (map (map (Z.add 1))) (c07_size_groups nmax t) /\
    map corners (c07_read_exodus_conn vr bs) = concat (c07_size_groups nmax t).
Proof. exact c07_exodus_blocks_explicit. Qed.
Print Assumptions C07_exodus_blocks_explicit.

(* node positions: without np.deg2rad (before /repo ce96ede9) _lonlat_rad_to_xyz was fed DEGREES *)
Theorem C07_exodus_coord_degrees_refuted :
  exists lon lat, (-180 <= lon <= 180 /\ -90 <= lat <= 90 /\
                   c07_exo_point false lon lat <> c07_true_point lon lat)%R.
Proof. exact c07_exo_point_refuted. Qed.
Print Assumptions C07_exodus_coord_degrees_refuted.

(* with the degree -> radian step (the code as it is) it stores the node's own point *)
Theorem C07_exodus_coord : forall lon lat, c07_exo_point true lon lat = c07_true_point lon lat.
Proof. exact c07_exo_point_repaired. Qed.
Print Assumptions C07_exodus_coord.

(* ---- SCRIP -------------------------------------------------------------------------------- *)

(* the code as it is (since /repo 5e414c62: shorter faces repeat their last corner on export, repeated
   trailing corners become padding on import): grids of ANY mix of face sizes, whose faces have
   pairwise distinct corner positions, come back with the same faces, face order, corner order and
   positions *)
Theorem C07_scrip_roundtrip : forall m t lon lat,
  std_table m t ->
  Forall (fun r => corners r <> [] /\
                   Forall (fun i => 0 <= i < Z.of_nat (length lon)) (corners r) /\
                   NoDup (map (c07_pos lon lat) (corners r))) t ->
  exists c d, c07_encode_scrip true t lon lat = Some c /\ c07_read_scrip true true c = Some d /\
    c07_positions (dc_lon d) (dc_lat d) (dc_fnc d) = c07_positions lon lat t /\
    length (dc_fnc d) = length t.
Proof. exact c07_scrip_repaired_roundtrip. Qed.
Print Assumptions C07_scrip_roundtrip.

(* ... stated on the variant record of the code as it is (mixed-size grids included) *)
Theorem C07_scrip_mixed_roundtrip : forall m t lon lat,
  std_table m t ->
  Forall (fun r => corners r <> [] /\
                   Forall (fun i => 0 <= i < Z.of_nat (length lon)) (corners r) /\
                   NoDup (map (c07_pos lon lat) (corners r))) t ->
  exists c d, c07_encode_scrip (vr_scrip_pad c07_faithful) t lon lat = Some c /\
    c07_read_scrip (vr_scrip_pad c07_faithful) true c = Some d /\
    c07_positions (dc_lon d) (dc_lat d) (dc_fnc d) = c07_positions lon lat t /\
    length (dc_fnc d) = length t.
Proof. exact c07_scrip_roundtrip_faithful. Qed.
Print Assumptions C07_scrip_mixed_roundtrip.

(* without the padding rule (before 5e414c62): grids whose faces all have the same size came back
   exactly ... *)
Theorem C07_scrip_nopad_roundtrip : forall m t lon lat,
  Forall (fun r => length r = m /\ Forall (fun i => 0 <= i < Z.of_nat (length lon)) r) t ->
  exists c d, c07_encode_scrip false t lon lat = Some c /\ c07_read_scrip false true c = Some d /\
    c07_positions (dc_lon d) (dc_lat d) (dc_fnc d) = c07_positions lon lat t /\
    length (dc_fnc d) = length t.
Proof. exact c07_scrip_roundtrip. Qed.
Print Assumptions C07_scrip_nopad_roundtrip.

(* ... while grids mixing face sizes made the encoder index with the fill value and raise *)
Theorem C07_scrip_mixed_before_fix_refuted :
  exists t lon lat, std_tableb 4 t = true /\
    c07_encode_scrip (vr_scrip_pad c07_before_fixes) t lon lat = None.
Proof. exact c07_scrip_mixed_before_fix_refuted. Qed.
Print Assumptions C07_scrip_mixed_before_fix_refuted.

(* boundary of C07_scrip_roundtrip: a face whose LAST TWO real corners coincide in position comes
   back with the repeated corner dropped (degenerate face, outside the property) *)
Theorem C07_scrip_coinciding_last_corners :
  exists t lon lat c d,
    std_tableb 4 t = true /\
    c07_encode_scrip true t lon lat = Some c /\ c07_read_scrip true true c = Some d /\
    c07_positions lon lat t = [[(10, 7); (30, 5); (20, 6); (20, 6)]] /\
    c07_positions (dc_lon d) (dc_lat d) (dc_fnc d) = [[(10, 7); (30, 5); (20, 6)]].
Proof. exact c07_scrip_coinciding_last_corners. Qed.
Print Assumptions C07_scrip_coinciding_last_corners.
