(* C17 — topological aggregations reduce over exactly each element's corner nodes.
   Statements only; each closed by `exact` of a lemma from Proofs/C17_proofs.v, followed by
   Print Assumptions.  All statements are parametric in the element types A, B and in the
   reduction agg : list A -> B (NumPy's mean/min/max/median/std/var/sum/prod/all/any are
   instances), and hold for every standard-form table (any mix of face sizes, any face order,
   any padding width) and every number of leading indices. *)
From Coq Require Import Permutation.
From Verif Require Import Base C02 C17 C17_proofs.
Local Open Scope Z_scope.

(* node -> face: for every leading index v and every face f, the result is the reduction over the
   data at exactly the corners of f (c17_ref agg d v r = agg (map (fun x => v[x]) (corners r))) *)
Theorem C17_face : forall (A B : Type) (agg : list A -> B) (d : A) m t n_node (data : list (list A)),
  t <> [] -> std_table m t -> c17_nodes_ok t n_node -> Forall (fun v => length v = n_node) data ->
  exists res, c17_node_to_face agg t data = Some res /\
    Forall2 (fun v row => length row = length t /\
               forall f r, nth_error t f = Some r ->
                           nth_error row f = Some (Some (c17_ref agg d v r))) data res.
Proof. exact @c17_node_to_face_spec. Qed.
Print Assumptions C17_face.

(* ... whatever index vector np.argsort returns for equal sizes (NumPy's default sort is unstable) *)
Theorem C17_argsort_free : forall (A B : Type) (agg : list A -> B) (d : A) m t S (data : list A),
  t <> [] -> std_table m t -> c17_nodes_ok t (length data) ->
  c17_is_argsort (n_nodes_per_face t) S ->
  c17_face_row_with agg S t data = c17_face_row agg t data.
Proof. exact @c17_argsort_free. Qed.
Print Assumptions C17_argsort_free.

(* every face is gathered exactly once, with exactly its corner list; no padding index is read *)
Theorem C17_nopad : forall m t, std_table m t ->
  Permutation (map fst (c17_gathers t)) (c17_iota (length t)) /\
  forall g, In g (c17_gathers t) ->
    exists f r, fst g = Z.of_nat f /\ nth_error t f = Some r /\ snd g = corners r /\
                Forall (fun x => 0 <= x /\ x <> FILL) (snd g).
Proof. exact c17_gathers_exact. Qed.
Print Assumptions C17_nopad.

Theorem C17_reads_no_fill : forall m t, std_table m t ->
  Forall (fun x => 0 <= x /\ x <> FILL) (c17_reads t).
Proof. exact c17_reads_no_fill. Qed.
Print Assumptions C17_reads_no_fill.

(* a gathered fill index would be an IndexError, never a number *)
Theorem C17_fill_would_raise : forall (A : Type) (data : list A) idx,
  Z.of_nat (length data) < 2 ^ 63 -> In FILL idx -> c17_gather data idx = None.
Proof. exact @c17_fill_would_raise. Qed.
Print Assumptions C17_fill_would_raise.

(* node -> edge, composed with C02's edge table: every edge e = (a,b) gets agg [v[a]; v[b]], and
   every unordered pair of consecutive corners of a face is such an edge *)
Theorem C17_edge : forall (A B : Type) (agg : list A -> B) (d : A) m t n_node (data : list (list A)),
  std_table m t -> c17_nodes_ok t n_node -> Forall (fun v => length v = n_node) data ->
  exists res, c17_node_to_edge agg t data = Some res /\
    Forall2 (fun v row => length row = length (edges t) /\
               (forall e q, nth_error (edges t) e = Some q ->
                            nth_error row e = Some (c17_ref_edge agg d v q)) /\
               (forall q, In q (spec_pairs t) ->
                          exists e, nth_error (edges t) e = Some q /\
                                    nth_error row e = Some (c17_ref_edge agg d v q))) data res.
Proof. exact @c17_node_to_edge_spec. Qed.
Print Assumptions C17_edge.

(* dims: with the node dimension last, the destination dimension replaces it and has the
   destination element count; leading dims and their sizes are untouched *)
Theorem C17_dims : forall lead shape_lead s dst n,
  ~ In C17_n_node lead -> length lead = length shape_lead ->
  c17_result_dims (lead ++ [C17_n_node]) dst = lead ++ [c17_dest_dim dst] /\
  c17_result_shape (shape_lead ++ [s]) n = shape_lead ++ [n] /\
  (~ In (c17_dest_dim dst) lead ->
   c17_dim_size (c17_result_dims (lead ++ [C17_n_node]) dst) (c17_result_shape (shape_lead ++ [s]) n)
                (c17_dest_dim dst) = Some n).
Proof. exact c17_dims_last. Qed.
Print Assumptions C17_dims.

(* errors: the kernels run only for node-centred data whose LAST dimension is n_node, with
   destination face or edge ... (so C17_dims applies to every result) *)
Theorem C17_errors_run : forall dims dest k,
  c17_dispatch dims dest = C17_run k <->
  (exists lead, dims = lead ++ [C17_n_node]) /\ dest = Some k /\ (k = C17_to_face \/ k = C17_to_edge).
Proof. exact c17_dispatch_run. Qed.
Print Assumptions C17_errors_run.

(* ... every other source/destination combination raises *)
Theorem C17_errors_raise : forall dims dest,
  (~ In C17_n_node dims \/ last dims C17_n_node <> C17_n_node \/
   dest = None \/ dest = Some C17_to_node \/ dest = Some C17_to_bad) ->
  c17_dispatch dims dest = C17_ValueError \/ c17_dispatch dims dest = C17_NotImplemented.
Proof. exact c17_dispatch_raises. Qed.
Print Assumptions C17_errors_raise.

(* node dimension not last: ValueError, whatever the destination (was C17_dims_notlast_refuted
   before fix bf5e89dd: the kernel returned numbers under a mislabelled dimension) *)
Theorem C17_notlast_raises : forall dims dest,
  In C17_n_node dims -> last dims C17_n_node <> C17_n_node ->
  c17_dispatch dims dest = C17_ValueError.
Proof. exact c17_notlast_raises. Qed.
Print Assumptions C17_notlast_raises.

(* the partitions, and the faces inside a partition, may be processed in ANY order: every
   permutation of the (face, index row) gathers gives the same array *)
Theorem C17_order_free : forall (A B : Type) (agg : list A -> B) (d : A) m t S gs (data : list A),
  std_table m t -> c17_nodes_ok t (length data) ->
  c17_is_argsort (n_nodes_per_face t) S ->
  Permutation gs (c17_gathers_with S t) ->
  c17_face_row_of_gathers agg gs t data = c17_face_row_of_gathers agg (c17_gathers_with S t) t data.
Proof. exact @c17_order_free. Qed.
Print Assumptions C17_order_free.

(* frame: the grid's face_node / n_nodes_per_face tables come back untouched and a second call
   returns the same result *)
Theorem C17_frame : forall (A B : Type) (agg : list A -> B) st (data : list (list A)),
  snd (c17_face_call agg st data) = st /\
  fst (c17_face_call agg (snd (c17_face_call agg st data)) data) = fst (c17_face_call agg st data).
Proof. exact @c17_frame. Qed.
Print Assumptions C17_frame.

(* defective variant: n_nodes_per_face sorted in place — sizes applied to the wrong faces *)
Theorem C17_inplace_sort_refuted :
  std_table 5 c17_wit_table /\ c17_nodes_ok c17_wit_table (length c17_wit_data1) /\
  In (1, [0;2;3]) (c17_gathers_inplace_sort c17_wit_table) /\
  nth_error c17_wit_table 1 = Some [0;2;3;4;FILL] /\
  In (3, [1;0;7;FILL;FILL]) (c17_gathers_inplace_sort c17_wit_table) /\
  c17_face_row_inplace_sort c17_zsum c17_wit_table c17_wit_data1 = None /\
  c17_face_row c17_zsum c17_wit_table c17_wit_data1 = Some [Some 30; Some 90; Some 220; Some 80].
Proof. exact c17_inplace_sort_refuted. Qed.
Print Assumptions C17_inplace_sort_refuted.

(* defective variant: the sort permutation applied instead of its inverse when storing *)
Theorem C17_positional_refuted :
  c17_face_row_positional c17_zsum c17_wit_table c17_wit_data1 = Some [Some 30; Some 80; Some 90; Some 220] /\
  c17_face_row c17_zsum c17_wit_table c17_wit_data1 = Some [Some 30; Some 90; Some 220; Some 80].
Proof. exact c17_positional_refuted. Qed.
Print Assumptions C17_positional_refuted.

(* dtype of the result as NumPy promotes (the table the harness compares with the implementation):
   all/any -> bool; min/max -> source dtype; sum/prod -> int64 for bool/int32/int64, source for floats;
   mean/std/var/median -> float64 for bool/ints, source for floats *)
Theorem C17_dtype : forall a src,
  (a = C17_all \/ a = C17_any -> c17_result_dtype a src = C17_bool) /\
  (a = C17_max \/ a = C17_min -> c17_result_dtype a src = src) /\
  (a = C17_sum \/ a = C17_prod ->
     c17_result_dtype a src = (if c17_is_float src then src else C17_int64)) /\
  (a = C17_mean \/ a = C17_std \/ a = C17_var \/ a = C17_median ->
     c17_is_float (c17_result_dtype a src) = true /\
     (c17_is_float src = true -> c17_result_dtype a src = src)) /\
  (c17_is_float src = true -> a <> C17_all -> a <> C17_any -> c17_result_dtype a src = src).
Proof. exact c17_dtype_table. Qed.
Print Assumptions C17_dtype.

(* node -> edge over ANY edge_node table, in the table's own order and orientation *)
Theorem C17_edge_any_table : forall (A B : Type) (agg : list A -> B) (d : A) (en : list (Z * Z)) (data : list A),
  Forall (fun e => 0 <= fst e < Z.of_nat (length data) /\ 0 <= snd e < Z.of_nat (length data)) en ->
  exists res, c17_edge_row agg en data = Some res /\ length res = length en /\
    forall e q, nth_error en e = Some q ->
      nth_error res e = Some (agg [nth (Z.to_nat (fst q)) data d; nth (Z.to_nat (snd q)) data d]).
Proof. exact @c17_edge_any_table. Qed.
Print Assumptions C17_edge_any_table.
