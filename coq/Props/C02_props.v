(* C02 — derived edges are exactly the boundary segments of the faces.
   Statements only; each closed by `exact` of a lemma from Proofs/, followed by Print Assumptions. *)
From Coq Require Import Sorting.Permutation.
From Verif Require Import Base C02 C02_proofs C02_check C02_check_proofs C02_sup C02_sup_proofs C02_onto_proofs.
From Verif Require Import C02_canon_proofs.

(* edge_node_connectivity lists exactly the unordered consecutive corner pairs (incl. closing pair) *)
Theorem C02_edges_exact : forall m t q, std_table m t -> (In q (edges t) <-> In q (spec_pairs t)).
Proof. exact edges_iff. Qed.
Print Assumptions C02_edges_exact.

(* ... each exactly once *)
Theorem C02_edges_once : forall t, NoDup (edges t).
Proof. exact edges_NoDup. Qed.
Print Assumptions C02_edges_once.

(* ... with no padding, on real node indices *)
Theorem C02_edges_no_padding : forall m t q, std_table m t -> In q (edges t) -> 0 <= fst q <= snd q.
Proof. exact edges_real. Qed.
Print Assumptions C02_edges_no_padding.

(* n_edge is their number *)
Theorem C02_n_edge : forall m t l, std_table m t -> NoDup l ->
  (forall q, In q l <-> In q (spec_pairs t)) -> length (edges t) = length l.
Proof. exact n_edge_spec. Qed.
Print Assumptions C02_n_edge.

(* face_edge_connectivity[f, j] is the edge joining corner j and j+1 cyclically; padded exactly
   where face f has no corner *)
Theorem C02_face_edge : forall m t f r, std_table m t -> nth_error t f = Some r ->
  exists fe, nth_error (face_edges t m) f = Some fe /\ length fe = m /\
   (forall j, (j < first_fill r)%nat ->
       exists e, nth_error fe j = Some (Z.of_nat e) /\
                 nth_error (edges t) e = Some (norm_pair (nthP (cyc_pairs (corners r)) j))) /\
   (forall j, (first_fill r <= j < m)%nat -> nth_error fe j = Some FILL).
Proof. exact face_edge_spec. Qed.
Print Assumptions C02_face_edge.

(* n_nodes_per_face[f] is the number of real corners of face f *)
Theorem C02_n_nodes_per_face : forall m t f r, std_table m t -> nth_error t f = Some r ->
  nth_error (n_nodes_per_face t) f = Some (Z.of_nat (length (corners r)))
  /\ Forall (fun x => 0 <= x) (corners r)
  /\ r = corners r ++ repeat FILL (m - length (corners r)).
Proof. exact npf_spec. Qed.
Print Assumptions C02_n_nodes_per_face.

(* the boolean checker that the harness runs (extracted) on the IMPLEMENTATION's output decides exactly
   the property's clauses ... *)
Theorem C02_checker_decides_spec : forall t E FE npf, c02_check t E FE npf = true <-> C02_spec t E FE npf.
Proof. exact check_sound_complete. Qed.
Print Assumptions C02_checker_decides_spec.

(* ... and the model's output meets them for every standard-form table *)
Theorem C02_model_meets_spec : forall m t, std_table m t ->
  C02_spec t (edges t) (face_edges t m) (n_nodes_per_face t).
Proof. exact model_meets_spec. Qed.
Print Assumptions C02_model_meets_spec.

(* ---- grids whose source supplied the edge table (any edge order, any pair orientation) ---- *)

(* the supplied table is kept exactly when it lists the faces' edges once each (up to orientation) ... *)
Theorem C02_supplied_accept_iff : forall t S,
  sup_accepts t S = true <-> Permutation (map norm_pair S) (edges t).
Proof. exact sup_accepts_iff. Qed.
Print Assumptions C02_supplied_accept_iff.

(* ... and then it is what the grid reports afterwards, row for row; otherwise the derived table is *)
Theorem C02_supplied_table_kept : forall m t S,
  let R := sup_face_edges t m S in
  (sr_kept R = true -> sr_edges R = S) /\
  (sr_kept R = false -> sr_edges R = edges t /\ sr_face_edges R = face_edges t m).
Proof. exact sup_kept_intact. Qed.
Print Assumptions C02_supplied_table_kept.

(* either way the reported table lists exactly the faces' boundary segments, each once *)
Theorem C02_supplied_edges_exact : forall m t S, std_table m t ->
  let R := sup_face_edges t m S in
  (forall q, In q (map norm_pair (sr_edges R)) <-> In q (spec_pairs t)) /\ NoDup (map norm_pair (sr_edges R)).
Proof. exact sup_edges_exact. Qed.
Print Assumptions C02_supplied_edges_exact.

(* and face_edge_connectivity[f, j] names, IN THE REPORTED TABLE, the edge joining corners j and j+1 of f *)
Theorem C02_supplied_face_edge : forall m t S, std_table m t -> sup_fe_ok t m (sup_face_edges t m S).
Proof. exact sup_face_edge_spec. Qed.
Print Assumptions C02_supplied_face_edge.

(* ---- no orphan edges; counting ---- *)
(* every derived edge is the j-th edge of some face f: face_edge_connectivity is onto the edge table *)
Theorem C02_face_edge_onto : forall m t e, std_table m t -> (e < length (edges t))%nat ->
  exists f r fe j, nth_error t f = Some r /\ nth_error (face_edges t m) f = Some fe /\ (j < first_fill r)%nat /\
                   nth_error fe j = Some (Z.of_nat e).
Proof. exact face_edge_onto. Qed.
Print Assumptions C02_face_edge_onto.

(* n_edge never exceeds the number of corners *)
Theorem C02_n_edge_le_corners : forall m t, std_table m t ->
  (length (edges t) <= length (flat_map (fun r => cyc_pairs (corners r)) t))%nat.
Proof. exact n_edge_le_corners. Qed.
Print Assumptions C02_n_edge_le_corners.

(* the edge numbering is canonical: strictly ascending in (lower node, upper node) ... *)
Theorem C02_edges_strictly_ascending : forall t, Sorted.StronglySorted ltP (edges t).
Proof. exact edges_strictly_ascending. Qed.
Print Assumptions C02_edges_strictly_ascending.

(* ... hence determined by the SET of boundary segments alone: the same segments described with faces in another order, rings
   started at another corner or traversed the other way get the very same edge table *)
Theorem C02_edges_determined_by_segments : forall m1 m2 t1 t2, std_table m1 t1 -> std_table m2 t2 ->
  (forall q, In q (spec_pairs t1) <-> In q (spec_pairs t2)) -> edges t1 = edges t2.
Proof. exact edges_determined_by_segments. Qed.
Print Assumptions C02_edges_determined_by_segments.
