(* C01 — readers decode every supported format to the faces the source describes.
   Statements only; each closed by `exact` of a lemma from Proofs/C01_proofs.v, followed by
   Print Assumptions.  `c01_std w faces` is the standard form (rows padded at the end with FILL) of the
   mesh `faces`; `c01_encode s fe w faces` is the same mesh written with index base s and padding
   entry fe; `_refuted` theorems exhibit dialects the code that exists decodes wrongly. *)
From Coq Require Import QArith.
From Verif Require Import Base C02 C01 C01_proofs.

(* standard form presents exactly the mesh: rectangular, real entries then FILL only, and the corner
   positions of every face are the mesh's, in order *)
Theorem C01_std_form : forall n w faces, c01_wf_faces n w faces -> std_table w (c01_std w faces).
Proof. exact c01_std_std_table. Qed.
Print Assumptions C01_std_form.

Theorem C01_std_faces_pos : forall (P : Type) (dflt : P) nodes n w faces, c01_wf_faces n w faces ->
  c01_faces_pos dflt nodes (c01_std w faces) = map (map (fun i => nth (Z.to_nat i) nodes dflt)) faces.
Proof. exact @c01_std_faces_pos. Qed.
Print Assumptions C01_std_faces_pos.

(* ---- UGRID ---- *)
Theorem C01_ugrid_faces : forall d s fe n w faces,
  0 <= s -> n + s <= c01_BOUND -> ud_start d = Some s ->
  (ud_fill d = Some fe \/ (ud_fill d = None /\ fe = ENan)) ->
  c01_fill_ok s n fe -> c01_wf_faces n w faces ->
  c01_ugrid_conn d (c01_encode s fe w faces) = c01_std w faces.
Proof. exact c01_ugrid_faces. Qed.
Print Assumptions C01_ugrid_faces.

(* was C01_ugrid_start1_std_refuted before fix 22d18b4c *)
Theorem C01_ugrid_start1_std : forall d n w faces,
  n + 1 <= c01_BOUND -> ud_std_dtype d = true -> ud_fill d = Some (EInt FILL) -> ud_start d = Some 1 ->
  c01_wf_faces n w faces ->
  c01_ugrid_conn d (c01_encode 1 (EInt FILL) w faces) = c01_std w faces.
Proof. exact c01_ugrid_start1_std. Qed.
Print Assumptions C01_ugrid_start1_std.

(* was C01_ugrid_start_absent_refuted before fix 22d18b4c: absent start_index, padded or not, is decoded
   correctly whenever node 0 is referenced *)
Theorem C01_ugrid_start_absent : forall d fe n w faces,
  n <= c01_BOUND -> ud_start d = None ->
  (ud_fill d = Some fe \/ (ud_fill d = None /\ fe = ENan)) ->
  c01_fill_ok 0 n fe -> c01_wf_faces n w faces ->
  (exists f, In f faces /\ In 0 f) ->
  c01_ugrid_conn d (c01_encode 0 fe w faces) = c01_std w faces.
Proof. exact c01_ugrid_start_absent. Qed.
Print Assumptions C01_ugrid_start_absent.

(* the remaining heuristic: absent start_index with node 0 referenced by no face shifts everything *)
Theorem C01_ugrid_start_absent_node0_refuted :
  exists d faces, ud_start d = None /\ c01_wf_faces 4 3 faces /\
    c01_ugrid_conn d (c01_encode 0 (EInt (-1)) 3 faces) <> c01_std 3 faces.
Proof. exact c01_ugrid_start_absent_node0_refuted. Qed.
Print Assumptions C01_ugrid_start_absent_node0_refuted.

Theorem C01_ugrid_fixed_faces : forall d s fe n w faces,
  0 <= s -> n + s <= c01_BOUND ->
  (ud_start d = Some s \/ (ud_start d = None /\ s = 0)) ->
  (ud_fill d = Some fe \/ (ud_fill d = None /\ fe = ENan)) ->
  c01_fill_ok s n fe -> c01_wf_faces n w faces ->
  c01_ugrid_conn_fixed d (c01_encode s fe w faces) = c01_std w faces.
Proof. exact c01_ugrid_fixed_faces. Qed.
Print Assumptions C01_ugrid_fixed_faces.

(* ---- explicit topology ---- *)
Theorem C01_topology_faces : forall std s fe n w faces,
  0 <= s -> n + s <= c01_BOUND -> c01_fill_ok s n fe -> c01_wf_faces n w faces ->
  fst (c01_topo_conn std (Some fe) s (c01_encode s fe w faces)) = c01_std w faces.
Proof. exact c01_topo_faces. Qed.
Print Assumptions C01_topology_faces.

Theorem C01_topology_faces_nofill : forall std s fe n w faces,
  Forall (fun f => c01_wf_face n f /\ length f = w) faces ->
  fst (c01_topo_conn std None s (c01_encode s fe w faces)) = c01_std w faces.
Proof. exact c01_topo_faces_nofill. Qed.
Print Assumptions C01_topology_faces_nofill.

Theorem C01_topology_dtype : forall std fv s t,
  snd (c01_topo_conn std fv s t) = match fv with None => true | Some _ => std || negb (c01_ent_is_FILL fv) end.
Proof. exact c01_topo_dtype. Qed.
Print Assumptions C01_topology_dtype.

(* was C01_topology_dtype_refuted before fix 027791e0 *)
Theorem C01_topology_dtype_nofill : forall std s t, snd (c01_topo_conn std None s t) = true.
Proof. exact c01_topo_dtype_nofill. Qed.
Print Assumptions C01_topology_dtype_nofill.

(* ---- MPAS ---- *)
Theorem C01_mpas_primal_faces : forall n w (fj : list (list Z * list Z)),
  Forall (fun p => c01_wf_face n (fst p) /\ (length (fst p) + length (snd p))%nat = w) fj ->
  c01_mpas_padded (map (fun p => c01_mpas_enc_row (fst p) (snd p)) fj) (map (fun p => Z.of_nat (length (fst p))) fj)
  = c01_std w (map fst fj).
Proof. exact c01_mpas_primal_faces. Qed.
Print Assumptions C01_mpas_primal_faces.

Theorem C01_mpas_dual_faces : forall n w faces,
  Forall (fun f => c01_wf_face n f /\ length f = w) faces ->
  c01_mpas_plain (map (map (fun x => x + 1)) faces) = c01_std w faces.
Proof. exact c01_mpas_dual_faces. Qed.
Print Assumptions C01_mpas_dual_faces.

Theorem C01_mpas_supplied_tables : forall rows : list (list (option Z)),
  Forall (Forall (fun o => match o with Some x => 0 <= x | None => True end)) rows ->
  c01_mpas_plain (map (map c01_enc_opt) rows) = map (map c01_dec_opt) rows.
Proof. exact c01_mpas_plain_rows. Qed.
Print Assumptions C01_mpas_supplied_tables.

(* ---- SCRIP ---- *)
(* was C01_scrip_padding_refuted before fix 5e414c62: cells padded by repeating their last corner *)
Theorem C01_scrip_faces : forall w (faces : list (list (Z * Z))),
  Forall (fun f => f <> [] /\ (length f <= w)%nat /\ NoDup f) faces ->
  let cs := map (fun f => f ++ repeat (last f (FILL, FILL)) (w - length f)) faces in
  c01_faces_pos (FILL, FILL) (fst (c01_scrip cs w)) (snd (c01_scrip cs w)) = faces
  /\ std_table w (snd (c01_scrip cs w)).
Proof. exact c01_scrip_faces. Qed.
Print Assumptions C01_scrip_faces.

Theorem C01_scrip_nodes : forall w cs,
  NoDup (fst (c01_scrip cs w)) /\ forall p, In p (fst (c01_scrip cs w)) <-> In p (concat cs).
Proof. exact c01_scrip_nodes. Qed.
Print Assumptions C01_scrip_nodes.

(* ---- Exodus ---- *)
Theorem C01_exodus_single_block : forall n w faces, c01_wf_faces n w faces ->
  c01_exodus w [c01_exo_enc_block w faces] = c01_std w faces.
Proof. exact c01_exodus_single_block. Qed.
Print Assumptions C01_exodus_single_block.

(* several element blocks (was C01_exodus_multi_block_refuted before fix 5ac9d665): every block, in order *)
Theorem C01_exodus_faces : forall n w (blocks : list (nat * list (list Z))),
  Forall (fun b => (fst b <= w)%nat /\ c01_wf_faces n (fst b) (snd b)) blocks ->
  c01_exodus w (map (fun b => c01_exo_enc_block (fst b) (snd b)) blocks) = c01_std w (concat (map snd blocks)).
Proof. exact c01_exodus_faces. Qed.
Print Assumptions C01_exodus_faces.

(* was C01_exodus_coords_refuted before fix db0d5f5d *)
Theorem C01_exodus_coords : forall (b : bool) (cx cy cz : list Z), c01_exodus_coords b cx cy cz = (cx, cy, cz).
Proof. exact (@c01_exodus_coords_ok Z). Qed.
Print Assumptions C01_exodus_coords.

(* ---- ESMF ---- *)
(* start_index 0, 1 or absent (was refuted for 0 before fix 7a480a4e) *)
Theorem C01_esmf_faces : forall n w attr s (fj : list (list Z * list c01_ent)),
  n <= c01_BOUND -> 0 <= s <= 1 -> (attr = Some s \/ (attr = None /\ s = 1)) ->
  Forall (fun p => c01_wf_face n (fst p) /\ (length (fst p) + length (snd p))%nat = w) fj ->
  c01_esmf attr (map (fun p => c01_esmf_enc_row s (fst p) (snd p)) fj) (map (fun p => Z.of_nat (length (fst p))) fj)
  = c01_std w (map fst fj).
Proof. exact c01_esmf_faces. Qed.
Print Assumptions C01_esmf_faces.

(* ---- face-vertex arrays ---- *)
Theorem C01_face_vertices_faces : forall w faces,
  Forall (fun f => (length f <= w)%nat /\ Forall (fun p => has_fill p = false) f) faces ->
  let rows := map (fun f => f ++ repeat c01_fp (w - length f)) faces in
  c01_faces_pos c01_fp (fst (c01_fv rows w)) (snd (c01_fv rows w)) = faces
  /\ std_table w (snd (c01_fv rows w)) /\ NoDup (fst (c01_fv rows w)).
Proof. exact c01_fv_faces. Qed.
Print Assumptions C01_face_vertices_faces.

(* ---- GEOS-CS ---- *)
Theorem C01_geos_faces : forall nf n1 n2, c01_geos nf n1 n2 = c01_geos_spec nf n1 n2.
Proof. exact c01_geos_closed_form. Qed.
Print Assumptions C01_geos_faces.

Theorem C01_geos_count : forall nf n1 n2, length (c01_geos nf n1 n2) = (nf * ((n1 - 1) * (n2 - 1)))%nat.
Proof. exact c01_geos_count. Qed.
Print Assumptions C01_geos_count.

Theorem C01_geos_in_range : forall nf n1 n2 r, In r (c01_geos nf n1 n2) ->
  Forall (fun x => 0 <= x < Z.of_nat (nf * n1 * n2)) r.
Proof. exact c01_geos_rows_in_range. Qed.
Print Assumptions C01_geos_in_range.

(* ---- ICON ---- *)
Theorem C01_icon_faces : forall k n rows, Forall (fun r => length r = k /\ c01_wf_face n r) rows ->
  c01_icon (length rows) (c01_icon_encode k rows) = c01_std k rows.
Proof. exact c01_icon_faces. Qed.
Print Assumptions C01_icon_faces.

(* every supplied table, 0 = missing -> fill value (was C01_icon_boundary_refuted before fix 5f8bdb4c; the
   dtype is intp by construction now, formerly C01_icon_dtype_refuted) *)
Theorem C01_icon_supplied_tables : forall k (rows : list (list (option Z))),
  Forall (fun r => length r = k /\ Forall (fun o => match o with Some x => 0 <= x | None => True end) r) rows ->
  c01_icon (length rows) (c01_transpose k (map (map c01_enc_opt) rows)) = map (map c01_dec_opt) rows.
Proof. exact c01_icon_rows. Qed.
Print Assumptions C01_icon_supplied_tables.

(* ---- GeoJSON / shapefile ---- *)
(* Polygon and MultiPolygon features alike (multipolygons were refuted before fix eca4308c) *)
Theorem C01_geo_faces : forall w feats,
  let rings := concat feats in
  c01_geo w feats = (concat (map (map fst) rings), concat (map (map snd) rings), c01_geo_rows w 0 rings)
  /\ c01_faces_pos (FILL, FILL)
       (combine (concat (map (map fst) rings)) (concat (map (map snd) rings))) (c01_geo_rows w 0 rings) = rings.
Proof. exact c01_geo_faces. Qed.
Print Assumptions C01_geo_faces.

Theorem C01_geo_std : forall w rings off, Forall (fun r => (length r <= w)%nat) rings ->
  std_table w (c01_geo_rows w off rings).
Proof. exact c01_geo_rows_std. Qed.
Print Assumptions C01_geo_std.

(* ---- longitudes ---- *)
Theorem C01_lon_range : forall x : Q, (-180 <= c01_wrap180 x /\ c01_wrap180 x < 180)%Q.
Proof. exact c01_wrap180_bounds. Qed.
Print Assumptions C01_lon_range.

Theorem C01_lon_all : forall l, Forall (fun x => (-180 <= x)%Q) l ->
  Forall (fun x => (-180 <= x /\ x <= 180)%Q) (c01_wrap_all l) /\
  Forall2 (fun a b => exists k : Z, (b == a - 360 * inject_Z k)%Q) l (c01_wrap_all l).
Proof. exact c01_wrap_all_spec. Qed.
Print Assumptions C01_lon_all.

(* ---- access histories (lazily derived coordinates, supplied areas) ---- *)
Theorem C01_access_order_lon : forall derived computed rs s0,
  Forall (fun x => (-180 <= x)%Q) derived -> c01_lon_ok derived s0 ->
  c01_lon_ok derived (c01_rd_run derived computed s0 rs).
Proof. exact c01_access_order_lon. Qed.
Print Assumptions C01_access_order_lon.

Theorem C01_access_order_lon_present : forall derived computed rs s0,
  (In RdNodeLon rs \/ In RdNodeLat rs) -> lz_lon (c01_rd_run derived computed s0 rs) <> None.
Proof. exact c01_access_order_lon_present. Qed.
Print Assumptions C01_access_order_lon_present.

Theorem C01_supplied_kept : forall derived computed rs s0,
  (forall a, lz_areas s0 = Some a -> lz_areas (c01_rd_run derived computed s0 rs) = Some a) /\
  (forall l, lz_lon s0 = Some l -> lz_lon (c01_rd_run derived computed s0 rs) = Some l).
Proof. exact c01_supplied_kept. Qed.
Print Assumptions C01_supplied_kept.

(* supplied areas (MPAS areaCell/areaTriangle, SCRIP grid_area, ESMF elementArea; fix 3e603c73) are face_areas,
   in face order, right after opening and after any read history *)
Theorem C01_reader_areas_carried : forall lon a derived computed rs,
  lz_areas (c01_reader_state lon (Some a)) = Some a /\
  lz_areas (c01_rd_run derived computed (c01_reader_state lon (Some a)) rs) = Some a.
Proof. exact c01_reader_areas_carried. Qed.
Print Assumptions C01_reader_areas_carried.

Theorem C01_reader_areas_derived : forall derived computed rs s0, lz_areas s0 = None ->
  lz_areas (c01_rd_run derived computed s0 rs) = if existsb c01_reads_area rs then Some computed else None.
Proof. exact c01_reader_areas_derived. Qed.
Print Assumptions C01_reader_areas_derived.

(* ---- round trips with boolean well-formedness: decode (encode_dialect faces) presents exactly faces ---- *)
Theorem C01_faces_of_std : forall n w faces, c01_wf_faces n w faces -> c01_faces_of (c01_std w faces) = faces.
Proof. exact c01_faces_of_std. Qed.
Print Assumptions C01_faces_of_std.

Theorem C01_wf_facesb_sound : forall n w faces, c01_wf_facesb n w faces = true -> c01_wf_faces n w faces.
Proof. exact c01_wf_facesb_ok. Qed.
Print Assumptions C01_wf_facesb_sound.

Theorem C01_ugrid_roundtrip : forall d s fe n w faces,
  c01_ugrid_dialect_okb d s fe n faces = true -> c01_wf_facesb n w faces = true ->
  c01_faces_of (c01_ugrid_conn d (c01_encode s fe w faces)) = faces.
Proof. exact c01_ugrid_roundtrip. Qed.
Print Assumptions C01_ugrid_roundtrip.

Theorem C01_topology_roundtrip : forall std s fe n w faces (with_fill : bool),
  (0 <=? s) && (n + s <=? c01_BOUND) && c01_fill_okb s n fe = true ->
  c01_wf_facesb n w faces = true ->
  (with_fill = false -> forallb (fun f => (length f =? w)%nat) faces = true) ->
  c01_faces_of (fst (c01_topo_conn std (if with_fill then Some fe else None) s (c01_encode s fe w faces))) = faces.
Proof. exact c01_topo_roundtrip. Qed.
Print Assumptions C01_topology_roundtrip.

Theorem C01_mpas_roundtrip : forall zeros n w faces, c01_wf_facesb n w faces = true ->
  c01_faces_of (c01_mpas_padded (c01_mpas_encode zeros w faces) (map (fun f => Z.of_nat (length f)) faces)) = faces.
Proof. exact c01_mpas_roundtrip. Qed.
Print Assumptions C01_mpas_roundtrip.

Theorem C01_esmf_roundtrip : forall attr s n w faces,
  (n <=? c01_BOUND) && ((s =? 0) || (s =? 1)) && match attr with Some a => a =? s | None => s =? 1 end = true ->
  c01_wf_facesb n w faces = true ->
  c01_faces_of (c01_esmf attr (c01_esmf_encode s w faces) (map (fun f => Z.of_nat (length f)) faces)) = faces.
Proof. exact c01_esmf_roundtrip. Qed.
Print Assumptions C01_esmf_roundtrip.

Theorem C01_exodus_roundtrip : forall n w (blocks : list (nat * list (list Z))),
  forallb (fun b => (fst b <=? w)%nat && c01_wf_facesb n (fst b) (snd b)) blocks = true ->
  c01_faces_of (c01_exodus w (map (fun b => c01_exo_enc_block (fst b) (snd b)) blocks)) = concat (map snd blocks).
Proof. exact c01_exodus_roundtrip. Qed.
Print Assumptions C01_exodus_roundtrip.

Theorem C01_icon_roundtrip : forall k n rows,
  forallb (fun r => (length r =? k)%nat) rows && c01_wf_facesb n k rows = true ->
  c01_faces_of (c01_icon (length rows) (c01_icon_encode k rows)) = rows.
Proof. exact c01_icon_roundtrip. Qed.
Print Assumptions C01_icon_roundtrip.

Theorem C01_scrip_roundtrip : forall w (faces : list (list (Z * Z))),
  Forall (fun f => f <> [] /\ (length f <= w)%nat /\ NoDup f) faces ->
  c01_faces_pos (FILL, FILL) (fst (c01_scrip (c01_scrip_encode w faces) w)) (snd (c01_scrip (c01_scrip_encode w faces) w)) = faces.
Proof. exact c01_scrip_roundtrip. Qed.
Print Assumptions C01_scrip_roundtrip.

(* ---- UGRID dimension renaming (known finding C01-ugrid-edge-dim) ---- *)
Theorem C01_ugrid_dims : forall a b c e, c01_ugrid_dims a b c e = (true, true, e).
Proof. exact c01_ugrid_dims_spec. Qed.
Print Assumptions C01_ugrid_dims.

Theorem C01_ugrid_edge_dim_refuted :
  exists attr_edge has_edge_lon, attr_edge = true /\ snd (c01_ugrid_dims true true attr_edge has_edge_lon) <> true.
Proof. exact c01_ugrid_edge_dim_refuted. Qed.
Print Assumptions C01_ugrid_edge_dim_refuted.

(* ---- format sniffing ---- *)
Theorem C01_sniff : forall k,
  (c01_sniff k = 0 <-> k_coord k = true \/ k_coordx k = true) /\
  (c01_sniff k = 1 <-> k_coord k = false /\ k_coordx k = false /\ k_grid_center_lon k = true) /\
  (c01_sniff k = 2 <-> k_coord k = false /\ k_coordx k = false /\ k_grid_center_lon k = false /\ k_is_ugrid k = true) /\
  (c01_sniff k = 3 <-> k_coord k = false /\ k_coordx k = false /\ k_grid_center_lon k = false /\ k_is_ugrid k = false
                        /\ k_verticesOnCell k = true) /\
  (c01_sniff k = 4 <-> k_coord k = false /\ k_coordx k = false /\ k_grid_center_lon k = false /\ k_is_ugrid k = false
                        /\ k_verticesOnCell k = false /\ k_maxNodePElement k = true) /\
  (c01_sniff k = 5 <-> k_coord k = false /\ k_coordx k = false /\ k_grid_center_lon k = false /\ k_is_ugrid k = false
                        /\ k_verticesOnCell k = false /\ k_maxNodePElement k = false /\ k_nf_YCdim_XCdim k = true) /\
  (c01_sniff k = 6 <-> k_coord k = false /\ k_coordx k = false /\ k_grid_center_lon k = false /\ k_is_ugrid k = false
                        /\ k_verticesOnCell k = false /\ k_maxNodePElement k = false /\ k_nf_YCdim_XCdim k = false
                        /\ k_vertex_of_cell k = true).
Proof. exact c01_sniff_spec. Qed.
Print Assumptions C01_sniff.
