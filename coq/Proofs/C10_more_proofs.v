(* Further statements about the C10 model: what an operation must NOT change, which grid the result is attached to,
   and the machine-checked counterparts of the listed findings. *)
From Coq Require Import String ZifyBool.
From Verif Require Import Base C10 C10_route C10_proofs.
Local Open Scope Z_scope.

Definition nongrid (dims : list (Z * Z)) : list (Z * Z) := filter (fun p => negb (c10_is_grid_dim (fst p))) dims.

Lemma filter_map_keep {A} (p : A -> bool) (f : A -> A) (l : list A) :
  (forall x, p (f x) = p x) -> (forall x, p x = true -> f x = x) -> filter p (map f l) = filter p l.
Proof.
  intros H1 H2. induction l as [|a l IH]; simpl; [reflexivity|].
  rewrite H1. destruct (p a) eqn:E; [rewrite (H2 a E), IH; reflexivity|exact IH].
Qed.

(* uxarray's own operations touch the grid dimension only: every other dimension keeps its name, length and position *)
Theorem ux_ops_keep_other_dims sz v op :
  match op with XOp _ _ => False | UTopoAgg dst | URemap _ dst => c10_is_grid_dim dst = true | _ => True end ->
  nongrid (v_dims (c10_step sz v op)) = nongrid (v_dims v).
Proof.
  unfold nongrid. destruct op as [h o|fam'| | |dst|fam' dst|fam']; simpl; intros H; try contradiction.
  - unfold c10_retag. apply filter_map_keep; intros [d n]; simpl; destruct (c10_is_grid_dim d) eqn:E; simpl; rewrite ?E; simpl; intros; try discriminate; try reflexivity; try congruence.
  - induction (v_dims v) as [|[d n] l IH]; simpl; [reflexivity|].
    destruct (d =? 2) eqn:E; simpl.
    + assert (c10_is_grid_dim d = true) as -> by (unfold c10_is_grid_dim; lia). simpl. exact IH.
    + destruct (c10_is_grid_dim d); simpl; rewrite IH; reflexivity.
  - destruct (v_grid v) as [[f g]|]; simpl; [|reflexivity].
    apply filter_map_keep; intros [d n]; simpl; destruct (c10_is_grid_dim d) eqn:E; simpl; rewrite ?E; simpl; intros; try discriminate; try reflexivity; try congruence.
  - destruct (v_grid v) as [[f g]|]; simpl; [|reflexivity].
    apply filter_map_keep; intros [d n]; simpl.
    + destruct (d =? 0) eqn:E; simpl; [|reflexivity].
      assert (c10_is_grid_dim d = true) as -> by (unfold c10_is_grid_dim; lia). rewrite H. reflexivity.
    + intros Hn. destruct (d =? 0) eqn:E; [|reflexivity].
      assert (c10_is_grid_dim d = true) as Hg by (unfold c10_is_grid_dim; lia). rewrite Hg in Hn. discriminate.
  - apply filter_map_keep; intros [d n]; simpl; destruct (c10_is_grid_dim d) eqn:E; simpl; rewrite ?E; simpl; intros; try discriminate; try reflexivity; try congruence; rewrite ?H; reflexivity.
  - apply filter_map_keep; intros [d n]; simpl; destruct (c10_is_grid_dim d) eqn:E; simpl; rewrite ?E; simpl; intros; try discriminate; try reflexivity; try congruence.
    unfold c10_swap_dim, c10_is_grid_dim in *. destruct (d =? 0) eqn:E0; [reflexivity|].
    destruct (d =? 2) eqn:E2; [reflexivity|]. rewrite E. reflexivity.
Qed.

(* which grid the result is attached to: the family changes exactly at isel/subset, remap and dual *)
Definition c10_family_after (op : c10_op) (f : Z) : Z :=
  match op with UIselGrid f' | URemap f' _ | UDual f' => f' | _ => f end.

Theorem result_family sz v op f g : v_grid v = Some (f, g) -> c10_op_ok op = true ->
  exists g', v_grid (c10_step sz v op) = Some (c10_family_after op f, g').
Proof.
  intros Hg Hok. destruct op as [h o|fam'| | |dst|fam' dst|fam']; simpl in *; rewrite ?Hg; simpl; eauto.
  apply andb_true_iff in Hok. destruct Hok as [Ha _].
  destruct h; simpl in Ha; try discriminate; simpl; rewrite ?Hg; simpl; eauto.
Qed.

(* machine-checked counterparts of the listed findings *)
(* (1) generic indexing along the grid dimension that keeps the full grid (uxda[{'n_face': ...}], head(n_face=2),
       isel({'n_face': ...})): the grid dimension is resized, the grid is not *)
Theorem griddim_index_refuted :
  exists sz v n, c10_consistent sz v = true /\
    c10_consistent sz (c10_step sz v (XOp HReplace (DResize 2 n))) = false.
Proof.
  exists (fun _ => (6, 12, 8)), {| v_ux := true; v_grid := Some (0, 0); v_dims := [(3, 4); (2, 8)] |}, 2.
  split; vm_compute; reflexivity.
Qed.

(* (2) isel(n_face=..., t=0): the grid indexer is honoured, the other one is ignored (dimension t survives) — the value
       stays consistent with its (sub)grid but differs from plain xarray, which drops t: stated on the dims *)
Theorem isel_grid_and_other_keeps_t :
  let v := {| v_ux := true; v_grid := Some (0, 0); v_dims := [(3, 4); (2, 8)] |} in
  v_dims (c10_step (fun _ => (5, 7, 2)) v (UIselGrid 1)) = [(3, 4); (2, 2)].
Proof. vm_compute. reflexivity. Qed.

(* (3) an operation that builds its result through the class constructor without a grid (broadcast_like) *)
Theorem gridless_route_refuted sz v o : c10_consistent sz (c10_step sz v (XOp HInit o)) = false.
Proof. apply plain_route_refuted. right. right. left. reflexivity. Qed.

(* deep copies: k deep copies in a row give an equal grid (same family) that is k objects away *)
Theorem deep_copies_generation sz : forall k v f g, v_grid v = Some (f, g) ->
  v_grid (c10_eval sz (repeat (XOp HCopyDeep DKeep) k) v) = Some (f, g + Z.of_nat k).
Proof.
  induction k as [|k IH]; intros v f g H; simpl; [rewrite H; f_equal; f_equal; lia|].
  rewrite (IH _ f (g + 1)); [f_equal; f_equal; lia|]. simpl. rewrite H. reflexivity.
Qed.
