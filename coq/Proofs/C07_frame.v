(* C07: frame theorem for histories (nothing is shared between encodes when the template is copied)
   and the round trip after ANY set of derived variables. *)
From Coq Require Import ZifyBool String.
From Verif Require Import Base C07 C07_proofs.
Local Open Scope Z_scope.

(* ------------------------------------------------------------------------------------- *)
(* frame: with the template copied, every encode call of a run — whatever was encoded before it,
   of this or of OTHER grids, in whatever formats, interleaved in any way — returns exactly what it
   returns as the first call of a fresh process *)

Lemma c07_run_snd_cons vr tmpl sp h :
  snd (c07_run vr tmpl (sp :: h)) = snd (c07_one vr tmpl sp) :: snd (c07_run vr (fst (c07_one vr tmpl sp)) h).
Proof.
  simpl. destruct (c07_one vr tmpl sp) as [t1 r]. simpl. destruct (c07_run vr t1 h). reflexivity.
Qed.

Lemma c07_one_template_copy vr tmpl sp : vr_copy_template vr = true -> fst (c07_one vr tmpl sp) = tmpl.
Proof.
  intros Hc. rewrite c07_one_template.
  destruct (c07_dispatch (sp_encode_as sp) (sp_format sp)) as [[| |]|]; try reflexivity.
  rewrite c07_encode_template, Hc. reflexivity.
Qed.

Theorem c07_frame vr h : vr_copy_template vr = true -> forall tmpl,
  snd (c07_run vr tmpl h) = map (fun sp => snd (c07_one vr tmpl sp)) h.
Proof.
  intros Hc. induction h as [|sp h IH]; intros tmpl; [reflexivity|].
  rewrite c07_run_snd_cons. rewrite c07_one_template_copy by exact Hc. rewrite IH. reflexivity.
Qed.

(* two arbitrary histories leading up to the same call: same result *)
Corollary c07_frame_histories vr h1 h2 sp : vr_copy_template vr = true ->
  last (snd (c07_run vr c07_base_template (h1 ++ [sp]))) c07_empty_result
  = last (snd (c07_run vr c07_base_template (h2 ++ [sp]))) c07_empty_result.
Proof.
  intros Hc. rewrite !(c07_frame vr _ Hc). rewrite !map_app. simpl. rewrite !last_last. reflexivity.
Qed.

(* the aliased template (code before /repo 0ec27eb7) had no such frame property *)
Lemma c07_frame_alias_refuted :
  exists h sp,
    last (snd (c07_run c07_before_fixes c07_base_template (h ++ [sp]))) c07_empty_result
    <> snd (c07_one c07_before_fixes c07_base_template sp).
Proof.
  exists [c07_ex_step c07_ex_ugrid c07_ex_edges], (c07_ex_step c07_ex_ugrid c07_ex_small).
  intros H. apply (f_equal rs_closed) in H. vm_compute in H. discriminate H.
Qed.

Example c07_frame_nonvacuous :
  snd (c07_run c07_faithful c07_base_template
         [c07_ex_step c07_ex_ugrid c07_ex_edges; c07_ex_step c07_ex_exodus c07_ex_small;
          c07_ex_step c07_ex_ugrid c07_ex_small])
  = map (fun sp => snd (c07_one c07_faithful c07_base_template sp))
        [c07_ex_step c07_ex_ugrid c07_ex_edges; c07_ex_step c07_ex_exodus c07_ex_small;
         c07_ex_step c07_ex_ugrid c07_ex_small].
Proof. vm_compute. reflexivity. Qed.

(* ------------------------------------------------------------------------------------- *)
(* any set of derived variables: a well-formed grid dataset extended by ANY list S of further
   variables (derived quantities, user variables, the "@global" entry) that do not reuse the three
   core names and are not topology variables                                                *)

Definition c07_core_names : list Z := [c07_s_node_lon; c07_s_node_lat; c07_s_fnc].

Definition c07_derived_ok (S : c07_ds) : bool :=
  forallb (fun v => negb (c07_mem (cv_name v) c07_core_names)
                    && (negb (c07_is_topology v) || (cv_name v =? c07_s_grid_topology))) S.

(* coordinates come in pairs in the extended dataset *)
Definition c07_pairs_ok (ds : c07_ds) : bool :=
  (negb (c07_has ds c07_s_face_lon) || c07_has ds c07_s_face_lat)
  && (negb (c07_has ds c07_s_edge_lon) || c07_has ds c07_s_edge_lat).

Lemma c07_find_app_found n ds S v : c07_find n ds = Some v -> c07_find n (ds ++ S) = Some v.
Proof. intros H. rewrite c07_find_app, H. reflexivity. Qed.

Lemma c07_wfb_extend ds S :
  c07_ds_wfb ds = true -> c07_derived_ok S = true -> c07_pairs_ok (ds ++ S) = true ->
  c07_ds_wfb (ds ++ S) = true.
Proof.
  unfold c07_ds_wfb, c07_pairs_ok. rewrite !andb_true_iff. intros [[[[[H1 H2] H3] _] _] H6] HS [P1 P2].
  repeat split; auto.
  - unfold c07_var_float in *. destruct (c07_find c07_s_node_lon ds) as [v|] eqn:E; [|discriminate].
    rewrite (c07_find_app_found _ _ S _ E). exact H1.
  - unfold c07_var_float in *. destruct (c07_find c07_s_node_lat ds) as [v|] eqn:E; [|discriminate].
    rewrite (c07_find_app_found _ _ S _ E). exact H2.
  - destruct (c07_find c07_s_fnc ds) as [v|] eqn:E; [|discriminate].
    rewrite (c07_find_app_found _ _ S _ E). exact H3.
  - rewrite forallb_app, H6. simpl. unfold c07_derived_ok in HS.
    apply forallb_forall. intros v Hv. rewrite forallb_forall in HS. specialize (HS v Hv).
    apply andb_true_iff in HS. apply HS.
Qed.

Lemma c07_tables_extend ds S :
  c07_ds_wfb ds = true ->
  c07_fnc_table (ds ++ S) = c07_fnc_table ds /\ c07_lonlat (ds ++ S) = c07_lonlat ds.
Proof.
  unfold c07_ds_wfb. rewrite !andb_true_iff. intros [[[[[H1 H2] H3] _] _] _].
  unfold c07_fnc_table, c07_lonlat, c07_var_float in *.
  destruct (c07_find c07_s_node_lon ds) as [a|] eqn:Ea; [|discriminate].
  destruct (c07_find c07_s_node_lat ds) as [b|] eqn:Eb; [|discriminate].
  destruct (c07_find c07_s_fnc ds) as [c|] eqn:Ec; [|discriminate].
  rewrite (c07_find_app_found _ _ S _ Ea), (c07_find_app_found _ _ S _ Eb), (c07_find_app_found _ _ S _ Ec).
  split; reflexivity.
Qed.

(* THE CODE AS IT IS, after any history h and for ANY set S of further variables in the grid's
   dataset: the UGRID export is self-consistent and decodes (directly; through a file whenever
   writable) to the connectivity and node coordinates of the bare grid ds *)
Theorem c07_any_derived_set h api fmt ds S ok :
  c07_dispatch api fmt = Some C07_UGRID ->
  c07_ds_wfb ds = true -> c07_derived_ok S = true -> c07_pairs_ok (ds ++ S) = true ->
  exists r t lon lat,
    snd (c07_run c07_faithful c07_base_template
           (h ++ [{| sp_encode_as := api; sp_format := fmt; sp_ds := ds ++ S; sp_areas_ok := ok |}]))
      = snd (c07_run c07_faithful c07_base_template h) ++ [r] /\
    c07_fnc_table ds = Some t /\ c07_lonlat ds = Some (lon, lat) /\
    rs_closed r = true /\
    rs_direct r = Some {| dc_fnc := t; dc_lon := lon; dc_lat := lat |} /\
    (rs_writable r = true -> rs_file r = Some {| dc_fnc := t; dc_lon := lon; dc_lat := lat |}).
Proof.
  intros Hd Hwf HS HP.
  pose proof (c07_wfb_extend ds S Hwf HS HP) as Hwf'.
  destruct (c07_tables_extend ds S Hwf) as [Et El].
  destruct (c07_run_ugrid_faithful h {| sp_encode_as := api; sp_format := fmt; sp_ds := ds ++ S; sp_areas_ok := ok |}
              Hd Hwf') as (r & t & lon & lat & Hrun & Hcl & Ht & Hl & Hdir & Hfile & _).
  cbn [sp_ds] in Ht, Hl. rewrite Et in Ht. rewrite El in Hl.
  exists r, t, lon, lat. repeat split; assumption.
Qed.

(* non-vacuity: the edge variables (with their helper attributes) and a global-attribute entry as S *)
Example c07_any_derived_set_nonvacuous :
  c07_ds_wfb c07_ex_small = true /\
  c07_derived_ok (skipn 3 c07_ex_edges ++ [c07_ex_global (C07_AStr [c07_code "UGRID"%string])]) = true /\
  c07_pairs_ok (c07_ex_small ++ skipn 3 c07_ex_edges ++ [c07_ex_global (C07_AStr [c07_code "UGRID"%string])]) = true.
Proof. repeat split; vm_compute; reflexivity. Qed.
