From Verif Require Import Base C20.
Local Open Scope Z_scope.

(* the generated decision formula is the plain conjunction of the five atoms *)
Lemma c20_formula_conj a b c d e : c20_eq_formula a b c d e = a && b && c && d && e.
Proof. destruct a, b, c, d, e; reflexivity. Qed.

Lemma c20_ne_neg b : c20_ne_formula b = negb b.
Proof. destruct b; reflexivity. Qed.

Lemma c20_list_eqb_eq {A} (eqb : A -> A -> bool) :
  (forall x y, eqb x y = true <-> x = y) ->
  forall l1 l2, c20_list_eqb eqb l1 l2 = true <-> l1 = l2.
Proof.
  intros H. induction l1 as [|x l1 IH]; intros [|y l2]; simpl; split; intro E;
    try reflexivity; try discriminate.
  - apply andb_true_iff in E. destruct E as [E1 E2]. apply H in E1. apply IH in E2. subst. reflexivity.
  - inversion E; subst. apply andb_true_iff. split; [apply H; reflexivity|apply IH; reflexivity].
Qed.

Lemma pair_eqb_iff p q : pair_eqb p q = true <-> p = q.
Proof.
  destruct p as [a b], q as [c d]; unfold pair_eqb; simpl.
  rewrite andb_true_iff, !Z.eqb_eq. split; [intros [-> ->]; reflexivity|intros [= -> ->]; auto].
Qed.

Lemma c20_vals_equal_eq l1 l2 : c20_vals_equal l1 l2 = true <-> l1 = l2.
Proof. apply c20_list_eqb_eq. exact pair_eqb_iff. Qed.

Lemma c20_table_equal_eq t1 t2 : c20_table_equal t1 t2 = true <-> t1 = t2.
Proof. apply c20_list_eqb_eq. apply c20_list_eqb_eq. exact Z.eqb_eq. Qed.

(* equal iff same format, identical longitudes, latitudes and connectivity *)
Theorem c20_eq_iff g h :
  c20_eq g h = true <->
  c20_spec g = c20_spec h /\ c20_lon g = c20_lon h /\ c20_lat g = c20_lat h /\ c20_conn g = c20_conn h.
Proof.
  unfold c20_eq. rewrite c20_formula_conj. simpl. rewrite !andb_true_iff.
  rewrite Z.eqb_eq, !c20_vals_equal_eq, c20_table_equal_eq. tauto.
Qed.

Theorem c20_eq_refl g : c20_eq g g = true.
Proof. apply c20_eq_iff. repeat split. Qed.

Theorem c20_eq_sym g h : c20_eq g h = c20_eq h g.
Proof.
  destruct (c20_eq g h) eqn:E1, (c20_eq h g) eqn:E2; try reflexivity.
  - apply c20_eq_iff in E1. destruct E1 as (a & b & c & d).
    assert (c20_eq h g = true) by (apply c20_eq_iff; repeat split; congruence). congruence.
  - apply c20_eq_iff in E2. destruct E2 as (a & b & c & d).
    assert (c20_eq g h = true) by (apply c20_eq_iff; repeat split; congruence). congruence.
Qed.

Theorem c20_ne_is_negation g h : c20_ne g h = negb (c20_eq g h).
Proof. unfold c20_ne. apply c20_ne_neg. Qed.

Theorem c20_nongrid_false b c d e : c20_eq_nongrid b c d e = false.
Proof. unfold c20_eq_nongrid. rewrite c20_formula_conj. reflexivity. Qed.

Lemma c20_set_neq {A} (l : list A) : forall i old v, nth_error l i = Some old -> v <> old -> c20_set i v l <> l.
Proof.
  induction l as [|x l IH]; intros [|i] old v H Hne; simpl in *; try discriminate.
  - inversion H; subst. intros E. inversion E. contradiction.
  - intros E. inversion E as [E']. eapply IH; eauto.
Qed.

Lemma c20_set_length {A} (l : list A) : forall i v, length (c20_set i v l) = length l.
Proof. induction l as [|x l IH]; intros [|i] v; simpl; auto. Qed.

Definition c20_with_lon g l := {| c20_spec := c20_spec g; c20_lon := l; c20_lat := c20_lat g; c20_conn := c20_conn g |}.
Definition c20_with_lat g l := {| c20_spec := c20_spec g; c20_lon := c20_lon g; c20_lat := l; c20_conn := c20_conn g |}.
Definition c20_with_conn g t := {| c20_spec := c20_spec g; c20_lon := c20_lon g; c20_lat := c20_lat g; c20_conn := t |}.
Definition c20_with_spec g s := {| c20_spec := s; c20_lon := c20_lon g; c20_lat := c20_lat g; c20_conn := c20_conn g |}.

(* changing any single node longitude makes the grids unequal *)
Theorem c20_single_lon g i old v :
  nth_error (c20_lon g) i = Some old -> v <> old ->
  c20_eq g (c20_with_lon g (c20_set i v (c20_lon g))) = false.
Proof.
  intros H Hne. apply not_true_is_false. intros E. apply c20_eq_iff in E.
  destruct E as (_ & E & _). simpl in E. symmetry in E. revert E. eapply c20_set_neq; eauto.
Qed.

Theorem c20_single_lat g i old v :
  nth_error (c20_lat g) i = Some old -> v <> old ->
  c20_eq g (c20_with_lat g (c20_set i v (c20_lat g))) = false.
Proof.
  intros H Hne. apply not_true_is_false. intros E. apply c20_eq_iff in E.
  destruct E as (_ & _ & E & _). simpl in E. symmetry in E. revert E. eapply c20_set_neq; eauto.
Qed.

(* changing any single connectivity entry makes the grids unequal *)
Theorem c20_single_conn g f r j old v :
  nth_error (c20_conn g) f = Some r -> nth_error r j = Some old -> v <> old ->
  c20_eq g (c20_with_conn g (c20_set f (c20_set j v r) (c20_conn g))) = false.
Proof.
  intros Hf Hj Hne. apply not_true_is_false. intros E. apply c20_eq_iff in E.
  destruct E as (_ & _ & _ & E). simpl in E. symmetry in E. revert E.
  eapply c20_set_neq; [exact Hf|]. eapply c20_set_neq; eauto.
Qed.

(* a different number of nodes or faces makes the grids unequal *)
Theorem c20_count g h :
  (length (c20_lon g) <> length (c20_lon h) \/ length (c20_lat g) <> length (c20_lat h)
   \/ length (c20_conn g) <> length (c20_conn h)) -> c20_eq g h = false.
Proof.
  intros H. apply not_true_is_false. intros E. apply c20_eq_iff in E.
  destruct E as (_ & E1 & E2 & E3). rewrite E1, E2, E3 in H. tauto.
Qed.

Theorem c20_format g s : s <> c20_spec g -> c20_eq g (c20_with_spec g s) = false.
Proof.
  intros H. apply not_true_is_false. intros E. apply c20_eq_iff in E. simpl in E. destruct E as (E & _). congruence.
Qed.

(* non-vacuity *)
Definition c20_ex : c20_grid :=
  {| c20_spec := 1; c20_lon := [(0,1);(45,2);(-3,1)]; c20_lat := [(1,1);(2,1);(7,2)]; c20_conn := [[0;1;2]] |}.
Example c20_ex_single :
  c20_eq c20_ex (c20_with_lon c20_ex (c20_set 1 (46,2) (c20_lon c20_ex))) = false
  /\ c20_eq c20_ex (c20_with_conn c20_ex (c20_set 0 (c20_set 2 1 [0;1;2]) (c20_conn c20_ex))) = false
  /\ c20_eq c20_ex c20_ex = true.
Proof. vm_compute. repeat split. Qed.
