(* Equality as decided by the code's own formula (Gen/C20_eq.v, regenerated from grid.py on every run) is the identity of
   the four observed components, hence an equivalence relation; inequality is its complement. *)
From Verif Require Import Base C20_eq C20 C20_proofs.

Theorem c20_eq_is_identity g h : c20_eq g h = true <-> g = h.
Proof.
  rewrite c20_eq_iff. destruct g as [s1 lo1 la1 c1], h as [s2 lo2 la2 c2]; simpl. split.
  - intros (-> & -> & -> & ->). reflexivity.
  - intros H. inversion H. repeat split.
Qed.

Theorem c20_eq_trans g h k : c20_eq g h = true -> c20_eq h k = true -> c20_eq g k = true.
Proof. rewrite !c20_eq_is_identity. congruence. Qed.

Theorem c20_ne_iff g h : c20_ne g h = true <-> g <> h.
Proof.
  rewrite c20_ne_is_negation, Bool.negb_true_iff. split.
  - intros H Heq. apply c20_eq_is_identity in Heq. congruence.
  - intros H. destruct (c20_eq g h) eqn:E; [|reflexivity]. apply c20_eq_is_identity in E. contradiction.
Qed.

(* exactly one of == and != holds, for every pair *)
Theorem c20_eq_xor_ne g h : xorb (c20_eq g h) (c20_ne g h) = true.
Proof. rewrite c20_ne_is_negation. destruct (c20_eq g h); reflexivity. Qed.

Example c20_trans_ex :
  let g := {| c20_spec := 1; c20_lon := [(1, 2)]; c20_lat := [(3, 4)]; c20_conn := [[0; 1; 2]] |} in
  c20_eq g g = true /\ c20_ne g {| c20_spec := 1; c20_lon := [(1, 2)]; c20_lat := [(3, 5)]; c20_conn := [[0; 1; 2]] |} = true.
Proof. vm_compute. split; reflexivity. Qed.
