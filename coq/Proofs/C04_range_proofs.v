(* Proofs about the range normalisation _set_desired_longitude_range (Model/C04.v: c04_wrap180,
   c04_range_fix, the LCondWrap operator).  Kept apart from C04_proofs.v to keep rebuilds short. *)
From Coq Require Import Reals Lra Lia ZArith List Bool.
From Verif Require Import Base C04 C04_proofs.
Local Open Scope R_scope.

(* ---- the range normalisation _set_desired_longitude_range ---- *)
Lemma c04_rmod_small x m : 0 <= x < m -> c04_rmod x m = x.
Proof.
  intros [H0 H1]. unfold c04_rmod.
  assert (Hm : 0 < m) by lra.
  assert (Q0 : 0 <= x / m) by (apply Rmult_le_pos; [exact H0|left; apply Rinv_0_lt_compat; exact Hm]).
  assert (Q1 : x / m < 1).
  { apply Rmult_lt_reg_r with m; [exact Hm|]. replace (x / m * m) with x by (field; lra). lra. }
  assert (E : Int_part (x / m) = 0%Z).
  { unfold Int_part. rewrite <- (tech_up (x / m) 1); [reflexivity| |]; simpl; lra. }
  rewrite E. simpl. ring.
Qed.

Lemma c04_wrap_fixed d : -180 <= d < 180 -> c04_wrap180 d = d.
Proof. intros H. unfold c04_wrap180. rewrite c04_rmod_small by lra. ring. Qed.

(* the unconditional wrap: every real longitude lands in [-180,180), idempotently, same point *)
Lemma c04_wrap_idem d : c04_wrap180 (c04_wrap180 d) = c04_wrap180 d.
Proof. apply c04_wrap_fixed. apply c04_wrap_range. Qed.

Lemma c04_any_gt180_none f n : (forall j, (j < n)%nat -> f j <= 180) -> c04_any_gt180 f n = false.
Proof.
  induction n as [|n IH]; intros H; simpl; [reflexivity|].
  destruct (Rlt_dec 180 (f n)) as [G|G]; [pose proof (H n ltac:(lia)); lra|].
  apply IH. intros j Hj. apply H. lia.
Qed.

(* the conditional range fix of the library (wrap the whole array iff its maximum exceeds 180) *)
Lemma c04_range_fix_spec f n :
  (forall j, (j < n)%nat -> -180 <= f j) ->
  forall i lat, (i < n)%nat ->
    -180 <= c04_range_fix f n i <= 180 /\
    c04_range_fix (c04_range_fix f n) n i = c04_range_fix f n i /\
    c04_ll2xyz (c04_deg2rad (c04_range_fix f n i), lat) = c04_ll2xyz (c04_deg2rad (f i), lat).
Proof.
  intros Hlo i lat Hi.
  destruct (c04_any_gt180 f n) eqn:A.
  - assert (V : forall j, c04_range_fix f n j = c04_wrap180 (f j)) by (intros j; unfold c04_range_fix; rewrite A; reflexivity).
    assert (B : c04_any_gt180 (c04_range_fix f n) n = false).
    { apply c04_any_gt180_none. intros j Hj. rewrite V. pose proof (c04_wrap_range (f j)). lra. }
    assert (W : c04_range_fix (c04_range_fix f n) n i = c04_range_fix f n i)
      by (unfold c04_range_fix at 1; rewrite B; reflexivity).
    rewrite W, V. pose proof (c04_wrap_range (f i)) as R. split; [lra|]. split; [reflexivity|apply c04_wrap_same_point].
  - assert (V : forall j, c04_range_fix f n j = f j) by (intros j; unfold c04_range_fix; rewrite A; reflexivity).
    assert (B : c04_any_gt180 (c04_range_fix f n) n = false).
    { apply c04_any_gt180_none. intros j Hj. rewrite V. apply (c04_any_gt180_false f n A j Hj). }
    assert (W : c04_range_fix (c04_range_fix f n) n i = c04_range_fix f n i)
      by (unfold c04_range_fix at 1; rewrite B; reflexivity).
    rewrite W, V. pose proof (c04_any_gt180_false f n A i Hi). pose proof (Hlo i Hi).
    split; [lra|]. split; reflexivity.
Qed.

(* the LCondWrap operator of the dataflow model is this function *)
Lemma c04_sem_condwrap en k l i :
  c04_sem_ll en (LCondWrap k l) i =
    (c04_range_fix (fun j => fst (c04_sem_ll en l j)) (en_count en k) i, snd (c04_sem_ll en l i)).
Proof.
  simpl. unfold c04_range_fix. destruct (c04_any_gt180 _ _); unfold c04_wrap_ll; simpl;
    destruct (c04_sem_ll en l i); reflexivity.
Qed.

Example c04_range_fix_nonvacuous :
  (forall j, (j < 2)%nat -> -180 <= (fun j : nat => match j with O => 270 | _ => -10 end) j) /\
  c04_any_gt180 (fun j : nat => match j with O => 270 | _ => -10 end) 2 = true.
Proof.
  split.
  - intros j Hj. destruct j as [|[|j]]; try lia; lra.
  - simpl. destruct (Rlt_dec 180 (-10)); [lra|]. destruct (Rlt_dec 180 270); [reflexivity|lra].
Qed.
