From Coq Require Import String ZifyBool.
From Verif Require Import Base C10 C10_route.
Local Open Scope Z_scope.

Definition Inv (sz : c10_sizes) (v : c10_val) : Prop := c10_consistent sz v = true.

Lemma consistent_iff sz v :
  c10_consistent sz v = true <->
  v_ux v = true /\ exists f g, v_grid v = Some (f, g) /\
    forall d n, In (d, n) (v_dims v) -> c10_is_grid_dim d = true -> n = c10_count sz f d.
Proof.
  unfold c10_consistent. rewrite andb_true_iff. split.
  - intros [Hux H]. split; [exact Hux|]. destruct (v_grid v) as [[f g]|]; [|discriminate].
    exists f, g. split; [reflexivity|]. intros d n Hin Hg. rewrite forallb_forall in H.
    specialize (H (d, n) Hin). simpl in H. rewrite Hg in H. simpl in H. apply Z.eqb_eq in H. exact H.
  - intros [Hux (f & g & Hgr & H)]. split; [exact Hux|]. rewrite Hgr. apply forallb_forall.
    intros [d n] Hin. simpl. destruct (c10_is_grid_dim d) eqn:E; simpl; [|reflexivity].
    apply Z.eqb_eq. apply H; assumption.
Qed.

(* dims transformers along non-grid dimensions keep every grid dimension with its length *)
Lemma dimop_grid_dims o dims d n :
  c10_dimop_wf o = true -> c10_is_grid_dim d = true ->
  In (d, n) (c10_apply_dimop o dims) -> In (d, n) dims.
Proof.
  intros Hwf Hg Hin. destruct o as [|d0|d0 n0|d0 n0|]; simpl in *.
  - exact Hin.
  - apply filter_In in Hin. tauto.
  - apply in_map_iff in Hin. destruct Hin as ([d1 n1] & Heq & Hin). simpl in Heq.
    destruct (d1 =? d0) eqn:E.
    + inversion Heq; subst. rewrite Hg in Hwf. discriminate.
    + inversion Heq; subst. exact Hin.
  - destruct Hin as [Heq|Hin]; [|exact Hin]. inversion Heq; subst. rewrite Hg in Hwf. discriminate.
  - apply in_rev. exact Hin.
Qed.

Lemma step_inv sz v op : Inv sz v -> c10_op_ok op = true -> Inv sz (c10_step sz v op).
Proof.
  unfold Inv. intros Hv Hok. apply consistent_iff in Hv. destruct Hv as (Hux & f & g & Hgr & Hd).
  apply consistent_iff. destruct op as [h o|fam'| | |dst|fam' dst|fam']; simpl in *.
  - apply andb_true_iff in Hok. destruct Hok as [Ha Hwf].
    destruct h; simpl in Ha; try discriminate; simpl; rewrite ?Hgr; (split; [reflexivity|]);
      [exists f, g|exists f, g|exists f, (g + 1)]; (split; [reflexivity|]);
      intros d n Hin Hg; apply Hd; [eapply dimop_grid_dims; eauto|exact Hg|eapply dimop_grid_dims; eauto|exact Hg|
                                   eapply dimop_grid_dims; eauto|exact Hg].
  - split; [reflexivity|]. exists fam', 0. split; [reflexivity|]. intros d n Hin Hg.
    unfold c10_retag in Hin. apply in_map_iff in Hin. destruct Hin as ([d1 n1] & Heq & _). simpl in Heq.
    destruct (c10_is_grid_dim d1) eqn:E; inversion Heq; subst; [reflexivity|congruence].
  - split; [reflexivity|]. exists f, g. split; [exact Hgr|]. intros d n Hin Hg.
    apply filter_In in Hin. apply Hd; tauto.
  - rewrite Hgr. simpl. split; [reflexivity|]. exists f, g. split; [reflexivity|]. intros d n Hin Hg.
    apply in_map_iff in Hin. destruct Hin as ([d1 n1] & Heq & Hin1). simpl in Heq.
    destruct (c10_is_grid_dim d1) eqn:E; inversion Heq; subst; [reflexivity|congruence].
  - rewrite Hgr. simpl. split; [reflexivity|]. exists f, g. split; [reflexivity|]. intros d n Hin Hg.
    apply in_map_iff in Hin. destruct Hin as ([d1 n1] & Heq & Hin1). simpl in Heq.
    destruct (d1 =? 0) eqn:E; inversion Heq; subst; [reflexivity|]. apply Hd; assumption.
  - split; [reflexivity|]. exists fam', 0. split; [reflexivity|]. intros d n Hin Hg.
    apply in_map_iff in Hin. destruct Hin as ([d1 n1] & Heq & Hin1). simpl in Heq.
    destruct (c10_is_grid_dim d1) eqn:E; inversion Heq; subst; [reflexivity|congruence].
  - split; [reflexivity|]. exists fam', 0. split; [reflexivity|]. intros d n Hin Hg.
    apply in_map_iff in Hin. destruct Hin as ([d1 n1] & Heq & Hin1). simpl in Heq.
    destruct (c10_is_grid_dim d1) eqn:E; inversion Heq; subst; [reflexivity|congruence].
Qed.

(* closure: every program over operations whose final hook attaches keeps a UxDataArray on a grid whose
   element counts equal the lengths of its grid dimensions — any depth *)
Theorem closure sz prog : forall v, Inv sz v -> forallb c10_op_ok prog = true -> Inv sz (c10_eval sz prog v).
Proof.
  induction prog as [|op prog IH]; intros v Hv Hok; simpl; [exact Hv|].
  simpl in Hok. apply andb_true_iff in Hok. destruct Hok as [H1 H2].
  apply IH; [apply step_inv; assumption|exact H2].
Qed.

(* the grid object stays the same one through xarray operations other than deep copies *)
Theorem same_grid_object v h o :
  h = HReplace \/ h = HCopyShallow -> v_grid (c10_apply_hook h v (c10_apply_dimop o (v_dims v))) = v_grid v.
Proof. intros [->| ->]; reflexivity. Qed.

Theorem deep_copy_equal_distinct v o f g : v_grid v = Some (f, g) ->
  v_grid (c10_apply_hook HCopyDeep v (c10_apply_dimop o (v_dims v))) = Some (f, g + 1).
Proof. intros H. simpl. rewrite H. reflexivity. Qed.

(* an operation routed to the plain constructor (or to _construct_direct) loses the property *)
Theorem plain_route_refuted sz v o h :
  h = HPlain \/ h = HConstructDirect \/ h = HInit \/ h = HRaises ->
  c10_consistent sz (c10_step sz v (XOp h o)) = false.
Proof.
  intros [->|[->|[->| ->]]]; unfold c10_consistent; simpl; try reflexivity; apply andb_false_r.
Qed.

(* the routes measured on this run: every operation the property names attaches ... *)
Lemma required_routes_attach : c10_all_attach c10_required_ops c10_routes = true.
Proof. vm_compute. reflexivity. Qed.

(* ... while the operations xarray implements through apply_ufunc do not (known findings) *)
Lemma known_plain_routes :
  forallb (fun n => match c10_lookup n c10_routes with Some HPlain => true | _ => false end) c10_known_plain_ops = true.
Proof. vm_compute. reflexivity. Qed.

Lemma known_gridless_routes :
  forallb (fun n => match c10_lookup n c10_routes with Some HInit => true | _ => false end) c10_known_gridless_ops = true.
Proof. vm_compute. reflexivity. Qed.

(* non-vacuity *)
Definition ex_sz : c10_sizes := fun f => if f =? 0 then (6, 12, 8) else (4, 5, 2).
Definition ex_v : c10_val := {| v_ux := true; v_grid := Some (0, 0); v_dims := [(3, 3); (2, 8)] |}.
Example ex_closure :
  Inv ex_sz ex_v /\
  c10_eval ex_sz [XOp HReplace (DDrop 3); XOp HCopyDeep DKeep; UEdgeOp; XOp HReplace (DAdd 4 2); UIselGrid 1; UIntegrate] ex_v
  = {| v_ux := true; v_grid := Some (1, 0); v_dims := [(4, 2); (1, 5)] |}.
Proof. split; vm_compute; reflexivity. Qed.
