(* Proofs about Model/C02_sup.v: face_edge_connectivity on a grid whose source supplied the edge table. *)
From Coq Require Import Sorting.Permutation Sorting.Sorted Classes.RelationClasses.
From Verif Require Import Base C02 C02_proofs C02_check C02_check_proofs C02_sup.

(* ---------------- small list facts ---------------- *)

Lemma pairs_eqb_eq a : forall b, pairs_eqb a b = true <-> a = b.
Proof.
  induction a as [|x a IH]; intros [|y b]; simpl; split; intros H; try reflexivity; try discriminate.
  - apply andb_true_iff in H. destruct H as [H1 H2]. apply pair_eqb_eq in H1. apply IH in H2. subst. reflexivity.
  - inversion H; subst. rewrite pair_eqb_refl. simpl. apply IH. reflexivity.
Qed.

Lemma zseq_length k n : length (zseq k n) = n.
Proof. revert k; induction n as [|n IH]; intros k; simpl; [reflexivity|rewrite IH; reflexivity]. Qed.

Lemma zseq_In k n i : In i (zseq k n) <-> k <= i < k + Z.of_nat n.
Proof.
  revert k; induction n as [|n IH]; intros k; simpl.
  - split; [intros []|lia].
  - rewrite IH. lia.
Qed.

Lemma zseq_seq k n : zseq (Z.of_nat k) n = map Z.of_nat (seq k n).
Proof.
  revert k; induction n as [|n IH]; intros k; simpl; [reflexivity|].
  f_equal. replace (Z.of_nat k + 1) with (Z.of_nat (S k)) by lia. apply IH.
Qed.

Lemma map_nth_seq {A} (d : A) (l : list A) : forall k,
  map (fun i => nth (i - k) l d) (seq k (length l)) = l.
Proof.
  induction l as [|a l IH]; intros k; simpl; [reflexivity|].
  rewrite Nat.sub_diag. f_equal.
  rewrite <- (IH (S k)) at 2.
  apply map_ext_in. intros i Hi. apply in_seq in Hi.
  replace (i - k)%nat with (S (i - S k)) by lia. reflexivity.
Qed.

Lemma take_rows_id NS : take_rows NS (zseq 0 (length NS)) = NS.
Proof.
  unfold take_rows, nthP. change 0 with (Z.of_nat 0). rewrite zseq_seq, map_map.
  etransitivity; [|exact (map_nth_seq (FILL, FILL) NS 0%nat)].
  apply map_ext. intros i. rewrite Nat2Z.id, Nat.sub_0_r. reflexivity.
Qed.

Lemma map_snd_combine {A B} (a : list A) (b : list B) : length a = length b -> map snd (combine a b) = b.
Proof.
  revert b; induction a as [|x a IH]; intros [|y b] H; simpl in *; try reflexivity; try discriminate.
  f_equal. apply IH. lia.
Qed.

Lemma map_fst_combine {A B} (a : list A) (b : list B) : length a = length b -> map fst (combine a b) = a.
Proof.
  revert b; induction a as [|x a IH]; intros [|y b] H; simpl in *; try reflexivity; try discriminate.
  f_equal. apply IH. lia.
Qed.

Lemma nth_error_map_inv {A B} (f : A -> B) l : forall n y,
  nth_error (map f l) n = Some y -> exists x, nth_error l n = Some x /\ f x = y.
Proof.
  induction l as [|a l IH]; intros [|n] y H; simpl in *; try discriminate.
  - inversion H. exists a. split; reflexivity.
  - apply IH. exact H.
Qed.

Lemma chunk_map (g : Z -> Z) m : forall fuel l, chunk m fuel (map g l) = map (map g) (chunk m fuel l).
Proof.
  induction fuel as [|fuel IH]; intros l; simpl; [reflexivity|].
  rewrite firstn_map, skipn_map, IH. reflexivity.
Qed.

(* ---------------- np.lexsort ---------------- *)

Lemma lexsort_perm NS : Permutation (lexsort_order NS) (zseq 0 (length NS)).
Proof.
  unfold lexsort_order.
  rewrite <- (map_snd_combine NS (zseq 0 (length NS))) at 2 by (rewrite zseq_length; reflexivity).
  apply Permutation_map, Permutation_sym, KeyIdxSort.Permuted_sort.
Qed.

Lemma lexsort_range NS i : In i (lexsort_order NS) -> 0 <= i < Z.of_nat (length NS).
Proof.
  intros H. apply (Permutation_in _ (lexsort_perm NS)) in H. apply zseq_In in H. lia.
Qed.

(* supplied[order] is a rearrangement of the supplied rows *)
Lemma take_rows_perm NS : Permutation (take_rows NS (lexsort_order NS)) NS.
Proof.
  rewrite <- (take_rows_id NS) at 3. unfold take_rows. apply Permutation_map, lexsort_perm.
Qed.

(* ---------------- the accepted case ---------------- *)

Lemma accepts_inv t S : sup_accepts t S = true ->
  length S = length (edges t) /\ take_rows (sup_sorted S) (lexsort_order (sup_sorted S)) = edges t.
Proof.
  unfold sup_accepts. intros H. apply andb_true_iff in H. destruct H as [H1 H2].
  apply Nat.eqb_eq in H1. apply pairs_eqb_eq in H2. split; assumption.
Qed.

(* a kept table is, up to the orientation of its rows, a rearrangement of the derived edges *)
Theorem sup_accepts_perm t S : sup_accepts t S = true -> Permutation (map norm_pair S) (edges t).
Proof.
  intros H. destruct (accepts_inv t S H) as [_ H2]. rewrite <- H2.
  apply Permutation_sym, take_rows_perm.
Qed.

Lemma norm_pair_idem p : norm_pair (norm_pair p) = norm_pair p.
Proof.
  destruct p as [a b]. unfold norm_pair; simpl.
  destruct (a <=? b) eqn:E; simpl; rewrite ?E; [reflexivity|].
  destruct (b <=? a) eqn:E2; [reflexivity|lia].
Qed.

Definition sup_fe_ok (t : table) (m : nat) (R : sup_result) : Prop :=
  forall f r, nth_error t f = Some r ->
  exists fe, nth_error (sr_face_edges R) f = Some fe /\ length fe = m /\
   (forall j, (j < first_fill r)%nat ->
       exists e p, nth_error fe j = Some (Z.of_nat e) /\ nth_error (sr_edges R) e = Some p /\
                   norm_pair p = norm_pair (nthP (cyc_pairs (corners r)) j)) /\
   (forall j, (first_fill r <= j < m)%nat -> nth_error fe j = Some FILL).

(* whichever branch is taken, face_edge_connectivity[f, j] names, in the edge table the grid reports,
   the edge joining corner j and corner j+1 of face f; padding exactly where f has no corner *)
Theorem sup_face_edge_spec m t S : std_table m t -> sup_fe_ok t m (sup_face_edges t m S).
Proof.
  intros Hstd f r Hf. unfold sup_face_edges.
  destruct (face_edge_spec m t f r Hstd Hf) as (fe & Hfe & Hlen & Hreal & Hpad).
  destruct (sup_accepts t S) eqn:Hacc; cbn [sr_face_edges sr_edges].
  - destruct (accepts_inv t S Hacc) as [HlenS Htake].
    set (order := lexsort_order (sup_sorted S)) in *.
    exists (map (sup_renumber order) fe). split; [|split; [|split]].
    + rewrite chunk_map. unfold face_edges in Hfe. exact (map_nth_error (map (sup_renumber order)) f _ Hfe).
    + rewrite map_length. exact Hlen.
    + intros j Hj. destruct (Hreal j Hj) as (e & He & Hq).
      set (q := norm_pair (nthP (cyc_pairs (corners r)) j)) in *.
      rewrite <- Htake in Hq. unfold take_rows in Hq.
      destruct (nth_error_map_inv _ _ _ _ Hq) as (i & Hi & Hiq).
      assert (Hrange : 0 <= i < Z.of_nat (length (sup_sorted S))).
      { apply lexsort_range. exact (nth_error_In _ _ Hi). }
      unfold sup_sorted in Hrange. rewrite map_length in Hrange.
      assert (Hlt : (Z.to_nat i < length S)%nat) by lia.
      destruct (nth_error S (Z.to_nat i)) as [p|] eqn:Hp; [|apply nth_error_None in Hp; lia].
      exists (Z.to_nat i), p. split; [|split].
      * rewrite (map_nth_error _ j fe He). f_equal. unfold sup_renumber.
        rewrite is_fill_nonneg by lia. unfold nthZ. rewrite Nat2Z.id.
        rewrite (nth_error_nth _ _ FILL Hi). lia.
      * exact Hp.
      * unfold nthP, sup_sorted in Hiq.
        rewrite (nth_error_nth (map norm_pair S) (Z.to_nat i) (FILL, FILL) (map_nth_error norm_pair _ _ Hp)) in Hiq.
        exact Hiq.
    + intros j Hj. rewrite (map_nth_error _ j fe (Hpad j Hj)).
      unfold sup_renumber. rewrite is_fill_FILL. reflexivity.
  - exists fe. split; [exact Hfe|split; [exact Hlen|split; [|exact Hpad]]].
    intros j Hj. destruct (Hreal j Hj) as (e & He & Hq).
    exists e, (norm_pair (nthP (cyc_pairs (corners r)) j)). split; [exact He|split; [exact Hq|apply norm_pair_idem]].
Qed.

(* the reported edge table still lists exactly the faces' boundary segments, each once (up to orientation) *)
Theorem sup_edges_exact m t S : std_table m t ->
  let R := sup_face_edges t m S in
  (forall q, In q (map norm_pair (sr_edges R)) <-> In q (spec_pairs t)) /\ NoDup (map norm_pair (sr_edges R)).
Proof.
  intros Hstd R. subst R. unfold sup_face_edges.
  destruct (sup_accepts t S) eqn:Hacc; cbn [sr_edges].
  - pose proof (sup_accepts_perm t S Hacc) as HP. split.
    + intros q. rewrite <- (edges_iff m t q Hstd). split; intros H.
      * exact (Permutation_in _ HP H).
      * exact (Permutation_in _ (Permutation_sym HP) H).
    + apply (Permutation_NoDup (Permutation_sym HP)). apply edges_NoDup.
  - rewrite (map_norm_edges m t Hstd). split; [intros q; apply (edges_iff m t q Hstd)|apply edges_NoDup].
Qed.

(* the supplied table is what the grid reports whenever it is accepted: no row moved, none re-oriented *)
Theorem sup_kept_intact m t S :
  let R := sup_face_edges t m S in
  (sr_kept R = true -> sr_edges R = S) /\ (sr_kept R = false -> sr_edges R = edges t /\ sr_face_edges R = face_edges t m).
Proof.
  unfold sup_face_edges. destruct (sup_accepts t S); cbn; split; intros H; try discriminate; auto.
Qed.

(* ---------------- completeness of the acceptance test ---------------- *)

Definition kleP (a b : (Z * Z) * Z) : Prop := is_true (KeyIdxOrder.leb a b).

Lemma kle_trans : Transitive kleP.
Proof.
  intros [[a b] i] [[c d] j] [[e f] k]; unfold kleP, is_true, KeyIdxOrder.leb; simpl. lia.
Qed.

Lemma kle_lebP a b : kleP a b -> lebP (fst a) (fst b).
Proof.
  destruct a as [[a b'] i], b as [[c d] j]; unfold kleP, lebP, is_true, KeyIdxOrder.leb, PairOrder.leb; simpl. lia.
Qed.

Lemma StronglySorted_map_fst L : StronglySorted kleP L -> StronglySorted lebP (map fst L).
Proof.
  induction 1 as [|a L HS IH Hall]; simpl; constructor; [exact IH|].
  rewrite Forall_forall in *. intros q Hq. apply in_map_iff in Hq. destruct Hq as (b & <- & Hb).
  apply kle_lebP, Hall, Hb.
Qed.

Lemma sorted_perm_eq : forall a b, StronglySorted lebP a -> StronglySorted lebP b -> Permutation a b -> a = b.
Proof.
  induction a as [|x a IH]; intros b Ha Hb HP.
  - apply Permutation_nil in HP. subst. reflexivity.
  - destruct b as [|y b]; [apply Permutation_sym, Permutation_nil in HP; discriminate|].
    inversion Ha as [|? ? Ha' Hxa]; subst. inversion Hb as [|? ? Hb' Hyb]; subst.
    rewrite Forall_forall in Hxa, Hyb.
    assert (Hxy : x = y).
    { assert (Hx : In x (y :: b)) by (apply (Permutation_in _ HP); left; reflexivity).
      assert (Hy : In y (x :: a)) by (apply (Permutation_in _ (Permutation_sym HP)); left; reflexivity).
      destruct Hx as [Hx|Hx]; [symmetry; exact Hx|]. destruct Hy as [Hy|Hy]; [exact Hy|].
      apply leb_antisym; [apply Hxa, Hy|apply Hyb, Hx]. }
    subst y. f_equal. apply IH; try assumption. exact (Permutation_cons_inv HP).
Qed.

Lemma filter_StronglySorted {A} (R : A -> A -> Prop) (p : A -> bool) l :
  StronglySorted R l -> StronglySorted R (filter p l).
Proof.
  induction 1 as [|a l HS IH Hall]; simpl; [constructor|].
  destruct (p a); [|exact IH]. constructor; [exact IH|].
  rewrite Forall_forall in *. intros x Hx. apply filter_In in Hx. apply Hall, Hx.
Qed.

Lemma dedup_StronglySorted l : StronglySorted lebP l -> StronglySorted lebP (dedup l).
Proof.
  induction l as [|a l IH]; intros HS; [constructor|].
  inversion HS as [|? ? HS' Hall]; subst.
  destruct l as [|b l]; [simpl; constructor; [constructor|constructor]|].
  change (dedup (a :: b :: l)) with (if pair_eqb a b then dedup (b :: l) else a :: dedup (b :: l)).
  destruct (pair_eqb a b); [apply IH; exact HS'|].
  constructor; [apply IH; exact HS'|].
  rewrite Forall_forall in *. intros x Hx. rewrite C02_proofs.dedup_In in Hx. apply Hall, Hx.
Qed.

Lemma edges_sorted t : StronglySorted lebP (edges t).
Proof.
  unfold edges, build_edges; cbn [er_edges]. apply filter_StronglySorted.
  unfold unique_pairs. apply dedup_StronglySorted, PairSort.StronglySorted_sort, leb_trans.
Qed.

(* rows of combine NS idx remember which supplied row they are *)
Lemma combine_rows_ok NS : forall k, Forall (fun a : (Z * Z) * Z => k <= snd a /\ nthP NS (Z.to_nat (snd a - k)) = fst a)
                                          (combine NS (zseq k (length NS))).
Proof.
  induction NS as [|p NS IH]; intros k; simpl; constructor.
  - simpl. rewrite Z.sub_diag. split; [lia|reflexivity].
  - specialize (IH (k + 1)). rewrite Forall_forall in *. intros a Ha. destruct (IH a Ha) as [H1 H2].
    split; [lia|]. unfold nthP in *.
    replace (Z.to_nat (snd a - k)) with (S (Z.to_nat (snd a - (k + 1)))) by lia. exact H2.
Qed.

Lemma take_rows_sorted NS :
  take_rows NS (lexsort_order NS) = map fst (KeyIdxSort.sort (combine NS (zseq 0 (length NS)))).
Proof.
  unfold take_rows, lexsort_order. rewrite map_map. apply map_ext_in. intros a Ha.
  pose proof (combine_rows_ok NS 0) as Hall. rewrite Forall_forall in Hall.
  assert (Hin : In a (combine NS (zseq 0 (length NS)))).
  { apply (Permutation_in _ (Permutation_sym (KeyIdxSort.Permuted_sort _))). exact Ha. }
  destruct (Hall a Hin) as [_ H]. rewrite Z.sub_0_r in H. exact H.
Qed.

(* the test accepts EVERY supplied table that lists the faces' edges once each, in any order and orientation:
   the code never discards a good source table *)
Theorem sup_accepts_complete t S : Permutation (map norm_pair S) (edges t) -> sup_accepts t S = true.
Proof.
  intros HP. unfold sup_accepts. apply andb_true_iff. split.
  - apply Nat.eqb_eq. rewrite <- (Permutation_length HP), map_length. reflexivity.
  - apply pairs_eqb_eq. unfold sup_sorted. apply sorted_perm_eq.
    + rewrite take_rows_sorted. apply StronglySorted_map_fst.
      apply KeyIdxSort.StronglySorted_sort. exact kle_trans.
    + apply edges_sorted.
    + eapply Permutation_trans; [apply take_rows_perm|exact HP].
Qed.

Theorem sup_accepts_iff t S : sup_accepts t S = true <-> Permutation (map norm_pair S) (edges t).
Proof. split; [apply sup_accepts_perm|apply sup_accepts_complete]. Qed.

(* non-vacuity: a two-face strip with a supplied table in scrambled order and mixed orientation is accepted,
   kept, and the face edges are renumbered into it; a wrong table is replaced by the derived one *)
Example sup_example_accepts :
  let t := [[0; 1; 2; 3]; [1; 4; 2; FILL]] in
  let S := [(2, 1); (3, 0); (0, 1); (4, 2); (2, 3); (1, 4)] in
  sup_accepts t S = true /\
  sr_edges (sup_face_edges t 4 S) = S /\
  sr_face_edges (sup_face_edges t 4 S) = [[2; 0; 4; 1]; [5; 3; 0; FILL]].
Proof. vm_compute. repeat split. Qed.

Example sup_example_rejects :
  let t := [[0; 1; 2; 3]; [1; 4; 2; FILL]] in
  let S := [(2, 1); (3, 0); (0, 1); (4, 2); (2, 3); (0, 4)] in
  sup_accepts t S = false /\ sr_edges (sup_face_edges t 4 S) = edges t.
Proof. vm_compute. repeat split. Qed.
