(* Composition of the C02 supplied-edge-table model and the C03 edge_face model: on a grid whose source
   supplied edge_node_connectivity, edge_face_connectivity computed from the face_edge_connectivity that
   _populate_face_edge_connectivity produces lists, for row e OF THE REPORTED EDGE TABLE, exactly the faces
   having that segment among their consecutive corner pairs — whichever branch (keep / replace) was taken. *)
From Coq Require Import ZifyBool Sorting.Permutation.
From Verif Require Import Base C02 C02_proofs C02_check C02_check_proofs C02_sup C02_sup_proofs C03 C03_proofs.
Local Open Scope Z_scope.

(* the (edge, face) visits of the numba loop for ANY face_edge table *)
Lemma events_In_gen : forall FE NPF f0 e f,
  In (e, f) (c03_events FE NPF f0) <->
  exists i fe k x, nth_error FE i = Some fe /\ nth_error NPF i = Some k /\ f = f0 + Z.of_nat i
                   /\ In x (firstn (Z.to_nat k) fe) /\ e = Z.to_nat x.
Proof.
  induction FE as [|r FE IH]; intros NPF f0 e f.
  - simpl. split; [intros []|intros (i & fe & k & x & H & _); destruct i; discriminate].
  - destruct NPF as [|k NPF].
    + simpl. split; [intros []|intros (i & fe & k & x & _ & H & _); destruct i; discriminate].
    + cbn [c03_events]. rewrite in_app_iff, (IH NPF (f0 + 1) e f). clear IH. split.
      * intros [Hin|(i & fe & k' & x & H1 & H2 & -> & H3 & ->)].
        -- apply in_map_iff in Hin. destruct Hin as (x & Hx & Hin). inversion Hx; subst.
           exists 0%nat, r, k, x. repeat split; try reflexivity; [lia|exact Hin].
        -- exists (S i), fe, k', x. repeat split; try assumption. lia.
      * intros (i & fe & k' & x & H1 & H2 & -> & H3 & ->). destruct i as [|i].
        -- simpl in H1, H2. inversion H1; inversion H2; subst. left. apply in_map_iff.
           exists x. split; [f_equal; lia|exact H3].
        -- right. exists i, fe, k', x. repeat split; try assumption. lia.
Qed.

Lemma In_firstn_nth {A} (x : A) : forall n l, In x (firstn n l) <-> exists j, (j < n)%nat /\ nth_error l j = Some x.
Proof.
  induction n as [|n IH]; intros l.
  - simpl. split; [intros []|intros (j & H & _); lia].
  - destruct l as [|a l]; simpl.
    + split; [intros []|intros (j & _ & H); destruct j; discriminate].
    + rewrite IH. split.
      * intros [->|(j & Hj & H)]; [exists 0%nat; split; [lia|reflexivity]|exists (S j); split; [lia|exact H]].
      * intros ([|j] & Hj & H); [left; inversion H; reflexivity|right; exists j; split; [lia|exact H]].
Qed.

Section Supplied.
Variables (m : nat) (t : table) (S : list (Z * Z)).
Hypothesis Hstd : std_table m t.
Local Notation R := (sup_face_edges t m S).
Local Notation E := (sr_edges R).
Local Notation FE := (sr_face_edges R).
Local Notation NPF := (n_nodes_per_face t).

Lemma sup_row_len r : In r t -> first_fill r = length (cyc_pairs (corners r)).
Proof.
  intros Hr. unfold std_table in Hstd. rewrite Forall_forall in Hstd. destruct (Hstd r Hr) as [_ Hsr].
  destruct (std_row_inv r Hsr) as (c & n & _ & _ & Hcor & Hff). rewrite Hcor, cyc_pairs_length. exact Hff.
Qed.

Lemma sup_events_char e f :
  In (e, f) (c03_events FE NPF 0) <->
  exists i r j, nth_error t i = Some r /\ f = Z.of_nat i /\ (j < first_fill r)%nat /\
     exists p, nth_error E e = Some p /\ norm_pair p = norm_pair (nthP (cyc_pairs (corners r)) j).
Proof.
  pose proof (sup_face_edge_spec m t S Hstd) as Hok.
  rewrite events_In_gen. split.
  - intros (i & fe & k & x & HFE & HNPF & -> & Hx & ->).
    unfold n_nodes_per_face in HNPF. apply nth_error_map_inv in HNPF. destruct HNPF as (r & Hr & <-).
    destruct (Hok i r Hr) as (fe' & Hfe' & _ & Hreal & _).
    rewrite HFE in Hfe'. inversion Hfe'; subst fe'. clear Hfe'.
    rewrite Nat2Z.id in Hx. apply In_firstn_nth in Hx. destruct Hx as (j & Hj & Hjx).
    destruct (Hreal j Hj) as (e0 & p & He0 & Hp & Hnp). rewrite Hjx in He0. inversion He0; subst x.
    exists i, r, j. split; [exact Hr|]. split; [lia|]. split; [exact Hj|].
    exists p. rewrite Nat2Z.id. split; [exact Hp|exact Hnp].
  - intros (i & r & j & Hr & -> & Hj & p & Hp & Hnp).
    destruct (Hok i r Hr) as (fe & Hfe & _ & Hreal & _).
    destruct (Hreal j Hj) as (e0 & p0 & He0 & Hp0 & Hnp0).
    assert (He : e0 = e).
    { destruct (sup_edges_exact m t S Hstd) as [_ Hnd].
      apply (proj1 (NoDup_nth_error (map norm_pair E)) Hnd e0 e).
      - rewrite map_length. apply nth_error_Some. rewrite Hp0. discriminate.
      - rewrite (map_nth_error norm_pair _ _ Hp0), (map_nth_error norm_pair _ _ Hp). rewrite Hnp0, Hnp. reflexivity. }
    subst e0.
    exists i, fe, (Z.of_nat (first_fill r)), (Z.of_nat e). split; [exact Hfe|]. split.
    { unfold n_nodes_per_face. exact (map_nth_error _ i t Hr). }
    split; [lia|]. split; [|rewrite Nat2Z.id; reflexivity].
    rewrite Nat2Z.id. apply In_firstn_nth. exists j. split; [exact Hj|exact He0].
Qed.

(* every visit of the loop addresses a row of the reported edge table *)
Theorem sup_events_in_range : Forall (fun ev => (fst ev < length E)%nat) (c03_events FE NPF 0).
Proof.
  apply Forall_forall. intros [e f] Hin. apply sup_events_char in Hin.
  destruct Hin as (_ & _ & _ & _ & _ & _ & p & Hp & _). simpl. apply nth_error_Some. rewrite Hp. discriminate.
Qed.

(* face f is listed for edge e iff row e of the REPORTED table is, up to orientation, a consecutive corner
   pair of face f *)
Theorem sup_occ_geometric e f :
  In f (c03_occ FE NPF e) <->
  exists i r q, nth_error t i = Some r /\ f = Z.of_nat i /\ In q (cyc_pairs (corners r)) /\
     exists p, nth_error E e = Some p /\ norm_pair p = norm_pair q.
Proof.
  unfold c03_occ. rewrite in_map_iff. split.
  - intros ([e' f'] & Hf & Hin). simpl in Hf. subst f'. apply filter_In in Hin. destruct Hin as [Hin Heq].
    simpl in Heq. apply Nat.eqb_eq in Heq. subst e'. apply sup_events_char in Hin.
    destruct Hin as (i & r & j & Hr & -> & Hj & p & Hp & Hnp).
    exists i, r, (nthP (cyc_pairs (corners r)) j). split; [exact Hr|]. split; [reflexivity|]. split.
    + unfold nthP. apply nth_In. rewrite <- (sup_row_len r (nth_error_In _ _ Hr)). exact Hj.
    + exists p. split; assumption.
  - intros (i & r & q & Hr & -> & Hq & p & Hp & Hnp).
    exists (e, Z.of_nat i). split; [reflexivity|]. apply filter_In. split; [|simpl; apply Nat.eqb_refl].
    apply sup_events_char. destruct (In_nth _ _ (FILL, FILL) Hq) as (j & Hj & Hjq).
    exists i, r, j. split; [exact Hr|]. split; [reflexivity|]. split.
    + rewrite (sup_row_len r (nth_error_In _ _ Hr)). exact Hj.
    + exists p. split; [exact Hp|]. unfold nthP. rewrite Hjq. exact Hnp.
Qed.

(* edge_face row of the whole pipeline on a grid with a source-supplied edge table *)
Theorem sup_edge_face_of_table e : (e < length E)%nat ->
  nth e (c03_edge_faces FE NPF (length E)) (FILL, FILL) = c03_row_of (c03_occ FE NPF e).
Proof. intros He. apply edge_faces_spec; [apply sup_events_in_range|exact He]. Qed.

End Supplied.

Example sup_pipeline_ex :
  let t := [[0; 1; 2; 3]; [1; 4; 2; FILL]] in
  let S := [(2, 1); (3, 0); (0, 1); (4, 2); (2, 3); (1, 4)] in
  let R := sup_face_edges t 4 S in
  c03_edge_faces (sr_face_edges R) (n_nodes_per_face t) (length (sr_edges R))
  = [(0, 1); (0, FILL); (0, FILL); (1, FILL); (0, FILL); (1, FILL)].
Proof. vm_compute. reflexivity. Qed.
