(* Proofs about Model/C01.v: every reader model decodes what the matching encoder wrote
   (read_F (encode_F mesh dialect) = standard form of mesh), for every mesh and every dialect the
   reader handles correctly; `_refuted` witnesses for the dialects the code that exists gets wrong,
   and the same statement for the repaired variants.  Unbounded (induction over faces / rows). *)
From Coq Require Import ZifyBool QArith Qround Lqa Permutation.
From Verif Require Import Base C02 C02_proofs C01.

Local Open Scope Z_scope.

(* ------------------------------------------------------------------------------------------- *)
(* generic facts                                                                                 *)

Lemma c01_wrap64_id z : -9223372036854775808 <= z < 9223372036854775808 -> c01_wrap64 z = z.
Proof. intros H. unfold c01_wrap64. rewrite Z.mod_small by lia. lia. Qed.

Lemma c01_is_fill_false x : 0 <= x -> is_fill x = false.
Proof. unfold is_fill, FILL. lia. Qed.

Lemma c01_map_repeat {A B} (g : A -> B) x n : map g (repeat x n) = repeat (g x) n.
Proof. induction n; simpl; congruence. Qed.

Lemma c01_map_id_on {A} (g : A -> A) l : Forall (fun x => g x = x) l -> map g l = l.
Proof. induction 1; simpl; congruence. Qed.

Lemma c01_map_ext_Forall {A B} (g h : A -> B) l : Forall (fun x => g x = h x) l -> map g l = map h l.
Proof. induction 1; simpl; congruence. Qed.

Lemma c01_Forall_repeat {A} (P : A -> Prop) x n : P x -> Forall P (repeat x n).
Proof. intros; induction n; simpl; constructor; auto. Qed.

Lemma c01_in_concat {A} (x : A) r cs : In r cs -> In x r -> In x (concat cs).
Proof. intros. apply in_concat. exists r. split; assumption. Qed.

Lemma c01_std_full w faces : Forall (fun f => length f = w) faces -> c01_std w faces = faces.
Proof.
  unfold c01_std. induction 1 as [|f faces Hf _ IH]; simpl; [reflexivity|]. f_equal; [|exact IH].
  unfold c01_pad. rewrite Hf, Nat.sub_diag. apply app_nil_r.
Qed.

Lemma c01_pad_length w f : (length f <= w)%nat -> length (c01_pad w f) = w.
Proof. intros. unfold c01_pad. rewrite app_length, repeat_length. lia. Qed.

(* a padded row is in standard form and its corners are the face *)
Lemma c01_pad_corners n w f : c01_wf_face n f -> corners (c01_pad w f) = f.
Proof.
  intros H. unfold c01_pad. apply corners_std.
  eapply Forall_impl; [|exact H]. simpl; intros; lia.
Qed.

Lemma c01_pad_std_row n w f : c01_wf_face n f -> std_row (c01_pad w f).
Proof.
  intros H. exists f, (w - length f)%nat. split; [reflexivity|].
  eapply Forall_impl; [|exact H]. simpl; intros; lia.
Qed.

Lemma c01_std_std_table n w faces : c01_wf_faces n w faces -> std_table w (c01_std w faces).
Proof.
  unfold c01_wf_faces, std_table, c01_std. intros H. apply Forall_map.
  eapply Forall_impl; [|exact H]. simpl. intros f [Hf Hl]. split.
  - apply c01_pad_length; assumption.
  - eapply c01_pad_std_row; eassumption.
Qed.

(* the faces a standard-form table presents are exactly the mesh's faces, corner for corner *)
Lemma c01_std_faces_pos {P} (dflt : P) nodes n w faces : c01_wf_faces n w faces ->
  c01_faces_pos dflt nodes (c01_std w faces) = map (map (fun i => nth (Z.to_nat i) nodes dflt)) faces.
Proof.
  unfold c01_faces_pos, c01_std. intros H. rewrite map_map. apply map_ext_in.
  intros f Hf. unfold c01_wf_faces in H. rewrite Forall_forall in H. destruct (H f Hf) as [Hw _].
  erewrite c01_pad_corners by eassumption. reflexivity.
Qed.

(* ------------------------------------------------------------------------------------------- *)
(* MPAS                                                                                          *)

Lemma c01_mpas_row_ok n f junk : c01_wf_face n f ->
  c01_to_zero_index (c01_replace_zeros (c01_replace_padding (c01_mpas_enc_row f junk) (Z.of_nat (length f))))
  = c01_pad (length f + length junk) f.
Proof.
  intros Hf. unfold c01_replace_padding, c01_mpas_enc_row, c01_pad.
  rewrite Nat2Z.id.
  rewrite firstn_app, map_length, Nat.sub_diag, firstn_O, app_nil_r.
  rewrite firstn_all2 by (rewrite map_length; lia).
  rewrite app_length, map_length.
  replace (length f + length junk - length f)%nat with (length junk) by lia.
  unfold c01_replace_zeros, c01_to_zero_index. rewrite !map_app, !c01_map_repeat, !map_map.
  f_equal.
  rewrite <- (map_id f) at 2. apply c01_map_ext_Forall.
  eapply Forall_impl; [|exact Hf]. simpl. intros x Hx.
  replace (x + 1 =? 0) with false by lia.
  rewrite c01_is_fill_false by lia. lia.
Qed.

(* primal mesh: verticesOnCell with ANY padding content (zeros, repeated last index, junk) *)
Theorem c01_mpas_primal_faces n w (fj : list (list Z * list Z)) :
  Forall (fun p => c01_wf_face n (fst p) /\ (length (fst p) + length (snd p))%nat = w) fj ->
  c01_mpas_padded (map (fun p => c01_mpas_enc_row (fst p) (snd p)) fj)
                  (map (fun p => Z.of_nat (length (fst p))) fj)
  = c01_std w (map fst fj).
Proof.
  unfold c01_mpas_padded, c01_std. induction 1 as [|p fj [Hf Hw] _ IH]; simpl; [reflexivity|].
  f_equal; [|exact IH].
  rewrite (c01_mpas_row_ok n) by assumption. rewrite Hw. reflexivity.
Qed.

(* tables without per-row counts (cellsOnVertex, verticesOnEdge, cellsOnEdge, edgesOnVertex; also the
   dual mesh's faces): 0 = missing element -> fill value, k >= 1 -> k - 1 *)
Definition c01_enc_opt (o : option Z) : Z := match o with None => 0 | Some x => x + 1 end.
Definition c01_dec_opt (o : option Z) : Z := match o with None => FILL | Some x => x end.

Theorem c01_mpas_plain_rows (rows : list (list (option Z))) :
  Forall (Forall (fun o => match o with Some x => 0 <= x | None => True end)) rows ->
  c01_mpas_plain (map (map c01_enc_opt) rows) = map (map c01_dec_opt) rows.
Proof.
  unfold c01_mpas_plain. induction 1 as [|r rows Hr _ IH]; simpl; [reflexivity|].
  f_equal; [|exact IH].
  unfold c01_replace_zeros, c01_to_zero_index. rewrite !map_map.
  apply c01_map_ext_Forall. eapply Forall_impl; [|exact Hr]. simpl.
  intros [x|] Hx; simpl.
  - replace (x + 1 =? 0) with false by lia. rewrite c01_is_fill_false by lia. lia.
  - reflexivity.
Qed.

(* dual mesh faces (closed meshes: every vertex has all its cells): cellsOnVertex - 1 *)
Theorem c01_mpas_dual_faces n w faces :
  Forall (fun f => c01_wf_face n f /\ length f = w) faces ->
  c01_mpas_plain (map (map (fun x => x + 1)) faces) = c01_std w faces.
Proof.
  unfold c01_mpas_plain, c01_std. induction 1 as [|f faces [Hf Hw] _ IH]; simpl; [reflexivity|].
  f_equal; [|exact IH].
  unfold c01_pad. rewrite Hw, Nat.sub_diag. simpl. rewrite app_nil_r.
  unfold c01_replace_zeros, c01_to_zero_index. rewrite !map_map.
  rewrite <- (map_id f) at 2. apply c01_map_ext_Forall.
  eapply Forall_impl; [|exact Hf]. simpl. intros x Hx.
  replace (x + 1 =? 0) with false by lia. rewrite c01_is_fill_false by lia. lia.
Qed.

(* ------------------------------------------------------------------------------------------- *)
(* ESMF                                                                                          *)

Definition c01_ex_faces_def : list (list Z) := [[0; 1; 2; 3]; [1; 4; 2]].

Definition c01_BOUND : Z := 4611686018427387904.     (* 2^62: index magnitudes stay far from overflow *)

Lemma c01_esmf_row_ok n s f junk :
  n <= c01_BOUND -> 0 <= s <= 1 -> c01_wf_face n f ->
  c01_esmf_row s (c01_esmf_enc_row s f junk) (Z.of_nat (length f)) = c01_pad (length f + length junk) f.
Proof.
  intros Hn Hs Hf. unfold c01_esmf_row, c01_esmf_enc_row, c01_pad. rewrite Nat2Z.id.
  rewrite firstn_app, map_length, Nat.sub_diag, firstn_O, app_nil_r.
  rewrite firstn_all2 by (rewrite map_length; lia).
  rewrite app_length, map_length.
  replace (length f + length junk - length f)%nat with (length junk) by lia.
  f_equal. rewrite map_map. rewrite <- (map_id f) at 2. apply c01_map_ext_Forall.
  eapply Forall_impl; [|exact Hf]. simpl. intros x Hx. unfold c01_BOUND in Hn.
  rewrite c01_wrap64_id by lia. lia.
Qed.

(* start_index attribute 0 or 1, or absent (= 1), any padding content (-1, NaN after masking, junk) *)
Theorem c01_esmf_faces n w attr s (fj : list (list Z * list c01_ent)) :
  n <= c01_BOUND -> 0 <= s <= 1 -> (attr = Some s \/ (attr = None /\ s = 1)) ->
  Forall (fun p => c01_wf_face n (fst p) /\ (length (fst p) + length (snd p))%nat = w) fj ->
  c01_esmf attr (map (fun p => c01_esmf_enc_row s (fst p) (snd p)) fj)
           (map (fun p => Z.of_nat (length (fst p))) fj)
  = c01_std w (map fst fj).
Proof.
  intros Hn Hs Ha. unfold c01_esmf, c01_std.
  assert (c01_esmf_start attr = s) as -> by (destruct Ha as [->|[-> ->]]; reflexivity).
  induction 1 as [|p fj [Hf Hw] _ IH]; simpl; [reflexivity|].
  f_equal; [|exact IH]. rewrite (c01_esmf_row_ok n) by assumption. rewrite Hw. reflexivity.
Qed.

(* ------------------------------------------------------------------------------------------- *)
(* Exodus                                                                                        *)

Definition c01_exo_enc_block (w : nat) (faces : list (list Z)) : table :=
  map (fun f => map (fun x => x + 1) f ++ repeat 0 (w - length f)) faces.

Lemma c01_exo_dec_row n w f : c01_wf_face n f ->
  map c01_exo_dec (map (fun x => x + 1) f ++ repeat 0 (w - length f)) = c01_pad w f.
Proof.
  intros Hf. unfold c01_pad. rewrite map_app, c01_map_repeat, map_map. f_equal.
  rewrite <- (map_id f) at 2. apply c01_map_ext_Forall.
  eapply Forall_impl; [|exact Hf]. simpl. intros x Hx. unfold c01_exo_dec.
  replace (x + 1 - 1 =? -1) with false by lia. lia.
Qed.

(* any number of element blocks (1-based; a block may be narrower than the widest one and may itself pad
   short rows with 0): all faces, in block order, in standard form *)
Theorem c01_exodus_faces n w (blocks : list (nat * list (list Z))) :
  Forall (fun b => (fst b <= w)%nat /\ c01_wf_faces n (fst b) (snd b)) blocks ->
  c01_exodus w (map (fun b => c01_exo_enc_block (fst b) (snd b)) blocks) = c01_std w (concat (map snd blocks)).
Proof.
  unfold c01_exodus, c01_std. induction 1 as [|[wb fs] blocks [Hwb Hfs] _ IH]; simpl; [reflexivity|].
  rewrite !map_app. f_equal; [|exact IH]. simpl in *.
  unfold c01_exo_enc_block. rewrite !map_map. apply map_ext_in. intros f Hf.
  unfold c01_wf_faces in Hfs. rewrite Forall_forall in Hfs. destruct (Hfs f Hf) as [Hw Hl].
  rewrite app_length, map_length, repeat_length, <- app_assoc, <- repeat_app.
  replace (wb - length f + (w - (length f + (wb - length f))))%nat with (w - length f)%nat by lia.
  apply (c01_exo_dec_row n); assumption.
Qed.

Theorem c01_exodus_single_block n w faces : c01_wf_faces n w faces ->
  c01_exodus w [c01_exo_enc_block w faces] = c01_std w faces.
Proof.
  intros H. pose proof (c01_exodus_faces n w [(w, faces)]) as E. simpl in E. rewrite app_nil_r in E.
  apply E. constructor; [split; [simpl; lia|exact H]|constructor].
Qed.

(* both coordinate dialects (one 2-D `coord`, or coordx/coordy/coordz) give x, y, z their own arrays *)
Theorem c01_exodus_coords_ok {A} b (cx cy cz : list A) : c01_exodus_coords b cx cy cz = (cx, cy, cz).
Proof. destruct b; reflexivity. Qed.

(* ------------------------------------------------------------------------------------------- *)
(* shared decoding lemmas for index tables in a dialect (base s, padding entry fe)               *)

Definition c01_fill_ok (s n : Z) (fe : c01_ent) : Prop :=
  match fe with EInt v => ~ (s <= v < s + n) | ENan => True end.

Lemma c01_fill_idx_self fe : c01_fill_idx (Some fe) fe = true.
Proof. destruct fe; simpl; [apply Z.eqb_refl|reflexivity]. Qed.

Lemma c01_fill_idx_real s n fe x : c01_fill_ok s n fe -> 0 <= x < n ->
  c01_fill_idx (Some fe) (EInt (x + s)) = false.
Proof. destruct fe as [v|]; simpl; intros; [lia|reflexivity]. Qed.

Lemma c01_replace_fill_row s n w fe f : c01_fill_ok s n fe -> c01_wf_face n f ->
  map (fun e => if c01_fill_idx (Some fe) e then FILL else c01_astype e) (c01_enc_row s fe w f)
  = map (fun x => x + s) f ++ repeat FILL (w - length f).
Proof.
  intros Hok Hf. unfold c01_enc_row. rewrite map_app, map_map, c01_map_repeat.
  rewrite c01_fill_idx_self. f_equal.
  apply c01_map_ext_Forall. eapply Forall_impl; [|exact Hf]. cbv beta. intros x Hx.
  rewrite (c01_fill_idx_real s n) by assumption. reflexivity.
Qed.

Lemma c01_shift_row s n k f : 0 <= s -> n + s <= c01_BOUND -> c01_wf_face n f ->
  map (fun x => if is_fill x then x else c01_wrap64 (x - s)) (map (fun x => x + s) f ++ repeat FILL k)
  = f ++ repeat FILL k.
Proof.
  intros Hs Hn Hf. rewrite map_app, map_map, c01_map_repeat. f_equal.
  rewrite <- (map_id f) at 2. apply c01_map_ext_Forall.
  eapply Forall_impl; [|exact Hf]. simpl. intros x Hx. unfold c01_BOUND in Hn.
  rewrite c01_is_fill_false by lia. rewrite c01_wrap64_id by lia. lia.
Qed.

Lemma c01_decode_table s n w fe faces :
  0 <= s -> n + s <= c01_BOUND -> c01_fill_ok s n fe -> c01_wf_faces n w faces ->
  c01_shift s (c01_replace_fill (Some fe) (c01_encode s fe w faces)) = c01_std w faces.
Proof.
  intros Hs Hn Hok H. unfold c01_shift, c01_replace_fill, c01_encode, c01_std. rewrite !map_map.
  apply map_ext_in. intros f Hf. unfold c01_wf_faces in H. rewrite Forall_forall in H. destruct (H f Hf) as [Hw _].
  rewrite (c01_replace_fill_row s n) by assumption.
  rewrite (c01_shift_row s n) by assumption. reflexivity.
Qed.

Lemma c01_replace_fill_None_Nan t : c01_replace_fill None t = c01_replace_fill (Some ENan) t.
Proof.
  unfold c01_replace_fill. apply map_ext. intros r. apply map_ext. intros [z|]; reflexivity.
Qed.

(* ------------------------------------------------------------------------------------------- *)
(* explicit topology (Grid.from_topology)                                                        *)

Theorem c01_topo_faces std s fe n w faces :
  0 <= s -> n + s <= c01_BOUND -> c01_fill_ok s n fe -> c01_wf_faces n w faces ->
  fst (c01_topo_conn std (Some fe) s (c01_encode s fe w faces)) = c01_std w faces.
Proof.
  intros Hs Hn Hok H. unfold c01_topo_conn.
  destruct (c01_ent_is_FILL (Some fe)) eqn:E; simpl.
  - (* fill value already standard: only the shift *)
    destruct fe as [v|]; simpl in E; [|discriminate]. assert (v = FILL) by lia. subst v.
    rewrite <- (c01_decode_table s n w (EInt FILL) faces) by assumption.
    f_equal. unfold c01_replace_fill. apply map_ext. intros r. apply map_ext.
    intros [z|]; simpl; [|reflexivity]. destruct (z =? FILL) eqn:Ez; [lia|reflexivity].
  - apply (c01_decode_table s n); assumption.
Qed.

Theorem c01_topo_faces_nofill std s fe n w faces :
  Forall (fun f => c01_wf_face n f /\ length f = w) faces ->
  fst (c01_topo_conn std None s (c01_encode s fe w faces)) = c01_std w faces.
Proof.
  unfold c01_topo_conn, c01_encode, c01_std. simpl. rewrite map_map.
  induction 1 as [|f faces [Hf Hw] _ IH]; simpl; [reflexivity|]. f_equal; [|exact IH].
  unfold c01_enc_row, c01_pad. rewrite Hw, Nat.sub_diag. simpl. rewrite !app_nil_r, map_map.
  rewrite <- (map_id f) at 2. apply map_ext. intros x. simpl. lia.
Qed.

(* dtype of the result: always standard without a fill value or with a non-standard one; with
   fill_value = INT_FILL_VALUE the array is shifted in place (it is int64 already when it can hold that value) *)
Theorem c01_topo_dtype std fv s t :
  snd (c01_topo_conn std fv s t)
  = match fv with None => true | Some _ => std || negb (c01_ent_is_FILL fv) end.
Proof.
  unfold c01_topo_conn. destruct fv as [v|]; cbn [snd]; [|reflexivity].
  destruct (c01_ent_is_FILL (Some v)); cbn [snd negb]; [rewrite orb_false_r|rewrite orb_true_r]; reflexivity.
Qed.

Theorem c01_topo_dtype_nofill std s t : snd (c01_topo_conn std None s t) = true.
Proof. reflexivity. Qed.

(* ------------------------------------------------------------------------------------------- *)
(* UGRID                                                                                         *)

Lemma c01_astype_replace_FILL t : map (map c01_astype) t = c01_replace_fill (Some (EInt FILL)) t.
Proof.
  unfold c01_replace_fill. apply map_ext. intros r. apply map_ext.
  intros [z|]; simpl; [|reflexivity]. destruct (z =? FILL) eqn:Ez; [lia|reflexivity].
Qed.

(* whichever branch runs (standardise, or copy when dtype and fill are standard already), the table
   handed to the index shift is the fill-standardised one *)
Lemma c01_ugrid_nc d fe t :
  (ud_fill d = Some fe \/ (ud_fill d = None /\ fe = ENan)) ->
  (if negb (ud_std_dtype d) || negb (c01_ent_is_FILL (c01_ugrid_origfv d t))
   then c01_replace_fill (c01_ugrid_origfv d t) t else map (map c01_astype) t)
  = c01_replace_fill (Some fe) t.
Proof.
  intros Hfill. unfold c01_ugrid_origfv. destruct Hfill as [Hf|[Hf ->]]; rewrite Hf.
  - destruct (negb (ud_std_dtype d) || negb (c01_ent_is_FILL (Some fe))) eqn:E; [reflexivity|].
    apply orb_false_iff in E. destruct E as [_ E]. apply negb_false_iff in E.
    destruct fe as [v|]; simpl in E; [|discriminate]. assert (v = FILL) by lia. subst v.
    apply c01_astype_replace_FILL.
  - destruct (existsb c01_is_nan (concat t)); simpl; rewrite orb_true_r; [reflexivity|].
    apply c01_replace_fill_None_Nan.
Qed.

(* start_index attribute present: right for every dtype / fill combination, standard or not *)
Theorem c01_ugrid_faces d s fe n w faces :
  0 <= s -> n + s <= c01_BOUND ->
  ud_start d = Some s ->
  (ud_fill d = Some fe \/ (ud_fill d = None /\ fe = ENan)) ->
  c01_fill_ok s n fe ->
  c01_wf_faces n w faces ->
  c01_ugrid_conn d (c01_encode s fe w faces) = c01_std w faces.
Proof.
  intros Hs Hn Hst Hfill Hok H. unfold c01_ugrid_conn. rewrite Hst.
  rewrite (c01_ugrid_nc d fe) by exact Hfill. apply (c01_decode_table s n); assumption.
Qed.

(* formerly refuted: start_index = 1 with standard dtype and fill is shifted too *)
Theorem c01_ugrid_start1_std d n w faces :
  n + 1 <= c01_BOUND -> ud_std_dtype d = true -> ud_fill d = Some (EInt FILL) -> ud_start d = Some 1 ->
  c01_wf_faces n w faces ->
  c01_ugrid_conn d (c01_encode 1 (EInt FILL) w faces) = c01_std w faces.
Proof.
  intros Hn _ Hf Hst H. apply (c01_ugrid_faces d 1 (EInt FILL) n); try assumption; try lia.
  - left. exact Hf.
  - simpl. unfold FILL. lia.
Qed.

Lemma c01_fold_min l : forall x m, (forall y, In y (x :: l) -> m <= y) -> In m (x :: l) -> fold_left Z.min l x = m.
Proof.
  induction l as [|a l IH]; intros x m Hlb Hin; simpl.
  - destruct Hin as [->|[]]. reflexivity.
  - apply IH.
    + intros y [<-|Hy]; [|apply Hlb; right; right; exact Hy].
      apply Z.min_glb; apply Hlb; [left|right; left]; reflexivity.
    + destruct Hin as [->|[->|Hin]].
      * destruct (Z.min_dec m a) as [E|E]; rewrite E; [left; reflexivity|].
        assert (m <= a) by (apply Hlb; right; left; reflexivity). left. lia.
      * destruct (Z.min_dec x m) as [E|E]; rewrite E; [|left; reflexivity].
        assert (m <= x) by (apply Hlb; left; reflexivity). left. lia.
      * right. exact Hin.
Qed.

Lemma c01_real_min_0 (t : table) :
  (forall y, In y (concat t) -> y = FILL \/ 0 <= y) -> In 0 (concat t) -> c01_real_min t = Some 0.
Proof.
  intros Hall H0. unfold c01_real_min.
  assert (Hin : In 0 (filter (fun x => negb (is_fill x)) (concat t))) by (apply filter_In; split; [exact H0|reflexivity]).
  destruct (filter (fun x => negb (is_fill x)) (concat t)) as [|x l] eqn:E; [destruct Hin|].
  f_equal. apply c01_fold_min; [|exact Hin].
  intros y Hy. rewrite <- E in Hy. apply filter_In in Hy. destruct Hy as [Hy Hr].
  destruct (Hall y Hy) as [->|]; [discriminate Hr|assumption].
Qed.

(* formerly refuted: start_index absent (zero-based by the conventions), padding or not: right whenever
   node 0 is referenced by some face (the minimum is taken over the real entries only) *)
Theorem c01_ugrid_start_absent d fe n w faces :
  n <= c01_BOUND -> ud_start d = None ->
  (ud_fill d = Some fe \/ (ud_fill d = None /\ fe = ENan)) ->
  c01_fill_ok 0 n fe ->
  c01_wf_faces n w faces ->
  (exists f, In f faces /\ In 0 f) ->
  c01_ugrid_conn d (c01_encode 0 fe w faces) = c01_std w faces.
Proof.
  intros Hn Hst Hfill Hok H (f0 & Hf0 & H0). unfold c01_ugrid_conn. rewrite Hst.
  rewrite (c01_ugrid_nc d fe) by exact Hfill.
  set (nc := c01_replace_fill (Some fe) (c01_encode 0 fe w faces)).
  assert (Enc : nc = map (fun f => map (fun x => x + 0) f ++ repeat FILL (w - length f)) faces).
  { unfold nc, c01_replace_fill, c01_encode. rewrite map_map. apply map_ext_in. intros f Hf.
    unfold c01_wf_faces in H. rewrite Forall_forall in H. destruct (H f Hf) as [Hw _].
    apply (c01_replace_fill_row 0 n); assumption. }
  assert (Emin : c01_real_min nc = Some 0).
  { apply c01_real_min_0.
    - intros y Hy. rewrite Enc in Hy. apply in_concat in Hy. destruct Hy as (r & Hr & Hy).
      apply in_map_iff in Hr. destruct Hr as (f & <- & Hf). apply in_app_or in Hy. destruct Hy as [Hy|Hy].
      + right. apply in_map_iff in Hy. destruct Hy as (x & <- & Hx).
        unfold c01_wf_faces in H. rewrite Forall_forall in H. destruct (H f Hf) as [Hw _].
        unfold c01_wf_face in Hw. rewrite Forall_forall in Hw. specialize (Hw x Hx). lia.
      + left. apply repeat_spec in Hy. exact Hy.
    - rewrite Enc. apply in_concat. exists (map (fun x => x + 0) f0 ++ repeat FILL (w - length f0)). split.
      + apply in_map_iff. exists f0. split; [reflexivity|exact Hf0].
      + apply in_or_app. left. apply in_map_iff. exists 0. split; [reflexivity|exact H0]. }
  rewrite Emin. apply (c01_decode_table 0 n); try assumption; lia.
Qed.

(* what remains wrong: start_index absent and node 0 referenced by no face -> everything shifted down *)
Theorem c01_ugrid_start_absent_node0_refuted :
  exists d faces, ud_start d = None /\ c01_wf_faces 4 3 faces /\
    c01_ugrid_conn d (c01_encode 0 (EInt (-1)) 3 faces) <> c01_std 3 faces.
Proof.
  exists {| ud_std_dtype := false; ud_fill := Some (EInt (-1)); ud_start := None |}, [[1; 2; 3]].
  split; [reflexivity|]. split; [repeat constructor; simpl; lia|]. vm_compute. discriminate.
Qed.

(* repaired reader: always standardise, shift by the declared start_index (0 when absent) *)
Theorem c01_ugrid_fixed_faces d s fe n w faces :
  0 <= s -> n + s <= c01_BOUND ->
  (ud_start d = Some s \/ (ud_start d = None /\ s = 0)) ->
  (ud_fill d = Some fe \/ (ud_fill d = None /\ fe = ENan)) ->
  c01_fill_ok s n fe ->
  c01_wf_faces n w faces ->
  c01_ugrid_conn_fixed d (c01_encode s fe w faces) = c01_std w faces.
Proof.
  intros Hs Hn Hst Hfill Hok H. unfold c01_ugrid_conn_fixed.
  replace (match ud_start d with Some s0 => s0 | None => 0 end) with s
    by (destruct Hst as [->|[-> ->]]; reflexivity).
  set (t := c01_encode s fe w faces).
  assert (Hr : c01_replace_fill (c01_ugrid_origfv d t) t = c01_replace_fill (Some fe) t).
  { unfold c01_ugrid_origfv. destruct Hfill as [Hf|[Hf ->]]; rewrite Hf; [reflexivity|].
    destruct (existsb c01_is_nan (concat t)); [reflexivity|apply c01_replace_fill_None_Nan]. }
  rewrite Hr. apply (c01_decode_table s n); assumption.
Qed.

(* ------------------------------------------------------------------------------------------- *)
(* SCRIP (and face-vertex arrays without padding): nodes rebuilt by np.unique                    *)

Lemma c01_corners_nofill r : Forall (fun x => 0 <= x) r -> corners r = r.
Proof. intros H. pose proof (corners_std r 0 H) as E. simpl in E. rewrite app_nil_r in E. exact E. Qed.

Lemma c01_map_concat {A B} (F : A -> B) (cs : list (list A)) : map F (concat cs) = flat_map (map F) cs.
Proof. rewrite concat_map, <- flat_map_concat_map. reflexivity. Qed.


Section Unique.
Variable cs : list (list (Z * Z)).
Variable w : nat.
Hypothesis Hw : Forall (fun r => length r = w) cs.
Let u := unique_pairs (concat cs).
Let G := fun p : Z * Z => Z.of_nat (index_of p u).

Lemma c01_unique_table (post : Z -> Z) :
  chunk w (length cs) (map post (map G (concat cs))) = map (map (fun p => post (G p))) cs.
Proof.
  rewrite map_map, c01_map_concat. apply chunk_flat_map.
  eapply Forall_impl; [|exact Hw]. simpl. intros r Hr. rewrite map_length. exact Hr.
Qed.

Lemma c01_unique_nth p r : In r cs -> In p r -> nth (Z.to_nat (G p)) u (FILL, FILL) = p.
Proof.
  intros Hr Hp. unfold G. rewrite Nat2Z.id. apply index_of_spec.
  unfold u. apply unique_In. eapply c01_in_concat; eassumption.
Qed.

Lemma c01_unique_range p r : In r cs -> In p r -> 0 <= G p < Z.of_nat (length u).
Proof.
  intros Hr Hp. unfold G.
  assert (In p u) as Hin by (unfold u; apply unique_In; eapply c01_in_concat; eassumption).
  destruct (index_of_spec p u Hin). lia.
Qed.
End Unique.

Lemma c01_drop_rep_spec a k : forall l', ~ In a l' ->
  c01_drop_rep (repeat a k ++ a :: l') = repeat (-1) k ++ a :: l'.
Proof.
  induction k as [|k IH]; intros l' Hn.
  - simpl. destruct l' as [|y l'']; [reflexivity|].
    destruct (a =? y) eqn:E; [|reflexivity]. exfalso. apply Hn. left. lia.
  - change (repeat a (S k) ++ a :: l') with (a :: (repeat a k ++ a :: l')).
    cbn [c01_drop_rep]. destruct (repeat a k ++ a :: l') as [|y t] eqn:E.
    + destruct k; discriminate E.
    + assert (y = a) by (destruct k; simpl in E; congruence). subst y.
      rewrite Z.eqb_refl. rewrite <- E. rewrite IH by exact Hn. reflexivity.
Qed.

Lemma c01_rev_repeat {A} (x : A) k : rev (repeat x k) = repeat x k.
Proof.
  induction k as [|k IH]; [reflexivity|]. simpl. rewrite IH. clear.
  induction k; simpl; [reflexivity|]. f_equal. exact IHk.
Qed.

(* a row whose real part l' ++ [a] has a fresh last element, padded by repeating that element *)
Lemma c01_scrip_row_ok l' a k : ~ In a l' -> Forall (fun x => 0 <= x) (l' ++ [a]) ->
  c01_scrip_row ((l' ++ [a]) ++ repeat a k) = (l' ++ [a]) ++ repeat FILL k.
Proof.
  intros Hn Hpos. unfold c01_scrip_row.
  rewrite rev_app_distr, c01_rev_repeat, rev_app_distr. simpl rev. simpl app at 2.
  rewrite c01_drop_rep_spec by (intros X; apply Hn; apply in_rev; exact X).
  rewrite rev_app_distr. simpl rev. rewrite rev_involutive, c01_rev_repeat.
  rewrite <- app_assoc. simpl app at 2. rewrite <- app_assoc. simpl app at 2.
  apply Forall_app in Hpos. destruct Hpos as [Hp Ha]. inversion Ha; subst.
  rewrite map_app. cbn [map]. rewrite c01_map_repeat. f_equal; [|f_equal].
  - apply c01_map_id_on. eapply Forall_impl; [|exact Hp]. simpl. intros x Hx.
    destruct (x =? -1) eqn:E; [lia|reflexivity].
  - destruct (a =? -1) eqn:E; [lia|reflexivity].
Qed.

(* was C01_scrip_padding_refuted before fix 5e414c62.  Every cell gets back exactly its corner positions,
   in order, whatever the number of trailing repetitions of its last corner; rows are in standard form.
   Hypothesis: the corner positions of one cell are pairwise distinct. *)
Theorem c01_scrip_faces w (faces : list (list (Z * Z))) :
  Forall (fun f => f <> [] /\ (length f <= w)%nat /\ NoDup f) faces ->
  let cs := map (fun f => f ++ repeat (last f (FILL, FILL)) (w - length f)) faces in
  c01_faces_pos (FILL, FILL) (fst (c01_scrip cs w)) (snd (c01_scrip cs w)) = faces
  /\ std_table w (snd (c01_scrip cs w)).
Proof.
  intros H cs.
  assert (Hw : Forall (fun r => length r = w) cs).
  { unfold cs. apply Forall_map. eapply Forall_impl; [|exact H]. simpl. intros f (_ & Hl & _).
    rewrite app_length, repeat_length. lia. }
  unfold c01_scrip. cbn [fst snd].
  pose proof (c01_unique_table cs w Hw (fun x => x)) as Et. rewrite map_id in Et. rewrite Et. clear Et.
  set (u := unique_pairs (concat cs)).
  set (G := fun p : Z * Z => Z.of_nat (index_of p u)).
  assert (Hrow : forall f, In f faces ->
            c01_scrip_row (map G (f ++ repeat (last f (FILL, FILL)) (w - length f)))
              = map G f ++ repeat FILL (w - length f)
            /\ Forall (fun x => 0 <= x) (map G f)
            /\ map (fun i => nth (Z.to_nat i) u (FILL, FILL)) (map G f) = f).
  { intros f Hf. rewrite Forall_forall in H. destruct (H f Hf) as (Hne & Hl & Hnd).
    set (r := f ++ repeat (last f (FILL, FILL)) (w - length f)).
    assert (Hr : In r cs) by (unfold cs; apply in_map_iff; exists f; split; [reflexivity|exact Hf]).
    assert (Hin : forall p, In p f -> In p r) by (intros p Hp; unfold r; apply in_or_app; left; exact Hp).
    assert (Hnth : forall p, In p f -> nth (Z.to_nat (G p)) u (FILL, FILL) = p)
      by (intros p Hp; apply (c01_unique_nth cs p r Hr (Hin p Hp))).
    assert (Hpos : Forall (fun x => 0 <= x) (map G f))
      by (apply Forall_map; apply Forall_forall; intros p Hp; unfold G; lia).
    split; [|split; [exact Hpos|]].
    - destruct (exists_last Hne) as (f' & a & Ef). unfold r. clear Hr Hin. clear r. subst f. rewrite last_last.
      rewrite map_app, c01_map_repeat, map_app. simpl map at 2.
      rewrite app_length. simpl length.
      rewrite map_app in Hpos. cbn [map] in *. apply c01_scrip_row_ok; [|exact Hpos].
      intros X. apply in_map_iff in X. destruct X as (q & Eq & Hq).
      apply NoDup_remove_2 in Hnd. rewrite app_nil_r in Hnd. apply Hnd.
      assert (q = a); [|subst q; exact Hq].
      rewrite <- (Hnth q) by (apply in_or_app; left; exact Hq).
      rewrite <- (Hnth a) by (apply in_or_app; right; left; reflexivity). rewrite Eq. reflexivity.
    - rewrite map_map. transitivity (map (fun p : Z * Z => p) f); [|apply map_id].
      apply map_ext_in. intros p Hp. apply Hnth. exact Hp. }
  split.
  - unfold c01_faces_pos, cs. rewrite !map_map.
    transitivity (map (fun f : list (Z * Z) => f) faces); [|apply map_id].
    apply map_ext_in. intros f Hf. destruct (Hrow f Hf) as (E1 & E2 & E3).
    rewrite E1, corners_std by exact E2. exact E3.
  - unfold std_table, cs. rewrite !map_map. apply Forall_map. apply Forall_forall. intros f Hf.
    destruct (Hrow f Hf) as (E1 & E2 & E3). rewrite E1. split.
    + rewrite app_length, map_length, repeat_length. rewrite Forall_forall in H. destruct (H f Hf) as (_ & Hl & _). lia.
    + exists (map G f), (w - length f)%nat. split; [reflexivity|exact E2].
Qed.

Theorem c01_scrip_nodes w cs :
  NoDup (fst (c01_scrip cs w)) /\ forall p, In p (fst (c01_scrip cs w)) <-> In p (concat cs).
Proof. unfold c01_scrip. cbn [fst]. split; [apply unique_NoDup|intros; apply unique_In]. Qed.

(* ------------------------------------------------------------------------------------------- *)
(* ICON: tables stored transposed and 1-based                                                    *)

Lemma c01_transpose_hd k : forall r t, length r = k -> map (hd FILL) (c01_transpose k (r :: t)) = r.
Proof.
  induction k; intros [|x r] t H; simpl in *; try discriminate; [reflexivity|].
  f_equal. apply IHk. lia.
Qed.

Lemma c01_transpose_tl k : forall r t, map (@tl Z) (c01_transpose k (r :: t)) = c01_transpose k t.
Proof.
  induction k; intros r t; simpl; [reflexivity|]. f_equal. apply IHk.
Qed.

Lemma c01_transpose_invol k t : Forall (fun r => length r = k) t ->
  c01_transpose (length t) (c01_transpose k t) = t.
Proof.
  induction 1 as [|r t Hr _ IH]; simpl length.
  - reflexivity.
  - cbn [c01_transpose]. rewrite c01_transpose_hd by exact Hr. rewrite c01_transpose_tl, IH. reflexivity.
Qed.


(* vertex_of_cell / edge_of_cell / neighbor_cell_index / adjacent_cell_of_edge / edge_vertices:
   transposing back and decoding gives the rows the source describes (k entries per row, any k);
   0 (= no neighbour) becomes the fill value *)
Theorem c01_icon_rows k (rows : list (list (option Z))) :
  Forall (fun r => length r = k /\ Forall (fun o => match o with Some x => 0 <= x | None => True end) r) rows ->
  c01_icon (length rows) (c01_transpose k (map (map c01_enc_opt) rows)) = map (map c01_dec_opt) rows.
Proof.
  intros H. unfold c01_icon.
  rewrite <- (map_length (map c01_enc_opt) rows).
  rewrite c01_transpose_invol
    by (apply Forall_map; eapply Forall_impl; [|exact H]; simpl; intros r [Hr _]; rewrite map_length; exact Hr).
  rewrite map_map. apply map_ext_in. intros r Hr. rewrite map_map.
  rewrite Forall_forall in H. destruct (H r Hr) as [_ Hre].
  apply c01_map_ext_Forall. eapply Forall_impl; [|exact Hre]. simpl.
  intros [x|] Hx; unfold c01_icon_dec; simpl.
  - replace (x + 1 - 1 =? -1) with false by lia. lia.
  - reflexivity.
Qed.

(* faces (no missing entries): the standard form of the triangles *)
Theorem c01_icon_faces k n rows : Forall (fun r => length r = k /\ c01_wf_face n r) rows ->
  c01_icon (length rows) (c01_icon_encode k rows) = c01_std k rows.
Proof.
  intros H. rewrite (c01_std_full k rows) by (eapply Forall_impl; [|exact H]; simpl; intros r [Hr _]; exact Hr).
  unfold c01_icon, c01_icon_encode.
  rewrite <- (map_length (map (fun x => x + 1)) rows).
  rewrite c01_transpose_invol
    by (apply Forall_map; eapply Forall_impl; [|exact H]; simpl; intros r [Hr _]; rewrite map_length; exact Hr).
  rewrite map_map. transitivity (map (fun r : list Z => r) rows); [|apply map_id].
  apply map_ext_in. intros r Hr. rewrite map_map. transitivity (map (fun x : Z => x) r); [|apply map_id].
  rewrite Forall_forall in H. destruct (H r Hr) as [_ Hw]. unfold c01_wf_face in Hw.
  apply c01_map_ext_Forall. eapply Forall_impl; [|exact Hw]. simpl. intros x Hx. unfold c01_icon_dec.
  replace (x + 1 - 1 =? -1) with false by lia. lia.
Qed.

(* ------------------------------------------------------------------------------------------- *)
(* longitudes                                                                                    *)

Local Open Scope Q_scope.

Lemma c01_wrap180_bounds x : -180 <= c01_wrap180 x /\ c01_wrap180 x < 180.
Proof.
  unfold c01_wrap180. set (y := (x + 180) / 360).
  pose proof (Qfloor_le y) as H1. pose proof (Qlt_floor y) as H2.
  rewrite inject_Z_plus in H2. change (inject_Z 1) with 1 in H2.
  assert (E : 360 * y == x + 180) by (unfold y; field).
  set (fl := inject_Z (Qfloor y)) in *. split; lra.
Qed.

Lemma c01_wrap180_congr x : exists k : Z, c01_wrap180 x == x - 360 * inject_Z k.
Proof. exists (Qfloor ((x + 180) / 360)). unfold c01_wrap180. ring. Qed.

Lemma c01_gt180_false x : c01_gt180 x = false -> x <= 180.
Proof.
  unfold c01_gt180. intros H. apply Qle_alt. intros E. rewrite E in H. discriminate.
Qed.

(* _set_desired_longitude_range: every longitude of a source using either convention ([0,360] or
   [-180,180]) ends up in [-180,180] and denotes the same direction (differs by a multiple of 360) *)
Theorem c01_wrap_all_spec l : Forall (fun x => -180 <= x) l ->
  Forall (fun x => -180 <= x /\ x <= 180) (c01_wrap_all l) /\
  Forall2 (fun a b => exists k : Z, b == a - 360 * inject_Z k) l (c01_wrap_all l).
Proof.
  intros H. unfold c01_wrap_all. destruct (existsb c01_gt180 l) eqn:E.
  - split.
    + apply Forall_map. apply Forall_forall. intros x _. destruct (c01_wrap180_bounds x). split; lra.
    + clear. induction l; simpl; constructor; [apply c01_wrap180_congr|assumption].
  - split.
    + rewrite Forall_forall in *. intros x Hx. split; [apply H; exact Hx|].
      apply c01_gt180_false. destruct (c01_gt180 x) eqn:G; [|reflexivity].
      assert (existsb c01_gt180 l = true) by (apply existsb_exists; exists x; split; assumption). congruence.
    + clear. induction l; simpl; constructor; [exists 0%Z; simpl; ring|assumption].
Qed.

(* whatever is read first and in whatever order: once a longitude is stored it is the wrapped one *)
Definition c01_lon_ok (derived : list Q) (s : c01_lazy) : Prop :=
  match lz_lon s with
  | None => True
  | Some l => Forall (fun x => -180 <= x /\ x <= 180) l /\
              Forall2 (fun a b => exists k : Z, b == a - 360 * inject_Z k) derived l
  end.

Theorem c01_access_order_lon derived computed rs s0 :
  Forall (fun x => -180 <= x) derived -> c01_lon_ok derived s0 ->
  c01_lon_ok derived (c01_rd_run derived computed s0 rs).
Proof.
  intros Hd. unfold c01_rd_run. revert s0. induction rs as [|r rs IH]; intros s0 H0; simpl; [exact H0|].
  apply IH. unfold c01_rd_step.
  destruct r; try exact H0; try (destruct (lz_areas s0); exact H0);
    (destruct (lz_lon s0) eqn:E; [exact H0|]; unfold c01_lon_ok; simpl; apply c01_wrap_all_spec; exact Hd).
Qed.

(* a read of node_lon or node_lat, anywhere in the history, leaves a longitude stored *)
Theorem c01_access_order_lon_present derived computed rs s0 :
  (In RdNodeLon rs \/ In RdNodeLat rs) -> lz_lon (c01_rd_run derived computed s0 rs) <> None.
Proof.
  unfold c01_rd_run. revert s0. induction rs as [|r rs IH]; intros s0 H; [destruct H as [[]|[]]|]. simpl.
  assert (Hkeep : forall rs' s, lz_lon s <> None -> lz_lon (fold_left (c01_rd_step derived computed) rs' s) <> None).
  { induction rs' as [|r' rs' IH']; intros s Hs; simpl; [exact Hs|]. apply IH'. unfold c01_rd_step.
    destruct r'; try exact Hs; try (destruct (lz_areas s); exact Hs); (destruct (lz_lon s) eqn:E; [rewrite E; discriminate|simpl; discriminate]). }
  destruct r.
  1,2: apply Hkeep; unfold c01_rd_step; destruct (lz_lon s0) eqn:E; [rewrite E|simpl]; discriminate.
  all: apply IH; destruct H as [[H|H]|[H|H]]; try discriminate H; [left; exact H|right; exact H].
Qed.

(* areas (and longitudes) the source supplied are never replaced, whatever is read afterwards *)
Theorem c01_supplied_kept derived computed rs s0 :
  (forall a, lz_areas s0 = Some a -> lz_areas (c01_rd_run derived computed s0 rs) = Some a) /\
  (forall l, lz_lon s0 = Some l -> lz_lon (c01_rd_run derived computed s0 rs) = Some l).
Proof.
  unfold c01_rd_run. revert s0. induction rs as [|r rs IH]; intros s0; simpl; [split; auto|].
  destruct (IH (c01_rd_step derived computed s0 r)) as [IA IL]. split.
  - intros a Ha. apply IA. unfold c01_rd_step. destruct r; try exact Ha;
      try (destruct (lz_lon s0); exact Ha); rewrite Ha; exact Ha.
  - intros l Hl. apply IL. unfold c01_rd_step. destruct r; try exact Hl;
      try (destruct (lz_areas s0); exact Hl); rewrite Hl; exact Hl.
Qed.

(* SCRIP grid_area / ESMF elementArea / MPAS areaCell: the supplied areas are face_areas, right after opening
   and after any reads; without them face_areas appears exactly when it is first read (a face_jacobian read
   stores nothing, since 3e2684f4) *)
Theorem c01_reader_areas_carried lon a derived computed rs :
  lz_areas (c01_reader_state lon (Some a)) = Some a /\
  lz_areas (c01_rd_run derived computed (c01_reader_state lon (Some a)) rs) = Some a.
Proof.
  split; [reflexivity|]. apply (proj1 (c01_supplied_kept derived computed rs (c01_reader_state lon (Some a)))). reflexivity.
Qed.

Theorem c01_reader_areas_derived derived computed rs : forall s0, lz_areas s0 = None ->
  lz_areas (c01_rd_run derived computed s0 rs) = if existsb c01_reads_area rs then Some computed else None.
Proof.
  unfold c01_rd_run. induction rs as [|r rs IH]; intros s0 H0; simpl; [exact H0|].
  destruct r; simpl.
  1,2: apply IH; unfold c01_rd_step; destruct (lz_lon s0); simpl; exact H0.
  1: unfold c01_rd_step; rewrite H0;
     apply (proj1 (c01_supplied_kept derived computed rs {| lz_lon := lz_lon s0; lz_areas := Some computed |})); reflexivity.
  all: apply IH; exact H0.
Qed.

Example c01_reader_areas_nonvacuous :
  lz_areas (c01_rd_run [] [1 # 2] (c01_reader_state [350 # 1] (Some [130000 # 1; 130007 # 1]))
                      [RdNodeLat; RdFaceJacobian; RdOther; RdFaceAreas]) = Some [130000 # 1; 130007 # 1]
  /\ lz_areas (c01_rd_run [] [1 # 2] (c01_reader_state [350 # 1] None) [RdNodeLat; RdFaceJacobian; RdOther]) = None
  /\ lz_areas (c01_rd_run [] [1 # 2] (c01_reader_state [350 # 1] None) [RdFaceJacobian; RdFaceAreas]) = Some [1 # 2].
Proof. vm_compute. repeat split. Qed.

Example c01_access_order_nonvacuous :
  lz_lon (c01_rd_run [280 # 1; 10 # 1] [1 # 2] {| lz_lon := None; lz_areas := Some [7 # 1] |}
                     [RdOther; RdNodeLat; RdFaceJacobian; RdNodeLon; RdFaceAreas])
    = Some (c01_wrap_all [280 # 1; 10 # 1])
  /\ lz_areas (c01_rd_run [280 # 1; 10 # 1] [1 # 2] {| lz_lon := None; lz_areas := Some [7 # 1] |}
                     [RdOther; RdNodeLat; RdFaceJacobian; RdNodeLon; RdFaceAreas]) = Some [7 # 1]
  /\ Forall2 Qeq (c01_wrap_all [280 # 1; 10 # 1]) [(-80) # 1; 10 # 1].
Proof. vm_compute. repeat split; repeat constructor. Qed.

Local Close Scope Q_scope.
Local Open Scope Z_scope.

(* ------------------------------------------------------------------------------------------- *)
(* format sniffing: each generated source is routed to its own reader                            *)

Theorem c01_sniff_spec k :
  (c01_sniff k = 0 <-> k_coord k = true \/ k_coordx k = true) /\
  (c01_sniff k = 1 <-> k_coord k = false /\ k_coordx k = false /\ k_grid_center_lon k = true) /\
  (c01_sniff k = 2 <-> k_coord k = false /\ k_coordx k = false /\ k_grid_center_lon k = false /\ k_is_ugrid k = true) /\
  (c01_sniff k = 3 <-> k_coord k = false /\ k_coordx k = false /\ k_grid_center_lon k = false /\ k_is_ugrid k = false
                        /\ k_verticesOnCell k = true) /\
  (c01_sniff k = 4 <-> k_coord k = false /\ k_coordx k = false /\ k_grid_center_lon k = false /\ k_is_ugrid k = false
                        /\ k_verticesOnCell k = false /\ k_maxNodePElement k = true) /\
  (c01_sniff k = 5 <-> k_coord k = false /\ k_coordx k = false /\ k_grid_center_lon k = false /\ k_is_ugrid k = false
                        /\ k_verticesOnCell k = false /\ k_maxNodePElement k = false /\ k_nf_YCdim_XCdim k = true) /\
  (c01_sniff k = 6 <-> k_coord k = false /\ k_coordx k = false /\ k_grid_center_lon k = false /\ k_is_ugrid k = false
                        /\ k_verticesOnCell k = false /\ k_maxNodePElement k = false /\ k_nf_YCdim_XCdim k = false
                        /\ k_vertex_of_cell k = true).
Proof.
  destruct k as [[] [] [] [] [] [] [] []]; vm_compute; intuition discriminate.
Qed.

(* ------------------------------------------------------------------------------------------- *)
(* GeoJSON / shapefile polygons                                                                  *)

Fixpoint c01_geo_rows (w : nat) (off : nat) (rings : list (list (Z * Z))) : table :=
  match rings with
  | [] => []
  | r :: rs => (c01_seqZ (Z.of_nat off) (length r) ++ repeat FILL (w - length r)) :: c01_geo_rows w (off + length r) rs
  end.

Lemma c01_geo_fold w rings : forall lonl latl conn,
  fold_left (c01_geo_step w) rings (lonl, latl, conn, Z.of_nat (length lonl))
  = (lonl ++ concat (map (map fst) rings), latl ++ concat (map (map snd) rings),
     conn ++ c01_geo_rows w (length lonl) rings,
     Z.of_nat (length lonl + length (concat rings))).
Proof.
  induction rings as [|r rings IH]; intros lonl latl conn; simpl.
  - rewrite !app_nil_r, Nat.add_0_r. reflexivity.
  - replace (Z.of_nat (length lonl) + Z.of_nat (length r)) with (Z.of_nat (length (lonl ++ map fst r)))
      by (rewrite app_length, map_length; lia).
    rewrite IH. rewrite !app_length, !map_length, <- !app_assoc. simpl.
    rewrite Nat.add_assoc. reflexivity.
Qed.

Lemma c01_fold_concat {A B} (f : A -> B -> A) (l : list (list B)) : forall a,
  fold_left (fun a x => fold_left f x a) l a = fold_left f (concat l) a.
Proof. induction l as [|x l IH]; intros a; simpl; [reflexivity|]. rewrite fold_left_app. apply IH. Qed.

Lemma c01_map_nth_seq {A} (d : A) r : map (fun k => nth k r d) (seq 0 (length r)) = r.
Proof.
  induction r as [|a r IH]; simpl; [reflexivity|]. f_equal.
  rewrite <- seq_shift, map_map. exact IH.
Qed.

Lemma c01_nth_window {A} (d : A) pre r rest :
  map (fun i => nth (Z.to_nat i) (pre ++ r ++ rest) d) (c01_seqZ (Z.of_nat (length pre)) (length r)) = r.
Proof.
  unfold c01_seqZ. rewrite map_map.
  transitivity (map (fun k => nth k r d) (seq 0 (length r))); [|apply c01_map_nth_seq].
  apply map_ext_in. intros k Hk. apply in_seq in Hk.
  replace (Z.to_nat (Z.of_nat (length pre) + Z.of_nat k)) with (length pre + k)%nat by lia.
  rewrite app_nth2_plus. apply app_nth1. lia.
Qed.

Lemma c01_seqZ_nonneg s n : 0 <= s -> Forall (fun x => 0 <= x) (c01_seqZ s n).
Proof. intros. unfold c01_seqZ. apply Forall_map. apply Forall_forall. intros; lia. Qed.

Lemma c01_geo_rows_pos w rings : forall pre,
  c01_faces_pos (FILL, FILL) (pre ++ concat rings) (c01_geo_rows w (length pre) rings) = rings.
Proof.
  induction rings as [|r rings IH]; intros pre; simpl; [reflexivity|].
  unfold c01_faces_pos in *. simpl. f_equal.
  - rewrite corners_std by (apply c01_seqZ_nonneg; lia). apply c01_nth_window.
  - specialize (IH (pre ++ r)). rewrite app_length, <- app_assoc in IH. exact IH.
Qed.

Lemma c01_combine_fst_snd (r : list (Z * Z)) : combine (map fst r) (map snd r) = r.
Proof. induction r as [|[a b] r IH]; simpl; congruence. Qed.

Lemma c01_combine_concat (rings : list (list (Z * Z))) :
  combine (concat (map (map fst) rings)) (concat (map (map snd) rings)) = concat rings.
Proof.
  induction rings as [|r rings IH]; simpl; [reflexivity|].
  rewrite combine_app_eq by (rewrite !map_length; reflexivity).
  rewrite c01_combine_fst_snd, IH. reflexivity.
Qed.

(* every part of every feature (Polygon = one part, MultiPolygon = several) is one face: corners in ring
   order, padding at the end, nodes numbered consecutively *)
Theorem c01_geo_faces w feats :
  let rings := concat feats in
  c01_geo w feats = (concat (map (map fst) rings), concat (map (map snd) rings), c01_geo_rows w 0 rings)
  /\ c01_faces_pos (FILL, FILL)
       (combine (concat (map (map fst) rings)) (concat (map (map snd) rings))) (c01_geo_rows w 0 rings) = rings.
Proof.
  cbv zeta. split.
  - unfold c01_geo, c01_geo_feature. rewrite c01_fold_concat.
    change 0 with (Z.of_nat (@length Z [])). rewrite c01_geo_fold. reflexivity.
  - rewrite c01_combine_concat. apply (c01_geo_rows_pos w (concat feats) []).
Qed.

Lemma c01_geo_rows_std w rings : forall off, Forall (fun r => (length r <= w)%nat) rings ->
  std_table w (c01_geo_rows w off rings).
Proof.
  induction rings as [|r rings IH]; intros off H; simpl; constructor.
  - inversion H; subst. split.
    + unfold c01_seqZ. rewrite app_length, map_length, seq_length, repeat_length. lia.
    + exists (c01_seqZ (Z.of_nat off) (length r)), (w - length r)%nat. split; [reflexivity|].
      apply c01_seqZ_nonneg. lia.
  - apply IH. inversion H; assumption.
Qed.

(* ------------------------------------------------------------------------------------------- *)
(* GEOS-CS: corner index arithmetic                                                              *)

(* index of corner (i, j) of tile f in the ravelled (nf, n1, n2) corner arrays *)
Definition c01_gid (n1 n2 f i j : nat) : Z := Z.of_nat (f * n1 * n2 + i * n2 + j).

(* what the source describes: cell (f, i, j), 0 <= i < n1-1, 0 <= j < n2-1, in that order, is the quad
   with corners (i+1,j+1), (i+1,j), (i,j), (i,j+1) of tile f *)
Definition c01_geos_spec (nf n1 n2 : nat) : table :=
  flat_map (fun f => flat_map (fun i => map (fun j =>
      [c01_gid n1 n2 f (S i) (S j); c01_gid n1 n2 f (S i) j; c01_gid n1 n2 f i j; c01_gid n1 n2 f i (S j)])
      (seq 0 (n2 - 1))) (seq 0 (n1 - 1))) (seq 0 nf).

Lemma c01_removelast_map_seq {A} (g : nat -> A) n : removelast (map g (seq 0 n)) = map g (seq 0 (n - 1)).
Proof.
  destruct n as [|m]; [reflexivity|].
  rewrite seq_S, map_app. simpl map at 2. rewrite removelast_last. f_equal. f_equal. lia.
Qed.

Lemma c01_tl_map_seq {A} (g : nat -> A) n : tl (map g (seq 0 n)) = map (fun k => g (S k)) (seq 0 (n - 1)).
Proof.
  destruct n as [|m]; [reflexivity|]. simpl. rewrite <- seq_shift, map_map. f_equal. f_equal. lia.
Qed.

Lemma c01_geos_tile_eq n1 n2 f :
  c01_geos_tile n1 n2 f = map (fun i => map (fun j => c01_gid n1 n2 f i j) (seq 0 n2)) (seq 0 n1).
Proof.
  unfold c01_geos_tile, c01_seqZ, c01_gid. apply map_ext. intros i. apply map_ext. intros j. lia.
Qed.

Definition c01_grid3 (nf m1 m2 : nat) (c : nat -> nat -> nat -> Z) : list Z :=
  flat_map (fun f => flat_map (fun i => map (fun j => c f i j) (seq 0 m2)) (seq 0 m1)) (seq 0 nf).

Lemma c01_ravel3_map {A} (l : list A) (g : A -> list (list Z)) :
  c01_ravel3 (map g l) = flat_map (fun x => concat (g x)) l.
Proof. unfold c01_ravel3. rewrite map_map, <- flat_map_concat_map. reflexivity. Qed.

Lemma c01_concat_map_map {A} (l : list A) (g : A -> list Z) : concat (map g l) = flat_map g l.
Proof. rewrite flat_map_concat_map. reflexivity. Qed.

Lemma c01_slices nf n1 n2 :
  let a := c01_geos_idx nf n1 n2 in
  c01_sl_tl a = c01_grid3 nf (n1 - 1) (n2 - 1) (fun f i j => c01_gid n1 n2 f i j) /\
  c01_sl_tr a = c01_grid3 nf (n1 - 1) (n2 - 1) (fun f i j => c01_gid n1 n2 f i (S j)) /\
  c01_sl_bl a = c01_grid3 nf (n1 - 1) (n2 - 1) (fun f i j => c01_gid n1 n2 f (S i) j) /\
  c01_sl_br a = c01_grid3 nf (n1 - 1) (n2 - 1) (fun f i j => c01_gid n1 n2 f (S i) (S j)).
Proof.
  unfold c01_sl_tl, c01_sl_tr, c01_sl_bl, c01_sl_br, c01_geos_idx, c01_grid3. cbv zeta.
  rewrite !map_map, !c01_ravel3_map.
  repeat split; apply flat_map_ext; intros f; rewrite c01_geos_tile_eq.
  - rewrite c01_removelast_map_seq, map_map, c01_concat_map_map. apply flat_map_ext. intros i.
    apply c01_removelast_map_seq.
  - rewrite c01_removelast_map_seq, map_map, c01_concat_map_map. apply flat_map_ext. intros i.
    apply c01_tl_map_seq.
  - rewrite c01_tl_map_seq, map_map, c01_concat_map_map. apply flat_map_ext. intros i.
    apply c01_removelast_map_seq.
  - rewrite c01_tl_map_seq, map_map, c01_concat_map_map. apply flat_map_ext. intros i.
    apply c01_tl_map_seq.
Qed.

Lemma c01_stack4_app a b c d a' b' c' d' :
  length a = length b -> length a = length c -> length a = length d ->
  c01_stack4 (a ++ a') (b ++ b') (c ++ c') (d ++ d') = c01_stack4 a b c d ++ c01_stack4 a' b' c' d'.
Proof.
  revert b c d. induction a as [|x a IH]; intros [|y b] [|z c] [|u d] H1 H2 H3; simpl in *; try discriminate.
  - reflexivity.
  - f_equal. apply IH; lia.
Qed.

Lemma c01_stack4_map {A} (c1 c2 c3 c4 : A -> Z) l :
  c01_stack4 (map c1 l) (map c2 l) (map c3 l) (map c4 l) = map (fun x => [c1 x; c2 x; c3 x; c4 x]) l.
Proof. induction l as [|x l IH]; simpl; [reflexivity|]. rewrite IH. reflexivity. Qed.

Lemma c01_stack4_flat_map {A} (g1 g2 g3 g4 : A -> list Z) (h : A -> table) l :
  (forall x, c01_stack4 (g1 x) (g2 x) (g3 x) (g4 x) = h x) ->
  (forall x, length (g1 x) = length (g2 x) /\ length (g1 x) = length (g3 x) /\ length (g1 x) = length (g4 x)) ->
  c01_stack4 (flat_map g1 l) (flat_map g2 l) (flat_map g3 l) (flat_map g4 l) = flat_map h l.
Proof.
  intros Hh Hl. induction l as [|x l IH]; simpl; [reflexivity|].
  destruct (Hl x) as (E1 & E2 & E3). rewrite c01_stack4_app by assumption. rewrite Hh, IH. reflexivity.
Qed.

Lemma c01_len_grid2 (c : nat -> nat -> Z) m1 m2 :
  length (flat_map (fun i => map (fun j => c i j) (seq 0 m2)) (seq 0 m1)) = (m1 * m2)%nat.
Proof.
  generalize (seq 0 m1) (seq_length m1 0). intros l <-. induction l; simpl; [reflexivity|].
  rewrite app_length, map_length, seq_length, IHl. reflexivity.
Qed.

(* face_node_connectivity is, row for row, the list of cells the corner lattices describe *)
Theorem c01_geos_closed_form nf n1 n2 : c01_geos nf n1 n2 = c01_geos_spec nf n1 n2.
Proof.
  unfold c01_geos. destruct (c01_slices nf n1 n2) as (Etl & Etr & Ebl & Ebr).
  cbv zeta in *. rewrite Etl, Etr, Ebl, Ebr. unfold c01_grid3, c01_geos_spec.
  apply c01_stack4_flat_map.
  - intros f. apply c01_stack4_flat_map.
    + intros i. apply c01_stack4_map.
    + intros i. rewrite !map_length. auto.
  - intros f. rewrite !c01_len_grid2. auto.
Qed.

Lemma c01_len_flat_map {A B} (g : A -> list B) m l : (forall x, length (g x) = m) ->
  length (flat_map g l) = (length l * m)%nat.
Proof. intros H. induction l as [|x l IH]; simpl; [reflexivity|]. rewrite app_length, H, IH. reflexivity. Qed.

Theorem c01_geos_count nf n1 n2 : length (c01_geos nf n1 n2) = (nf * ((n1 - 1) * (n2 - 1)))%nat.
Proof.
  rewrite c01_geos_closed_form. unfold c01_geos_spec.
  rewrite (c01_len_flat_map _ ((n1 - 1) * (n2 - 1))%nat); [rewrite seq_length; reflexivity|].
  intros f. rewrite (c01_len_flat_map _ (n2 - 1)%nat); [rewrite seq_length; reflexivity|].
  intros i. rewrite map_length, seq_length. reflexivity.
Qed.

(* the four corners of every row are distinct lattice points forming the cell's ring *)
Theorem c01_geos_rows_in_range nf n1 n2 r : In r (c01_geos nf n1 n2) ->
  Forall (fun x => 0 <= x < Z.of_nat (nf * n1 * n2)) r.
Proof.
  rewrite c01_geos_closed_form. unfold c01_geos_spec. intros H.
  apply in_flat_map in H. destruct H as (f & Hf & H). apply in_flat_map in H. destruct H as (i & Hi & H).
  apply in_map_iff in H. destruct H as (j & <- & Hj). apply in_seq in Hf, Hi, Hj.
  assert (B1 : (S i * n2 + S j < n1 * n2)%nat) by nia.
  assert (B2 : (f * n1 * n2 + n1 * n2 <= nf * n1 * n2)%nat) by nia.
  unfold c01_gid. repeat (apply Forall_cons; [nia|]). apply Forall_nil.
Qed.

(* ------------------------------------------------------------------------------------------- *)
(* face-vertex arrays: np.unique, then the node carrying the fill value is removed               *)

Lemma c01_where_false k l : Forall (fun p => has_fill p = false) l -> where_from k (map has_fill l) = [].
Proof.
  revert k. induction l as [|p l IH]; intros k H; simpl; [reflexivity|].
  inversion H; subst. rewrite H2. apply IH. assumption.
Qed.

Lemma c01_where_app k l1 l2 :
  where_from k (l1 ++ l2) = where_from k l1 ++ where_from (k + Z.of_nat (length l1)) l2.
Proof.
  revert k. induction l1 as [|b l1 IH]; intros k; simpl.
  - f_equal. lia.
  - rewrite IH. replace (k + 1 + Z.of_nat (length l1)) with (k + Z.pos (Pos.of_succ_nat (length l1))) by lia.
    destruct b; reflexivity.
Qed.

Lemma c01_index_of_mid x a b : ~ In x a -> index_of x (a ++ x :: b) = length a.
Proof.
  induction a as [|y a IH]; intros H; simpl.
  - rewrite pair_eqb_refl. reflexivity.
  - destruct (pair_eqb x y) eqn:E.
    + apply pair_eqb_eq in E. subst. exfalso. apply H. left. reflexivity.
    + f_equal. apply IH. intros Hin. apply H. right. exact Hin.
Qed.

Definition c01_fp : Z * Z := (FILL, FILL).

Lemma c01_NoDup_app_l {A} (l1 l2 : list A) : NoDup (l1 ++ l2) -> NoDup l1.
Proof.
  induction l1 as [|x l1 IH]; simpl; intros H; [constructor|].
  inversion H; subst. constructor; [intros X; apply H2; apply in_or_app; left; exact X|apply IH; assumption].
Qed.

Lemma c01_filter_all {A} (f : A -> bool) l : filter f l = l <-> Forall (fun x => f x = true) l.
Proof.
  induction l as [|x l IH]; simpl; [split; constructor|].
  destruct (f x) eqn:E; split; intros H.
  - injection H as H. constructor; [exact E|apply IH; exact H].
  - inversion H; subst. f_equal. apply IH. assumption.
  - exfalso. assert (L : forall l', (length (filter f l') <= length l')%nat).
    { induction l' as [|y l' IH']; simpl; [lia|]. destruct (f y); simpl; lia. }
    specialize (L l). rewrite H in L. simpl in L. lia.
  - inversion H; congruence.
Qed.

Section FaceVertices.
Variable rows : list (list (Z * Z)).
Variable w : nat.
Hypothesis Hw : Forall (fun r => length r = w) rows.
(* the only position carrying a fill value is the padding pair (FILL, FILL) *)
Hypothesis Hfp : forall r p, In r rows -> In p r -> has_fill p = true -> p = c01_fp.

Let u := unique_pairs (concat rows).
Let u' := fst (c01_fv rows w).
Let t := snd (c01_fv rows w).

(* new index of a position after the fill node was dropped *)
Let NI (p : Z * Z) : Z := if has_fill p then FILL else Z.of_nat (index_of p u').

Lemma c01_fv_in_u p r : In r rows -> In p r -> In p u.
Proof. intros. unfold u. apply unique_In. eapply c01_in_concat; eassumption. Qed.

Lemma c01_fv_u_fp q : In q u -> has_fill q = true -> q = c01_fp.
Proof.
  intros Hq Hf. unfold u in Hq. apply (proj1 (unique_In _ _)) in Hq. apply (proj1 (in_concat _ _)) in Hq.
  destruct Hq as (r & Hr & Hq). eapply Hfp; eassumption.
Qed.

Lemma c01_fv_table_and_nodes :
  t = map (map NI) rows /\ NoDup u' /\ (forall p, In p u' <-> In p u /\ has_fill p = false).
Proof.
  assert (Hu' : u' = filter (fun p => negb (has_fill p)) u) by reflexivity.
  assert (Hnodes : forall p, In p u' <-> In p u /\ has_fill p = false).
  { intros p. rewrite Hu', filter_In. destruct (has_fill p); simpl; intuition discriminate. }
  assert (Hnd : NoDup u') by (rewrite Hu'; apply NoDup_filter; apply unique_NoDup).
  split; [|split; assumption].
  unfold t, c01_fv. cbn [snd]. fold u.
  destruct (in_dec (fun p q : Z * Z => ltac:(decide equality; apply Z.eq_dec)) c01_fp u) as [Hin|Hnin].
  - (* the fill pair is one of the unique rows: u = a ++ fp :: b *)
    destruct (in_split _ _ Hin) as (a & b & Eu).
    pose proof (unique_NoDup (concat rows)) as ND. fold u in ND. rewrite Eu in ND.
    pose proof (NoDup_remove_2 _ _ _ ND) as Hnot.
    assert (Ha : Forall (fun p => has_fill p = false) a).
    { apply Forall_forall. intros q Hq. destruct (has_fill q) eqn:E; [|reflexivity].
      exfalso. apply Hnot. apply in_or_app. left.
      rewrite <- (c01_fv_u_fp q); [exact Hq| rewrite Eu; apply in_or_app; left; exact Hq | exact E]. }
    assert (Hb : Forall (fun p => has_fill p = false) b).
    { apply Forall_forall. intros q Hq. destruct (has_fill q) eqn:E; [|reflexivity].
      exfalso. apply Hnot. apply in_or_app. right.
      rewrite <- (c01_fv_u_fp q); [exact Hq| rewrite Eu; apply in_or_app; right; right; exact Hq | exact E]. }
    assert (Hwh : where_from 0 (map has_fill u) = [Z.of_nat (length a)]).
    { rewrite Eu, map_app, c01_where_app, c01_where_false by exact Ha. simpl map.
      cbn [where_from]. change (has_fill c01_fp) with true. cbv iota.
      rewrite c01_where_false by exact Hb. rewrite map_length. reflexivity. }
    rewrite Hwh. cbn [fold_left]. unfold c01_fv_step. rewrite map_map.
    rewrite (c01_map_concat _ rows).
    rewrite (chunk_flat_map (map (fun p => _)) w rows)
      by (eapply Forall_impl; [|exact Hw]; simpl; intros r Hr; rewrite map_length; exact Hr).
    apply map_ext_in. intros r Hr. apply map_ext_in. intros p Hp. unfold NI.
    assert (Eu' : u' = a ++ b).
    { rewrite Hu', Eu, filter_app. cbn [filter]. change (has_fill c01_fp) with true. cbn [negb].
      rewrite !(proj2 (c01_filter_all _ _)); [reflexivity| |].
      - eapply Forall_impl; [|exact Hb]. simpl. intros q ->. reflexivity.
      - eapply Forall_impl; [|exact Ha]. simpl. intros q ->. reflexivity. }
    destruct (has_fill p) eqn:Ep.
    + (* padding *)
      rewrite (Hfp r p Hr Hp Ep). rewrite Eu.
      rewrite c01_index_of_mid by (intros X; apply Hnot; apply in_or_app; left; exact X).
      rewrite Z.eqb_refl. reflexivity.
    + (* a real position: index in u, shifted down when it lies above the fill node *)
      pose proof (c01_fv_in_u p r Hr Hp) as Hpu. rewrite Eu in Hpu.
      assert (Hpne : p <> c01_fp) by (intros ->; discriminate Ep).
      apply in_app_or in Hpu. destruct Hpu as [Hpa|[Hpf|Hpb]]; [| congruence |].
      * (* before the fill node *)
        destruct (in_split _ _ Hpa) as (a1 & a2 & Ea).
        assert (Hn1 : ~ In p a1).
        { apply c01_NoDup_app_l in ND. rewrite Ea in ND. apply NoDup_remove_2 in ND.
          intros X. apply ND. apply in_or_app. left. exact X. }
        rewrite Eu, Eu', Ea, <- !app_assoc. simpl app.
        rewrite !c01_index_of_mid by exact Hn1.
        rewrite app_length. simpl length.
        replace (Z.of_nat (length a1) =? Z.of_nat (length a1 + S (length a2))) with false by lia.
        replace (Z.of_nat (length a1 + S (length a2)) <? Z.of_nat (length a1)) with false by lia.
        reflexivity.
      * (* after the fill node *)
        destruct (in_split _ _ Hpb) as (b1 & b2 & Eb).
        assert (Hn1 : ~ In p (a ++ c01_fp :: b1)).
        { rewrite Eb in ND. replace (a ++ c01_fp :: b1 ++ p :: b2) with ((a ++ c01_fp :: b1) ++ p :: b2) in ND
            by (rewrite <- app_assoc; reflexivity).
          apply NoDup_remove_2 in ND. intros X. apply ND. apply in_or_app. left. exact X. }
        assert (Hn2 : ~ In p (a ++ b1)).
        { intros X. apply Hn1. apply in_app_or in X. apply in_or_app. destruct X; [left|right; right]; assumption. }
        rewrite Eu, Eu', Eb.
        replace (a ++ c01_fp :: b1 ++ p :: b2) with ((a ++ c01_fp :: b1) ++ p :: b2) by (rewrite <- app_assoc; reflexivity).
        replace (a ++ b1 ++ p :: b2) with ((a ++ b1) ++ p :: b2) by (rewrite <- app_assoc; reflexivity).
        rewrite !c01_index_of_mid by assumption.
        rewrite !app_length. simpl length.
        replace (Z.of_nat (length a + S (length b1)) =? Z.of_nat (length a)) with false by lia.
        replace (Z.of_nat (length a) <? Z.of_nat (length a + S (length b1))) with true by lia.
        rewrite c01_is_fill_false by lia. simpl. lia.
  - (* no padding anywhere: nothing is removed *)
    assert (Hall : Forall (fun p => has_fill p = false) u).
    { apply Forall_forall. intros q Hq. destruct (has_fill q) eqn:E; [|reflexivity].
      exfalso. apply Hnin. rewrite <- (c01_fv_u_fp q Hq E). exact Hq. }
    rewrite c01_where_false by exact Hall. cbn [fold_left].
    rewrite (c01_map_concat _ rows).
    rewrite (chunk_flat_map (map (fun p => _)) w rows)
      by (eapply Forall_impl; [|exact Hw]; simpl; intros r Hr; rewrite map_length; exact Hr).
    assert (Eu' : u' = u).
    { rewrite Hu'. apply (proj2 (c01_filter_all _ _)).
      eapply Forall_impl; [|exact Hall]. simpl. intros q ->. reflexivity. }
    apply map_ext_in. intros r Hr. apply map_ext_in. intros p Hp. unfold NI. rewrite Eu'.
    pose proof (c01_fv_in_u p r Hr Hp) as Hpu. rewrite Forall_forall in Hall. rewrite (Hall p Hpu). reflexivity.
Qed.

End FaceVertices.

(* every face gets back its corner positions in order, rows are padded at the end only *)
Theorem c01_fv_faces w faces :
  Forall (fun f => (length f <= w)%nat /\ Forall (fun p => has_fill p = false) f) faces ->
  let rows := map (fun f => f ++ repeat c01_fp (w - length f)) faces in
  c01_faces_pos c01_fp (fst (c01_fv rows w)) (snd (c01_fv rows w)) = faces
  /\ std_table w (snd (c01_fv rows w))
  /\ NoDup (fst (c01_fv rows w)).
Proof.
  intros H rows.
  assert (Hw : Forall (fun r => length r = w) rows).
  { unfold rows. apply Forall_map. eapply Forall_impl; [|exact H]. simpl. intros f [Hl _].
    rewrite app_length, repeat_length. lia. }
  assert (Hfp : forall r p, In r rows -> In p r -> has_fill p = true -> p = c01_fp).
  { intros r p Hr Hp Hf. unfold rows in Hr. apply in_map_iff in Hr. destruct Hr as (f & <- & Hfin).
    apply in_app_or in Hp. destruct Hp as [Hp|Hp].
    - rewrite Forall_forall in H. destruct (H f Hfin) as [_ Hreal]. rewrite Forall_forall in Hreal.
      rewrite (Hreal p Hp) in Hf. discriminate.
    - apply repeat_spec in Hp. exact Hp. }
  destruct (c01_fv_table_and_nodes rows w Hw Hfp) as (Et & Hnd & Hnodes).
  set (u' := fst (c01_fv rows w)) in *.
  set (NI := fun p : Z * Z => if has_fill p then FILL else Z.of_nat (index_of p u')) in *.
  assert (Hrow : forall f, In f faces ->
            map NI (f ++ repeat c01_fp (w - length f)) = map NI f ++ repeat FILL (w - length f)
            /\ Forall (fun x => 0 <= x) (map NI f)
            /\ map (fun i => nth (Z.to_nat i) u' c01_fp) (map NI f) = f).
  { intros f Hf. rewrite Forall_forall in H. destruct (H f Hf) as [Hl Hreal]. rewrite Forall_forall in Hreal.
    split; [rewrite map_app, c01_map_repeat; reflexivity|]. split.
    - apply Forall_map. apply Forall_forall. intros p Hp. unfold NI. rewrite (Hreal p Hp). lia.
    - rewrite map_map. transitivity (map (fun p : Z * Z => p) f); [|apply map_id].
      apply map_ext_in. intros p Hp. unfold NI. rewrite (Hreal p Hp). rewrite Nat2Z.id.
      apply index_of_spec. apply Hnodes. split; [|apply Hreal; exact Hp].
      apply unique_In. apply in_concat. exists (f ++ repeat c01_fp (w - length f)). split.
      + unfold rows. apply in_map_iff. exists f. split; [reflexivity|exact Hf].
      + apply in_or_app. left. exact Hp. }
  split; [|split; [|exact Hnd]].
  - rewrite Et. unfold c01_faces_pos, rows. rewrite !map_map.
    transitivity (map (fun f : list (Z * Z) => f) faces); [|apply map_id].
    apply map_ext_in. intros f Hf. destruct (Hrow f Hf) as (E1 & E2 & E3).
    rewrite E1, corners_std by exact E2. exact E3.
  - rewrite Et. unfold std_table, rows. rewrite map_map. apply Forall_map. apply Forall_forall. intros f Hf.
    destruct (Hrow f Hf) as (E1 & E2 & E3). rewrite E1. split.
    + rewrite app_length, map_length, repeat_length. rewrite Forall_forall in H. destruct (H f Hf). lia.
    + exists (map NI f), (w - length f)%nat. split; [reflexivity|exact E2].
Qed.

(* ------------------------------------------------------------------------------------------- *)
(* round trips with boolean well-formedness: decode (encode_dialect faces) presents exactly faces  *)

Lemma c01_wf_facesb_ok n w faces : c01_wf_facesb n w faces = true -> c01_wf_faces n w faces.
Proof.
  unfold c01_wf_facesb, c01_wf_faces. rewrite forallb_forall, Forall_forall. intros H f Hf.
  specialize (H f Hf). unfold c01_wf_faceb in H. apply andb_true_iff in H. destruct H as [H1 H2].
  split; [|apply Nat.leb_le; exact H2].
  unfold c01_wf_face. rewrite Forall_forall. rewrite forallb_forall in H1. intros x Hx. specialize (H1 x Hx). lia.
Qed.

Lemma c01_faces_of_std n w faces : c01_wf_faces n w faces -> c01_faces_of (c01_std w faces) = faces.
Proof.
  intros H. unfold c01_faces_of, c01_std. rewrite map_map.
  transitivity (map (fun f : list Z => f) faces); [|apply map_id].
  apply map_ext_in. intros f Hf. unfold c01_wf_faces in H. rewrite Forall_forall in H.
  destruct (H f Hf) as [Hw _]. eapply c01_pad_corners; exact Hw.
Qed.

Definition c01_ent_eqb (a b : c01_ent) : bool :=
  match a, b with EInt x, EInt y => x =? y | ENan, ENan => true | _, _ => false end.

Lemma c01_ent_eqb_eq a b : c01_ent_eqb a b = true -> a = b.
Proof. destruct a, b; simpl; intros H; try discriminate; [f_equal; lia|reflexivity]. Qed.

Definition c01_fill_okb (s n : Z) (fe : c01_ent) : bool :=
  match fe with EInt v => negb ((s <=? v) && (v <? s + n)) | ENan => true end.

Lemma c01_fill_okb_ok s n fe : c01_fill_okb s n fe = true -> c01_fill_ok s n fe.
Proof. destruct fe; simpl; [lia|trivial]. Qed.

(* every UGRID dialect the reader decodes correctly, as one boolean: base s >= 0, the padding entry fe is the
   declared _FillValue (or NaN in float storage when none is declared) and is no valid index, and the
   start_index attribute is s — or it is absent, s = 0 and node 0 is referenced by some face *)
Definition c01_ugrid_dialect_okb (d : c01_udial) (s : Z) (fe : c01_ent) (n : Z) (faces : list (list Z)) : bool :=
  (0 <=? s) && (n + s <=? c01_BOUND) && c01_fill_okb s n fe &&
  match ud_fill d with Some f => c01_ent_eqb f fe | None => c01_is_nan fe end &&
  match ud_start d with
  | Some s' => s' =? s
  | None => (s =? 0) && existsb (existsb (Z.eqb 0)) faces
  end.

Theorem c01_ugrid_roundtrip d s fe n w faces :
  c01_ugrid_dialect_okb d s fe n faces = true -> c01_wf_facesb n w faces = true ->
  c01_faces_of (c01_ugrid_conn d (c01_encode s fe w faces)) = faces.
Proof.
  intros Hd Hw. apply c01_wf_facesb_ok in Hw. unfold c01_ugrid_dialect_okb in Hd.
  repeat (apply andb_true_iff in Hd; destruct Hd as [Hd ?]).
  assert (Hfill : ud_fill d = Some fe \/ (ud_fill d = None /\ fe = ENan)).
  { destruct (ud_fill d) as [f|]; [left; f_equal; apply c01_ent_eqb_eq; assumption|right; split; [reflexivity|]].
    destruct fe; [discriminate|reflexivity]. }
  assert (Hok : c01_fill_ok s n fe) by (apply c01_fill_okb_ok; assumption).
  transitivity (c01_faces_of (c01_std w faces)); [|apply (c01_faces_of_std n); exact Hw]. f_equal.
  destruct (ud_start d) as [s'|] eqn:Es.
  - assert (s' = s) by lia. subst s'. apply (c01_ugrid_faces d s fe n); try assumption; lia.
  - apply andb_true_iff in H. destruct H as [Hs0 Hex]. assert (s = 0) by lia. subst s.
    apply (c01_ugrid_start_absent d fe n); try assumption; try lia.
    apply existsb_exists in Hex. destruct Hex as (f & Hf & Hex). apply existsb_exists in Hex.
    destruct Hex as (x & Hx & Ex). exists f. split; [exact Hf|]. assert (x = 0) by lia. subst x. exact Hx.
Qed.

(* explicit topology: with a fill value (any dtype), or without one when every row is full *)
Theorem c01_topo_roundtrip std s fe n w faces (with_fill : bool) :
  (0 <=? s) && (n + s <=? c01_BOUND) && c01_fill_okb s n fe = true ->
  c01_wf_facesb n w faces = true ->
  (with_fill = false -> forallb (fun f => (length f =? w)%nat) faces = true) ->
  c01_faces_of (fst (c01_topo_conn std (if with_fill then Some fe else None) s (c01_encode s fe w faces))) = faces.
Proof.
  intros Hd Hw Hfull. apply c01_wf_facesb_ok in Hw.
  repeat (apply andb_true_iff in Hd; destruct Hd as [Hd ?]).
  transitivity (c01_faces_of (c01_std w faces)); [|apply (c01_faces_of_std n); exact Hw]. f_equal. destruct with_fill.
  - apply (c01_topo_faces std s fe n); try assumption; try lia. apply c01_fill_okb_ok; assumption.
  - apply (c01_topo_faces_nofill std s fe n). specialize (Hfull eq_refl). rewrite forallb_forall in Hfull.
    unfold c01_wf_faces in Hw. rewrite Forall_forall in *. intros f Hf. destruct (Hw f Hf) as [Hwf _].
    split; [exact Hwf|]. apply Nat.eqb_eq. apply Hfull. exact Hf.
Qed.

(* MPAS primal: zero padding and repeated-last-index padding *)
Theorem c01_mpas_roundtrip zeros n w faces : c01_wf_facesb n w faces = true ->
  c01_faces_of (c01_mpas_padded (c01_mpas_encode zeros w faces) (map (fun f => Z.of_nat (length f)) faces)) = faces.
Proof.
  intros Hw. apply c01_wf_facesb_ok in Hw.
  transitivity (c01_faces_of (c01_std w faces)); [|apply (c01_faces_of_std n); exact Hw]. f_equal.
  set (J := fun f : list Z => repeat (if zeros then 0 else last f 0 + 1) (w - length f)).
  pose proof (c01_mpas_primal_faces n w (map (fun f => (f, J f)) faces)) as E.
  rewrite !map_map in E. simpl in E. rewrite map_id in E. apply E.
  apply Forall_map. unfold c01_wf_faces in Hw. eapply Forall_impl; [|exact Hw]. simpl. intros f [Hf Hl].
  split; [exact Hf|]. unfold J. rewrite repeat_length. lia.
Qed.

(* ESMF: start_index 0 / 1 / absent, -1 padding, numElementConn = corner counts *)
Theorem c01_esmf_roundtrip attr s n w faces :
  (n <=? c01_BOUND) && ((s =? 0) || (s =? 1)) &&
  match attr with Some a => a =? s | None => s =? 1 end = true ->
  c01_wf_facesb n w faces = true ->
  c01_faces_of (c01_esmf attr (c01_esmf_encode s w faces) (map (fun f => Z.of_nat (length f)) faces)) = faces.
Proof.
  intros Hd Hw. apply c01_wf_facesb_ok in Hw.
  repeat (apply andb_true_iff in Hd; destruct Hd as [Hd ?]).
  transitivity (c01_faces_of (c01_std w faces)); [|apply (c01_faces_of_std n); exact Hw]. f_equal.
  set (J := fun f : list Z => repeat (EInt (-1)) (w - length f)).
  pose proof (c01_esmf_faces n w attr s (map (fun f => (f, J f)) faces)) as E.
  rewrite !map_map in E. simpl in E. rewrite map_id in E. apply E; try lia.
  - destruct attr as [a|]; [left; f_equal; lia|right; split; [reflexivity|lia]].
  - apply Forall_map. unfold c01_wf_faces in Hw. eapply Forall_impl; [|exact Hw]. simpl. intros f [Hf Hl].
    split; [exact Hf|]. unfold J. rewrite repeat_length. lia.
Qed.

(* Exodus: any list of element blocks (width, faces), widest width w *)
Theorem c01_exodus_roundtrip n w (blocks : list (nat * list (list Z))) :
  forallb (fun b => (fst b <=? w)%nat && c01_wf_facesb n (fst b) (snd b)) blocks = true ->
  c01_faces_of (c01_exodus w (map (fun b => c01_exo_enc_block (fst b) (snd b)) blocks)) = concat (map snd blocks).
Proof.
  intros H. rewrite forallb_forall in H.
  assert (Hb : Forall (fun b => (fst b <= w)%nat /\ c01_wf_faces n (fst b) (snd b)) blocks).
  { apply Forall_forall. intros b Hin. specialize (H b Hin). apply andb_true_iff in H. destruct H as [H1 H2].
    split; [apply Nat.leb_le; exact H1|apply c01_wf_facesb_ok; exact H2]. }
  rewrite (c01_exodus_faces n w blocks Hb). apply (c01_faces_of_std n w).
  unfold c01_wf_faces. apply Forall_forall. intros f Hf. apply in_concat in Hf. destruct Hf as (fs & Hfs & Hf).
  apply in_map_iff in Hfs. destruct Hfs as (b & <- & Hbin). rewrite Forall_forall in Hb. destruct (Hb b Hbin) as [Hle Hwf].
  unfold c01_wf_faces in Hwf. rewrite Forall_forall in Hwf. destruct (Hwf f Hf). split; [assumption|lia].
Qed.

(* ICON: k corners per cell, tables stored transposed and one-based *)
Theorem c01_icon_roundtrip k n rows :
  forallb (fun r => (length r =? k)%nat) rows && c01_wf_facesb n k rows = true ->
  c01_faces_of (c01_icon (length rows) (c01_icon_encode k rows)) = rows.
Proof.
  intros H. apply andb_true_iff in H. destruct H as [Hl Hw]. apply c01_wf_facesb_ok in Hw.
  transitivity (c01_faces_of (c01_std k rows)); [|apply (c01_faces_of_std n); exact Hw]. f_equal. apply (c01_icon_faces k n).
  rewrite forallb_forall in Hl. unfold c01_wf_faces in Hw. rewrite Forall_forall in *. intros r Hr.
  destruct (Hw r Hr). split; [apply Nat.eqb_eq; apply Hl; exact Hr|assumption].
Qed.

(* SCRIP: cells padded by repeating their last corner (generator as a definition) *)
Theorem c01_scrip_roundtrip w (faces : list (list (Z * Z))) :
  Forall (fun f => f <> [] /\ (length f <= w)%nat /\ NoDup f) faces ->
  c01_faces_pos (FILL, FILL) (fst (c01_scrip (c01_scrip_encode w faces) w)) (snd (c01_scrip (c01_scrip_encode w faces) w)) = faces.
Proof. intros H. apply (proj1 (c01_scrip_faces w faces H)). Qed.

(* UGRID dimension renaming: the edge dimension follows edge_lon only; a source that declares edge_dimension
   and supplies edge_node_connectivity but no edge coordinates keeps its own edge dimension name (known finding
   C01-ugrid-edge-dim: Grid.n_edge then raises) *)
Theorem c01_ugrid_dims_spec a b c e : c01_ugrid_dims a b c e = (true, true, e).
Proof. reflexivity. Qed.

Theorem c01_ugrid_edge_dim_refuted :
  exists attr_edge has_edge_lon, attr_edge = true /\ snd (c01_ugrid_dims true true attr_edge has_edge_lon) <> true.
Proof. exists true, false. split; [reflexivity|]. vm_compute. discriminate. Qed.

Example c01_roundtrip_nonvacuous :
  c01_wf_facesb 5 4 c01_ex_faces_def = true
  /\ c01_ugrid_dialect_okb {| ud_std_dtype := false; ud_fill := Some (EInt (-1)); ud_start := Some 1 |} 1 (EInt (-1)) 5 c01_ex_faces_def = true
  /\ c01_ugrid_dialect_okb {| ud_std_dtype := true; ud_fill := Some (EInt FILL); ud_start := None |} 0 (EInt FILL) 5 c01_ex_faces_def = true
  /\ c01_ugrid_dialect_okb {| ud_std_dtype := false; ud_fill := None; ud_start := Some 0 |} 0 ENan 5 c01_ex_faces_def = true
  /\ c01_faces_of (c01_ugrid_conn {| ud_std_dtype := false; ud_fill := None; ud_start := Some 0 |} (c01_encode 0 ENan 4 c01_ex_faces_def)) = c01_ex_faces_def
  /\ c01_faces_of (c01_mpas_padded (c01_mpas_encode false 4 c01_ex_faces_def) [4; 3]) = c01_ex_faces_def
  /\ c01_mpas_encode false 4 c01_ex_faces_def = [[1; 2; 3; 4]; [2; 5; 3; 3]]
  /\ c01_faces_of (c01_esmf (Some 0) (c01_esmf_encode 0 4 c01_ex_faces_def) [4; 3]) = c01_ex_faces_def
  /\ c01_faces_of (c01_exodus 4 [c01_exo_enc_block 3 [[1; 4; 2]]; c01_exo_enc_block 4 [[0; 1; 2; 3]]]) = [[1; 4; 2]; [0; 1; 2; 3]]
  /\ c01_faces_of (c01_icon 2 (c01_icon_encode 3 [[0; 1; 2]; [2; 1; 3]])) = [[0; 1; 2]; [2; 1; 3]]
  /\ c01_scrip_encode 4 [[(5, 1); (2, 2); (9, 0)]] = [[(5, 1); (2, 2); (9, 0); (9, 0)]].
Proof. vm_compute. repeat split. Qed.

(* ------------------------------------------------------------------------------------------- *)
(* non-vacuity: concrete inputs meeting the hypotheses of the theorems above                      *)

Definition c01_ex_faces : list (list Z) := [[0; 1; 2; 3]; [1; 4; 2]].

Example c01_ex_wf : c01_wf_faces 5 4 c01_ex_faces.
Proof. repeat constructor; simpl; lia. Qed.

Example c01_ugrid_faces_nonvacuous :
  c01_ugrid_conn {| ud_std_dtype := false; ud_fill := Some (EInt (-1)); ud_start := Some 1 |}
                 (c01_encode 1 (EInt (-1)) 4 c01_ex_faces) = [[0; 1; 2; 3]; [1; 4; 2; FILL]].
Proof. vm_compute. reflexivity. Qed.

Example c01_ugrid_nan_nonvacuous :
  c01_ugrid_conn {| ud_std_dtype := false; ud_fill := None; ud_start := Some 0 |}
                 (c01_encode 0 ENan 5 c01_ex_faces) = [[0; 1; 2; 3; FILL]; [1; 4; 2; FILL; FILL]].
Proof. vm_compute. reflexivity. Qed.

Example c01_topo_nonvacuous :
  c01_topo_conn false (Some (EInt 999999)) 1 (c01_encode 1 (EInt 999999) 4 c01_ex_faces)
  = ([[0; 1; 2; 3]; [1; 4; 2; FILL]], true).
Proof. vm_compute. reflexivity. Qed.

Example c01_mpas_nonvacuous :
  c01_mpas_padded [[1; 2; 3; 4]; [2; 5; 3; 3]] [4; 3] = [[0; 1; 2; 3]; [1; 4; 2; FILL]]
  /\ c01_mpas_padded [[1; 2; 3; 4]; [2; 5; 3; 0]] [4; 3] = [[0; 1; 2; 3]; [1; 4; 2; FILL]]
  /\ c01_mpas_plain [[3; 0; 1]] = [[2; FILL; 0]].
Proof. vm_compute. repeat split. Qed.

Example c01_esmf_nonvacuous :
  c01_esmf None [[EInt 1; EInt 2; EInt 3; EInt 4]; [EInt 2; EInt 5; EInt 3; ENan]] [4; 3]
  = [[0; 1; 2; 3]; [1; 4; 2; FILL]]
  /\ c01_esmf (Some 0) [[EInt 0; EInt 1; EInt 2; EInt 3]; [EInt 1; EInt 4; EInt 2; EInt (-1)]] [4; 3]
  = [[0; 1; 2; 3]; [1; 4; 2; FILL]].
Proof. vm_compute. split; reflexivity. Qed.

Example c01_ugrid_formerly_refuted_nonvacuous :
  c01_ugrid_conn {| ud_std_dtype := true; ud_fill := Some (EInt FILL); ud_start := Some 1 |}
                 (c01_encode 1 (EInt FILL) 4 c01_ex_faces) = [[0; 1; 2; 3]; [1; 4; 2; FILL]]
  /\ c01_ugrid_conn {| ud_std_dtype := false; ud_fill := Some (EInt (-1)); ud_start := None |}
                 (c01_encode 0 (EInt (-1)) 4 c01_ex_faces) = [[0; 1; 2; 3]; [1; 4; 2; FILL]].
Proof. vm_compute. split; reflexivity. Qed.

Example c01_exodus_nonvacuous :
  c01_exodus 4 [c01_exo_enc_block 4 c01_ex_faces] = [[0; 1; 2; 3]; [1; 4; 2; FILL]]
  /\ c01_exodus 4 [c01_exo_enc_block 4 [[0; 1; 2; 3]]; c01_exo_enc_block 3 [[1; 4; 2]]]
     = [[0; 1; 2; 3]; [1; 4; 2; FILL]].
Proof. vm_compute. split; reflexivity. Qed.

Example c01_scrip_nonvacuous :
  c01_scrip [[(5, 1); (2, 2); (7, 7); (9, 0)]; [(2, 2); (5, 1); (9, 0); (9, 0)]; [(7, 7); (7, 7); (7, 7); (7, 7)]] 4
  = ([(2, 2); (5, 1); (7, 7); (9, 0)], [[1; 0; 2; 3]; [0; 1; 3; FILL]; [2; FILL; FILL; FILL]]).
Proof. vm_compute. reflexivity. Qed.

Example c01_fv_nonvacuous :
  c01_fv [[(5, 1); (2, 2); (7, 7); (9, 0)]; [(2, 2); (5, 1); (9, 0); c01_fp]] 4
  = ([(2, 2); (5, 1); (7, 7); (9, 0)], [[1; 0; 2; 3]; [0; 1; 3; FILL]]).
Proof. vm_compute. reflexivity. Qed.

Example c01_geos_nonvacuous : c01_geos 2 2 3 = [[4; 3; 0; 1]; [5; 4; 1; 2]; [10; 9; 6; 7]; [11; 10; 7; 8]].
Proof. vm_compute. reflexivity. Qed.

Example c01_icon_nonvacuous :
  c01_icon 2 (c01_icon_encode 3 [[0; 1; 2]; [2; 1; 3]]) = [[0; 1; 2]; [2; 1; 3]]
  /\ c01_icon 2 (c01_transpose 3 (map (map c01_enc_opt) [[Some 1; None; Some 0]; [None; Some 0; None]]))
     = [[1; FILL; 0]; [FILL; 0; FILL]].
Proof. vm_compute. split; reflexivity. Qed.

Example c01_geo_nonvacuous :
  c01_geo 4 [[[(1, 10); (2, 20); (3, 30)]]; [[(4, 40); (5, 50); (6, 60); (7, 70)]; [(8, 80); (9, 90); (1, 10)]]]
  = ([1; 2; 3; 4; 5; 6; 7; 8; 9; 1], [10; 20; 30; 40; 50; 60; 70; 80; 90; 10],
     [[0; 1; 2; FILL]; [3; 4; 5; 6]; [7; 8; 9; FILL]]).
Proof. vm_compute. reflexivity. Qed.

Example c01_wrap_nonvacuous :
  Forall2 Qeq (c01_wrap_all [370 # 1; 10 # 1; 180 # 1; 359 # 2]%Q) [10 # 1; 10 # 1; (-180) # 1; 359 # 2]%Q.
Proof. vm_compute. repeat constructor. Qed.
