From Coq Require Import Sorting.Mergesort Sorting.Sorted Permutation RelationClasses ZifyBool.
From Verif Require Import Base C09.
Local Open Scope Z_scope.

Lemma c09_is_fill_iff x : is_fill x = true <-> x = FILL.
Proof. unfold is_fill. apply Z.eqb_eq. Qed.

(* ---------------- np.unique ---------------- *)
Definition lebZ (x y : Z) : Prop := is_true (C09ZOrder.leb x y).
Lemma lebZ_trans : Transitive lebZ.
Proof. intros a b c; unfold lebZ, is_true, C09ZOrder.leb; lia. Qed.

Lemma dedup_In x l : In x (c09_dedup l) <-> In x l.
Proof.
  induction l as [|a l IH]; [simpl; tauto|].
  destruct l as [|b l]; [simpl; tauto|].
  change (c09_dedup (a :: b :: l)) with (if a =? b then c09_dedup (b :: l) else a :: c09_dedup (b :: l)).
  destruct (a =? b) eqn:E.
  - apply Z.eqb_eq in E. subst b. rewrite IH. simpl. tauto.
  - simpl In at 1. rewrite IH. simpl. tauto.
Qed.

Lemma dedup_sorted l : StronglySorted lebZ l -> StronglySorted Z.lt (c09_dedup l).
Proof.
  induction l as [|a l IH]; intros HS; [constructor|].
  inversion HS as [|? ? HS' Hall]; subst.
  destruct l as [|b l]; [simpl; constructor; [constructor|constructor]|].
  change (c09_dedup (a :: b :: l)) with (if a =? b then c09_dedup (b :: l) else a :: c09_dedup (b :: l)).
  destruct (a =? b) eqn:E; [apply IH; assumption|].
  constructor; [apply IH; assumption|].
  apply Forall_forall. intros x Hx. rewrite dedup_In in Hx.
  inversion HS' as [|? ? _ Hall']; subst.
  assert (Hab : lebZ a b) by (inversion Hall; assumption).
  unfold lebZ, is_true, C09ZOrder.leb in *.
  destruct Hx as [->|Hx]; [lia|]. rewrite Forall_forall in Hall'. specialize (Hall' x Hx).
  unfold lebZ, is_true, C09ZOrder.leb in Hall'. lia.
Qed.

Lemma unique_In x l : In x (c09_unique l) <-> In x l.
Proof.
  unfold c09_unique. rewrite dedup_In. split; intro H.
  - eapply Permutation_in; [apply Permutation_sym, C09Sort.Permuted_sort|exact H].
  - eapply Permutation_in; [apply C09Sort.Permuted_sort|exact H].
Qed.

Lemma unique_sorted l : StronglySorted Z.lt (c09_unique l).
Proof. unfold c09_unique. apply dedup_sorted. apply C09Sort.StronglySorted_sort. exact lebZ_trans. Qed.

Lemma sorted_lt_NoDup l : StronglySorted Z.lt l -> NoDup l.
Proof.
  induction 1 as [|a l _ IH Hall]; constructor; [|exact IH].
  intros Hin. rewrite Forall_forall in Hall. specialize (Hall a Hin). lia.
Qed.

Lemma sorted_filter (f : Z -> bool) l : StronglySorted Z.lt l -> StronglySorted Z.lt (filter f l).
Proof.
  induction 1 as [|a l _ IH Hall]; simpl; [constructor|].
  destruct (f a); [|exact IH]. constructor; [exact IH|].
  apply Forall_forall. intros x Hx. apply filter_In in Hx. rewrite Forall_forall in Hall. apply Hall. tauto.
Qed.

(* the selected-element lists: sorted, duplicate free, fill free, exactly the touched elements *)
Theorem faces_touching_spec inc idx f :
  In f (c09_faces_touching inc idx) <-> f <> FILL /\ exists i, In i idx /\ In f (nth (Z.to_nat i) inc []).
Proof.
  unfold c09_faces_touching, c09_nofill. rewrite filter_In, unique_In, negb_true_iff.
  unfold c09_rows. rewrite in_concat. split.
  - intros [(r & Hr & Hf) Hnf]. apply in_map_iff in Hr. destruct Hr as (i & <- & Hi).
    split; [|exists i; tauto]. intros ->. unfold is_fill in Hnf. rewrite Z.eqb_refl in Hnf. discriminate.
  - intros [Hnf (i & Hi & Hf)]. split.
    + exists (nth (Z.to_nat i) inc []). split; [|exact Hf]. apply in_map_iff. exists i. tauto.
    + apply not_true_is_false. intros H. apply c09_is_fill_iff in H. contradiction.
Qed.

Theorem faces_touching_sorted inc idx : StronglySorted Z.lt (c09_faces_touching inc idx).
Proof. unfold c09_faces_touching, c09_nofill. apply sorted_filter, unique_sorted. Qed.

Theorem faces_touching_NoDup inc idx : NoDup (c09_faces_touching inc idx).
Proof. apply sorted_lt_NoDup, faces_touching_sorted. Qed.

(* ---------------- face slicing ---------------- *)
Lemma index_of_spec v l : In v l -> (c09_index_of v l < length l)%nat /\ nth (c09_index_of v l) l FILL = v.
Proof.
  induction l as [|y l IH]; intros H; [destruct H|]. simpl.
  destruct (v =? y) eqn:E.
  - apply Z.eqb_eq in E. subst. split; [lia|reflexivity].
  - destruct H as [->|H]; [rewrite Z.eqb_refl in E; discriminate|].
    destruct (IH H). split; [lia|assumption].
Qed.

(* reading entry x of a selected row back through subgrid_node_indices gives the source entry *)
Lemma back_renumber ni x : (is_fill x = false -> In x ni) -> c09_back ni (c09_renumber ni x) = x.
Proof.
  intros H. unfold c09_back, c09_renumber. destruct (is_fill x) eqn:E.
  - rewrite (proj2 (c09_is_fill_iff FILL) eq_refl). apply c09_is_fill_iff in E. congruence.
  - destruct (index_of_spec x ni (H eq_refl)) as [Hlt Hn].
    assert (is_fill (Z.of_nat (c09_index_of x ni)) = false) as -> by (unfold is_fill, FILL; lia).
    rewrite Nat2Z.id. exact Hn.
Qed.

(* the k-th face of the subset is the source face idx[k]: same corners, same order, same padding *)
Theorem slice_faces_faithful t idx k i :
  nth_error idx k = Some i ->
  exists r', nth_error (fst (c09_slice_faces t idx)) k = Some r'
    /\ map (c09_back (snd (c09_slice_faces t idx))) r' = nth (Z.to_nat i) t [].
Proof.
  intros Hk. unfold c09_slice_faces. simpl.
  set (ni := c09_node_indices t idx).
  exists (map (c09_renumber ni) (nth (Z.to_nat i) t [])). split.
  - unfold c09_rows. rewrite map_map.
    exact (map_nth_error (fun x : Z => map (c09_renumber ni) (nth (Z.to_nat x) t [])) k idx Hk).
  - rewrite map_map. rewrite <- (map_id (nth (Z.to_nat i) t [])) at 2.
    apply map_ext_in. intros x Hx. apply back_renumber. intros Hnf.
    subst ni. unfold c09_node_indices. apply (proj2 (faces_touching_spec t idx x)).
    split; [intros ->; rewrite (proj2 (c09_is_fill_iff FILL) eq_refl) in Hnf; discriminate|].
    exists i. split; [eapply nth_error_In; exact Hk|exact Hx].
Qed.

Theorem slice_faces_count t idx : length (fst (c09_slice_faces t idx)) = length idx.
Proof. unfold c09_slice_faces, c09_rows. simpl. rewrite !map_length. reflexivity. Qed.

(* subgrid_node_indices: exactly the corners of the selected faces, sorted, once each *)
Theorem slice_node_indices_spec t idx x :
  In x (snd (c09_slice_faces t idx)) <-> x <> FILL /\ exists i, In i idx /\ In x (nth (Z.to_nat i) t []).
Proof. apply faces_touching_spec. Qed.

Theorem slice_node_indices_NoDup t idx : NoDup (snd (c09_slice_faces t idx)).
Proof. apply faces_touching_NoDup. Qed.

(* ---------------- constant-latitude scan ---------------- *)
Theorem crosses_iff z0 z1 c : c09_crosses z0 z1 c = true <-> (z0 < c < z1 \/ z1 < c < z0).
Proof. unfold c09_crosses. rewrite Z.ltb_lt, Z.lt_mul_0. lia. Qed.

Lemma where_In mask : forall k x,
  In x (c09_where k mask) <-> exists e, x = k + Z.of_nat e /\ nth_error mask e = Some true.
Proof.
  induction mask as [|b m IH]; intros k x; simpl.
  - split; [intros []|intros (e & _ & H); destruct e; discriminate].
  - assert (Hrec : In x (c09_where (k + 1) m) <-> exists e, x = k + Z.of_nat (S e) /\ nth_error m e = Some true).
    { rewrite IH. split; intros (e & H1 & H2); exists e; (split; [lia|exact H2]). }
    destruct b; simpl; rewrite ?Hrec; split.
    + intros [<-|(e & H1 & H2)]; [exists 0%nat; split; [lia|reflexivity]|exists (S e); tauto].
    + intros (e & H1 & H2). destruct e as [|e]; [left; lia|right; exists e; tauto].
    + intros (e & H1 & H2). exists (S e). tauto.
    + intros (e & H1 & H2). destruct e as [|e]; [discriminate|exists e; tauto].
Qed.

(* an edge is reported iff its end nodes lie strictly on opposite sides of the parallel *)
Theorem lat_edges_spec ez c x :
  In x (c09_lat_edges ez c) <->
  exists e z0 z1, x = Z.of_nat e /\ nth_error ez e = Some (z0, z1) /\ (z0 < c < z1 \/ z1 < c < z0).
Proof.
  unfold c09_lat_edges, c09_lat_mask. rewrite where_In. split.
  - intros (e & -> & H). rewrite nth_error_map in H. destruct (nth_error ez e) as [[z0 z1]|] eqn:E; [|discriminate].
    simpl in H. inversion H as [H']. exists e, z0, z1. split; [lia|]. split; [exact E|]. apply crosses_iff. exact H'.
  - intros (e & z0 & z1 & -> & He & Hc). exists e. split; [lia|]. rewrite nth_error_map, He. simpl.
    f_equal. apply crosses_iff. exact Hc.
Qed.

(* ---------------- schedule independence of the parallel scan ---------------- *)
Section Scan.
Context {A : Type} (zero : A) (f : nat -> A).

Lemma set_length i v (l : list A) : length (c09_set i v l) = length l.
Proof. revert i; induction l as [|x l IH]; intros [|i]; simpl; auto. Qed.

Lemma set_nth (l : list A) : forall i v j d, (i < length l)%nat ->
  nth j (c09_set i v l) d = if Nat.eqb i j then v else nth j l d.
Proof.
  induction l as [|x l IH]; intros [|i] v [|j] d Hi; simpl in *; try lia; try reflexivity. apply IH. lia.
Qed.

Lemma scan_fold_length order : forall m : list A,
  length (fold_left (fun m i => c09_set i (f i) m) order m) = length m.
Proof. induction order as [|i order IH]; intros m; simpl; [reflexivity|]. rewrite IH. apply set_length. Qed.

Lemma scan_fold_nth order : forall (m : list A) j d,
  Forall (fun i => (i < length m)%nat) order ->
  nth j (fold_left (fun m i => c09_set i (f i) m) order m) d =
  if existsb (Nat.eqb j) order then f j else nth j m d.
Proof.
  induction order as [|i order IH]; intros m j d Hall; simpl; [reflexivity|].
  inversion Hall as [|? ? Hi Hall']; subst.
  rewrite IH by (eapply Forall_impl; [|exact Hall']; intros a Ha; simpl in Ha; rewrite set_length; exact Ha).
  destruct (existsb (Nat.eqb j) order) eqn:E; [rewrite orb_true_r; reflexivity|].
  rewrite orb_false_r. rewrite set_nth by exact Hi.
  rewrite Nat.eqb_sym. destruct (Nat.eqb j i) eqn:E2; [apply Nat.eqb_eq in E2; subst; reflexivity|reflexivity].
Qed.

(* whatever order the iterations run in (any permutation of 0..n-1), the mask is the same *)
Theorem scan_schedule_independent order n :
  Permutation order (seq 0 n) -> c09_scan zero f order n = map f (seq 0 n).
Proof.
  intros Hp. unfold c09_scan.
  assert (Hall : Forall (fun i => (i < length (repeat zero n))%nat) order).
  { apply Forall_forall. intros i Hi. rewrite repeat_length.
    apply (Permutation_in _ Hp) in Hi. apply in_seq in Hi. lia. }
  apply nth_ext with (d := zero) (d' := zero).
  - rewrite scan_fold_length, repeat_length, map_length, seq_length. reflexivity.
  - intros j Hj. rewrite scan_fold_length, repeat_length in Hj.
    rewrite scan_fold_nth by exact Hall.
    assert (Hin : existsb (Nat.eqb j) order = true).
    { apply existsb_exists. exists j. split; [|apply Nat.eqb_refl].
      apply (Permutation_in _ (Permutation_sym Hp)). apply in_seq. lia. }
    rewrite Hin.
    rewrite nth_indep with (d' := f 0%nat) by (rewrite map_length, seq_length; exact Hj).
    rewrite map_nth, seq_nth by exact Hj. reflexivity.
Qed.
End Scan.

(* ---------------- data stay aligned ---------------- *)
Theorem gather_spec {A} (d : A) data idx k i :
  nth_error idx k = Some i -> nth_error (c09_gather d data idx) k = Some (nth (Z.to_nat i) data d).
Proof. intros H. unfold c09_gather. exact (map_nth_error (fun i0 => nth (Z.to_nat i0) data d) k idx H). Qed.

Theorem gather_length {A} (d : A) data idx : length (c09_gather d data idx) = length idx.
Proof. unfold c09_gather. apply map_length. Qed.

(* non-vacuity *)
Example c09_ex :
  c09_slice_faces [[0;1;2;FILL];[1;3;4;2];[5;1;0;FILL]] [2;0] = ([[3;1;0;FILL];[0;1;2;FILL]], [0;1;2;5])
  /\ c09_faces_touching [[0;2;FILL];[0;1;2];[0;1;FILL];[1;FILL;FILL]] [3;0] = [0;1;2]
  /\ c09_lat_edges [(-5,3);(2,7);(9,-1);(0,4)] 0 = [0;2]
  /\ c09_scan 0 (fun i => Z.of_nat i * 2) [2;0;3;1]%nat 4 = [0;2;4;6].
Proof. vm_compute. repeat split. Qed.
