(* Proofs about Model/C13.v: the periodic longitude box only grows and contains every inserted
   longitude; latitude bounds enclose / are attained; pole branches; the normal branch (code since the fix
   bb1965a6: node, then both extremes) encloses every corner and both extremes of every edge.  For every edge list. *)
From Coq Require Import ZArith Lia ZifyBool List Bool.
From Verif Require Import Base C14_consts C14 C13.
Local Open Scope Z_scope.

Ltac c13_ifs := repeat match goal with
  | |- context [if ?c then _ else _] => destruct c eqn:?
  end.
Ltac c13_ifs_in H := repeat match type of H with
  | context [if ?c then _ else _] => destruct c eqn:?
  end.

Lemma c13_FILL_neg : FILL < 0.
Proof. unfold FILL. lia. Qed.

(* the longitude part of a box is uninitialised or holds two normalised longitudes *)
Definition c13_lon_ok (P : Z) (b : c13_box) : Prop :=
  (c13_lon_lo b = FILL /\ c13_lon_hi b = FILL) \/
  (0 <= c13_lon_lo b < P /\ 0 <= c13_lon_hi b < P).

Definition c13_lon_init (b : c13_box) : Prop := 0 <= c13_lon_lo b /\ 0 <= c13_lon_hi b.

Definition c13_lat_init (b : c13_box) : Prop := c13_lat_lo b <> FILL \/ c13_lat_hi b <> FILL.

Lemma c13_norm_small P x : 0 <= x < P -> c13_norm P x = x.
Proof.
  intros H. unfold c13_norm. pose proof c13_FILL_neg.
  destruct (Z.eqb_spec x FILL); [lia|]. apply Z.mod_small; assumption.
Qed.

Lemma c13_norm_range P x : 0 < P -> x <> FILL -> 0 <= c13_norm P x < P.
Proof.
  intros HP Hx. unfold c13_norm. destruct (Z.eqb_spec x FILL); [contradiction|].
  apply Z.mod_pos_bound; assumption.
Qed.

Lemma c13_width_small P lo hi : 0 <= lo < P -> 0 <= hi < P ->
  c13_width P lo hi = if lo <=? hi then hi - lo else P - lo + hi.
Proof. intros H1 H2. unfold c13_width. rewrite !c13_norm_small by assumption. reflexivity. Qed.

(* ------------------------------------------------------------------------------------------ *)
(* one insertion of a regular point (lon <> FILL)                                               *)

Section Insert.
  Variables P H : Z.
  Hypothesis HP : 0 < P.
  Hypothesis HH : 0 < H.
  Hypothesis HF : FILL < - H.

  Lemma c13_insert_lon b lat lon :
    lon <> FILL -> c13_lon_ok P b ->
    let b' := c13_insert P H b lat lon in
    (0 <= c13_lon_lo b' < P /\ 0 <= c13_lon_hi b' < P) /\
    c13_lon_in b' (c13_norm P lon) = true /\
    (forall x, 0 <= x < P -> c13_lon_init b -> c13_lon_in b x = true -> c13_lon_in b' x = true).
  Proof.
    intros Hl Hok. pose proof c13_FILL_neg as HFn.
    pose proof (c13_norm_range P lon HP Hl) as Hr.
    cbv zeta. unfold c13_insert.
    set (lp := c13_norm P lon) in *. clearbody lp.
    assert (E1 : ((lat =? FILL) && (lon =? FILL)) = false) by lia. rewrite E1.
    assert (E2 : ((lp =? FILL) && ((lat =? H) || (lat =? - H))) = false) by lia. rewrite E2.
    unfold c13_lon_ok in Hok. unfold c13_lon_init, c13_lon_in.
    destruct Hok as [[Ea Eb]|[Ha Hb]].
    - (* uninitialised: becomes [lp, lp] *)
      rewrite Ea, Eb. rewrite !Z.eqb_refl. cbn [andb].
      assert (C : ((lp <? lp) && ((lp <? lp) && (lp <? lp)) || (lp <=? lp) && negb ((lp <=? lp) && (lp <=? lp))) = false) by lia.
      rewrite C. cbn [c13_lon_lo c13_lon_hi].
      split; [lia|]. split; [c13_ifs; lia|]. intros x Hx [I1 I2]. lia.
    - assert (U : ((c13_lon_lo b =? FILL) && (c13_lon_hi b =? FILL)) = false) by lia.
      rewrite U.
      set (lo := c13_lon_lo b) in *. set (hi := c13_lon_hi b) in *.
      rewrite !c13_width_small by lia.
      destruct ((hi <? lo) && ((lp <? lo) && (hi <? lp)) || (lo <=? hi) && negb ((lo <=? lp) && (lp <=? hi))) eqn:C.
      + destruct ((if lp <=? hi then hi - lp else P - lp + hi) <? (if lo <=? lp then lp - lo else P - lo + lp)) eqn:W;
          cbn [c13_lon_lo c13_lon_hi]; (split; [lia|]); (split; [c13_ifs; lia|]); intros x Hx _ Hin; c13_ifs_in Hin; c13_ifs; lia.
      + cbn [c13_lon_lo c13_lon_hi]. fold lo hi. split; [lia|]. split; [c13_ifs; lia|]. intros x Hx _ Hin. exact Hin.
  Qed.

  (* latitude part: the new latitude is inside, the old interval is kept, and each new bound is an old bound
     or the inserted latitude *)
  Lemma c13_insert_lat b lat lon :
    lon <> FILL -> lat <> FILL ->
    let b' := c13_insert P H b lat lon in
    c13_lat_lo b' <= lat <= c13_lat_hi b' /\
    (c13_lat_lo b <> FILL -> c13_lat_lo b' <= c13_lat_lo b) /\
    (c13_lat_hi b <> FILL -> c13_lat_hi b <= c13_lat_hi b') /\
    (c13_lat_lo b' = lat \/ c13_lat_lo b' = c13_lat_lo b) /\
    (c13_lat_hi b' = lat \/ c13_lat_hi b' = c13_lat_hi b).
  Proof.
    intros Hl Hlat. pose proof c13_FILL_neg as HFn.
    pose proof (c13_norm_range P lon HP Hl) as Hr.
    cbv zeta. unfold c13_insert.
    set (lp := c13_norm P lon) in *. clearbody lp.
    assert (E1 : ((lat =? FILL) && (lon =? FILL)) = false) by lia. rewrite E1.
    assert (E2 : ((lp =? FILL) && ((lat =? H) || (lat =? - H))) = false) by lia. rewrite E2.
    destruct ((c13_lat_lo b =? FILL) && (c13_lat_hi b =? FILL)) eqn:U;
    repeat match goal with |- context [if ?c then _ else _] => destruct c end;
    cbn [c13_lat_lo c13_lat_hi]; lia.
  Qed.
End Insert.

(* ------------------------------------------------------------------------------------------ *)
(* a sequence of insertions of regular points                                                   *)

Definition c13_ins_list (P H : Z) (b : c13_box) (pts : list (Z * Z)) : c13_box :=
  fold_left (fun b p => c13_insert P H b (fst p) (snd p)) pts b.

Definition c13_lat_ok (b : c13_box) : Prop :=
  (c13_lat_lo b = FILL /\ c13_lat_hi b = FILL) \/ (c13_lat_lo b <> FILL /\ c13_lat_hi b <> FILL).

Definition c13_regular (p : Z * Z) : Prop := fst p <> FILL /\ snd p <> FILL.

Section InsList.
  Variables P H : Z.
  Hypothesis HP : 0 < P.
  Hypothesis HH : 0 < H.
  Hypothesis HF : FILL < - H.

  Lemma c13_insert_lat_ok b lat lon :
    lon <> FILL -> lat <> FILL -> c13_lat_ok b ->
    c13_lat_lo (c13_insert P H b lat lon) <> FILL /\ c13_lat_hi (c13_insert P H b lat lon) <> FILL.
  Proof.
    intros Hl Hlat Hok. pose proof c13_FILL_neg as HFn.
    destruct Hok as [[A B]|[A B]].
    - pose proof (c13_norm_range P lon HP Hl) as Hr.
      unfold c13_insert.
      set (lp := c13_norm P lon) in *. clearbody lp.
      assert (E1 : ((lat =? FILL) && (lon =? FILL)) = false) by lia. rewrite E1.
      assert (E2 : ((lp =? FILL) && ((lat =? H) || (lat =? - H))) = false) by lia. rewrite E2.
      assert (U : ((c13_lat_lo b =? FILL) && (c13_lat_hi b =? FILL)) = true) by lia. rewrite U.
      c13_ifs; cbn [c13_lat_lo c13_lat_hi]; clear - Hlat; lia.
    - pose proof (c13_insert_lat P H HP HH HF b lat lon Hl Hlat) as (T1 & T2 & T3 & T4 & T5). cbv zeta in *.
      split; [destruct T4 as [E|E]; rewrite E; assumption | destruct T5 as [E|E]; rewrite E; assumption].
  Qed.

  Definition c13_inv (b : c13_box) (seen : list (Z * Z)) : Prop :=
    c13_lon_ok P b /\ c13_lat_ok b /\
    (seen <> [] -> c13_lon_init b /\ c13_lat_lo b <> FILL /\ c13_lat_hi b <> FILL /\
                   In (c13_lat_lo b) (map fst seen) /\ In (c13_lat_hi b) (map fst seen)) /\
    (forall p, In p seen -> c13_regular p /\ c13_lon_in b (c13_norm P (snd p)) = true /\ c13_lat_lo b <= fst p <= c13_lat_hi b).

  Lemma c13_inv_step b seen p :
    c13_regular p -> (seen = [] -> b = c13_empty) -> c13_inv b seen ->
    c13_inv (c13_insert P H b (fst p) (snd p)) (seen ++ [p]).
  Proof.
    intros [Rl Rn] Hemp (Lok & Tok & Hne & Hall).
    pose proof (c13_insert_lon P H HP HH HF b (fst p) (snd p) Rn Lok) as (L1 & L2 & L3). cbv zeta in L1, L2, L3.
    pose proof (c13_insert_lat P H HP HH HF b (fst p) (snd p) Rn Rl) as (T1 & T2 & T3 & T4 & T5). cbv zeta in T1, T2, T3, T4, T5.
    pose proof (c13_insert_lat_ok b (fst p) (snd p) Rn Rl Tok) as (N1 & N2).
    set (b' := c13_insert P H b (fst p) (snd p)) in *.
    split; [right; exact L1|].
    split; [right; split; assumption|].
    split.
    - intros _. split; [unfold c13_lon_init; lia|]. split; [exact N1|]. split; [exact N2|].
      rewrite map_app. cbn [map].
      destruct seen as [|q seen'].
      + (* first point *)
        pose proof (Hemp eq_refl) as Eb. subst b. cbn [app].
        assert (c13_lat_lo b' = fst p /\ c13_lat_hi b' = fst p) as [-> ->].
        { unfold b', c13_insert, c13_empty. cbn [c13_lat_lo c13_lat_hi c13_lon_lo c13_lon_hi].
          pose proof c13_FILL_neg. pose proof (c13_norm_range P (snd p) HP Rn).
          rewrite !Z.eqb_refl. cbn [andb].
          assert (E1 : ((fst p =? FILL) && (snd p =? FILL)) = false) by lia. rewrite E1.
          assert (E2 : ((c13_norm P (snd p) =? FILL) && ((fst p =? H) || (fst p =? - H))) = false) by lia. rewrite E2.
          c13_ifs; cbn [c13_lat_lo c13_lat_hi]; lia. }
        cbn [map]. split; left; reflexivity.
      + destruct (Hne ltac:(discriminate)) as (I0 & I1 & I2 & I3 & I4).
        split; apply in_or_app.
        * destruct T4 as [E|E]; [right; left; symmetry; exact E | left; rewrite E; exact I3].
        * destruct T5 as [E|E]; [right; left; symmetry; exact E | left; rewrite E; exact I4].
    - intros q Hq. apply in_app_or in Hq. destruct Hq as [Hq|[<-|[]]].
      + destruct (Hall q Hq) as [[Rq1 Rq2] [A B]].
        assert (Hs : seen <> []) by (intros E; rewrite E in Hq; destruct Hq).
        destruct (Hne Hs) as (I0 & I1 & I2 & _).
        split; [split; assumption|]. split.
        * apply L3; auto.
          destruct Lok as [[E1 E2]|[R1 R2]]; [unfold c13_lon_init in I0; pose proof c13_FILL_neg; lia|].
          apply c13_norm_range; assumption.
        * specialize (T2 I1). specialize (T3 I2). lia.
      + split; [split; assumption|]. split; [exact L2 | exact T1].
  Qed.

  Lemma c13_ins_list_inv pts : forall b seen,
    Forall c13_regular pts -> (seen = [] -> b = c13_empty) -> c13_inv b seen ->
    c13_inv (c13_ins_list P H b pts) (seen ++ pts).
  Proof.
    induction pts as [|p pts IH]; intros b seen HR Hemp Hinv.
    - rewrite app_nil_r. exact Hinv.
    - inversion HR as [|? ? Rp Rrest]; subst.
      cbn [c13_ins_list fold_left].
      replace (seen ++ p :: pts) with ((seen ++ [p]) ++ pts) by (rewrite <- app_assoc; reflexivity).
      apply IH; auto.
      + intros E. destruct seen; discriminate.
      + apply c13_inv_step; auto.
  Qed.

  Lemma c13_inv_empty : c13_inv c13_empty [].
  Proof.
    unfold c13_inv, c13_lon_ok, c13_lat_ok, c13_empty. cbn [c13_lon_lo c13_lon_hi c13_lat_lo c13_lat_hi].
    split; [left; split; reflexivity|]. split; [left; split; reflexivity|].
    split; [intros E; contradiction|]. intros p [].
  Qed.

  (* every inserted point is enclosed; both latitude bounds are attained by inserted points *)
  Lemma c13_ins_list_spec pts :
    Forall c13_regular pts ->
    let b := c13_ins_list P H c13_empty pts in
    (forall p, In p pts -> c13_lon_in b (c13_norm P (snd p)) = true /\ c13_lat_lo b <= fst p <= c13_lat_hi b) /\
    (pts <> [] -> In (c13_lat_lo b) (map fst pts) /\ In (c13_lat_hi b) (map fst pts)).
  Proof.
    intros HR. pose proof (c13_ins_list_inv pts c13_empty [] HR (fun _ => eq_refl) c13_inv_empty) as (A & B & C & D).
    cbn [app] in *. cbv zeta. split; [intros p Hp; destruct (D p Hp) as [_ X]; exact X|]. intros Hne. destruct (C Hne) as (_ & _ & _ & I3 & I4). split; assumption.
  Qed.
End InsList.

(* ------------------------------------------------------------------------------------------ *)
(* the normal branch and its repair as insertion sequences                                       *)

Definition c13_three (e : c13_edge) : list (Z * Z) :=
  [(c13_lat1 e, c13_lon1 e); (c13_emax e, c13_lon1 e); (c13_emin e, c13_lon1 e)].

Lemma c13_normal_as_list P H es : forall b,
  fold_left (c13_step_normal P H) es b = c13_ins_list P H b (flat_map c13_three es).
Proof.
  induction es as [|e es IH]; intros b; [reflexivity|].
  cbn [fold_left flat_map]. rewrite IH. unfold c13_ins_list. rewrite fold_left_app. reflexivity.
Qed.

Lemma c13_edge_ok_regular H e : FILL < - H -> c13_edge_ok H e ->
  c13_regular (c13_lat1 e, c13_lon1 e) /\ c13_regular (c13_emax e, c13_lon1 e) /\ c13_regular (c13_emin e, c13_lon1 e).
Proof. unfold c13_edge_ok, c13_regular. cbn [fst snd]. intros. lia. Qed.

Section Branches.
  Variables P H : Z.
  Hypothesis HP : 0 < P.
  Hypothesis HH : 0 < H.
  Hypothesis HF : FILL < - H.

  (* normal branch (code since bb1965a6): every corner latitude and both extremes of every edge lie in [lat_lo, lat_hi], every
     corner longitude in the interval, and the bounds are attained *)
  Lemma c13_normal_encloses es :
    Forall (c13_edge_ok H) es ->
    let b := c13_bounds_normal P H es in
    (forall e, In e es ->
       c13_lat_lo b <= c13_lat1 e <= c13_lat_hi b /\ c13_lat_lo b <= c13_emin e /\ c13_emax e <= c13_lat_hi b /\
       c13_lon_in b (c13_norm P (c13_lon1 e)) = true) /\
    (es <> [] ->
     (exists e, In e es /\ (c13_lat_lo b = c13_lat1 e \/ c13_lat_lo b = c13_emax e \/ c13_lat_lo b = c13_emin e)) /\
     (exists e, In e es /\ (c13_lat_hi b = c13_lat1 e \/ c13_lat_hi b = c13_emax e \/ c13_lat_hi b = c13_emin e))).
  Proof.
    intros Hok. cbv zeta. unfold c13_bounds_normal. rewrite c13_normal_as_list.
    assert (HR : Forall c13_regular (flat_map c13_three es)).
    { apply Forall_forall. intros p Hp. apply in_flat_map in Hp. destruct Hp as (e & He & Hp).
      rewrite Forall_forall in Hok. destruct (c13_edge_ok_regular H e HF (Hok e He)) as (R1 & R2 & R3).
      unfold c13_three in Hp. cbn [In] in Hp. destruct Hp as [<-|[<-|[<-|[]]]]; assumption. }
    destruct (c13_ins_list_spec P H HP HH HF _ HR) as [A B]. cbv zeta in A, B.
    split.
    - intros e He.
      assert (I1 : In (c13_lat1 e, c13_lon1 e) (flat_map c13_three es)) by (apply in_flat_map; exists e; split; [exact He|left; reflexivity]).
      assert (I2 : In (c13_emax e, c13_lon1 e) (flat_map c13_three es)) by (apply in_flat_map; exists e; split; [exact He|right; left; reflexivity]).
      assert (I3 : In (c13_emin e, c13_lon1 e) (flat_map c13_three es)) by (apply in_flat_map; exists e; split; [exact He|right; right; left; reflexivity]).
      destruct (A _ I1) as [L1 T1]. destruct (A _ I2) as [_ T2]. destruct (A _ I3) as [_ T3].
      cbn [fst snd] in *. repeat split; try lia; exact L1.
    - intros Hne.
      assert (Hne' : flat_map c13_three es <> []) by (destruct es; [contradiction|discriminate]).
      destruct (B Hne') as [B1 B2].
      assert (Pick : forall v, In v (map fst (flat_map c13_three es)) ->
                     exists e, In e es /\ (v = c13_lat1 e \/ v = c13_emax e \/ v = c13_emin e)).
      { intros v Hv. apply in_map_iff in Hv. destruct Hv as (p & <- & Hp). apply in_flat_map in Hp.
        destruct Hp as (e & He & Hp). exists e. split; [exact He|].
        unfold c13_three in Hp. cbn [In] in Hp. destruct Hp as [<-|[<-|[<-|[]]]]; cbn [fst]; auto. }
      split; apply Pick; assumption.
  Qed.
End Branches.

(* the face that refuted latitude enclosure before the fix bb1965a6: quadrilateral (0,40) (60,40.5) (60,60) (0,60)
   degrees (unit 1e-6 degree; extremes of the four great-circle edges rounded to that unit).  The old branch reported the
   lower bound 40.5; the current code reports 40 and the top of the bulging edge. *)
Definition c13_witness : list c13_edge :=
  [ {| c13_lat1 := 40000000; c13_lon1 := 0;        c13_lat2 := 40500000; c13_emax := 44353182; c13_emin := 40000000; c13_pole_here := false |};
    {| c13_lat1 := 40500000; c13_lon1 := 60000000; c13_lat2 := 60000000; c13_emax := 60000000; c13_emin := 40500000; c13_pole_here := false |};
    {| c13_lat1 := 60000000; c13_lon1 := 60000000; c13_lat2 := 60000000; c13_emax := 63434949; c13_emin := 60000000; c13_pole_here := false |};
    {| c13_lat1 := 60000000; c13_lon1 := 0;        c13_lat2 := 40000000; c13_emax := 60000000; c13_emin := 40000000; c13_pole_here := false |} ].

Example c13_ex_witness_now_enclosed :
  let P := 360000000 in let H := 90000000 in
  c13_witness <> [] /\ Forall (c13_edge_ok H) c13_witness /\
  c13_bounds_normal P H c13_witness =
    {| c13_lat_lo := 40000000; c13_lat_hi := 63434949; c13_lon_lo := 0; c13_lon_hi := 60000000 |}.
Proof.
  cbv zeta. split; [discriminate|]. split; [|vm_compute; reflexivity].
  unfold c13_witness. repeat constructor; unfold FILL; cbn; lia.
Qed.

(* ------------------------------------------------------------------------------------------ *)
(* pole branches                                                                                *)

Section Pole.
  Variables P H : Z.
  Hypothesis HP : 0 < P.
  Hypothesis HH : 0 < H.
  Hypothesis HF : FILL < - H.

  (* inserting the pole point [+-H, FILL] touches one latitude bound only *)
  Lemma c13_insert_pole_point b (north : bool) :
    c13_lat_ok b ->
    let b' := c13_insert P H b (if north then H else - H) FILL in
    c13_lon_lo b' = c13_lon_lo b /\ c13_lon_hi b' = c13_lon_hi b /\
    c13_lat_lo b' <> FILL /\ c13_lat_hi b' <> FILL /\
    (north = true -> c13_lat_hi b' = H /\ (c13_lat_lo b <> FILL -> c13_lat_lo b' = c13_lat_lo b)) /\
    (north = false -> c13_lat_lo b' = - H /\ (c13_lat_hi b <> FILL -> c13_lat_hi b' = c13_lat_hi b)).
  Proof.
    intros Hok. pose proof c13_FILL_neg as HFn. cbv zeta.
    assert (EN : c13_norm P FILL = FILL) by (unfold c13_norm; rewrite Z.eqb_refl; reflexivity).
    unfold c13_insert. rewrite EN. unfold c13_lat_ok in Hok.
    destruct north.
    - assert (E0 : ((H =? FILL) && (FILL =? FILL)) = false) by lia.
      assert (E1 : ((FILL =? FILL) && ((H =? H) || (H =? - H))) = true) by lia.
      assert (E2 : (H =? H) = true) by lia.
      rewrite E0, E1, E2.
      destruct ((c13_lat_lo b =? FILL) && (c13_lat_hi b =? FILL)) eqn:U;
      destruct ((c13_lon_lo b =? FILL) && (c13_lon_hi b =? FILL)) eqn:V;
      cbn [c13_lat_lo c13_lat_hi c13_lon_lo c13_lon_hi]; repeat split; try lia; intros; try lia.
    - assert (E0 : ((- H =? FILL) && (FILL =? FILL)) = false) by lia.
      assert (E1 : ((FILL =? FILL) && ((- H =? H) || (- H =? - H))) = true) by lia.
      assert (E2 : (- H =? H) = false) by lia.
      rewrite E0, E1, E2.
      destruct ((c13_lat_lo b =? FILL) && (c13_lat_hi b =? FILL)) eqn:U;
      destruct ((c13_lon_lo b =? FILL) && (c13_lon_hi b =? FILL)) eqn:V;
      cbn [c13_lat_lo c13_lat_hi c13_lon_lo c13_lon_hi]; repeat split; try lia; intros; try lia.
  Qed.

  Definition c13_pinv (north : bool) (b : c13_box) (seen : list c13_edge) : Prop :=
    c13_lon_ok P b /\ c13_lat_ok b /\
    (seen <> [] -> c13_lon_init b /\ c13_lat_lo b <> FILL /\ c13_lat_hi b <> FILL /\
                   (if north then c13_lat_hi b = H else c13_lat_lo b = - H)) /\
    (forall e, In e seen ->
       c13_lon1 e <> FILL /\ c13_lon_in b (c13_norm P (c13_lon1 e)) = true /\
       (if north then c13_lat_lo b <= c13_lat1 e /\ c13_lat_lo b <= c13_emin e
        else c13_lat1 e <= c13_lat_hi b /\ c13_emax e <= c13_lat_hi b)).

  Lemma c13_pole_step north b c seen e :
    c13_edge_ok H e -> c13_pinv north b seen ->
    c13_pinv north (fst (c13_step_pole P H north (b, c) e)) (seen ++ [e]) /\
    snd (c13_step_pole P H north (b, c) e) = (c && negb (c13_pole_here e)).
  Proof.
    intros Eok (Lok & Tok & Hne & Hall).
    destruct (c13_edge_ok_regular H e HF Eok) as ([R1a R1b] & [R2a R2b] & [R3a R3b]). cbn [fst snd] in *.
    unfold c13_edge_ok in Eok.
    unfold c13_step_pole.
    (* the optional pole point *)
    set (b0 := if c13_pole_here e then c13_insert P H b (if north then H else - H) FILL else b).
    assert (B0 : c13_lon_lo b0 = c13_lon_lo b /\ c13_lon_hi b0 = c13_lon_hi b /\ c13_lat_ok b0 /\
                 (north = true -> c13_lat_lo b <> FILL -> c13_lat_lo b0 = c13_lat_lo b) /\
                 (north = false -> c13_lat_hi b <> FILL -> c13_lat_hi b0 = c13_lat_hi b)).
    { unfold b0. destruct (c13_pole_here e).
      - destruct (c13_insert_pole_point b north Tok) as (A1 & A2 & A3 & A4 & A7 & A8). cbv zeta in *.
        repeat split; auto; try (right; split; assumption); intros Hn Hx.
        + apply (A7 Hn); exact Hx.
        + apply (A8 Hn); exact Hx.
      - repeat split; auto. }
    destruct B0 as (B1 & B2 & B3 & B4 & B5).
    assert (Lok0 : c13_lon_ok P b0) by (unfold c13_lon_ok in *; rewrite B1, B2; exact Lok).
    (* insertion of the node *)
    pose proof (c13_insert_lon P H HP HH HF b0 (c13_lat1 e) (c13_lon1 e) R1b Lok0) as (L1 & L2 & L3). cbv zeta in L1, L2, L3.
    pose proof (c13_insert_lat P H HP HH HF b0 (c13_lat1 e) (c13_lon1 e) R1b R1a) as (T1 & T2 & T3 & T4 & T5). cbv zeta in T1, T2, T3, T4, T5.
    pose proof (c13_insert_lat_ok P H HP HH HF b0 (c13_lat1 e) (c13_lon1 e) R1b R1a B3) as (N1 & N2).
    set (b1 := c13_insert P H b0 (c13_lat1 e) (c13_lon1 e)) in *.
    assert (Lok1 : c13_lon_ok P b1) by (right; exact L1).
    assert (Tok1 : c13_lat_ok b1) by (right; split; assumption).
    set (x := if north then c13_emin e else c13_emax e).
    assert (Rx : x <> FILL) by (unfold x; destruct north; assumption).
    pose proof (c13_insert_lon P H HP HH HF b1 x (c13_lon1 e) R1b Lok1) as (M1 & M2 & M3). cbv zeta in M1, M2, M3.
    pose proof (c13_insert_lat P H HP HH HF b1 x (c13_lon1 e) R1b Rx) as (S1 & S2 & S3 & S4 & S5). cbv zeta in S1, S2, S3, S4, S5.
    pose proof (c13_insert_lat_ok P H HP HH HF b1 x (c13_lon1 e) R1b Rx Tok1) as (Q1 & Q2).
    set (b2 := c13_insert P H b1 x (c13_lon1 e)) in *.
    assert (Init1 : c13_lon_init b1) by (unfold c13_lon_init; lia).
    assert (Res : c13_step_pole P H north (b, c) e =
                  (if north then c13_set_lat_hi b2 H else c13_set_lat_lo b2 (- H), c && negb (c13_pole_here e))).
    { unfold c13_step_pole, b2, b1, b0, x. destruct (c13_pole_here e), north, c; reflexivity. }
    unfold c13_step_pole in Res. rewrite Res. cbn [fst snd]. split; [|reflexivity].
    assert (Xn : north = true -> x = c13_emin e) by (intros ->; reflexivity).
    assert (Xs : north = false -> x = c13_emax e) by (intros ->; reflexivity).
    clear Res. clearbody b2. clearbody b1. clearbody x. clearbody b0.
    assert (Lon_e : c13_lon_in b2 (c13_norm P (c13_lon1 e)) = true) by exact M2.
    assert (Lon_old : forall q, In q seen -> c13_lon_in b2 (c13_norm P (c13_lon1 q)) = true).
    { intros q Hq. destruct (Hall q Hq) as [Rq [A _]].
      assert (Hs : seen <> []) by (intros E; rewrite E in Hq; destruct Hq).
      destruct (Hne Hs) as (I0 & _).
      assert (A0 : c13_lon_in b0 (c13_norm P (c13_lon1 q)) = true) by (unfold c13_lon_in in *; rewrite B1, B2; exact A).
      assert (I00 : c13_lon_init b0) by (unfold c13_lon_init in *; rewrite B1, B2; exact I0).
      pose proof (c13_norm_range P (c13_lon1 q) HP Rq) as Hr.
      apply M3; auto. }
    pose proof c13_FILL_neg as HFn.
    assert (HnF : H <> FILL /\ - H <> FILL) by (clear - HF HH HFn; lia).
    destruct north.
    - (* north: upper bound forced to H *)
      specialize (Xn eq_refl).
      unfold c13_pinv, c13_set_lat_hi, c13_lon_ok, c13_lat_ok, c13_lon_init.
      cbn [c13_lat_lo c13_lat_hi c13_lon_lo c13_lon_hi].
      split; [right; exact M1|]. split; [right; split; [exact Q1|tauto]|].
      split; [intros _; split; [clear - M1; lia|]; split; [exact Q1|]; split; [tauto|reflexivity]|].
      intros q Hq. apply in_app_or in Hq. destruct Hq as [Hq|[<-|[]]].
      + destruct (Hall q Hq) as [Rq [_ [A1 A2]]].
        split; [exact Rq|]. split; [unfold c13_lon_in; cbn [c13_lon_lo c13_lon_hi]; apply Lon_old; exact Hq|].
        assert (Hs : seen <> []) by (intros E; rewrite E in Hq; destruct Hq).
        destruct (Hne Hs) as (_ & I1 & I2 & _).
        specialize (B4 eq_refl I1).
        assert (X0 : c13_lat_lo b0 <> FILL) by (rewrite B4; exact I1).
        specialize (T2 X0). specialize (S2 N1).
        clear - A1 A2 B4 T2 S2. lia.
      + split; [exact R1b|]. split; [unfold c13_lon_in; cbn [c13_lon_lo c13_lon_hi]; exact Lon_e|].
        specialize (S2 N1). clear - S1 S2 T1 Xn Eok. lia.
    - specialize (Xs eq_refl).
      unfold c13_pinv, c13_set_lat_lo, c13_lon_ok, c13_lat_ok, c13_lon_init.
      cbn [c13_lat_lo c13_lat_hi c13_lon_lo c13_lon_hi].
      split; [right; exact M1|]. split; [right; split; [tauto|exact Q2]|].
      split; [intros _; split; [clear - M1; lia|]; split; [tauto|]; split; [exact Q2|reflexivity]|].
      intros q Hq. apply in_app_or in Hq. destruct Hq as [Hq|[<-|[]]].
      + destruct (Hall q Hq) as [Rq [_ [A1 A2]]].
        split; [exact Rq|]. split; [unfold c13_lon_in; cbn [c13_lon_lo c13_lon_hi]; apply Lon_old; exact Hq|].
        assert (Hs : seen <> []) by (intros E; rewrite E in Hq; destruct Hq).
        destruct (Hne Hs) as (_ & I1 & I2 & _).
        specialize (B5 eq_refl I2).
        assert (X0 : c13_lat_hi b0 <> FILL) by (rewrite B5; exact I2).
        specialize (T3 X0). specialize (S3 N2).
        clear - A1 A2 B5 T3 S3. lia.
      + split; [exact R1b|]. split; [unfold c13_lon_in; cbn [c13_lon_lo c13_lon_hi]; exact Lon_e|].
        specialize (S3 N2). clear - S1 S3 T1 Xs Eok. lia.
  Qed.

  Lemma c13_pinv_empty north : c13_pinv north c13_empty [].
  Proof.
    unfold c13_pinv, c13_lon_ok, c13_lat_ok, c13_empty. cbn [c13_lon_lo c13_lon_hi c13_lat_lo c13_lat_hi].
    split; [left; split; reflexivity|]. split; [left; split; reflexivity|].
    split; [intros E; contradiction|]. intros e [].
  Qed.

  Lemma c13_pole_fold north es : forall b c seen,
    Forall (c13_edge_ok H) es -> c13_pinv north b seen ->
    c13_pinv north (fst (fold_left (c13_step_pole P H north) es (b, c))) (seen ++ es) /\
    snd (fold_left (c13_step_pole P H north) es (b, c)) = (c && forallb (fun e => negb (c13_pole_here e)) es).
  Proof.
    induction es as [|e es IH]; intros b c seen Hok Hinv.
    - cbn [fold_left fst snd forallb]. rewrite app_nil_r, andb_true_r. split; [exact Hinv|reflexivity].
    - inversion Hok as [|? ? He Hrest]; subst.
      cbn [fold_left forallb].
      destruct (c13_pole_step north b c seen e He Hinv) as [I1 I2].
      destruct (c13_step_pole P H north (b, c) e) as [b1 c1] eqn:E. cbn [fst snd] in I1, I2.
      destruct (IH b1 c1 (seen ++ [e]) Hrest I1) as [J1 J2].
      rewrite <- app_assoc in J1. cbn [app] in J1. split; [exact J1|].
      rewrite J2, I2, andb_assoc. reflexivity.
  Qed.

  (* pole branch: the enclosed pole's latitude is reported; every corner latitude and the far extreme of every edge
     are enclosed; when the pole point is on no edge (pole strictly inside) the full longitude circle [0, P] is
     reported, otherwise every corner longitude is inside the reported interval *)
  Lemma c13_pole_spec north es :
    es <> [] -> Forall (c13_edge_ok H) es ->
    let b := c13_bounds_pole P H north es in
    (if north then c13_lat_hi b = H else c13_lat_lo b = - H) /\
    (forall e, In e es ->
       if north then c13_lat_lo b <= c13_lat1 e /\ c13_lat_lo b <= c13_emin e
       else c13_lat1 e <= c13_lat_hi b /\ c13_emax e <= c13_lat_hi b) /\
    (forallb (fun e => negb (c13_pole_here e)) es = true -> c13_lon_lo b = 0 /\ c13_lon_hi b = P) /\
    (forallb (fun e => negb (c13_pole_here e)) es = false ->
       forall e, In e es -> c13_lon_in b (c13_norm P (c13_lon1 e)) = true).
  Proof.
    intros Hne Hok. cbv zeta. unfold c13_bounds_pole.
    destruct (c13_pole_fold north es c13_empty true [] Hok (c13_pinv_empty north)) as [J1 J2].
    destruct (fold_left (c13_step_pole P H north) es (c13_empty, true)) as [b c] eqn:E.
    cbn [fst snd app] in J1, J2. cbn [andb] in J2.
    destruct J1 as (Lok & Tok & Hn & Hall). destruct (Hn Hne) as (I0 & I1 & I2 & I3).
    rewrite J2.
    destruct (forallb (fun e => negb (c13_pole_here e)) es) eqn:F.
    - unfold c13_set_lon. cbn [c13_lat_lo c13_lat_hi c13_lon_lo c13_lon_hi].
      split; [exact I3|]. split; [intros e He; destruct (Hall e He) as (_ & _ & X); exact X|].
      split; [intros _; split; reflexivity|]. intros X; discriminate.
    - split; [exact I3|]. split; [intros e He; destruct (Hall e He) as (_ & _ & X); exact X|].
      split; [intros X; discriminate|]. intros _ e He. destruct (Hall e He) as (_ & X & _). exact X.
  Qed.
End Pole.


(* ------------------------------------------------------------------------------------------ *)
(* non-vacuity                                                                                   *)

(* polar cap with corners at latitude 80 and longitudes 5, 95, 185, 275 degrees (unit 1e-6 degree); the great-circle
   edges dip to 75.99 degrees... the extreme values only have to satisfy c13_edge_ok here *)
Definition c13_cap : list c13_edge :=
  map (fun lon => {| c13_lat1 := 80000000; c13_lon1 := lon; c13_lat2 := 80000000; c13_emax := 82873960; c13_emin := 80000000; c13_pole_here := false |})
      [5000000; 95000000; 185000000; 275000000].

Example c13_ex_pole :
  let P := 360000000 in let H := 90000000 in
  c13_cap <> [] /\ Forall (c13_edge_ok H) c13_cap /\
  forallb (fun e => negb (c13_pole_here e)) c13_cap = true /\
  c13_face_bounds P H true false c13_cap =
    {| c13_lat_lo := 80000000; c13_lat_hi := 90000000; c13_lon_lo := 0; c13_lon_hi := 360000000 |}.
Proof.
  cbv zeta. split; [discriminate|]. split; [|split; vm_compute; reflexivity].
  unfold c13_cap. cbn [map]. repeat constructor; unfold FILL; cbn; lia.
Qed.

Example c13_ex_insert_wrap :
  (* the box [350, 10] degrees (wrapping through 0) grows to [340, 10] when 340 is inserted, not to [350, 340] *)
  let b := {| c13_lat_lo := 0; c13_lat_hi := 10; c13_lon_lo := 350; c13_lon_hi := 10 |} in
  c13_lon_ok 360 b /\ c13_insert 360 90 b 5 340 = {| c13_lat_lo := 0; c13_lat_hi := 10; c13_lon_lo := 340; c13_lon_hi := 10 |}.
Proof. cbv zeta. split; [right; cbn; lia | vm_compute; reflexivity]. Qed.

(* ------------------------------------------------------------------------------------------ *)
(* pole containment: the model of _pole_point_inside_polygon against the exact predicate           *)

(* a face entirely on one hemisphere is never reported to contain the opposite pole *)
Lemma c13_pole_opposite_hemisphere edges :
  (c13_location edges = c13_North -> c13_pole_inside false edges = Some false) /\
  (c13_location edges = c13_South -> c13_pole_inside true edges = Some false).
Proof. unfold c13_pole_inside. split; intros ->; reflexivity. Qed.

Definition c13_w_cap_general := c13_cycle [(1,1,5); (-1,1,5); (-1,-1,5); (1,-1,5)].
Definition c13_w_cap_lon0 := c13_cycle [(1,0,5); (0,1,5); (-1,0,5); (0,-1,5)].
Definition c13_w_edge_ref := c13_cycle [(9,-2,0); (9,2,0); (10,0,4)].
Definition c13_w_south_tri := c13_cycle [(32,7,-95); (-76,-65,-4); (-74,61,28)].
Definition c13_w_plain := c13_cycle [(10,2,3); (10,5,3); (10,3,6)].

(* in general position the detection is right (instances; the general statement is validated by the harness on every
   generated face, not proved) *)
Example c13_ex_pole_detection_right :
  c13_location c13_w_cap_general = c13_North /\
  c13_pole_in_face c13_NPOLE c13_w_cap_general = true /\ c13_pole_inside true c13_w_cap_general = Some true /\
  c13_pole_inside false c13_w_cap_general = Some false /\
  c13_pole_in_face c13_NPOLE c13_w_plain = false /\ c13_pole_inside true c13_w_plain = Some false /\
  c13_pole_inside false c13_w_plain = Some false.
Proof. repeat split; vm_compute; reflexivity. Qed.

(* known finding C13-vertex-on-ref-meridian: cap with corners at lat 78.7, lon 0/90/180/270 *)
Lemma c13_pole_detection_vertex_on_meridian_refuted :
  exists edges, c13_pole_in_face c13_NPOLE edges = true /\ c13_pole_inside true edges = Some false.
Proof. exists c13_w_cap_lon0. split; vm_compute; reflexivity. Qed.

(* known finding C13-edge-through-reference-point: triangle (lon -12.5,0) (lon 12.5,0) (lon 0, lat 21.8) *)
Lemma c13_pole_detection_edge_through_ref_refuted :
  exists edges, c13_pole_in_face c13_NPOLE edges = false /\ c13_pole_in_face c13_SPOLE edges = false /\
                c13_pole_inside true edges = Some true /\ c13_pole_inside false edges = Some true.
Proof. exists c13_w_edge_ref. repeat split; vm_compute; reflexivity. Qed.

(* known finding C13-equator-face-south-pole: the triangle encloses the south pole only, both flags are raised and
   _populate_face_latlon_bound takes the north pole *)
Lemma c13_pole_detection_equator_south_refuted :
  exists edges, c13_location edges = c13_Equator /\
                c13_pole_in_face c13_SPOLE edges = true /\ c13_pole_in_face c13_NPOLE edges = false /\
                c13_pole_inside true edges = Some true /\ c13_pole_inside false edges = Some true.
Proof. exists c13_w_south_tri. repeat split; vm_compute; reflexivity. Qed.

(* known finding C13-pole-corner-longitude: face (lon 10, lat 70) (lon 60, lat 70) north pole (nominal lon 0), unit 1e-6
   degree: the reported interval starts at the pole's nominal longitude 0 although every other corner is in [10, 60] *)
Definition c13_w_pole_corner : list c13_edge :=
  [ {| c13_lat1 := 70000000; c13_lon1 := 10000000; c13_lat2 := 70000000; c13_emax := 72480000; c13_emin := 70000000; c13_pole_here := false |};
    {| c13_lat1 := 70000000; c13_lon1 := 60000000; c13_lat2 := 90000000; c13_emax := 90000000; c13_emin := 70000000; c13_pole_here := true |};
    {| c13_lat1 := 90000000; c13_lon1 := 0;        c13_lat2 := 70000000; c13_emax := 90000000; c13_emin := 70000000; c13_pole_here := true |} ].

Lemma c13_pole_corner_longitude_refuted :
  let P := 360000000 in let H := 90000000 in
  Forall (c13_edge_ok H) c13_w_pole_corner /\
  (forall e, In e c13_w_pole_corner -> c13_lat1 e <> H -> 10000000 <= c13_lon1 e <= 60000000) /\
  c13_lon_lo (c13_face_bounds P H true false c13_w_pole_corner) = 0 /\
  c13_lon_hi (c13_face_bounds P H true false c13_w_pole_corner) = 60000000.
Proof.
  cbv zeta. split; [|split; [|split; vm_compute; reflexivity]].
  - unfold c13_w_pole_corner. repeat constructor; unfold FILL; cbn; lia.
  - intros e [<-|[<-|[<-|[]]]]; cbn; lia.
Qed.

(* ------------------------------------------------------------------------------------------ *)
(* bounds assembly: latitude bounds are the extreme edge extremes; independence of start corner / direction *)

Section LatMinMax.
  Variables P H : Z.
  Hypothesis HP : 0 < P.
  Hypothesis HH : 0 < H.
  Hypothesis HF : FILL < - H.

  (* bounds assembly, latitude: the lower bound IS the least edge minimum and the upper bound the greatest edge maximum
     (tight at an edge apex when that apex is the extreme) *)
  Lemma c13_normal_lat_min_max es :
    es <> [] -> Forall (c13_edge_ok H) es ->
    let b := c13_bounds_normal P H es in
    (exists e, In e es /\ c13_lat_lo b = c13_emin e) /\ (forall e, In e es -> c13_lat_lo b <= c13_emin e) /\
    (exists e, In e es /\ c13_lat_hi b = c13_emax e) /\ (forall e, In e es -> c13_emax e <= c13_lat_hi b).
  Proof.
    intros Hne Hok. cbv zeta.
    destruct (c13_normal_encloses P H HP HH HF es Hok) as [A B]. cbv zeta in A, B.
    destruct (B Hne) as [(e1 & I1 & E1) (e2 & I2 & E2)].
    rewrite Forall_forall in Hok.
    split; [|split; [|split]].
    - exists e1. split; [exact I1|].
      destruct (A e1 I1) as (X1 & X2 & X3 & _). pose proof (Hok e1 I1) as K. unfold c13_edge_ok in K. lia.
    - intros e He. destruct (A e He) as (_ & X & _). exact X.
    - exists e2. split; [exact I2|].
      destruct (A e2 I2) as (X1 & X2 & X3 & _). pose proof (Hok e2 I2) as K. unfold c13_edge_ok in K. lia.
    - intros e He. destruct (A e He) as (_ & _ & X & _). exact X.
  Qed.

  (* hence the latitude bounds do not depend on the start corner or the traversal direction: two edge lists with the
     same sets of edge minima and maxima give the same latitude bounds *)
  Lemma c13_normal_lat_invariant es es' :
    es <> [] -> es' <> [] -> Forall (c13_edge_ok H) es -> Forall (c13_edge_ok H) es' ->
    (forall v, (exists e, In e es /\ c13_emin e = v) <-> (exists e, In e es' /\ c13_emin e = v)) ->
    (forall v, (exists e, In e es /\ c13_emax e = v) <-> (exists e, In e es' /\ c13_emax e = v)) ->
    c13_lat_lo (c13_bounds_normal P H es) = c13_lat_lo (c13_bounds_normal P H es') /\
    c13_lat_hi (c13_bounds_normal P H es) = c13_lat_hi (c13_bounds_normal P H es').
  Proof.
    intros N1 N2 O1 O2 Smin Smax.
    destruct (c13_normal_lat_min_max es N1 O1) as ((a & Ia & Ea) & La & (c & Ic & Ec) & Lc).
    destruct (c13_normal_lat_min_max es' N2 O2) as ((a' & Ia' & Ea') & La' & (c' & Ic' & Ec') & Lc').
    cbv zeta in *.
    split.
    - destruct (proj1 (Smin (c13_emin a)) (ex_intro _ a (conj Ia eq_refl))) as (x & Ix & Ex).
      destruct (proj2 (Smin (c13_emin a')) (ex_intro _ a' (conj Ia' eq_refl))) as (y & Iy & Ey).
      pose proof (La' x Ix). pose proof (La y Iy). lia.
    - destruct (proj1 (Smax (c13_emax c)) (ex_intro _ c (conj Ic eq_refl))) as (x & Ix & Ex).
      destruct (proj2 (Smax (c13_emax c')) (ex_intro _ c' (conj Ic' eq_refl))) as (y & Iy & Ey).
      pose proof (Lc' x Ix). pose proof (Lc y Iy). lia.
  Qed.
End LatMinMax.

(* non-vacuity: the witness face traversed from another corner and in the other direction *)
Definition c13_witness_rev : list c13_edge :=
  [ {| c13_lat1 := 60000000; c13_lon1 := 60000000; c13_lat2 := 40500000; c13_emax := 60000000; c13_emin := 40500000; c13_pole_here := false |};
    {| c13_lat1 := 40500000; c13_lon1 := 60000000; c13_lat2 := 40000000; c13_emax := 44353182; c13_emin := 40000000; c13_pole_here := false |};
    {| c13_lat1 := 40000000; c13_lon1 := 0;        c13_lat2 := 60000000; c13_emax := 60000000; c13_emin := 40000000; c13_pole_here := false |};
    {| c13_lat1 := 60000000; c13_lon1 := 0;        c13_lat2 := 60000000; c13_emax := 63434949; c13_emin := 60000000; c13_pole_here := false |} ].

Example c13_ex_lat_invariant :
  let P := 360000000 in let H := 90000000 in
  c13_witness_rev <> [] /\ Forall (c13_edge_ok H) c13_witness_rev /\
  c13_lat_lo (c13_bounds_normal P H c13_witness_rev) = c13_lat_lo (c13_bounds_normal P H c13_witness) /\
  c13_lat_hi (c13_bounds_normal P H c13_witness_rev) = 63434949 /\
  c13_lon_lo (c13_bounds_normal P H c13_witness_rev) = 0 /\ c13_lon_hi (c13_bounds_normal P H c13_witness_rev) = 60000000.
Proof.
  cbv zeta. split; [discriminate|]. split; [|repeat split; vm_compute; reflexivity].
  unfold c13_witness_rev. repeat constructor; unfold FILL; cbn; lia.
Qed.
