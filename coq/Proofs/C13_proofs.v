(* Proofs about Model/C13.v: the periodic longitude box only grows and contains every inserted
   longitude; latitude bounds enclose / are attained; pole branches; the faithful normal branch loses
   a corner latitude (refuted by a concrete face), the repaired one does not.  For every edge list. *)
From Coq Require Import ZArith Lia ZifyBool List Bool.
From Verif Require Import Base C13.
Local Open Scope Z_scope.

Ltac c13_ifs := repeat match goal with
  | |- context [if ?c then _ else _] => destruct c eqn:?
  end.
Ltac c13_ifs_in H := repeat match type of H with
  | context [if ?c then _ else _] => destruct c eqn:?
  end.

Lemma c13_FILL_neg : FILL < 0.
Proof. unfold FILL. lia. Qed.

(* the longitude part of a box is uninitialised or holds two normalised longitudes *)
Definition c13_lon_ok (P : Z) (b : c13_box) : Prop :=
  (c13_lon_lo b = FILL /\ c13_lon_hi b = FILL) \/
  (0 <= c13_lon_lo b < P /\ 0 <= c13_lon_hi b < P).

Definition c13_lon_init (b : c13_box) : Prop := 0 <= c13_lon_lo b /\ 0 <= c13_lon_hi b.

Definition c13_lat_init (b : c13_box) : Prop := c13_lat_lo b <> FILL \/ c13_lat_hi b <> FILL.

Lemma c13_norm_small P x : 0 <= x < P -> c13_norm P x = x.
Proof.
  intros H. unfold c13_norm. pose proof c13_FILL_neg.
  destruct (Z.eqb_spec x FILL); [lia|]. apply Z.mod_small; assumption.
Qed.

Lemma c13_norm_range P x : 0 < P -> x <> FILL -> 0 <= c13_norm P x < P.
Proof.
  intros HP Hx. unfold c13_norm. destruct (Z.eqb_spec x FILL); [contradiction|].
  apply Z.mod_pos_bound; assumption.
Qed.

Lemma c13_width_small P lo hi : 0 <= lo < P -> 0 <= hi < P ->
  c13_width P lo hi = if lo <=? hi then hi - lo else P - lo + hi.
Proof. intros H1 H2. unfold c13_width. rewrite !c13_norm_small by assumption. reflexivity. Qed.

(* ------------------------------------------------------------------------------------------ *)
(* one insertion of a regular point (lon <> FILL)                                               *)

Section Insert.
  Variables P H : Z.
  Hypothesis HP : 0 < P.
  Hypothesis HH : 0 < H.
  Hypothesis HF : FILL < - H.

  Lemma c13_insert_lon b lat lon :
    lon <> FILL -> c13_lon_ok P b ->
    let b' := c13_insert P H b lat lon in
    (0 <= c13_lon_lo b' < P /\ 0 <= c13_lon_hi b' < P) /\
    c13_lon_in b' (c13_norm P lon) = true /\
    (forall x, 0 <= x < P -> c13_lon_init b -> c13_lon_in b x = true -> c13_lon_in b' x = true).
  Proof.
    intros Hl Hok. pose proof c13_FILL_neg as HFn.
    pose proof (c13_norm_range P lon HP Hl) as Hr.
    cbv zeta. unfold c13_insert.
    set (lp := c13_norm P lon) in *. clearbody lp.
    assert (E1 : ((lat =? FILL) && (lon =? FILL)) = false) by lia. rewrite E1.
    assert (E2 : ((lp =? FILL) && ((lat =? H) || (lat =? - H))) = false) by lia. rewrite E2.
    unfold c13_lon_ok in Hok. unfold c13_lon_init, c13_lon_in.
    destruct Hok as [[Ea Eb]|[Ha Hb]].
    - (* uninitialised: becomes [lp, lp] *)
      rewrite Ea, Eb. rewrite !Z.eqb_refl. cbn [andb].
      assert (C : ((lp <? lp) && ((lp <? lp) && (lp <? lp)) || (lp <=? lp) && negb ((lp <=? lp) && (lp <=? lp))) = false) by lia.
      rewrite C. cbn [c13_lon_lo c13_lon_hi].
      split; [lia|]. split; [c13_ifs; lia|]. intros x Hx [I1 I2]. lia.
    - assert (U : ((c13_lon_lo b =? FILL) && (c13_lon_hi b =? FILL)) = false) by lia.
      rewrite U.
      set (lo := c13_lon_lo b) in *. set (hi := c13_lon_hi b) in *.
      rewrite !c13_width_small by lia.
      destruct ((hi <? lo) && ((lp <? lo) && (hi <? lp)) || (lo <=? hi) && negb ((lo <=? lp) && (lp <=? hi))) eqn:C.
      + destruct ((if lp <=? hi then hi - lp else P - lp + hi) <? (if lo <=? lp then lp - lo else P - lo + lp)) eqn:W;
          cbn [c13_lon_lo c13_lon_hi]; (split; [lia|]); (split; [c13_ifs; lia|]); intros x Hx _ Hin; c13_ifs_in Hin; c13_ifs; lia.
      + cbn [c13_lon_lo c13_lon_hi]. fold lo hi. split; [lia|]. split; [c13_ifs; lia|]. intros x Hx _ Hin. exact Hin.
  Qed.

  (* latitude part: the new latitude is inside, the old interval is kept, and each new bound is an old bound
     or the inserted latitude *)
  Lemma c13_insert_lat b lat lon :
    lon <> FILL -> lat <> FILL ->
    let b' := c13_insert P H b lat lon in
    c13_lat_lo b' <= lat <= c13_lat_hi b' /\
    (c13_lat_lo b <> FILL -> c13_lat_lo b' <= c13_lat_lo b) /\
    (c13_lat_hi b <> FILL -> c13_lat_hi b <= c13_lat_hi b') /\
    (c13_lat_lo b' = lat \/ c13_lat_lo b' = c13_lat_lo b) /\
    (c13_lat_hi b' = lat \/ c13_lat_hi b' = c13_lat_hi b).
  Proof.
    intros Hl Hlat. pose proof c13_FILL_neg as HFn.
    pose proof (c13_norm_range P lon HP Hl) as Hr.
    cbv zeta. unfold c13_insert.
    set (lp := c13_norm P lon) in *. clearbody lp.
    assert (E1 : ((lat =? FILL) && (lon =? FILL)) = false) by lia. rewrite E1.
    assert (E2 : ((lp =? FILL) && ((lat =? H) || (lat =? - H))) = false) by lia. rewrite E2.
    destruct ((c13_lat_lo b =? FILL) && (c13_lat_hi b =? FILL)) eqn:U;
    repeat match goal with |- context [if ?c then _ else _] => destruct c end;
    cbn [c13_lat_lo c13_lat_hi]; lia.
  Qed.
End Insert.

(* ------------------------------------------------------------------------------------------ *)
(* a sequence of insertions of regular points                                                   *)

Definition c13_ins_list (P H : Z) (b : c13_box) (pts : list (Z * Z)) : c13_box :=
  fold_left (fun b p => c13_insert P H b (fst p) (snd p)) pts b.

Definition c13_lat_ok (b : c13_box) : Prop :=
  (c13_lat_lo b = FILL /\ c13_lat_hi b = FILL) \/ (c13_lat_lo b <> FILL /\ c13_lat_hi b <> FILL).

Definition c13_regular (p : Z * Z) : Prop := fst p <> FILL /\ snd p <> FILL.

Section InsList.
  Variables P H : Z.
  Hypothesis HP : 0 < P.
  Hypothesis HH : 0 < H.
  Hypothesis HF : FILL < - H.

  Lemma c13_insert_lat_ok b lat lon :
    lon <> FILL -> lat <> FILL -> c13_lat_ok b ->
    c13_lat_lo (c13_insert P H b lat lon) <> FILL /\ c13_lat_hi (c13_insert P H b lat lon) <> FILL.
  Proof.
    intros Hl Hlat Hok. pose proof c13_FILL_neg as HFn.
    destruct Hok as [[A B]|[A B]].
    - pose proof (c13_norm_range P lon HP Hl) as Hr.
      unfold c13_insert.
      set (lp := c13_norm P lon) in *. clearbody lp.
      assert (E1 : ((lat =? FILL) && (lon =? FILL)) = false) by lia. rewrite E1.
      assert (E2 : ((lp =? FILL) && ((lat =? H) || (lat =? - H))) = false) by lia. rewrite E2.
      assert (U : ((c13_lat_lo b =? FILL) && (c13_lat_hi b =? FILL)) = true) by lia. rewrite U.
      c13_ifs; cbn [c13_lat_lo c13_lat_hi]; clear - Hlat; lia.
    - pose proof (c13_insert_lat P H HP HH HF b lat lon Hl Hlat) as (T1 & T2 & T3 & T4 & T5). cbv zeta in *.
      split; [destruct T4 as [E|E]; rewrite E; assumption | destruct T5 as [E|E]; rewrite E; assumption].
  Qed.

  Definition c13_inv (b : c13_box) (seen : list (Z * Z)) : Prop :=
    c13_lon_ok P b /\ c13_lat_ok b /\
    (seen <> [] -> c13_lon_init b /\ c13_lat_lo b <> FILL /\ c13_lat_hi b <> FILL /\
                   In (c13_lat_lo b) (map fst seen) /\ In (c13_lat_hi b) (map fst seen)) /\
    (forall p, In p seen -> c13_regular p /\ c13_lon_in b (c13_norm P (snd p)) = true /\ c13_lat_lo b <= fst p <= c13_lat_hi b).

  Lemma c13_inv_step b seen p :
    c13_regular p -> (seen = [] -> b = c13_empty) -> c13_inv b seen ->
    c13_inv (c13_insert P H b (fst p) (snd p)) (seen ++ [p]).
  Proof.
    intros [Rl Rn] Hemp (Lok & Tok & Hne & Hall).
    pose proof (c13_insert_lon P H HP HH HF b (fst p) (snd p) Rn Lok) as (L1 & L2 & L3). cbv zeta in L1, L2, L3.
    pose proof (c13_insert_lat P H HP HH HF b (fst p) (snd p) Rn Rl) as (T1 & T2 & T3 & T4 & T5). cbv zeta in T1, T2, T3, T4, T5.
    pose proof (c13_insert_lat_ok b (fst p) (snd p) Rn Rl Tok) as (N1 & N2).
    set (b' := c13_insert P H b (fst p) (snd p)) in *.
    split; [right; exact L1|].
    split; [right; split; assumption|].
    split.
    - intros _. split; [unfold c13_lon_init; lia|]. split; [exact N1|]. split; [exact N2|].
      rewrite map_app. cbn [map].
      destruct seen as [|q seen'].
      + (* first point *)
        pose proof (Hemp eq_refl) as Eb. subst b. cbn [app].
        assert (c13_lat_lo b' = fst p /\ c13_lat_hi b' = fst p) as [-> ->].
        { unfold b', c13_insert, c13_empty. cbn [c13_lat_lo c13_lat_hi c13_lon_lo c13_lon_hi].
          pose proof c13_FILL_neg. pose proof (c13_norm_range P (snd p) HP Rn).
          rewrite !Z.eqb_refl. cbn [andb].
          assert (E1 : ((fst p =? FILL) && (snd p =? FILL)) = false) by lia. rewrite E1.
          assert (E2 : ((c13_norm P (snd p) =? FILL) && ((fst p =? H) || (fst p =? - H))) = false) by lia. rewrite E2.
          c13_ifs; cbn [c13_lat_lo c13_lat_hi]; lia. }
        cbn [map]. split; left; reflexivity.
      + destruct (Hne ltac:(discriminate)) as (I0 & I1 & I2 & I3 & I4).
        split; apply in_or_app.
        * destruct T4 as [E|E]; [right; left; symmetry; exact E | left; rewrite E; exact I3].
        * destruct T5 as [E|E]; [right; left; symmetry; exact E | left; rewrite E; exact I4].
    - intros q Hq. apply in_app_or in Hq. destruct Hq as [Hq|[<-|[]]].
      + destruct (Hall q Hq) as [[Rq1 Rq2] [A B]].
        assert (Hs : seen <> []) by (intros E; rewrite E in Hq; destruct Hq).
        destruct (Hne Hs) as (I0 & I1 & I2 & _).
        split; [split; assumption|]. split.
        * apply L3; auto.
          destruct Lok as [[E1 E2]|[R1 R2]]; [unfold c13_lon_init in I0; pose proof c13_FILL_neg; lia|].
          apply c13_norm_range; assumption.
        * specialize (T2 I1). specialize (T3 I2). lia.
      + split; [split; assumption|]. split; [exact L2 | exact T1].
  Qed.

  Lemma c13_ins_list_inv pts : forall b seen,
    Forall c13_regular pts -> (seen = [] -> b = c13_empty) -> c13_inv b seen ->
    c13_inv (c13_ins_list P H b pts) (seen ++ pts).
  Proof.
    induction pts as [|p pts IH]; intros b seen HR Hemp Hinv.
    - rewrite app_nil_r. exact Hinv.
    - inversion HR as [|? ? Rp Rrest]; subst.
      cbn [c13_ins_list fold_left].
      replace (seen ++ p :: pts) with ((seen ++ [p]) ++ pts) by (rewrite <- app_assoc; reflexivity).
      apply IH; auto.
      + intros E. destruct seen; discriminate.
      + apply c13_inv_step; auto.
  Qed.

  Lemma c13_inv_empty : c13_inv c13_empty [].
  Proof.
    unfold c13_inv, c13_lon_ok, c13_lat_ok, c13_empty. cbn [c13_lon_lo c13_lon_hi c13_lat_lo c13_lat_hi].
    split; [left; split; reflexivity|]. split; [left; split; reflexivity|].
    split; [intros E; contradiction|]. intros p [].
  Qed.

  (* every inserted point is enclosed; both latitude bounds are attained by inserted points *)
  Lemma c13_ins_list_spec pts :
    Forall c13_regular pts ->
    let b := c13_ins_list P H c13_empty pts in
    (forall p, In p pts -> c13_lon_in b (c13_norm P (snd p)) = true /\ c13_lat_lo b <= fst p <= c13_lat_hi b) /\
    (pts <> [] -> In (c13_lat_lo b) (map fst pts) /\ In (c13_lat_hi b) (map fst pts)).
  Proof.
    intros HR. pose proof (c13_ins_list_inv pts c13_empty [] HR (fun _ => eq_refl) c13_inv_empty) as (A & B & C & D).
    cbn [app] in *. cbv zeta. split; [intros p Hp; destruct (D p Hp) as [_ X]; exact X|]. intros Hne. destruct (C Hne) as (_ & _ & _ & I3 & I4). split; assumption.
  Qed.
End InsList.

(* ------------------------------------------------------------------------------------------ *)
(* the normal branch and its repair as insertion sequences                                       *)

Definition c13_pick_normal (e : c13_edge) : Z * Z :=
  if negb (c13_c1max e) && negb (c13_c2max e) then (c13_emax e, c13_lon1 e)
  else if negb (c13_c1min e) && negb (c13_c2min e) then (c13_emin e, c13_lon1 e)
  else (c13_lat1 e, c13_lon1 e).

Definition c13_three (e : c13_edge) : list (Z * Z) :=
  [(c13_lat1 e, c13_lon1 e); (c13_emax e, c13_lon1 e); (c13_emin e, c13_lon1 e)].

Lemma c13_normal_as_list P H es : forall b,
  fold_left (c13_step_normal P H) es b = c13_ins_list P H b (map c13_pick_normal es).
Proof.
  induction es as [|e es IH]; intros b; [reflexivity|].
  cbn [fold_left map c13_ins_list]. rewrite IH. unfold c13_ins_list. f_equal.
  unfold c13_step_normal, c13_pick_normal.
  destruct (negb (c13_c1max e) && negb (c13_c2max e)); [reflexivity|].
  destruct (negb (c13_c1min e) && negb (c13_c2min e)); reflexivity.
Qed.

Lemma c13_repaired_as_list P H es : forall b,
  fold_left (c13_step_repaired P H) es b = c13_ins_list P H b (flat_map c13_three es).
Proof.
  induction es as [|e es IH]; intros b; [reflexivity|].
  cbn [fold_left flat_map]. rewrite IH. unfold c13_ins_list. rewrite fold_left_app. reflexivity.
Qed.

Lemma c13_edge_ok_regular H e : FILL < - H -> c13_edge_ok H e ->
  c13_regular (c13_lat1 e, c13_lon1 e) /\ c13_regular (c13_emax e, c13_lon1 e) /\ c13_regular (c13_emin e, c13_lon1 e).
Proof. unfold c13_edge_ok, c13_regular. cbn [fst snd]. intros. lia. Qed.

Section Branches.
  Variables P H : Z.
  Hypothesis HP : 0 < P.
  Hypothesis HH : 0 < H.
  Hypothesis HF : FILL < - H.

  (* faithful normal branch: every corner longitude is inside the reported interval (the longitude logic is
     sound), and both latitude bounds are attained by a corner latitude or an edge extreme *)
  Lemma c13_normal_lon_and_tight es :
    Forall (c13_edge_ok H) es ->
    let b := c13_bounds_normal P H es in
    (forall e, In e es -> c13_lon_in b (c13_norm P (c13_lon1 e)) = true) /\
    (es <> [] ->
     (exists e, In e es /\ (c13_lat_lo b = c13_lat1 e \/ c13_lat_lo b = c13_emax e \/ c13_lat_lo b = c13_emin e)) /\
     (exists e, In e es /\ (c13_lat_hi b = c13_lat1 e \/ c13_lat_hi b = c13_emax e \/ c13_lat_hi b = c13_emin e))).
  Proof.
    intros Hok. cbv zeta. unfold c13_bounds_normal. rewrite c13_normal_as_list.
    assert (HR : Forall c13_regular (map c13_pick_normal es)).
    { apply Forall_forall. intros p Hp. apply in_map_iff in Hp. destruct Hp as (e & <- & He).
      rewrite Forall_forall in Hok. destruct (c13_edge_ok_regular H e HF (Hok e He)) as (R1 & R2 & R3).
      unfold c13_pick_normal. destruct (negb (c13_c1max e) && negb (c13_c2max e)); [exact R2|].
      destruct (negb (c13_c1min e) && negb (c13_c2min e)); [exact R3|exact R1]. }
    destruct (c13_ins_list_spec P H HP HH HF _ HR) as [A B]. cbv zeta in A, B.
    assert (Pick : forall v, In v (map fst (map c13_pick_normal es)) ->
                   exists e, In e es /\ (v = c13_lat1 e \/ v = c13_emax e \/ v = c13_emin e)).
    { intros v Hv. apply in_map_iff in Hv. destruct Hv as (p & <- & Hp). apply in_map_iff in Hp.
      destruct Hp as (e & <- & He). exists e. split; [exact He|].
      unfold c13_pick_normal. destruct (negb (c13_c1max e) && negb (c13_c2max e)); [right; left; reflexivity|].
      destruct (negb (c13_c1min e) && negb (c13_c2min e)); [right; right; reflexivity|left; reflexivity]. }
    split.
    - intros e He.
      assert (Hin : In (c13_pick_normal e) (map c13_pick_normal es)) by (apply in_map; exact He).
      destruct (A _ Hin) as [L _].
      assert (E : snd (c13_pick_normal e) = c13_lon1 e).
      { unfold c13_pick_normal. destruct (negb (c13_c1max e) && negb (c13_c2max e)); [reflexivity|].
        destruct (negb (c13_c1min e) && negb (c13_c2min e)); reflexivity. }
      rewrite E in L. exact L.
    - intros Hne. assert (Hne' : map c13_pick_normal es <> []) by (destruct es; [contradiction|discriminate]).
      destruct (B Hne') as [B1 B2]. split; apply Pick; assumption.
  Qed.

  (* repaired normal branch: every corner latitude and both extremes of every edge lie in [lat_lo, lat_hi], every
     corner longitude in the interval, and the bounds are attained *)
  Lemma c13_repaired_encloses es :
    Forall (c13_edge_ok H) es ->
    let b := c13_bounds_repaired P H es in
    (forall e, In e es ->
       c13_lat_lo b <= c13_lat1 e <= c13_lat_hi b /\ c13_lat_lo b <= c13_emin e /\ c13_emax e <= c13_lat_hi b /\
       c13_lon_in b (c13_norm P (c13_lon1 e)) = true) /\
    (es <> [] ->
     (exists e, In e es /\ (c13_lat_lo b = c13_lat1 e \/ c13_lat_lo b = c13_emax e \/ c13_lat_lo b = c13_emin e)) /\
     (exists e, In e es /\ (c13_lat_hi b = c13_lat1 e \/ c13_lat_hi b = c13_emax e \/ c13_lat_hi b = c13_emin e))).
  Proof.
    intros Hok. cbv zeta. unfold c13_bounds_repaired. rewrite c13_repaired_as_list.
    assert (HR : Forall c13_regular (flat_map c13_three es)).
    { apply Forall_forall. intros p Hp. apply in_flat_map in Hp. destruct Hp as (e & He & Hp).
      rewrite Forall_forall in Hok. destruct (c13_edge_ok_regular H e HF (Hok e He)) as (R1 & R2 & R3).
      unfold c13_three in Hp. cbn [In] in Hp. destruct Hp as [<-|[<-|[<-|[]]]]; assumption. }
    destruct (c13_ins_list_spec P H HP HH HF _ HR) as [A B]. cbv zeta in A, B.
    split.
    - intros e He.
      assert (I1 : In (c13_lat1 e, c13_lon1 e) (flat_map c13_three es)) by (apply in_flat_map; exists e; split; [exact He|left; reflexivity]).
      assert (I2 : In (c13_emax e, c13_lon1 e) (flat_map c13_three es)) by (apply in_flat_map; exists e; split; [exact He|right; left; reflexivity]).
      assert (I3 : In (c13_emin e, c13_lon1 e) (flat_map c13_three es)) by (apply in_flat_map; exists e; split; [exact He|right; right; left; reflexivity]).
      destruct (A _ I1) as [L1 T1]. destruct (A _ I2) as [_ T2]. destruct (A _ I3) as [_ T3].
      cbn [fst snd] in *. repeat split; try lia; exact L1.
    - intros Hne.
      assert (Hne' : flat_map c13_three es <> []) by (destruct es; [contradiction|discriminate]).
      destruct (B Hne') as [B1 B2].
      assert (Pick : forall v, In v (map fst (flat_map c13_three es)) ->
                     exists e, In e es /\ (v = c13_lat1 e \/ v = c13_emax e \/ v = c13_emin e)).
      { intros v Hv. apply in_map_iff in Hv. destruct Hv as (p & <- & Hp). apply in_flat_map in Hp.
        destruct Hp as (e & He & Hp). exists e. split; [exact He|].
        unfold c13_three in Hp. cbn [In] in Hp. destruct Hp as [<-|[<-|[<-|[]]]]; cbn [fst]; auto. }
      split; apply Pick; assumption.
  Qed.
End Branches.

(* the faithful normal branch loses a corner latitude: the quadrilateral (0,40) (60,40.5) (60,60) (0,60) degrees
   (units: 1e-6 degree; extremes of the four great-circle edges rounded to that unit; flags truthful).  The
   reported lower latitude bound is 40.5 degrees although a corner lies at 40. *)
Definition c13_witness : list c13_edge :=
  [ {| c13_lat1 := 40000000; c13_lon1 := 0;        c13_lat2 := 40500000; c13_emax := 44353182; c13_emin := 40000000;
       c13_c1max := false; c13_c2max := false; c13_c1min := true;  c13_c2min := false; c13_pole_here := false |};
    {| c13_lat1 := 40500000; c13_lon1 := 60000000; c13_lat2 := 60000000; c13_emax := 60000000; c13_emin := 40500000;
       c13_c1max := false; c13_c2max := true;  c13_c1min := true;  c13_c2min := false; c13_pole_here := false |};
    {| c13_lat1 := 60000000; c13_lon1 := 60000000; c13_lat2 := 60000000; c13_emax := 63434949; c13_emin := 60000000;
       c13_c1max := false; c13_c2max := false; c13_c1min := true;  c13_c2min := true;  c13_pole_here := false |};
    {| c13_lat1 := 60000000; c13_lon1 := 0;        c13_lat2 := 40000000; c13_emax := 60000000; c13_emin := 40000000;
       c13_c1max := true;  c13_c2max := false; c13_c1min := false; c13_c2min := true;  c13_pole_here := false |} ].

Lemma c13_normal_lat_refuted :
  let P := 360000000 in let H := 90000000 in
  Forall (c13_edge_ok H) c13_witness /\ Forall c13_truthful c13_witness /\
  exists e, In e c13_witness /\ c13_lat_in (c13_bounds_normal P H c13_witness) (c13_lat1 e) = false.
Proof.
  cbv zeta. split; [|split].
  - unfold c13_witness. repeat constructor; unfold FILL; cbn; lia.
  - unfold c13_witness. repeat constructor.
  - eexists. split; [left; reflexivity|]. vm_compute. reflexivity.
Qed.

Lemma c13_repaired_on_witness :
  let P := 360000000 in let H := 90000000 in
  c13_lat_lo (c13_bounds_repaired P H c13_witness) = 40000000 /\
  c13_lat_hi (c13_bounds_repaired P H c13_witness) = 63434949.
Proof. vm_compute. split; reflexivity. Qed.

