(* Proofs about Model/C15.v: antimeridian test on padded shells = the property's wording, the
   exclude / split / ignore index maps, data alignment, transparency of the cache machines
   generated from the source, returned objects.  Unbounded (any number of faces, any history). *)
From Coq Require Import ZifyBool Lia Sorting.Sorted.
From Verif Require Import Base C15 C15_keys.

Local Open Scope nat_scope.

(* ------------------------------------------------------------------------- *)
(* A. shells                                                                   *)

Lemma c15_existsb_diffs (P : Z -> bool) : forall c x,
  existsb P (c15_diffs (x :: c)) = existsb (fun p => P (snd p - fst p)%Z) (combine (x :: c) c).
Proof.
  induction c as [|y c IH]; intros x; [reflexivity|].
  change (c15_diffs (x :: y :: c)) with ((y - x)%Z :: c15_diffs (y :: c)).
  cbn [existsb combine fst snd]. rewrite IH. reflexivity.
Qed.

Lemma c15_diffs_pad (P : Z -> bool) (h : Z) : P 0%Z = false -> forall k c x,
  existsb P (c15_diffs ((x :: c) ++ h :: repeat h k)) = existsb P (c15_diffs ((x :: c) ++ [h])).
Proof.
  intros P0 k. induction c as [|y c IH]; intros x.
  - simpl app. revert x. induction k as [|k IHk]; intros x; [reflexivity|].
    change (repeat h (S k)) with (h :: repeat h k).
    change (c15_diffs (x :: h :: h :: repeat h k)) with ((h - x)%Z :: c15_diffs (h :: h :: repeat h k)).
    change (c15_diffs [x; h]) with [(h - x)%Z].
    cbn [existsb]. rewrite (IHk h). change (c15_diffs [h; h]) with [(h - h)%Z]. cbn [existsb].
    rewrite Z.sub_diag, P0. reflexivity.
  - change ((x :: y :: c) ++ h :: repeat h k) with (x :: ((y :: c) ++ h :: repeat h k)).
    change ((x :: y :: c) ++ [h]) with (x :: ((y :: c) ++ [h])).
    change (c15_diffs (x :: (y :: c) ++ h :: repeat h k)) with ((y - x)%Z :: c15_diffs ((y :: c) ++ h :: repeat h k)).
    change (c15_diffs (x :: (y :: c) ++ [h])) with ((y - x)%Z :: c15_diffs ((y :: c) ++ [h])).
    cbn [existsb]. rewrite IH. reflexivity.
Qed.

Lemma c15_combine_app_l {A B} : forall (l t : list A) (l2 : list B),
  length l2 <= length l -> combine (l ++ t) l2 = combine l l2.
Proof.
  induction l as [|x l IH]; intros t [|y l2] H; simpl in *; auto; try lia.
  - destruct t; reflexivity.
  - f_equal. apply IH. lia.
Qed.

(* C15_am: on the closed, padded shell the test |diff| >= 180 holds iff some edge of the face
   (closing edge included) spans at least 180 degrees *)
Lemma c15_crosses_shell m c : c <> [] -> length c <= m -> c15_crosses (c15_shell m c) = c15_spans c.
Proof.
  destruct c as [|x c]; [congruence|]. intros _ Hl.
  unfold c15_crosses, c15_shell, c15_spans. cbn [hd cyc_pairs].
  assert (E : S m - length (x :: c) = S (m - length (x :: c))) by (simpl in *; lia).
  rewrite E. change (repeat x (S (m - length (x :: c)))) with (x :: repeat x (m - length (x :: c))).
  rewrite c15_diffs_pad by reflexivity.
  change ((x :: c) ++ [x]) with (x :: (c ++ [x])).
  rewrite c15_existsb_diffs.
  f_equal. change (x :: c ++ [x]) with ((x :: c) ++ [x]).
  apply c15_combine_app_l. rewrite app_length. simpl. lia.
Qed.

(* ------------------------------------------------------------------------- *)
(* B. where / delete / gather                                                  *)

Lemma c15_where_from_spec : forall mask k i,
  In i (c15_where_from k mask) <-> (k <= i /\ nth (i - k) mask false = true).
Proof.
  induction mask as [|b mask IH]; intros k i; simpl.
  - split; [tauto|]. intros [_ H]. destruct (i - k); discriminate.
  - destruct b; simpl; rewrite IH; split.
    + intros [<-|[H1 H2]]. split; [lia|]. rewrite Nat.sub_diag. reflexivity.
      split; [lia|]. replace (i - k) with (S (i - S k)) by lia. assumption.
    + intros [H1 H2]. destruct (Nat.eq_dec k i) as [->|Hne]; [left; reflexivity|right].
      split; [lia|]. replace (i - k) with (S (i - S k)) in H2 by lia. assumption.
    + intros [H1 H2]. split; [lia|]. replace (i - k) with (S (i - S k)) by lia. assumption.
    + intros [H1 H2]. destruct (Nat.eq_dec k i) as [->|Hne].
      * rewrite Nat.sub_diag in H2. discriminate.
      * split; [lia|]. replace (i - k) with (S (i - S k)) in H2 by lia. assumption.
Qed.

Lemma c15_where_spec mask i : In i (c15_where mask) <-> nth i mask false = true.
Proof. unfold c15_where. rewrite c15_where_from_spec, Nat.sub_0_r. split; [tauto|]. split; [lia|assumption]. Qed.

Lemma c15_where_lt mask i : In i (c15_where mask) -> i < length mask.
Proof.
  rewrite c15_where_spec. intros H. destruct (Nat.lt_ge_cases i (length mask)); auto.
  rewrite nth_overflow in H by assumption. discriminate.
Qed.

Lemma c15_where_from_lb : forall mask k i, In i (c15_where_from k mask) -> k <= i.
Proof. intros mask k i H. apply c15_where_from_spec in H. tauto. Qed.

Lemma c15_where_from_NoDup : forall mask k, NoDup (c15_where_from k mask).
Proof.
  induction mask as [|b mask IH]; intros k; simpl; [constructor|].
  destruct b; auto. constructor; auto. intros H. apply c15_where_from_lb in H. lia.
Qed.

Lemma c15_where_NoDup mask : NoDup (c15_where mask).
Proof. apply c15_where_from_NoDup. Qed.

Lemma c15_delete_from_map {A B} (f : A -> B) idx : forall l k,
  c15_delete_from k idx (map f l) = map f (c15_delete_from k idx l).
Proof. induction l as [|x l IH]; intros k; simpl; auto. destruct (c15_mem k idx); simpl; rewrite IH; auto. Qed.

Lemma c15_delete_map {A B} (f : A -> B) idx l : c15_delete idx (map f l) = map f (c15_delete idx l).
Proof. apply c15_delete_from_map. Qed.

Lemma c15_delete_from_seq idx : forall n k,
  c15_delete_from k idx (seq k n) = filter (fun i => negb (c15_mem i idx)) (seq k n).
Proof. induction n as [|n IH]; intros k; simpl; auto. destruct (c15_mem k idx); simpl; rewrite IH; auto. Qed.

(* np.delete(np.arange(n), am) = the faces that are not antimeridian faces, in increasing order *)
Lemma c15_delete_seq idx n : c15_delete idx (seq 0 n) = filter (fun i => negb (c15_mem i idx)) (seq 0 n).
Proof. apply c15_delete_from_seq. Qed.

Lemma c15_delete_from_length {A B} idx : forall (l : list A) (l' : list B) k,
  length l = length l' -> length (c15_delete_from k idx l) = length (c15_delete_from k idx l').
Proof.
  induction l as [|x l IH]; intros [|y l'] k H; simpl in *; try discriminate; auto.
  destruct (c15_mem k idx); simpl; auto.
Qed.

Lemma c15_delete_length {A B} idx (l : list A) (l' : list B) :
  length l = length l' -> length (c15_delete idx l) = length (c15_delete idx l').
Proof. apply c15_delete_from_length. Qed.

Lemma c15_mem_In i l : c15_mem i l = true <-> In i l.
Proof.
  unfold c15_mem. rewrite existsb_exists. split.
  - intros (x & Hx & E). apply Nat.eqb_eq in E. subst. assumption.
  - intros H. exists i. split; auto. apply Nat.eqb_refl.
Qed.

Lemma c15_gather_map {A B} (f : A -> B) d d' l idx :
  (forall i, In i idx -> i < length l) ->
  c15_gather d' (map f l) idx = map f (c15_gather d l idx).
Proof.
  intros H. unfold c15_gather. rewrite map_map. apply map_ext_in. intros i Hi.
  rewrite (nth_indep _ d' (f d)) by (rewrite map_length; auto). apply map_nth.
Qed.

Lemma c15_map_nth_seq {A} (d : A) l : map (fun i => nth i l d) (seq 0 (length l)) = l.
Proof.
  induction l as [|x l IH]; simpl; auto. f_equal. rewrite <- seq_shift, map_map. exact IH.
Qed.

(* ------------------------------------------------------------------------- *)
(* C. the pipelines                                                            *)

Definition c15_notam (am : list nat) (i : nat) : bool := negb (c15_mem i am).

(* exclude without projection: exactly the faces that do not cross, each once, in face order *)
Lemma c15_poly_exclude_faces n am pieces values :
  o_faces (c15_poly C15Exclude n am None pieces values) = filter (c15_notam am) (seq 0 n) /\
  o_c2o (c15_poly C15Exclude n am None pieces values) = filter (c15_notam am) (seq 0 n).
Proof. simpl. rewrite c15_delete_seq. auto. Qed.

Lemma c15_filter_seq_spec am n i :
  In i (filter (c15_notam am) (seq 0 n)) <-> i < n /\ ~ In i am.
Proof.
  rewrite filter_In, in_seq. unfold c15_notam. rewrite negb_true_iff.
  split.
  - intros [H1 H2]. split; [lia|]. intros Hc. apply c15_mem_In in Hc. congruence.
  - intros [H1 H2]. split; [lia|]. destruct (c15_mem i am) eqn:E; auto. apply c15_mem_In in E. contradiction.
Qed.

Lemma c15_filter_seq_NoDup am n : NoDup (filter (c15_notam am) (seq 0 n)).
Proof. apply NoDup_filter. apply seq_NoDup. Qed.

(* with a projection (PolyCollection, lines): additionally the faces whose projected shell has NaN go *)
Lemma c15_poly_exclude_faces_nan n am fl pieces values i :
  length fl = n ->
  In i (o_faces (c15_poly C15Exclude n am (Some fl) pieces values)) ->
  i < n /\ ~ In i am.
Proof.
  intros Hl. simpl. unfold c15_gather. rewrite in_map_iff. intros (j & <- & Hj).
  apply c15_where_lt in Hj. rewrite map_length in Hj.
  rewrite (c15_delete_length am fl (seq 0 n)) in Hj by (rewrite seq_length; auto).
  apply c15_filter_seq_spec. unfold c15_notam. rewrite <- c15_delete_seq. apply nth_In. assumption.
Qed.

(* data alignment: the value attached to an output polygon is the value of the face it shows *)
Definition c15_aligned (values : list Z) (o : c15_out) : Prop :=
  o_data o = map (fun f => nth f values 0%Z) (o_faces o).

Lemma c15_delete_values am values :
  c15_delete am values = map (fun f => nth f values 0%Z) (c15_delete am (seq 0 (length values))).
Proof. rewrite <- c15_delete_map. rewrite c15_map_nth_seq. reflexivity. Qed.

Lemma c15_poly_exclude_aligned am nan pieces values :
  (match nan with Some fl => length fl = length values | None => True end) ->
  c15_aligned values (c15_poly C15Exclude (length values) am nan pieces values).
Proof.
  intros Hl. unfold c15_aligned. destruct nan as [fl|]; simpl.
  - rewrite c15_delete_values. apply c15_gather_map.
    intros i Hi. apply c15_where_lt in Hi. rewrite map_length in Hi.
    rewrite (c15_delete_length am fl (seq 0 (length values))) in Hi by (rewrite seq_length; auto). assumption.
  - apply c15_delete_values.
Qed.

Lemma c15_poly_split_aligned n am nan pieces values :
  c15_aligned values (c15_poly C15Split n am nan pieces values).
Proof. reflexivity. Qed.

Lemma c15_poly_ignore_aligned am nan pieces values :
  c15_aligned values (c15_poly C15Ignore (length values) am nan pieces values).
Proof. unfold c15_aligned. simpl. symmetry. apply c15_map_nth_seq. Qed.

(* the split table lists every face as often as it has pieces, faces in increasing order *)
Lemma c15_split_map_count : forall pieces i,
  count_occ Nat.eq_dec (c15_split_map pieces) i = nth i pieces 0.
Proof.
  unfold c15_split_map. intros pieces.
  assert (G : forall k i, count_occ Nat.eq_dec
               (flat_map (fun p => repeat (fst p) (snd p)) (combine (seq k (length pieces)) pieces)) i
             = if k <=? i then nth (i - k) pieces 0 else 0).
  { induction pieces as [|p pieces IH]; intros k i; simpl.
    - destruct (k <=? i); destruct (i - k); reflexivity.
    - rewrite count_occ_app, IH.
      assert (R : count_occ Nat.eq_dec (repeat k p) i = if Nat.eqb k i then p else 0).
      { clear. induction p as [|p IHp]; simpl.
        - destruct (Nat.eqb k i); reflexivity.
        - destruct (Nat.eq_dec k i) as [->|Hne].
          + rewrite IHp, Nat.eqb_refl. reflexivity.
          + rewrite IHp. destruct (Nat.eqb_spec k i); [contradiction|reflexivity]. }
      rewrite R.
      destruct (Nat.eqb_spec k i) as [->|Hne].
      + rewrite Nat.leb_refl, Nat.sub_diag. destruct (S i <=? i) eqn:E; [apply Nat.leb_le in E; lia|]. lia.
      + destruct (k <=? i) eqn:E1.
        * apply Nat.leb_le in E1. assert (E2 : S k <=? i = true) by (apply Nat.leb_le; lia). rewrite E2.
          replace (i - k) with (S (i - S k)) by lia. reflexivity.
        * apply Nat.leb_gt in E1. assert (E2 : S k <=? i = false) by (apply Nat.leb_gt; lia). rewrite E2. reflexivity. }
  intros i. rewrite G. simpl. rewrite Nat.sub_0_r. reflexivity.
Qed.

Lemma c15_delete_from_le {A} idx : forall (l : list A) k, length (c15_delete_from k idx l) <= length l.
Proof. induction l as [|x l IH]; intros k; simpl; auto. destruct (c15_mem k idx); simpl; specialize (IH (S k)); lia. Qed.

(* GeoDataFrame pipelines: rows and data are re-indexed with the same tables in every branch *)
Lemma c15_gdf_aligned per am nan values :
  (match nan with Some fl => length fl = length values | None => True end) ->
  c15_aligned values (c15_gdf per (length values) am nan values).
Proof.
  intros Hl. unfold c15_aligned, c15_gdf.
  assert (W : forall fl, length fl = length values ->
            forall i, In i (c15_where_nonan (c15_delete am fl)) ->
            i < length (c15_delete am (seq 0 (length values)))).
  { intros fl Hfl i Hi.
    rewrite <- (c15_delete_length am fl (seq 0 (length values))) by (rewrite seq_length; auto).
    apply c15_where_lt in Hi. rewrite map_length in Hi. assumption. }
  assert (W2 : forall fl, length fl = length values ->
            forall i, In i (c15_where_nonan (c15_delete am fl)) -> i < length values).
  { intros fl Hfl i Hi. specialize (W fl Hfl i Hi).
    pose proof (c15_delete_from_le am (seq 0 (length values)) 0) as L. rewrite seq_length in L.
    unfold c15_delete in W. lia. }
  assert (NE : forall fl, length fl = length values ->
            c15_gather 0%Z values (c15_where_nonan (c15_delete am fl)) =
            map (fun f => nth f values 0%Z)
                (c15_gather 0 (seq 0 (length values)) (c15_where_nonan (c15_delete am fl)))).
  { intros fl Hfl. unfold c15_gather. rewrite map_map. apply map_ext_in. intros i Hi.
    rewrite seq_nth by (eapply W2; eauto). reflexivity. }
  destruct per; destruct nan as [fl|]; simpl.
  - rewrite c15_delete_values. apply c15_gather_map. apply W. assumption.
  - apply c15_delete_values.
  - apply NE. assumption.
  - symmetry. apply c15_map_nth_seq.
  - apply NE. assumption.
  - symmetry. apply c15_map_nth_seq.
Qed.

(* one-to-one: the NaN table never lists a face twice *)
Lemma c15_NoDup_map_nth (kept : list nat) (nn : list nat) :
  NoDup kept -> NoDup nn -> (forall i, In i nn -> i < length kept) ->
  NoDup (c15_gather 0 kept nn).
Proof.
  intros Hk Hn Hr. unfold c15_gather. induction nn as [|i nn IH]; simpl; [constructor|].
  inversion Hn; subst. constructor.
  - rewrite in_map_iff. intros (j & E & Hj).
    apply (proj1 (NoDup_nth kept 0) Hk) in E; [subst; contradiction| |]; apply Hr; simpl; auto.
  - apply IH; auto. intros; apply Hr; simpl; auto.
Qed.

Lemma c15_gdf_NoDup per n am nan values :
  (match nan with Some fl => length fl = n | None => True end) ->
  NoDup (o_faces (c15_gdf per n am nan values)).
Proof.
  intros Hl. unfold c15_gdf.
  assert (K : NoDup (c15_delete am (seq 0 n))) by (rewrite c15_delete_seq; apply c15_filter_seq_NoDup).
  destruct per; destruct nan as [fl|]; simpl; try assumption; try apply seq_NoDup.
  - apply c15_NoDup_map_nth; auto; [apply c15_where_NoDup|].
    intros i Hi. apply c15_where_lt in Hi. rewrite map_length in Hi.
    rewrite (c15_delete_length am fl (seq 0 n)) in Hi by (rewrite seq_length; auto). assumption.
  - apply c15_NoDup_map_nth; [apply seq_NoDup|apply c15_where_NoDup|].
    intros i Hi. apply c15_where_lt in Hi. rewrite map_length in Hi.
    pose proof (c15_delete_from_le am fl 0) as L. unfold c15_delete in Hi. rewrite seq_length. lia.
  - apply c15_NoDup_map_nth; [apply seq_NoDup|apply c15_where_NoDup|].
    intros i Hi. apply c15_where_lt in Hi. rewrite map_length in Hi.
    pose proof (c15_delete_from_le am fl 0) as L. unfold c15_delete in Hi. rewrite seq_length. lia.
Qed.

Local Open Scope Z_scope.

(* ------------------------------------------------------------------------- *)
(* C'. per-face decisions, the split table in detail, the builders' bookkeeping *)

Local Open Scope nat_scope.

Definition c15_faces_wf (m : nat) (faces : list (list Z)) : Prop :=
  forall c, In c faces -> c <> [] /\ length c <= m.

Lemma c15_am_faces_where m faces : c15_faces_wf m faces ->
  c15_am_faces m faces = c15_where (map c15_spans faces).
Proof.
  intros H. unfold c15_am_faces. f_equal. apply map_ext_in. intros c Hc.
  destruct (H c Hc). apply c15_crosses_shell; assumption.
Qed.

Lemma c15_mem_where mask i : c15_mem i (c15_where mask) = nth i mask false.
Proof.
  destruct (nth i mask false) eqn:E.
  - apply c15_mem_In. apply c15_where_spec. assumption.
  - destruct (c15_mem i (c15_where mask)) eqn:M; auto.
    apply c15_mem_In in M. apply c15_where_spec in M. congruence.
Qed.

(* a face is in the antimeridian table iff one of its edges spans at least 180 degrees *)
Lemma c15_am_faces_spec m faces i : c15_faces_wf m faces ->
  (In i (c15_am_faces m faces) <-> i < length faces /\ c15_spans (nth i faces []) = true).
Proof.
  intros H. rewrite c15_am_faces_where by assumption. rewrite c15_where_spec. split.
  - intros E. assert (L : i < length faces).
    { destruct (Nat.lt_ge_cases i (length faces)); auto.
      rewrite nth_overflow in E by (rewrite map_length; auto). discriminate. }
    split; auto. rewrite (nth_indep _ false (c15_spans [])) in E by (rewrite map_length; auto).
    rewrite map_nth in E. exact E.
  - intros [L E]. rewrite (nth_indep _ false (c15_spans [])) by (rewrite map_length; auto).
    rewrite map_nth. exact E.
Qed.

(* exclude, from the corner longitudes: exactly the faces none of whose edges spans >= 180, in order *)
Lemma c15_exclude_full m faces pieces values : c15_faces_wf m faces ->
  o_faces (c15_poly_full C15Exclude m faces None pieces values) =
  filter (fun i => negb (c15_spans (nth i faces []))) (seq 0 (length faces)).
Proof.
  intros H. unfold c15_poly_full. rewrite (proj1 (c15_poly_exclude_faces _ _ _ _)).
  apply filter_ext_in. intros i Hi. apply in_seq in Hi. unfold c15_notam.
  rewrite c15_am_faces_where by assumption. rewrite c15_mem_where.
  rewrite (nth_indep _ false (c15_spans [])) by (rewrite map_length; lia).
  rewrite map_nth. reflexivity.
Qed.

(* ---- the split table ---- *)

Definition c15_blocks (k : nat) (pieces : list nat) : list nat :=
  flat_map (fun p => repeat (fst p) (snd p)) (combine (seq k (length pieces)) pieces).

Lemma c15_split_map_blocks pieces : c15_split_map pieces = c15_blocks 0 pieces.
Proof. reflexivity. Qed.

Lemma c15_blocks_cons k p ps : c15_blocks k (p :: ps) = repeat k p ++ c15_blocks (S k) ps.
Proof. reflexivity. Qed.

Lemma c15_blocks_ge : forall pieces k x, In x (c15_blocks k pieces) -> k <= x.
Proof.
  induction pieces as [|p ps IH]; intros k x; [intros []|].
  rewrite c15_blocks_cons. intros H. apply in_app_or in H. destruct H as [H|H].
  - apply repeat_spec in H. lia.
  - apply IH in H. lia.
Qed.

(* monotone: the table never decreases *)
Lemma c15_blocks_sorted : forall pieces k, StronglySorted le (c15_blocks k pieces).
Proof.
  induction pieces as [|p ps IH]; intros k; [constructor|].
  rewrite c15_blocks_cons. induction p as [|p IHp]; simpl; [apply IH|].
  constructor; auto. apply Forall_forall. intros x Hx. apply in_app_or in Hx. destruct Hx as [Hx|Hx].
  - apply repeat_spec in Hx. lia.
  - apply c15_blocks_ge in Hx. lia.
Qed.

Lemma c15_split_map_sorted pieces : StronglySorted le (c15_split_map pieces).
Proof. apply c15_blocks_sorted. Qed.

(* total and onto the faces: every face that has at least one piece is listed, nothing else is *)
Lemma c15_split_map_onto pieces i :
  In i (c15_split_map pieces) <-> i < length pieces /\ 1 <= nth i pieces 0.
Proof.
  rewrite (count_occ_In Nat.eq_dec). rewrite c15_split_map_count. split.
  - intros H. split; [|lia]. destruct (Nat.lt_ge_cases i (length pieces)); auto.
    rewrite nth_overflow in H by assumption. lia.
  - intros [_ H]. lia.
Qed.

(* the polygons of face i are the rows offset(i) .. offset(i) + pieces(i) - 1, consecutive *)
Lemma c15_blocks_nth : forall pieces k i j,
  i < length pieces -> j < nth i pieces 0 ->
  nth (c15_offset pieces i + j) (c15_blocks k pieces) 0 = k + i.
Proof.
  induction pieces as [|p ps IH]; intros k i j Hi Hj; [simpl in Hi; lia|].
  rewrite c15_blocks_cons. destruct i as [|i].
  - simpl in Hj. unfold c15_offset. simpl. rewrite app_nth1 by (rewrite repeat_length; assumption).
    rewrite (nth_indep _ 0 k) by (rewrite repeat_length; assumption). rewrite nth_repeat. lia.
  - unfold c15_offset. cbn [firstn fold_right]. fold (c15_offset ps i).
    rewrite app_nth2 by (rewrite repeat_length; lia). rewrite repeat_length.
    replace (p + c15_offset ps i + j - p) with (c15_offset ps i + j) by lia.
    rewrite IH; [lia| simpl in Hi; lia| exact Hj].
Qed.

Lemma c15_split_rows pieces i j :
  i < length pieces -> j < nth i pieces 0 ->
  nth (c15_offset pieces i + j) (c15_split_map pieces) 0 = i.
Proof. intros. rewrite c15_split_map_blocks, c15_blocks_nth; auto. Qed.

Lemma c15_blocks_length : forall pieces k, length (c15_blocks k pieces) = fold_right Nat.add 0 pieces.
Proof.
  induction pieces as [|p ps IH]; intros k; [reflexivity|].
  rewrite c15_blocks_cons, app_length, repeat_length, IH. reflexivity.
Qed.

Lemma c15_offset_lt : forall pieces i j, i < length pieces -> j < nth i pieces 0 ->
  c15_offset pieces i + j < fold_right Nat.add 0 pieces.
Proof.
  induction pieces as [|p ps IH]; intros i j Hi Hj; [simpl in Hi; lia|].
  destruct i as [|i]; unfold c15_offset; simpl in *; [lia|].
  fold (c15_offset ps i). specialize (IH i j ltac:(lia) Hj). lia.
Qed.

(* data through the split table: every polygon of every face carries that face's value *)
Lemma c15_split_data_every_face n am nan pieces values i j :
  i < length pieces -> j < nth i pieces 0 ->
  nth (c15_offset pieces i + j) (o_data (c15_poly C15Split n am nan pieces values)) 0%Z = nth i values 0%Z.
Proof.
  intros Hi Hj. cbn [c15_poly o_data]. unfold c15_gather.
  rewrite (nth_indep _ 0%Z (nth 0 values 0%Z)).
  - rewrite (map_nth (fun f => nth f values 0%Z) (c15_split_map pieces) 0 (c15_offset pieces i + j)).
    rewrite c15_split_rows by assumption. reflexivity.
  - rewrite map_length, c15_split_map_blocks, c15_blocks_length. apply c15_offset_lt; assumption.
Qed.

(* ---- the face-by-face account equals the array pipeline ---- *)

Lemma c15_rows_split_gen m : forall faces pieces k, length faces = length pieces ->
  flat_map (fun p : nat * (list Z * nat) =>
              repeat (fst p) (if c15_crosses (c15_shell m (fst (snd p))) then snd (snd p) else 1))
           (combine (seq k (length faces)) (combine faces pieces)) = c15_blocks k (c15_effective_pieces m faces pieces).
Proof.
  induction faces as [|c faces IH]; intros [|p ps] k H; simpl in H; try discriminate; [reflexivity|].
  unfold c15_effective_pieces. cbn [combine map fst snd]. fold (c15_effective_pieces m faces ps).
  rewrite c15_blocks_cons. cbn [length seq combine flat_map fst snd]. f_equal. apply IH. lia.
Qed.

Lemma c15_effective_pieces_length m faces pieces : length faces = length pieces ->
  length (c15_effective_pieces m faces pieces) = length faces.
Proof. intros H. unfold c15_effective_pieces. rewrite map_length, combine_length. lia. Qed.

Lemma c15_effective_pieces_nth m faces pieces i : length faces = length pieces -> i < length faces ->
  nth i (c15_effective_pieces m faces pieces) 0 =
  if c15_crosses (c15_shell m (nth i faces [])) then nth i pieces 0 else 1.
Proof.
  intros H Hi. unfold c15_effective_pieces.
  rewrite (nth_indep _ 0 ((fun p : list Z * nat => if c15_crosses (c15_shell m (fst p)) then snd p else 1) ([], 0)))
    by (rewrite map_length, combine_length; lia).
  rewrite (map_nth (fun p : list Z * nat => if c15_crosses (c15_shell m (fst p)) then snd p else 1)).
  rewrite combine_nth by assumption. reflexivity.
Qed.

(* under 'split' a face that does not cross is never handed to the antimeridian correction: it
   contributes exactly one polygon; a crossing face contributes its pieces *)
Lemma c15_split_rows_per_face m faces pieces values i :
  length faces = length pieces -> i < length faces ->
  count_occ Nat.eq_dec (o_faces (c15_poly_full C15Split m faces None pieces values)) i =
  if c15_crosses (c15_shell m (nth i faces [])) then nth i pieces 0 else 1.
Proof.
  intros H Hi. unfold c15_poly_full. cbn [c15_poly o_faces].
  rewrite c15_split_map_count. apply c15_effective_pieces_nth; assumption.
Qed.

Lemma c15_split_site_current : c15_poly_split_only_crossing = true.
Proof. reflexivity. Qed.

Lemma c15_rows_ignore_gen : forall faces pieces k, length faces = length pieces ->
  flat_map (fun p : nat * (list Z * nat) => repeat (fst p) 1)
           (combine (seq k (length faces)) (combine faces pieces)) = seq k (length faces).
Proof.
  induction faces as [|c faces IH]; intros [|p ps] k H; simpl in H; try discriminate; [reflexivity|].
  cbn [length seq combine flat_map fst repeat app]. f_equal. apply IH. lia.
Qed.

Lemma c15_rows_exclude_gen m : forall faces pieces k, length faces = length pieces ->
  flat_map (fun p : nat * (list Z * nat) =>
              repeat (fst p) (if c15_crosses (c15_shell m (fst (snd p))) then 0 else 1))
           (combine (seq k (length faces)) (combine faces pieces)) =
  filter (fun i => negb (c15_crosses (c15_shell m (nth (i - k) faces [])))) (seq k (length faces)).
Proof.
  induction faces as [|c faces IH]; intros [|p ps] k H; simpl in H; try discriminate; [reflexivity|].
  cbn [length seq combine flat_map fst snd filter]. rewrite Nat.sub_diag. cbn [nth].
  rewrite IH by lia.
  assert (E : filter (fun i => negb (c15_crosses (c15_shell m (nth (i - S k) faces [])))) (seq (S k) (length faces)) =
              filter (fun i => negb (c15_crosses (c15_shell m (nth (i - k) (c :: faces) [])))) (seq (S k) (length faces))).
  { apply filter_ext_in. intros i Hi. apply in_seq in Hi. replace (i - k) with (S (i - S k)) by lia. reflexivity. }
  rewrite E. destruct (c15_crosses (c15_shell m c)); reflexivity.
Qed.

(* C15_rows: told face by face (dropped / one polygon / its pieces), the conversion yields the same
   polygon -> face list as the array pipeline (np.delete, split table, identity) *)
Lemma c15_rows_pipeline per m faces pieces values : length faces = length pieces ->
  c15_rows per m faces pieces = o_faces (c15_poly_full per m faces None pieces values).
Proof.
  intros H. unfold c15_rows, c15_poly_full. destruct per; cbn [c15_face_rows c15_poly o_faces].
  - rewrite c15_rows_exclude_gen by assumption. rewrite c15_delete_seq.
    apply filter_ext_in. intros i Hi. apply in_seq in Hi. rewrite Nat.sub_0_r.
    unfold c15_am_faces. rewrite c15_mem_where.
    rewrite (nth_indep _ false (c15_crosses (c15_shell m []))) by (rewrite map_length; lia).
    rewrite (map_nth (fun c => c15_crosses (c15_shell m c))). reflexivity.
  - rewrite (c15_rows_split_gen m) by assumption. reflexivity.
  - apply c15_rows_ignore_gen. assumption.
Qed.

(* ---- bookkeeping: data re-indexed with the tables of the same build, or of another one ---- *)

Lemma c15_tables_same_build per m faces nan pieces values :
  c15_da_from_tables per (c15_poly_tables per m faces nan pieces) values =
  o_data (c15_poly_full per m faces nan pieces values).
Proof. unfold c15_poly_full. destruct per; destruct nan; reflexivity. Qed.

Lemma c15_tables_same_build_aligned per m faces nan pieces values :
  length values = length faces ->
  (match nan with Some fl => length fl = length values | None => True end) ->
  c15_da_from_tables per (c15_poly_tables per m faces nan pieces) values =
  map (fun f => nth f values 0%Z) (o_faces (c15_poly_full per m faces nan pieces values)).
Proof.
  intros L Hn. rewrite c15_tables_same_build. unfold c15_poly_full. rewrite <- L.
  destruct per.
  - apply c15_poly_exclude_aligned. assumption.
  - apply c15_poly_split_aligned.
  - apply c15_poly_ignore_aligned.
Qed.

Local Open Scope Z_scope.

(* with the tables another build left behind (other projection frame: other crossing faces) the
   values land on other faces *)
Lemma c15_tables_foreign_refuted : exists per m faces faces' pieces values,
  length values = length faces /\ length faces' = length faces /\
  c15_da_from_tables per (c15_poly_tables per m faces' None pieces) values <>
  map (fun f => nth f values 0) (o_faces (c15_poly_full per m faces None pieces values)).
Proof.
  exists C15Exclude, 3%nat,
         [[170000000; -170000000; -160000000]; [10000000; 20000000; 15000000]; [30000000; 40000000; 35000000]],
         [[-10000000; 10000000; 20000000]; [-170000000; -160000000; -165000000]; [-150000000; 140000000; -145000000]],
         [1%nat; 1%nat; 1%nat], [100; 101; 102].
  split; [reflexivity|]. split; [reflexivity|]. vm_compute. discriminate.
Qed.

(* ------------------------------------------------------------------------- *)
(* D. cache machines                                                           *)

Local Open Scope nat_scope.

Lemma c15_incl_In a b : c15_incl a b = true -> forall x, In x a -> In x b.
Proof.
  unfold c15_incl. rewrite forallb_forall. intros H x Hx. specialize (H x Hx).
  apply existsb_exists in H. destruct H as (y & Hy & E). apply Z.eqb_eq in E. subst. assumption.
Qed.

Lemma c15_lookupZ_stored S a rest : forall k, In k S ->
  c15_lookupZ k (map (fun k => (k, c15_key k a)) S ++ rest) = c15_key k a.
Proof.
  induction S as [|k0 S IH]; intros k Hk; [destruct Hk|]. simpl.
  destruct (Z.eqb_spec k0 k) as [->|Hne]; auto. destruct Hk as [->|Hk]; [contradiction|]. auto.
Qed.

(* the cached object, if any, was built from arguments whose stored keys are still in the dict *)
Definition c15_inv (sp : c15_spec) (st : c15_state) : Prop :=
  match s_obj st with
  | Some (id, built) =>
      exists a0, built = c15_relevant (k_R sp) a0 /\
                 forall k, In k (k_S sp) -> c15_lookupZ k (s_keys st) = c15_key k a0
  | None => True
  end.

Lemma c15_relevant_ext R a a0 : (forall k, In k R -> c15_key k a = c15_key k a0) ->
  c15_relevant R a = c15_relevant R a0.
Proof. intros H. unfold c15_relevant. apply map_ext_in. assumption. Qed.

Lemma c15_build_spec sp st a : k_SU sp = [] ->
  fst (fst (c15_build sp st a)) = c15_relevant (k_R sp) a /\
  (c15_inv sp st -> c15_inv sp (snd (c15_build sp st a))).
Proof.
  intros HSU. unfold c15_build. rewrite HSU. destruct (a_cache a); simpl; split; auto.
  - intros _. unfold c15_inv. simpl. exists a. split; auto. intros k Hk. apply c15_lookupZ_stored. assumption.
Qed.

(* C15_cache, one call: whatever state the earlier conversions left, the call returns what a
   fresh grid would build from the same arguments *)
Lemma c15_call_transparent sp st a :
  c15_keys_ok sp = true -> c15_inv sp st ->
  fst (fst (c15_call sp st a)) = c15_relevant (k_R sp) a /\ c15_inv sp (snd (c15_call sp st a)).
Proof.
  intros Hok Hinv. unfold c15_keys_ok in Hok. apply andb_true_iff in Hok. destruct Hok as [Hok HSU].
  apply andb_true_iff in Hok. destruct Hok as [HRC HCS].
  assert (HSU' : k_SU sp = []) by (destruct (k_SU sp); [reflexivity|discriminate]).
  unfold c15_call. destruct (s_obj st) as [[id built]|] eqn:Eo.
  - destruct (negb (a_override a || existsb (fun k => negb (c15_lookupZ k (s_keys st) =? c15_key k a)%Z) (k_C sp))) eqn:Ehit.
    + (* cache hit *)
      apply negb_true_iff in Ehit. apply orb_false_iff in Ehit. destruct Ehit as [_ Ed].
      assert (Hsame : forall k, In k (k_C sp) -> c15_lookupZ k (s_keys st) = c15_key k a).
      { intros k Hk. destruct (Z.eqb_spec (c15_lookupZ k (s_keys st)) (c15_key k a)) as [E|Hne]; auto.
        exfalso. assert (X : existsb (fun k => negb (c15_lookupZ k (s_keys st) =? c15_key k a)%Z) (k_C sp) = true).
        { apply existsb_exists. exists k. split; auto. apply negb_true_iff. apply Z.eqb_neq. assumption. }
        congruence. }
      unfold c15_inv in Hinv. rewrite Eo in Hinv. destruct Hinv as (a0 & Hb & Hk).
      assert (R : built = c15_relevant (k_R sp) a).
      { rewrite Hb. symmetry. apply c15_relevant_ext. intros k HkR.
        pose proof (c15_incl_In _ _ HRC k HkR) as HkC. pose proof (c15_incl_In _ _ HCS k HkC) as HkS.
        rewrite <- (Hsame k HkC). apply Hk. assumption. }
      destruct (k_copy sp); simpl; split; auto.
      * unfold c15_inv. simpl. exists a0. auto.
      * unfold c15_inv. rewrite Eo. exists a0. auto.
    + destruct (c15_build_spec sp st a HSU') as [B1 B2]. split; auto.
  - destruct (c15_build_spec sp st a HSU') as [B1 B2]. split; auto.
Qed.

Lemma c15_inv_init sp : c15_inv sp c15_init.
Proof. exact I. Qed.

Lemma c15_run_inv sp : c15_keys_ok sp = true -> forall hist st, c15_inv sp st -> c15_inv sp (c15_run sp st hist).
Proof.
  intros Hok. induction hist as [|a hist IH]; intros st Hinv; simpl; auto.
  apply IH. apply c15_call_transparent; auto.
Qed.

(* C15_cache: for every history of earlier conversions (any arguments, cache / override flags) *)
Lemma c15_cache_transparent sp : c15_keys_ok sp = true -> forall hist a,
  fst (fst (c15_call sp (c15_run sp c15_init hist) a)) = c15_relevant (k_R sp) a.
Proof.
  intros Hok hist a. apply c15_call_transparent; auto. apply c15_run_inv; auto. apply c15_inv_init.
Qed.

Lemma c15_keys_ok_gdf : c15_keys_ok c15_sp_gdf = true. Proof. vm_compute. reflexivity. Qed.
Lemma c15_keys_ok_poly : c15_keys_ok c15_sp_poly = true. Proof. vm_compute. reflexivity. Qed.
Lemma c15_keys_ok_line : c15_keys_ok c15_sp_line = true. Proof. vm_compute. reflexivity. Qed.

Lemma c15_cache_gdf : forall hist a,
  fst (fst (c15_call c15_sp_gdf (c15_run c15_sp_gdf c15_init hist) a)) = c15_relevant [1; 2; 3]%Z a.
Proof. exact (c15_cache_transparent c15_sp_gdf c15_keys_ok_gdf). Qed.
Lemma c15_cache_poly : forall hist a,
  fst (fst (c15_call c15_sp_poly (c15_run c15_sp_poly c15_init hist) a)) = c15_relevant [1; 2]%Z a.
Proof. exact (c15_cache_transparent c15_sp_poly c15_keys_ok_poly). Qed.
Lemma c15_cache_line : forall hist a,
  fst (fst (c15_call c15_sp_line (c15_run c15_sp_line c15_init hist) a)) = c15_relevant [1; 2]%Z a.
Proof. exact (c15_cache_transparent c15_sp_line c15_keys_ok_line). Qed.

(* a machine that compares a key it never stores (the line cache before the repair) is not
   transparent: kept as a statement about the generic machine *)
Lemma c15_missing_key_refuted : exists sp hist a,
  c15_keys_ok sp = false /\
  fst (fst (c15_call sp (c15_run sp c15_init hist) a)) <> c15_relevant (k_R sp) a.
Proof.
  exists {| k_R := [1; 2]%Z; k_C := [1]%Z; k_S := [1]%Z; k_SU := []; k_TS := []; k_TU := []; k_copy := false |},
         [{| a_periodic := 1; a_projection := 7; a_engine := 0; a_cache := true; a_override := false |}],
         {| a_periodic := 1; a_projection := 0; a_engine := 0; a_cache := true; a_override := false |}.
  vm_compute. split; [reflexivity|discriminate].
Qed.

(* a machine that records the arguments of an uncached conversion is not transparent either:
   cached X, uncached Y, then Y returns the object built for X *)
Lemma c15_uncond_key_refuted : exists sp hist a,
  c15_keys_ok sp = false /\
  fst (fst (c15_call sp (c15_run sp c15_init hist) a)) <> c15_relevant (k_R sp) a.
Proof.
  exists {| k_R := [1; 2]%Z; k_C := [1; 2]%Z; k_S := []; k_SU := [1; 2]%Z; k_TS := []; k_TU := []; k_copy := false |},
         [{| a_periodic := 1; a_projection := 7; a_engine := 0; a_cache := true; a_override := false |};
          {| a_periodic := 1; a_projection := 0; a_engine := 0; a_cache := false; a_override := false |}],
         {| a_periodic := 1; a_projection := 0; a_engine := 0; a_cache := true; a_override := false |}.
  vm_compute. split; [reflexivity|discriminate].
Qed.

(* ---- the side tables UxDataArray.* reads back ---- *)

(* when every build is cached, the tables in the dict belong to the cached object *)
Definition c15_tables_inv (sp : c15_spec) (st : c15_state) : Prop :=
  match s_obj st with
  | Some (id, built) => forall k, In k (k_TU sp ++ k_TS sp) -> c15_lookup k (s_tables st) = built
  | None => True
  end.

Lemma c15_lookup_set keys v t k : In k keys -> c15_lookup k (c15_set_tables keys v t) = v.
Proof.
  unfold c15_set_tables. induction keys as [|k0 keys IH]; intros Hk; [destruct Hk|]. simpl.
  destruct (Z.eqb_spec k0 k) as [->|Hne]; auto. destruct Hk as [->|Hk]; [contradiction|auto].
Qed.

Lemma c15_lookup_set_other keys v t k : ~ In k keys -> c15_lookup k (c15_set_tables keys v t) = c15_lookup k t.
Proof.
  unfold c15_set_tables. induction keys as [|k0 keys IH]; intros Hk; auto. simpl.
  destruct (Z.eqb_spec k0 k) as [->|Hne]; [exfalso; apply Hk; left; reflexivity|]. apply IH. intros H; apply Hk; right; auto.
Qed.

Lemma c15_call_tables sp st a : a_cache a = true -> c15_tables_inv sp st -> c15_tables_inv sp (snd (c15_call sp st a)).
Proof.
  intros Hc Hinv.
  assert (B : c15_tables_inv sp (snd (c15_build sp st a))).
  { unfold c15_build. rewrite Hc. simpl. unfold c15_tables_inv. simpl. intros k Hk.
    destruct (in_dec Z.eq_dec k (k_TS sp)) as [H1|H1].
    - apply c15_lookup_set. assumption.
    - rewrite c15_lookup_set_other by assumption. apply c15_lookup_set.
      apply in_app_or in Hk. tauto. }
  unfold c15_call. destruct (s_obj st) as [[id built]|] eqn:Eo; auto.
  destruct (negb (a_override a || _)); auto.
  destruct (k_copy sp); simpl; auto.
  unfold c15_tables_inv in *. simpl. rewrite Eo in *. assumption.
Qed.

(* C15_data under the cache, partial: hypothesis "every conversion so far was made with cache=True" *)
Lemma c15_da_consistent_partial sp reads : c15_keys_ok sp = true ->
  (forall k, In k reads -> In k (k_TU sp ++ k_TS sp)) ->
  forall hist a, Forall (fun x => a_cache x = true) hist -> a_cache a = true ->
  let '(built, tables, _) := c15_da_call sp reads (c15_run sp c15_init hist) a in
  built = c15_relevant (k_R sp) a /\ Forall (fun t => t = built) tables.
Proof.
  intros Hok Hr hist a Hh Ha.
  assert (T : c15_tables_inv sp (c15_run sp c15_init hist)).
  { assert (G : forall st, c15_tables_inv sp st -> c15_tables_inv sp (c15_run sp st hist)).
    { induction Hh as [|x l Hx Hl IH]; intros st Hst; simpl; auto. apply IH. apply c15_call_tables; auto. }
    apply G. exact I. }
  pose proof (c15_cache_transparent sp Hok hist a) as R.
  pose proof (c15_call_tables sp _ a Ha T) as T'.
  unfold c15_da_call. destruct (c15_call sp (c15_run sp c15_init hist) a) as [[built id] st'] eqn:E.
  simpl in R, T'. split; auto.
  apply Forall_forall. intros t Ht. apply in_map_iff in Ht. destruct Ht as (k & <- & Hk).
  (* after a cache=True call there is a cached object and it is what was returned *)
  assert (O : exists id', s_obj st' = Some (id', built)).
  { revert E. unfold c15_call. destruct (s_obj (c15_run sp c15_init hist)) as [[id0 b0]|] eqn:Eo.
    - destruct (negb (a_override a || _)).
      + destruct (k_copy sp); intros [= <- <- <-]; simpl; eauto.
      + unfold c15_build. rewrite Ha. intros [= <- <- <-]. simpl. eauto.
    - unfold c15_build. rewrite Ha. intros [= <- <- <-]. simpl. eauto. }
  destruct O as (id' & O). unfold c15_tables_inv in T'. rewrite O in T'. apply T'. apply Hr. assumption.
Qed.

Local Open Scope Z_scope.

(* in general the tables read back do not belong to the object returned: an uncached conversion
   in between overwrites them (code as written, PolyCollection and GeoDataFrame machines) *)
Lemma c15_da_stale_tables_refuted :
  (let '(built, tables, _) := c15_da_call c15_sp_poly c15_poly_read_tables
        (c15_run c15_sp_poly c15_init [c15_mk 1 7 true; c15_mk 1 0 false]) (c15_mk 1 7 true) in
   ~ Forall (fun t => t = built) tables) /\
  (let '(built, tables, _) := c15_da_call c15_sp_gdf c15_gdf_read_tables
        (c15_run c15_sp_gdf c15_init [c15_mk 1 7 true; c15_mk 1 0 false]) (c15_mk 1 7 true) in
   ~ Forall (fun t => t = built) tables).
Proof.
  vm_compute. split; intros H; inversion H as [|? ? E _]; discriminate.
Qed.

(* ------------------------------------------------------------------------- *)
(* E. returned objects are not altered by later conversions                    *)

Local Open Scope nat_scope.

Lemma c15_obj_get_addcol i j col o : i <> j -> c15_obj_get j (c15_obj_addcol i col o) = c15_obj_get j o.
Proof.
  intros Hne. induction o as [|[k [b cols]] o IH]; simpl; auto.
  destruct (Nat.eqb_spec i k) as [->|Hik]; simpl.
  - destruct (Nat.eqb_spec j k); [congruence|reflexivity].
  - destruct (Nat.eqb_spec j k); auto.
Qed.

(* all objects known so far were created before s_next *)
Definition c15_objs_inv (st : c15_state) (objs : c15_objs) : Prop :=
  (forall i c, c15_obj_get i objs = Some c -> i < s_next st) /\
  (match s_obj st with Some (id, _) => id < s_next st | None => True end).

Lemma c15_call_id sp st a :
  (match s_obj st with Some (id, _) => id < s_next st | None => True end) ->
  let '(built, id, st') := c15_call sp st a in
  s_next st <= s_next st' /\ id < s_next st' /\
  (match s_obj st' with Some (id', _) => id' < s_next st' | None => True end) /\
  (k_copy sp = true -> s_next st <= id).
Proof.
  intros Hc. unfold c15_call, c15_build.
  destruct (s_obj st) as [[id0 b0]|] eqn:Eo.
  - destruct (negb (a_override a || _)).
    + destruct (k_copy sp); simpl; rewrite ?Eo; repeat split; auto; try lia; discriminate.
    + destruct (a_cache a); destruct (k_copy sp); simpl; rewrite ?Eo; repeat split; auto; try lia; discriminate.
  - destruct (a_cache a); destruct (k_copy sp); simpl; rewrite ?Eo; repeat split; auto; try lia; discriminate.
Qed.

(* C15_noalias: when the conversion hands out copies (at the Grid or at the UxDataArray level), or
   nothing writes into handed-out objects, an object returned earlier keeps its content through
   every later history *)
Lemma c15_noalias_step sp writes copies st objs call :
  (writes = false \/ k_copy sp = true \/ copies = true) -> c15_objs_inv st objs ->
  let '(st', objs', id) := c15_step sp writes copies (st, objs) call in
  c15_objs_inv st' objs' /\ forall i c, c15_obj_get i objs = Some c -> c15_obj_get i objs' = Some c.
Proof.
  intros Hw [Hreg Hcached]. unfold c15_step.
  pose proof (c15_call_id sp st (snd call) Hcached) as CI.
  destruct (c15_call sp st (snd call)) as [[built id] st'] eqn:E.
  destruct CI as (Hmono & Hid & Hc' & Hfresh).
  set (objs1 := match c15_obj_get id objs with Some _ => objs | None => (id, (built, [])) :: objs end).
  assert (K1 : forall i c, c15_obj_get i objs = Some c -> c15_obj_get i objs1 = Some c).
  { intros i c Hi. unfold objs1. destruct (c15_obj_get id objs) eqn:Eg; auto.
    simpl. destruct (Nat.eqb_spec i id) as [->|Hne]; [congruence|assumption]. }
  assert (R1 : forall i c, c15_obj_get i objs1 = Some c -> i < s_next st').
  { intros i c Hi. unfold objs1 in Hi. destruct (c15_obj_get id objs) eqn:Eg.
    - apply Hreg in Hi. lia.
    - simpl in Hi. destruct (Nat.eqb_spec i id) as [->|Hne]; [assumption|]. apply Hreg in Hi. lia. }
  destruct (fst call) as [var|].
  - destruct copies.
    + (* the method works on a fresh copy *)
      split.
      * split; simpl.
        -- intros i c Hi. destruct (Nat.eqb_spec i (s_next st')) as [->|Hne]; [lia|].
           apply R1 in Hi. lia.
        -- destruct (s_obj st') as [[id' b']|]; auto.
      * intros i c Hi. simpl. destruct (Nat.eqb_spec i (s_next st')) as [->|Hne].
        -- apply K1 in Hi. apply R1 in Hi. lia.
        -- apply K1. assumption.
    + destruct writes.
      * destruct Hw as [Hw|[Hw|Hw]]; try discriminate. specialize (Hfresh Hw).
        split; [split; auto|].
        -- intros i c Hi. destruct (Nat.eq_dec id i) as [<-|Hne].
           ++ assumption.
           ++ rewrite c15_obj_get_addcol in Hi by assumption. eapply R1; eauto.
        -- intros i c Hi. rewrite c15_obj_get_addcol; [apply K1; assumption|].
           intros <-. apply Hreg in Hi. lia.
      * split; [split; auto|auto].
  - split; [split; auto|auto].
Qed.

Lemma c15_steps_cons sp w cp so c h :
  c15_steps sp w cp so (c :: h) = c15_steps sp w cp (fst (c15_step sp w cp so c)) h.
Proof. reflexivity. Qed.

Lemma c15_noalias_thm sp writes copies : (writes = false \/ k_copy sp = true \/ copies = true) ->
  forall hist st objs, c15_objs_inv st objs ->
  forall i c, c15_obj_get i objs = Some c ->
  c15_obj_get i (snd (c15_steps sp writes copies (st, objs) hist)) = Some c.
Proof.
  intros Hw. induction hist as [|call hist IH]; intros st objs Hinv i c Hi; [exact Hi|].
  rewrite c15_steps_cons.
  pose proof (c15_noalias_step sp writes copies st objs call Hw Hinv) as S.
  destruct (c15_step sp writes copies (st, objs) call) as [[st' objs'] id]. destruct S as [Hinv' Hk].
  cbn [fst]. apply IH; auto.
Qed.

Lemma c15_noalias_line : forall hist st objs, c15_objs_inv st objs ->
  forall i c, c15_obj_get i objs = Some c ->
  c15_obj_get i (snd (c15_steps c15_sp_line false false (st, objs) hist)) = Some c.
Proof. apply c15_noalias_thm. left; reflexivity. Qed.

Lemma c15_noalias_poly : forall hist st objs, c15_objs_inv st objs ->
  forall i c, c15_obj_get i objs = Some c ->
  c15_obj_get i (snd (c15_steps c15_sp_poly true false (st, objs) hist)) = Some c.
Proof. apply c15_noalias_thm. right. left. reflexivity. Qed.

(* GeoDataFrame: UxDataArray.to_geodataframe writes its column into a copy of the frame it
   received (flags regenerated from the source) *)
Lemma c15_noalias_gdf : forall hist st objs, c15_objs_inv st objs ->
  forall i c, c15_obj_get i objs = Some c ->
  c15_obj_get i (snd (c15_steps c15_sp_gdf c15_da_gdf_writes_column c15_da_gdf_copies (st, objs) hist)) = Some c.
Proof. apply c15_noalias_thm. right. right. reflexivity. Qed.

Local Open Scope Z_scope.

(* a method that wrote the column into the frame it received (cached, handed out) would alter
   earlier results: the generic machine with writes = true, copies = false *)
Lemma c15_noalias_nocopy_refuted : exists hist,
  let '(st1, objs1, id) := c15_step c15_sp_gdf true false (c15_init, []) (None, c15_mk 1 0 true) in
  c15_obj_get id (snd (c15_steps c15_sp_gdf true false (st1, objs1) hist)) <> c15_obj_get id objs1.
Proof. exists [(Some 5, c15_mk 1 0 true)]. vm_compute. discriminate. Qed.

(* the frame returned for a variable carries that variable's column only, whatever happened before *)
Lemma c15_gdf_columns : forall st objs var a,
  let '(st', objs', id) := c15_step c15_sp_gdf c15_da_gdf_writes_column c15_da_gdf_copies (st, objs) (Some var, a) in
  exists built, c15_obj_get id objs' = Some (built, [var]).
Proof.
  intros st objs var a. change c15_da_gdf_copies with true. change c15_da_gdf_writes_column with true.
  unfold c15_step. cbn [fst snd].
  destruct (c15_call c15_sp_gdf st a) as [[built id] st'].
  exists built. simpl. rewrite Nat.eqb_refl. reflexivity.
Qed.

(* ------------------------------------------------------------------------- *)
(* non-vacuity                                                                 *)

Example c15_am_nonvacuous :
  c15_crosses (c15_shell 5 [170000000; -170000000; -160000000]) = true /\
  c15_spans [170000000; -170000000; -160000000] = true /\
  c15_crosses (c15_shell 5 [10000000; 20000000; 15000000]) = false /\
  c15_am_faces 4 [[170000000; -170000000; -160000000]; [10000000; 20000000; 15000000]; [-100000000; 100000000; 0; 5]] = [0%nat; 2%nat].
Proof. vm_compute. repeat split; reflexivity. Qed.

Example c15_pipeline_nonvacuous :
  o_faces (c15_poly C15Exclude 4 [1%nat] (Some [(false, false); (false, false); (true, true); (false, false)]) [] [10; 20; 30; 40]) = [0%nat; 3%nat] /\
  o_data (c15_poly C15Exclude 4 [1%nat] (Some [(false, false); (false, false); (true, true); (false, false)]) [] [10; 20; 30; 40]) = [10; 40] /\
  o_faces (c15_poly C15Split 3 [1%nat] None [1%nat; 2%nat; 1%nat] [10; 20; 30]) = [0%nat; 1%nat; 1%nat; 2%nat] /\
  o_data (c15_poly C15Split 3 [1%nat] None [1%nat; 2%nat; 1%nat] [10; 20; 30]) = [10; 20; 20; 30] /\
  o_faces (c15_gdf C15Exclude 3 [0%nat] (Some [(false, false); (false, true); (false, false)]) [10; 20; 30]) = [2%nat].
Proof. vm_compute. repeat split; reflexivity. Qed.

Example c15_rows_nonvacuous :
  c15_faces_wf 4 [[170000000; -170000000; -160000000]; [10000000; 20000000; 15000000; 12000000]] /\
  c15_rows C15Split 4 [[170000000; -170000000; -160000000]; [10000000; 20000000; 15000000; 12000000]] [2%nat; 1%nat] = [0%nat; 0%nat; 1%nat] /\
  c15_rows C15Exclude 4 [[170000000; -170000000; -160000000]; [10000000; 20000000; 15000000; 12000000]] [2%nat; 1%nat] = [1%nat] /\
  c15_offset [2%nat; 1%nat; 3%nat] 2 = 3%nat /\
  nth (c15_offset [2%nat; 1%nat; 3%nat] 2 + 1) (c15_split_map [2%nat; 1%nat; 3%nat]) 0%nat = 2%nat /\
  t_am (c15_poly_tables C15Exclude 4 [[170000000; -170000000; -160000000]; [10000000; 20000000; 15000000; 12000000]] None [2%nat; 1%nat]) = [0%nat] /\
  t_c2o (c15_poly_tables C15Exclude 4 [[170000000; -170000000; -160000000]; [10000000; 20000000; 15000000; 12000000]] None [2%nat; 1%nat]) = [1%nat].
Proof.
  split.
  - intros c [<-|[<-|[]]]; split; simpl; try discriminate; lia.
  - vm_compute. repeat split; reflexivity.
Qed.

Example c15_split_site_nonvacuous :
  c15_effective_pieces 4 [[170000000; -170000000; -160000000]; [10000000; 20000000; 15000000; 12000000]] [2%nat; 3%nat] = [2%nat; 1%nat] /\
  o_faces (c15_poly_full C15Split 4 [[170000000; -170000000; -160000000]; [10000000; 20000000; 15000000; 12000000]] None [2%nat; 3%nat] [7; 8])
    = [0%nat; 0%nat; 1%nat].
Proof. vm_compute. split; reflexivity. Qed.

Example c15_cache_nonvacuous :
  fst (fst (c15_call c15_sp_line (c15_run c15_sp_line c15_init [c15_mk 1 7 true]) (c15_mk 1 0 true))) = [1; 0] /\
  snd (fst (c15_call c15_sp_line (c15_run c15_sp_line c15_init [c15_mk 1 7 true]) (c15_mk 1 7 true))) = 2%nat /\
  snd (fst (c15_call c15_sp_poly (c15_run c15_sp_poly c15_init [c15_mk 1 7 true]) (c15_mk 1 7 true))) = 2%nat.
Proof. vm_compute. repeat split; reflexivity. Qed.
