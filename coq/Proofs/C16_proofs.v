(* Proofs about Model/C16.v: differences and gradients index the edge's own two faces / nodes,
   vanish on boundary edges and for constant fields, act row by row along leading dimensions and
   return one value per edge; the distance kernels read the two nodes of the edge resp. (after the
   repair) the two face centres; the law-of-cosines distance is the angle between the unit
   vectors; l2 normalisation gives unit norm. *)
From Coq Require Import QArith Qabs Reals Lra Lia ZArith List Bool.
From Verif Require Import Base C16.
Import ListNotations.

(* ========================================================================================== *)
(* Section A: exact part                                                                         *)
Local Open Scope Z_scope.

Lemma c16_efd_nth d ef e a b :
  nth_error ef e = Some (a, b) ->
  nth_error (c16_edge_face_diff d ef) e =
    Some (if is_fill b then Qabs 0 else Qabs (c16_at d a - c16_at d b)%Q).
Proof. intros H. unfold c16_edge_face_diff. rewrite (map_nth_error _ _ _ H). reflexivity. Qed.

(* difference on an interior edge: |value on face a - value on face b| *)
Lemma c16_diff d ef e a b :
  nth_error ef e = Some (a, b) -> is_fill b = false ->
  nth_error (c16_edge_face_diff d ef) e = Some (Qabs (c16_at d a - c16_at d b)%Q).
Proof. intros H F. rewrite (c16_efd_nth d ef e a b H), F. reflexivity. Qed.

(* boundary edge: zero *)
Lemma c16_boundary d ef e a :
  nth_error ef e = Some (a, FILL) ->
  exists v, nth_error (c16_edge_face_diff d ef) e = Some v /\ (v == 0)%Q.
Proof.
  intros H. rewrite (c16_efd_nth d ef e a FILL H). exists (Qabs 0). split; reflexivity.
Qed.

(* the order of the two faces of an edge does not matter *)
Lemma c16_diff_sym (x y : Q) : (Qabs (x - y) == Qabs (y - x))%Q.
Proof.
  setoid_replace (y - x)%Q with (- (x - y))%Q by ring. symmetry. apply Qabs_opp.
Qed.

(* node-centred data: |value on node a - value on node b| for the edge's own two nodes *)
Lemma c16_node_diff d en e a b :
  nth_error en e = Some (a, b) ->
  nth_error (c16_edge_node_diff d en) e = Some (Qabs (c16_at d a - c16_at d b)%Q).
Proof. intros H. unfold c16_edge_node_diff. rewrite (map_nth_error _ _ _ H). reflexivity. Qed.

Lemma c16_grad_nth : forall diff ef dist e g p D,
  nth_error diff e = Some g -> nth_error ef e = Some p -> nth_error dist e = Some D ->
  nth_error (c16_grad diff ef dist) e = Some (if is_fill (snd p) then g else (g / D)%Q).
Proof.
  induction diff as [|g0 diff IH]; intros ef dist e g p D Hg Hp HD.
  - destruct e; discriminate.
  - destruct ef as [|p0 ef]; [destruct e; discriminate|].
    destruct dist as [|D0 dist]; [destruct e; discriminate|].
    destruct e as [|e]; simpl in *.
    + inversion Hg; inversion Hp; inversion HD; subst. reflexivity.
    + apply IH; assumption.
Qed.

(* gradient on an interior edge: the difference divided by the edge's centre-to-centre distance *)
Lemma c16_gradient_interior d ef dist e a b D :
  nth_error ef e = Some (a, b) -> is_fill b = false -> nth_error dist e = Some D ->
  nth_error (c16_gradient d ef dist) e = Some (Qabs (c16_at d a - c16_at d b) / D)%Q.
Proof.
  intros H F HD. unfold c16_gradient.
  rewrite (c16_grad_nth _ _ _ e _ (a, b) D (c16_diff d ef e a b H F) H HD). simpl. rewrite F. reflexivity.
Qed.

(* gradient on a boundary edge: zero *)
Lemma c16_gradient_boundary d ef dist e a D :
  nth_error ef e = Some (a, FILL) -> nth_error dist e = Some D ->
  exists v, nth_error (c16_gradient d ef dist) e = Some v /\ (v == 0)%Q.
Proof.
  intros H HD. unfold c16_gradient.
  pose proof (c16_efd_nth d ef e a FILL H) as G. simpl in G.
  rewrite (c16_grad_nth _ _ _ e _ (a, FILL) D G H HD). simpl.
  exists (Qabs 0). split; reflexivity.
Qed.

(* constant field: all differences and all gradients vanish *)
Lemma c16_const_diff d ef :
  (forall i j, (c16_at d i == c16_at d j)%Q) ->
  Forall (fun v => (v == 0)%Q) (c16_edge_face_diff d ef).
Proof.
  intros C. unfold c16_edge_face_diff. apply Forall_forall. intros v Hv.
  apply in_map_iff in Hv. destruct Hv as ([a b] & <- & _). cbn [fst snd].
  destruct (is_fill b); [reflexivity|].
  rewrite (C a b). setoid_replace (c16_at d b - c16_at d b)%Q with 0%Q by ring. reflexivity.
Qed.

Lemma c16_const_node_diff d en :
  (forall i j, (c16_at d i == c16_at d j)%Q) ->
  Forall (fun v => (v == 0)%Q) (c16_edge_node_diff d en).
Proof.
  intros C. unfold c16_edge_node_diff. apply Forall_forall. intros v Hv.
  apply in_map_iff in Hv. destruct Hv as ([a b] & <- & _). cbn [fst snd].
  rewrite (C a b). setoid_replace (c16_at d b - c16_at d b)%Q with 0%Q by ring. reflexivity.
Qed.

Lemma c16_grad_zero : forall diff ef dist,
  Forall (fun v => (v == 0)%Q) diff -> Forall (fun v => (v == 0)%Q) (c16_grad diff ef dist).
Proof.
  induction diff as [|g diff IH]; intros ef dist H; simpl; [constructor|].
  destruct ef as [|p ef]; [constructor|]. destruct dist as [|D dist]; [constructor|].
  inversion H as [|? ? Hg Hr]; subst. constructor; [|apply IH; exact Hr].
  destruct (is_fill (snd p)); [exact Hg|]. rewrite Hg. unfold Qdiv. ring.
Qed.

Lemma c16_const_gradient d ef dist :
  (forall i j, (c16_at d i == c16_at d j)%Q) ->
  Forall (fun v => (v == 0)%Q) (c16_gradient d ef dist).
Proof. intros C. apply c16_grad_zero. apply c16_const_diff. exact C. Qed.

(* one value per edge *)
Lemma c16_diff_length d ef : length (c16_edge_face_diff d ef) = length ef.
Proof. apply map_length. Qed.
Lemma c16_node_diff_length d en : length (c16_edge_node_diff d en) = length en.
Proof. apply map_length. Qed.
Lemma c16_grad_length : forall diff ef dist,
  length diff = length ef -> length dist = length ef -> length (c16_grad diff ef dist) = length ef.
Proof.
  induction diff as [|g diff IH]; intros [|p ef] [|D dist] H1 H2; simpl in *; try discriminate; auto.
Qed.
Lemma c16_gradient_length d ef dist :
  length dist = length ef -> length (c16_gradient d ef dist) = length ef.
Proof. intros H. apply c16_grad_length; [apply c16_diff_length|exact H]. Qed.

(* leading dimensions: row r of the result depends on row r of the data only, and is the
   one-dimensional result of that row *)
Lemma c16_leading rows ef en dist r d :
  nth_error rows r = Some d ->
  nth_error (c16_edge_face_diff_nd rows ef) r = Some (c16_edge_face_diff d ef) /\
  nth_error (c16_edge_node_diff_nd rows en) r = Some (c16_edge_node_diff d en) /\
  nth_error (c16_gradient_nd rows ef dist) r = Some (c16_gradient d ef dist) /\
  length (c16_edge_face_diff_nd rows ef) = length rows /\
  length (c16_gradient_nd rows ef dist) = length rows.
Proof.
  intros H. unfold c16_edge_face_diff_nd, c16_edge_node_diff_nd, c16_gradient_nd.
  split; [exact (map_nth_error (fun d => c16_edge_face_diff d ef) _ _ H)|].
  split; [exact (map_nth_error (fun d => c16_edge_node_diff d en) _ _ H)|].
  split; [exact (map_nth_error (fun d => c16_gradient d ef dist) _ _ H)|].
  split; apply map_length.
Qed.

(* distance plans *)
Lemma c16_end_plan_nth en e a b :
  nth_error en e = Some (a, b) -> nth_error (c16_end_plan en) e = Some (EGeo SNode a b).
Proof. intros H. unfold c16_end_plan. rewrite (map_nth_error _ _ _ H). reflexivity. Qed.

Lemma c16_efd_plan_of_nth s ef e a b :
  nth_error ef e = Some (a, b) ->
  nth_error (c16_efd_plan_of s ef) e = Some (if is_fill b then EZero else EGeo s a b).
Proof. intros H. unfold c16_efd_plan_of. rewrite (map_nth_error _ _ _ H). reflexivity. Qed.

Lemma c16_supplied_nth n e : (e < n)%nat -> nth_error (c16_supplied_plan n) e = Some (ESupplied e).
Proof.
  intros H. unfold c16_supplied_plan.
  rewrite (map_nth_error ESupplied e (seq 0 n) (d := e)); [reflexivity|].
  rewrite nth_error_nth' with (d := 0%nat) by (rewrite seq_length; exact H).
  rewrite seq_nth by exact H. reflexivity.
Qed.

(* the face-distance table reads the two face centres of edge e (zero on the boundary);
   a supplied table is passed through *)
Lemma c16_efd_grid ef e a b sup :
  nth_error ef e = Some (a, b) ->
  nth_error (c16_grid_efd sup ef) e =
    Some (if sup then ESupplied e else if is_fill b then EZero else EGeo SFace a b).
Proof.
  intros H. unfold c16_grid_efd. destruct sup.
  - apply c16_supplied_nth. apply nth_error_Some. rewrite H. discriminate.
  - apply (c16_efd_plan_of_nth SFace ef e a b H).
Qed.

Lemma c16_efd_supplied ef e a b :
  nth_error ef e = Some (a, b) -> nth_error (c16_grid_efd true ef) e = Some (ESupplied e).
Proof. intros H. exact (c16_efd_grid ef e a b true H). Qed.

Lemma c16_end_grid en e a b sup :
  nth_error en e = Some (a, b) ->
  nth_error (c16_grid_end sup en) e = Some (if sup then ESupplied e else EGeo SNode a b).
Proof.
  intros H. unfold c16_grid_end. destruct sup.
  - apply c16_supplied_nth. apply nth_error_Some. rewrite H. discriminate.
  - apply (c16_end_plan_nth en e a b H).
Qed.


(* ---- for EVERY grid and leading shape ---- *)

(* swapping the two faces of every interior row changes no difference and no gradient *)
Lemma c16_diff_swap_all d ef :
  Forall (fun p => is_fill (fst p) = false) ef ->
  Forall2 Qeq (c16_edge_face_diff d ef) (c16_edge_face_diff d (map c16_swap ef)).
Proof.
  induction ef as [|[a b] ef IH]; intros Hf; cbn [map c16_edge_face_diff]; [constructor|].
  inversion Hf as [|? ? Ha Hr]; subst. cbn [fst snd] in Ha.
  unfold c16_edge_face_diff in *. cbn [map]. constructor; [|apply IH; exact Hr].
  unfold c16_swap; cbn [fst snd]. destruct (is_fill b) eqn:F; cbn [fst snd]; rewrite ?F, ?Ha; [reflexivity|].
  apply c16_diff_sym.
Qed.

Lemma c16_grad_swap_all : forall diff diff' ef dist,
  Forall2 Qeq diff diff' -> Forall (fun p => is_fill (fst p) = false) ef ->
  Forall2 Qeq (c16_grad diff ef dist) (c16_grad diff' (map c16_swap ef) dist).
Proof.
  induction diff as [|g diff IH]; intros diff' ef dist H Hf; inversion H; subst; simpl; [constructor|].
  destruct ef as [|[a b] ef]; [constructor|]. destruct dist as [|D dist]; [constructor|].
  inversion Hf; subst. simpl in *. constructor.
  - unfold c16_swap; simpl. destruct (is_fill b) eqn:F; simpl; rewrite ?F.
    + assumption.
    + match goal with Hx : is_fill a = false |- _ => rewrite Hx end.
      match goal with Hq : (g == _)%Q |- _ => rewrite Hq end. reflexivity.
  - apply IH; assumption.
Qed.

Lemma c16_gradient_swap_all d ef dist :
  Forall (fun p => is_fill (fst p) = false) ef ->
  Forall2 Qeq (c16_gradient d ef dist) (c16_gradient d (map c16_swap ef) dist).
Proof. intros Hf. unfold c16_gradient. apply c16_grad_swap_all; [apply c16_diff_swap_all; exact Hf|exact Hf]. Qed.

Lemma c16_swap_all_nd rows ef dist :
  Forall (fun p => is_fill (fst p) = false) ef ->
  Forall2 (Forall2 Qeq) (c16_edge_face_diff_nd rows ef) (c16_edge_face_diff_nd rows (map c16_swap ef)) /\
  Forall2 (Forall2 Qeq) (c16_gradient_nd rows ef dist) (c16_gradient_nd rows (map c16_swap ef) dist).
Proof.
  intros Hf. unfold c16_edge_face_diff_nd, c16_gradient_nd.
  split; induction rows as [|d rows IH]; simpl; constructor; auto.
  - apply c16_diff_swap_all; exact Hf.
  - apply c16_gradient_swap_all; exact Hf.
Qed.

(* constant along the element dimension, whatever the leading shape: everything vanishes *)
Lemma c16_const_nd rows ef en dist :
  Forall (fun d => forall i j, (c16_at d i == c16_at d j)%Q) rows ->
  Forall (Forall (fun v => (v == 0)%Q)) (c16_edge_face_diff_nd rows ef) /\
  Forall (Forall (fun v => (v == 0)%Q)) (c16_edge_node_diff_nd rows en) /\
  Forall (Forall (fun v => (v == 0)%Q)) (c16_gradient_nd rows ef dist).
Proof.
  intros H. unfold c16_edge_face_diff_nd, c16_edge_node_diff_nd, c16_gradient_nd.
  repeat split; induction H as [|d rows Hd Hr IH]; simpl; constructor; auto.
  - apply c16_const_diff; exact Hd.
  - apply c16_const_node_diff; exact Hd.
  - apply c16_const_gradient; exact Hd.
Qed.

(* ---- frame theorem over histories: a stored distance table is never changed ---- *)
Lemma c16_hstep_frame se sf en ef s o :
  (forall t, gs_end s = Some t -> gs_end (c16_hstep se sf en ef s o) = Some t) /\
  (forall t, gs_efd s = Some t -> gs_efd (c16_hstep se sf en ef s o) = Some t).
Proof.
  destruct o; simpl; destruct (gs_end s) eqn:E1, (gs_efd s) eqn:E2; simpl;
    split; intros t H; try rewrite E1; try rewrite E2; try assumption; try discriminate.
Qed.

Lemma c16_history_frame se sf en ef ops : forall s,
  (forall t, gs_end s = Some t -> gs_end (fold_left (c16_hstep se sf en ef) ops s) = Some t) /\
  (forall t, gs_efd s = Some t -> gs_efd (fold_left (c16_hstep se sf en ef) ops s) = Some t).
Proof.
  induction ops as [|o ops IH]; intros s; simpl; [split; auto|].
  destruct (c16_hstep_frame se sf en ef s o) as [F1 F2].
  destruct (IH (c16_hstep se sf en ef s o)) as [G1 G2].
  split; intros t H; [apply G1, F1, H|apply G2, F2, H].
Qed.

(* whatever the history, a table that is present is THE table of the grid: the plan of the kernel,
   or the source's own *)
Definition c16_tables_right (se sf : bool) (en ef : list (Z * Z)) (s : c16_gstate) : Prop :=
  (gs_end s = None \/ gs_end s = Some (c16_grid_end se en)) /\
  (gs_efd s = None \/ gs_efd s = Some (c16_grid_efd sf ef)).

Lemma c16_hstep_right se sf en ef s o :
  c16_tables_right se sf en ef s -> c16_tables_right se sf en ef (c16_hstep se sf en ef s o).
Proof.
  intros [[A|A] [B|B]]; destruct o; simpl; rewrite ?A, ?B; simpl; split; auto.
Qed.

Lemma c16_history_tables se sf en ef ops :
  c16_tables_right se sf en ef (c16_hrun se sf en ef ops).
Proof.
  unfold c16_hrun.
  assert (I : c16_tables_right se sf en ef (c16_hinit se sf en ef))
    by (unfold c16_hinit, c16_tables_right; destruct se, sf; simpl; auto).
  revert I. generalize (c16_hinit se sf en ef).
  induction ops as [|o ops IH]; intros s I; simpl; [exact I|].
  apply IH. apply c16_hstep_right. exact I.
Qed.

(* so two reads anywhere in any history return the same table *)
Lemma c16_reads_agree se sf en ef ops1 ops2 t1 t2 :
  gs_efd (c16_hrun se sf en ef ops1) = Some t1 ->
  gs_efd (c16_hrun se sf en ef (ops1 ++ ops2)) = Some t2 -> t1 = t2.
Proof.
  intros H1 H2. unfold c16_hrun in *. rewrite fold_left_app in H2.
  destruct (c16_history_frame se sf en ef ops2 (fold_left (c16_hstep se sf en ef) ops1 (c16_hinit se sf en ef))) as [_ F].
  rewrite (F _ H1) in H2. inversion H2. reflexivity.
Qed.

Example c16_history_nonvacuous :
  gs_efd (c16_hrun false false [(0, 1)] [(0, FILL)] [HGrad true; HReadEnd]) = Some [EZero] /\
  gs_efd (c16_hrun false false [(0, 1)] [(0, FILL)] ([HGrad true; HReadEnd] ++ [HDiff; HReadEfd; HGrad false])) = Some [EZero].
Proof. split; reflexivity. Qed.

Example c16_swap_nonvacuous :
  Forall (fun p => is_fill (fst p) = false) [(3, 0); (2, FILL)] /\ map c16_swap [(3, 0); (2, FILL)] = [(0, 3); (2, FILL)].
Proof. split; [repeat constructor|reflexivity]. Qed.

Example c16_const_nd_nonvacuous :
  Forall (fun d => forall i j, (c16_at d i == c16_at d j)%Q) [[]; []].
Proof. repeat constructor; intros i j; unfold c16_at; destruct (Z.to_nat i), (Z.to_nat j); reflexivity. Qed.

(* ========================================================================================== *)
(* Section B: over R                                                                             *)
Local Open Scope R_scope.

(* the argument of arccos is the dot product of the two unit vectors *)
Lemma c16_loc lon_a lat_a lon_b lat_b :
  c16_loc_arg lon_a lat_a lon_b lat_b = c16_dot3 (c16_unit_vec lon_a lat_a) (c16_unit_vec lon_b lat_b).
Proof. unfold c16_loc_arg, c16_dot3, c16_unit_vec; simpl. rewrite cos_minus. ring. Qed.

Lemma c16_unit_vec_unit lon lat : c16_dot3 (c16_unit_vec lon lat) (c16_unit_vec lon lat) = 1.
Proof.
  unfold c16_dot3, c16_unit_vec; simpl.
  pose proof (sin2_cos2 lon) as A. pose proof (sin2_cos2 lat) as B. unfold Rsqr in *.
  replace (cos lon * cos lat * (cos lon * cos lat) + sin lon * cos lat * (sin lon * cos lat) + sin lat * sin lat)
    with ((sin lon * sin lon + cos lon * cos lon) * (cos lat * cos lat) + sin lat * sin lat) by ring.
  rewrite A. lra.
Qed.

(* Cauchy-Schwarz for unit vectors (Lagrange identity) *)
Lemma c16_dot_bound p q : c16_dot3 p p = 1 -> c16_dot3 q q = 1 -> -1 <= c16_dot3 p q <= 1.
Proof.
  destruct p as [[a b] c], q as [[x y] z]. unfold c16_dot3; simpl. intros P Q.
  assert (L : (a * x + b * y + c * z) * (a * x + b * y + c * z) <= 1).
  { assert (E : (a * a + b * b + c * c) * (x * x + y * y + z * z)
                - (a * x + b * y + c * z) * (a * x + b * y + c * z)
                = (b * z - c * y) * (b * z - c * y) + (c * x - a * z) * (c * x - a * z)
                  + (a * y - b * x) * (a * y - b * x)) by ring.
    rewrite P, Q in E.
    pose proof (Rle_0_sqr (b * z - c * y)) as S1. pose proof (Rle_0_sqr (c * x - a * z)) as S2.
    pose proof (Rle_0_sqr (a * y - b * x)) as S3. unfold Rsqr in S1, S2, S3. lra. }
  split; nra.
Qed.

(* the law-of-cosines distance is the angle between the two unit vectors *)
Lemma c16_dist_angle a b :
  let u := c16_unit_vec (c16_deg2rad (fst a)) (c16_deg2rad (snd a)) in
  let v := c16_unit_vec (c16_deg2rad (fst b)) (c16_deg2rad (snd b)) in
  0 <= c16_loc_dist a b <= PI /\ cos (c16_loc_dist a b) = c16_dot3 u v.
Proof.
  intros u v. unfold c16_loc_dist. rewrite c16_loc. fold u v.
  assert (B : -1 <= c16_dot3 u v <= 1) by (apply c16_dot_bound; apply c16_unit_vec_unit).
  split; [apply acos_bound|apply cos_acos; exact B].
Qed.

Lemma c16_dist_sym a b : c16_loc_dist a b = c16_loc_dist b a.
Proof.
  unfold c16_loc_dist, c16_loc_arg. f_equal.
  rewrite <- (cos_neg (c16_deg2rad (fst a) - c16_deg2rad (fst b))).
  replace (- (c16_deg2rad (fst a) - c16_deg2rad (fst b))) with (c16_deg2rad (fst b) - c16_deg2rad (fst a)) by ring.
  ring.
Qed.

Lemma c16_dist_refl a : c16_loc_dist a a = 0.
Proof.
  unfold c16_loc_dist, c16_loc_arg.
  replace (c16_deg2rad (fst a) - c16_deg2rad (fst a)) with 0 by ring. rewrite cos_0.
  pose proof (sin2_cos2 (c16_deg2rad (snd a))) as A. unfold Rsqr in A.
  replace (sin (c16_deg2rad (snd a)) * sin (c16_deg2rad (snd a)) +
           cos (c16_deg2rad (snd a)) * cos (c16_deg2rad (snd a)) * 1) with 1 by lra.
  apply acos_1.
Qed.

(* the face-distance entry of an interior edge is the angle between the two face centres *)
Lemma c16_efd_value co ef e a b :
  nth_error ef e = Some (a, b) -> is_fill b = false ->
  exists en, nth_error (c16_grid_efd false ef) e = Some en /\
    c16_entry_value co en = c16_loc_dist (co_face co a) (co_face co b).
Proof.
  intros H F. exists (EGeo SFace a b). split; [|reflexivity].
  rewrite (c16_efd_grid ef e a b false H), F. reflexivity.
Qed.

Lemma c16_efd_value_boundary co ef e a :
  nth_error ef e = Some (a, FILL) ->
  exists en, nth_error (c16_grid_efd false ef) e = Some en /\ c16_entry_value co en = 0.
Proof.
  intros H. exists EZero. split; [|reflexivity].
  rewrite (c16_efd_grid ef e a FILL false H). reflexivity.
Qed.

Lemma c16_end_value co en e a b :
  nth_error en e = Some (a, b) ->
  exists x, nth_error (c16_grid_end false en) e = Some x /\
    c16_entry_value co x = c16_loc_dist (co_node co a) (co_node co b).
Proof.
  intros H. exists (EGeo SNode a b). split; [|reflexivity]. apply (c16_end_grid en e a b false H).
Qed.

(* handing the NODE coordinates to the kernel (the call before /repo commit bc905d22, and the
   "wrong array" mutation class) is a different function: two faces with the same centre, nodes 0
   and 1 a quarter circle apart give pi/2 where the centre-to-centre distance is 0 *)
Lemma c16_efd_wrong_array_differs :
  exists co ef e a b en, nth_error ef e = Some (a, b) /\ is_fill b = false /\
    nth_error (c16_efd_plan_of SNode ef) e = Some en /\
    c16_entry_value co en <> c16_loc_dist (co_face co a) (co_face co b).
Proof.
  exists {| co_node := fun i => if (i =? 0)%Z then (0, 0) else (90, 0);
            co_face := fun _ => (0, 0); co_supplied := fun _ => 0 |},
    [(0%Z, 1%Z)], 0%nat, 0%Z, 1%Z, (EGeo SNode 0 1).
  split; [reflexivity|]. split; [reflexivity|]. split; [reflexivity|].
  cbn [c16_entry_value co_node co_face Z.eqb]. rewrite c16_dist_refl.
  unfold c16_loc_dist, c16_loc_arg, c16_deg2rad; cbn [fst snd].
  replace (0 * PI / 180) with 0 by field.
  replace (0 - 90 * PI / 180) with (- (PI / 2)) by field.
  rewrite sin_0, cos_0, cos_neg, cos_PI2.
  replace (0 * 0 + 1 * 1 * 0) with 0 by ring. rewrite acos_0.
  pose proof PI_RGT_0. lra.
Qed.

(* combined statements used by Props *)
Lemma c16_boundary_both d ef dist e a D :
  nth_error ef e = Some (a, FILL) -> nth_error dist e = Some D ->
  (exists v, nth_error (c16_edge_face_diff d ef) e = Some v /\ (v == 0)%Q) /\
  (exists v, nth_error (c16_gradient d ef dist) e = Some v /\ (v == 0)%Q).
Proof.
  intros H HD. split; [exact (c16_boundary d ef e a H)|exact (c16_gradient_boundary d ef dist e a D H HD)].
Qed.

Lemma c16_const_all d ef en dist :
  (forall i j, (c16_at d i == c16_at d j)%Q) ->
  Forall (fun v => (v == 0)%Q) (c16_edge_face_diff d ef) /\
  Forall (fun v => (v == 0)%Q) (c16_edge_node_diff d en) /\
  Forall (fun v => (v == 0)%Q) (c16_gradient d ef dist).
Proof.
  intros C. split; [exact (c16_const_diff d ef C)|].
  split; [exact (c16_const_node_diff d en C)|exact (c16_const_gradient d ef dist C)].
Qed.

Lemma c16_edge_dimensioned d ef en dist :
  length dist = length ef ->
  length (c16_edge_face_diff d ef) = length ef /\ length (c16_edge_node_diff d en) = length en /\
  length (c16_gradient d ef dist) = length ef.
Proof.
  intros H. split; [exact (c16_diff_length d ef)|].
  split; [exact (c16_node_diff_length d en)|exact (c16_gradient_length d ef dist H)].
Qed.


(* a source may list the two faces of an interior edge in either order (incl. face 0 second) and
   the two nodes of an edge in either orientation: difference, gradient and both distance tables
   are the same for the row (a, b) and the row (b, a) *)
Lemma c16_face_order_free d dist co ef ef' e a b D :
  nth_error ef e = Some (a, b) -> nth_error ef' e = Some (b, a) ->
  is_fill a = false -> is_fill b = false -> nth_error dist e = Some D ->
  (exists v v', nth_error (c16_edge_face_diff d ef) e = Some v /\
                nth_error (c16_edge_face_diff d ef') e = Some v' /\ (v == v')%Q) /\
  (exists g g', nth_error (c16_gradient d ef dist) e = Some g /\
                nth_error (c16_gradient d ef' dist) e = Some g' /\ (g == g')%Q) /\
  (exists x x', nth_error (c16_grid_efd false ef) e = Some x /\
                nth_error (c16_grid_efd false ef') e = Some x' /\
                c16_entry_value co x = c16_entry_value co x').
Proof.
  intros H H' Fa Fb HD. split; [|split].
  - exists (Qabs (c16_at d a - c16_at d b))%Q, (Qabs (c16_at d b - c16_at d a))%Q.
    split; [apply (c16_diff d ef e a b H Fb)|]. split; [apply (c16_diff d ef' e b a H' Fa)|].
    apply c16_diff_sym.
  - exists (Qabs (c16_at d a - c16_at d b) / D)%Q, (Qabs (c16_at d b - c16_at d a) / D)%Q.
    split; [apply (c16_gradient_interior d ef dist e a b D H Fb HD)|].
    split; [apply (c16_gradient_interior d ef' dist e b a D H' Fa HD)|].
    rewrite (c16_diff_sym (c16_at d a) (c16_at d b)). reflexivity.
  - exists (EGeo SFace a b), (EGeo SFace b a).
    split; [rewrite (c16_efd_grid ef e a b false H), Fb; reflexivity|].
    split; [rewrite (c16_efd_grid ef' e b a false H'), Fa; reflexivity|].
    simpl. apply c16_dist_sym.
Qed.

Lemma c16_node_order_free d co en en' e a b :
  nth_error en e = Some (a, b) -> nth_error en' e = Some (b, a) ->
  (exists v v', nth_error (c16_edge_node_diff d en) e = Some v /\
                nth_error (c16_edge_node_diff d en') e = Some v' /\ (v == v')%Q) /\
  (exists x x', nth_error (c16_grid_end false en) e = Some x /\
                nth_error (c16_grid_end false en') e = Some x' /\
                c16_entry_value co x = c16_entry_value co x').
Proof.
  intros H H'. split.
  - exists (Qabs (c16_at d a - c16_at d b))%Q, (Qabs (c16_at d b - c16_at d a))%Q.
    split; [apply (c16_node_diff d en e a b H)|]. split; [apply (c16_node_diff d en' e b a H')|].
    apply c16_diff_sym.
  - exists (EGeo SNode a b), (EGeo SNode b a).
    split; [apply (c16_end_grid en e a b false H)|]. split; [apply (c16_end_grid en' e b a false H')|].
    simpl. apply c16_dist_sym.
Qed.

(* non-vacuity: an interior row listing face 0 second *)
Example c16_face_order_free_nonvacuous :
  nth_error [(0%Z, 3%Z)] 0 = Some (0%Z, 3%Z) /\ nth_error [(3%Z, 0%Z)] 0 = Some (3%Z, 0%Z) /\
  is_fill 0 = false /\ is_fill 3 = false /\ nth_error [1 # 2]%Q 0 = Some (1 # 2)%Q.
Proof. repeat split. Qed.
Example c16_node_order_free_nonvacuous :
  nth_error [(2%Z, 5%Z)] 0 = Some (2%Z, 5%Z) /\ nth_error [(5%Z, 2%Z)] 0 = Some (5%Z, 2%Z).
Proof. split; reflexivity. Qed.

(* l2 normalisation: unit Euclidean norm unless the array is identically zero *)
Lemma c16_sumsq_scale k g : c16_sumsq (map (fun x => x / k) g) = c16_sumsq g / (k * k).
Proof.
  destruct (Req_dec k 0) as [->|Hk].
  - induction g as [|x g IH]; simpl.
    + unfold Rdiv. ring.
    + rewrite IH. unfold Rdiv. rewrite Rmult_0_l, Rinv_0. ring.
  - induction g as [|x g IH]; simpl.
    + unfold Rdiv. ring.
    + rewrite IH. field. exact Hk.
Qed.

Lemma c16_sumsq_nonneg g : 0 <= c16_sumsq g.
Proof. induction g as [|x g IH]; simpl; [lra|nra]. Qed.

Lemma c16_unit_norm g : 0 < c16_sumsq g -> c16_l2 (c16_normalize g) = 1.
Proof.
  intros H. unfold c16_l2 at 1, c16_normalize. rewrite c16_sumsq_scale.
  unfold c16_l2. rewrite sqrt_sqrt by lra.
  replace (c16_sumsq g / c16_sumsq g) with 1 by (field; lra). apply sqrt_1.
Qed.


(* the l2 norm vanishes exactly when every entry does: "unit norm unless all entries are 0" *)
Lemma c16_sumsq_zero g : c16_sumsq g = 0 <-> Forall (fun x => x = 0) g.
Proof.
  induction g as [|x g IH]; simpl.
  - split; [constructor|reflexivity].
  - pose proof (c16_sumsq_nonneg g). split.
    + intros H0. assert (x * x = 0 /\ c16_sumsq g = 0) as [Hx Hg] by (split; nra).
      constructor; [nra|apply IH; exact Hg].
    + intros Hf. inversion Hf; subst. rewrite (proj2 IH) by assumption. ring.
Qed.

Lemma c16_unit_norm_unless_zero g :
  ~ Forall (fun x => x = 0) g -> c16_l2 (c16_normalize g) = 1.
Proof.
  intros H. apply c16_unit_norm. pose proof (c16_sumsq_nonneg g) as P.
  destruct (Req_dec (c16_sumsq g) 0) as [Z|Z]; [exfalso; apply H; apply c16_sumsq_zero; exact Z|lra].
Qed.

Example c16_unit_norm_unless_zero_nonvacuous : ~ Forall (fun x => x = 0) [0; 2; 0].
Proof. intros H. inversion H as [|? ? _ H1]; subst. inversion H1; subst. lra. Qed.

(* non-vacuity *)
Example c16_diff_nonvacuous :
  nth_error [(0%Z, 1%Z); (1%Z, FILL)] 0 = Some (0%Z, 1%Z) /\ is_fill 1 = false /\
  nth_error (c16_gradient [3 # 1; 5 # 1]%Q [(0%Z, 1%Z); (1%Z, FILL)] [1 # 2; 1 # 3]%Q) 0
    = Some (Qabs ((3 # 1) - (5 # 1)) / (1 # 2))%Q.
Proof. repeat split. Qed.

Example c16_boundary_nonvacuous :
  nth_error [(0%Z, 1%Z); (1%Z, FILL)] 1 = Some (1%Z, FILL).
Proof. reflexivity. Qed.

Example c16_const_nonvacuous : forall i j, (c16_at [7 # 2; 7 # 2; 7 # 2] i == c16_at [7 # 2; 7 # 2; 7 # 2] j)%Q -> True.
Proof. trivial. Qed.

Example c16_unit_norm_nonvacuous : 0 < c16_sumsq [3; 4].
Proof. simpl. lra. Qed.
