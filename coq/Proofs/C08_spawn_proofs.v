From Verif Require Import Base C08 C08_proofs C08_spawn.

Lemma wstep_length w x : (length (w_grids w) <= length (w_grids (c08_wstep w x)))%nat.
Proof.
  destruct x as [i o| i |]; simpl.
  - rewrite update_length. lia.
  - destruct (nth_error (w_grids w) i); simpl; [rewrite app_length; simpl; lia|lia].
  - rewrite app_length. simpl. lia.
Qed.

(* creating grids and operating on other grids never changes what an existing grid j holds, nor the module constants *)
Theorem spawn_frame ops : forall w j, (j < length (w_grids w))%nat ->
  forallb (fun x => negb (c08_targets j x)) ops = true ->
  nth_error (w_grids (c08_wrun w ops)) j = nth_error (w_grids w) j /\ w_globals (c08_wrun w ops) = w_globals w.
Proof.
  induction ops as [|x ops IH]; intros w j Hj H; simpl; [split; reflexivity|].
  simpl in H. apply andb_true_iff in H. destruct H as [Hx Hrest].
  assert (Hj' : (j < length (w_grids (c08_wstep w x)))%nat) by (pose proof (wstep_length w x); lia).
  destruct (IH (c08_wstep w x) j Hj' Hrest) as [E1 E2]. rewrite E1, E2. clear IH E1 E2.
  destruct x as [i o| i |]; simpl.
  - simpl in Hx. apply negb_true_iff, Nat.eqb_neq in Hx. split; [apply update_nth_other; exact Hx|reflexivity].
  - destruct (nth_error (w_grids w) i); simpl; split; try reflexivity. apply nth_error_app1. exact Hj.
  - split; [apply nth_error_app1; exact Hj|reflexivity].
Qed.

Lemma world_step_inv w io : Forall AllCanon (w_grids w) -> Forall AllCanon (w_grids (c08_world_step w io)).
Proof. intros H. exact (world_inv [io] w H). Qed.

(* every grid of the world — the initial ones, the copies and the derived ones — keeps the invariant *)
Theorem spawn_inv ops : forall w, Forall AllCanon (w_grids w) -> Forall AllCanon (w_grids (c08_wrun w ops)).
Proof.
  induction ops as [|x ops IH]; intros w H; simpl; [exact H|]. apply IH.
  destruct x as [i o| i |].
  - exact (world_step_inv w (i, o) H).
  - simpl. destruct (nth_error (w_grids w) i) as [s|] eqn:E; simpl; [|exact H].
    apply Forall_app. split; [exact H|]. constructor; [|constructor].
    rewrite Forall_forall in H. apply H. eapply nth_error_In. exact E.
  - simpl. apply Forall_app. split; [exact H|]. constructor; [constructor|constructor].
Qed.

(* hence every observation on every grid that exists after the history is the fresh-grid one *)
Theorem spawn_observe ops w j s v :
  Forall AllCanon (w_grids w) -> nth_error (w_grids (c08_wrun w ops)) j = Some s -> c08_observe s v = Some Canon.
Proof.
  intros H Hj. pose proof (spawn_inv ops w H) as Hall. rewrite Forall_forall in Hall.
  exact (observe_history s [] v (Hall s (nth_error_In _ _ Hj))).
Qed.

(* a copy starts from exactly what its original held at that moment, and from then on the two evolve independently *)
Theorem copy_snapshot w i s : nth_error (w_grids w) i = Some s ->
  nth_error (w_grids (c08_wstep w (WCopy i))) (length (w_grids w)) = Some s /\
  nth_error (w_grids (c08_wstep w (WCopy i))) i = Some s.
Proof.
  intros H. simpl. rewrite H. simpl. split.
  - rewrite nth_error_app2 by lia. rewrite Nat.sub_diag. reflexivity.
  - rewrite nth_error_app1; [exact H|]. apply nth_error_Some. rewrite H. discriminate.
Qed.

Example spawn_ex :
  let w0 := {| w_grids := [[]]; w_globals := 7 |} in
  let w := c08_wrun w0 [WOn 0 (OpGet V_FE); WCopy 0; WOn 1 (OpGet V_FF); WNew; WOn 2 (OpGet V_NF); WOn 0 (OpGet V_NPF)] in
  map c08_names (w_grids w) = [[V_NPF; V_FE; V_EN]; [V_FF; V_EF; V_NPF; V_FE; V_EN]; [V_NF]] /\ w_globals w = 7.
Proof. vm_compute. split; reflexivity. Qed.
