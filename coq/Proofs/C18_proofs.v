(* Proofs about Model/C18.v: one dual face per node with >= 3 faces, in node order; corners are
   the node's faces; padding only at the end; the ring lists the faces in increasing angle (hence
   in umbrella order under the stated hypothesis); dual nodes are the primal face centres; data are
   carried unchanged with node/face dims swapped.  Unbounded (induction over tables / key lists). *)
From Coq Require Import Permutation Sorting.Sorted ZifyBool.
From Verif Require Import Base C18.

Local Open Scope Z_scope.

(* ------------------------------------------------------------------------- *)
(* node_face rows                                                              *)

Lemma c18_count_occ_pos v r : (0 < c18_count_occ v r)%nat <-> In v r.
Proof.
  induction r as [|x r IH]; simpl; [split; [lia|intros []]|].
  destruct (x =? v) eqn:E.
  - split; [intros _; left; lia|lia].
  - rewrite IH. split; [auto|]. intros [H|H]; [lia|exact H].
Qed.

Lemma c18_count_occ_nodup v r : NoDup r -> (c18_count_occ v r <= 1)%nat.
Proof.
  induction 1 as [|x r Hn Hd IH]; simpl; [lia|].
  destruct (x =? v) eqn:E; [|exact IH].
  assert (x = v) by lia. subst.
  assert (~ (0 < c18_count_occ v r)%nat) by (rewrite c18_count_occ_pos; exact Hn). lia.
Qed.

(* membership: face f is listed for node v iff v is a corner of face f *)
Lemma c18_faces_of_node_in v t : forall s f,
  In f (c18_faces_of_node v s t) <->
  exists i r, f = s + Z.of_nat i /\ nth_error t i = Some r /\ In v (corners r).
Proof.
  induction t as [|r t IH]; intros s f; simpl.
  - split; [intros []|]. intros (i & r & _ & H & _). destruct i; discriminate.
  - rewrite in_app_iff, IH. split.
    + intros [H|(i & r' & Hf & Hn & Hv)].
      * apply repeat_spec in H as Hf. subst f. exists 0%nat, r. split; [lia|]. split; [reflexivity|].
        apply c18_count_occ_pos. destruct (c18_count_occ v (corners r)); [destruct H|lia].
      * exists (S i), r'. split; [lia|]. split; assumption.
    + intros (i & r' & Hf & Hn & Hv). destruct i as [|i]; simpl in Hn.
      * injection Hn as <-. left. apply c18_count_occ_pos in Hv.
        destruct (c18_count_occ v (corners r)) eqn:E; [lia|]. simpl. left. lia.
      * right. exists i, r'. split; [lia|]. split; assumption.
Qed.

(* each face once (faces without repeated corners), in increasing face id *)
Lemma c18_faces_of_node_sorted v t : forall s,
  Forall (fun r => NoDup (corners r)) t ->
  StronglySorted Z.lt (c18_faces_of_node v s t) /\ Forall (fun f => s <= f) (c18_faces_of_node v s t).
Proof.
  induction t as [|r t IH]; intros s H; simpl; [split; constructor|].
  inversion H as [|? ? Hr Ht]; subst.
  destruct (IH (s + 1) Ht) as [IHs IHf].
  pose proof (c18_count_occ_nodup v _ Hr) as Hc.
  destruct (c18_count_occ v (corners r)) as [|[|n]]; simpl; try lia.
  - split; [exact IHs|]. eapply Forall_impl; [|exact IHf]. intros; simpl in *; lia.
  - split.
    + constructor; [exact IHs|]. eapply Forall_impl; [|exact IHf]. intros; simpl in *; lia.
    + constructor; [lia|]. eapply Forall_impl; [|exact IHf]. intros; simpl in *; lia.
Qed.

Lemma c18_node_faces_length t n : length (c18_node_faces t n) = n.
Proof. unfold c18_node_faces, c18_iota. rewrite !map_length, seq_length. reflexivity. Qed.

(* ------------------------------------------------------------------------- *)
(* the selection loops                                                         *)

Section SelectProofs.
  Context {K : Type}.
  Variable ltb : K -> K -> bool.
  Variable gt0 : K -> bool.
  Variable lt2pi : K -> bool.
  Variable rank : K -> Z.
  Variable ks : list (nat * K).

  (* the three comparisons are consistent with a numeric rank that separates the keys: this is
     "no two angles coincide and none is 0 or 2*pi" *)
  Hypothesis Hlt : forall p q, In p ks -> In q ks -> ltb (snd p) (snd q) = (rank (snd p) <? rank (snd q)).
  Hypothesis Hgt0 : forall p, In p ks -> gt0 (snd p) = true.
  Hypothesis Hlt2 : forall p, In p ks -> lt2pi (snd p) = true.
  Hypothesis Hinj : forall p q, In p ks -> In q ks -> rank (snd p) = rank (snd q) -> p = q.

  Definition c18_abv (cur : option K) (a : K) : bool :=
    match cur with None => true | Some c => rank c <? rank a end.
  Definition c18_okcur (cur : option K) : Prop :=
    match cur with None => True | Some c => exists k, In (k, c) ks end.
  Definition c18_okbest (b : option (nat * K)) : Prop :=
    match b with None => True | Some p => In p ks end.
  Definition c18_bnd (b : option (nat * K)) (x : Z) : Prop :=      (* "bound b <= x" *)
    match b with None => False | Some p => rank (snd p) <= x end.

  Lemma c18_scan_spec cur : c18_okcur cur -> forall l best,
    incl l ks -> c18_okbest best ->
    let r := c18_scan ltb gt0 lt2pi cur l best in
    c18_okbest r /\
    (r = best \/ exists p, r = Some p /\ In p l /\ c18_abv cur (snd p) = true) /\
    (forall x, c18_bnd best x -> c18_bnd r x) /\
    (forall q, In q l -> c18_abv cur (snd q) = true -> c18_bnd r (rank (snd q))).
  Proof.
    intros Hc. induction l as [|[k a] l IH]; intros best Hl Hb; simpl.
    - split; [exact Hb|]. split; [left; reflexivity|]. split; [auto|intros q []].
    - assert (Hin : In (k, a) ks) by (apply Hl; left; reflexivity).
      assert (Hl' : incl l ks) by (intros x Hx; apply Hl; right; exact Hx).
      assert (Habove : (match cur with None => gt0 a | Some c => ltb c a end) = c18_abv cur a).
      { destruct cur as [c|]; simpl; [|apply (Hgt0 _ Hin)].
        destruct Hc as (kc & Hkc). apply (Hlt (kc, c) (k, a) Hkc Hin). }
      assert (Hbelow : (match best with None => lt2pi a | Some b => ltb a (snd b) end)
                       = match best with None => true | Some b => rank a <? rank (snd b) end).
      { destruct best as [b|]; [|apply (Hlt2 _ Hin)]. apply (Hlt (k, a) b Hin Hb). }
      rewrite Habove, Hbelow.
      set (cond := c18_abv cur a && match best with None => true | Some b => rank a <? rank (snd b) end).
      set (best' := if cond then Some (k, a) else best).
      assert (Hb' : c18_okbest best') by (unfold best'; destruct cond; [exact Hin|exact Hb]).
      destruct (IH best' Hl' Hb') as (R1 & R2 & R3 & R4).
      split; [exact R1|]. split; [|split].
      + destruct R2 as [R2|(p & Hp & Hpl & Hpa)].
        * rewrite R2. unfold best'. destruct cond eqn:Ec; [|left; reflexivity].
          right. exists (k, a). split; [reflexivity|]. split; [left; reflexivity|].
          unfold cond in Ec. apply andb_prop in Ec. apply Ec.
        * right. exists p. split; [exact Hp|]. split; [right; exact Hpl|exact Hpa].
      + intros x Hx. apply R3. unfold best'. destruct cond eqn:Ec; [|exact Hx].
        unfold cond in Ec. apply andb_prop in Ec. destruct Ec as [_ Ec].
        destruct best as [b|]; simpl in *; [lia|contradiction].
      + intros q [Hq|Hq] Hqa; [|apply R4; assumption].
        subst q. simpl in *. apply R3. unfold best'. destruct cond eqn:Ec; simpl; [lia|].
        unfold cond in Ec. rewrite Hqa in Ec. simpl in Ec.
        destruct best as [b|]; simpl; [lia|discriminate].
  Qed.

  Definition c18_pending (cur : option K) : list (nat * K) := filter (fun q => c18_abv cur (snd q)) ks.

  Lemma c18_filter_length_lt {X} (f g : X -> bool) (l : list X) p :
    (forall x, g x = true -> f x = true) -> In p l -> f p = true -> g p = false ->
    (length (filter g l) < length (filter f l))%nat.
  Proof.
    intros Himp. induction l as [|x l IH]; intros Hin Hf Hg; [destruct Hin|].
    assert (Hle : forall l0 : list X, (length (filter g l0) <= length (filter f l0))%nat).
    { induction l0 as [|y l0 IH0]; simpl; [lia|].
      destruct (g y) eqn:Eg; [rewrite (Himp _ Eg); simpl; lia|destruct (f y); simpl; lia]. }
    simpl. destruct Hin as [->|Hin].
    - rewrite Hf, Hg. simpl. specialize (Hle l). lia.
    - specialize (IH Hin Hf Hg). destruct (g x) eqn:Eg; [rewrite (Himp _ Eg); simpl; lia|].
      destruct (f x); simpl; lia.
  Qed.

  Definition c18_rank_lt (p q : nat * K) : Prop := rank (snd p) < rank (snd q).

  (* the outer loop: the picks are strictly increasing in angle, come from the key list, and are
     complete when there is enough fuel; afterwards only fill cells *)
  Lemma c18_select_spec : forall fuel cur, c18_okcur cur ->
    exists picks,
      c18_select ltb gt0 lt2pi fuel cur ks
        = map (fun p => Some (fst p)) picks ++ repeat None (fuel - length picks) /\
      (length picks <= fuel)%nat /\
      StronglySorted c18_rank_lt picks /\
      Forall (fun p => In p ks /\ c18_abv cur (snd p) = true) picks /\
      ((length (c18_pending cur) <= fuel)%nat -> forall q, In q (c18_pending cur) -> In q picks).
  Proof.
    induction fuel as [|f IH]; intros cur Hc.
    - exists []. simpl. split; [reflexivity|]. split; [lia|]. split; [constructor|]. split; [constructor|].
      intros Hl q Hq. destruct (c18_pending cur); [destruct Hq|simpl in Hl; lia].
    - simpl.
      destruct (c18_scan_spec cur Hc ks None (incl_refl _) I) as (R1 & R2 & _ & R4).
      destruct (c18_scan ltb gt0 lt2pi cur ks None) as [[k a]|] eqn:Es.
      + destruct R2 as [R2|(p & Hp & Hpl & Hpa)]; [discriminate|]. injection Hp as <-.
        assert (Hc' : c18_okcur (Some a)) by (exists k; exact Hpl).
        destruct (IH (Some a) Hc') as (picks & E & Hlen & Hs & Hf & Hcomp).
        exists ((k, a) :: picks). split; [|split; [|split; [|split]]].
        * rewrite E. simpl. reflexivity.
        * simpl. lia.
        * constructor; [exact Hs|]. eapply Forall_impl; [|exact Hf].
          intros q [_ Hq]. unfold c18_rank_lt. simpl in *. lia.
        * constructor; [split; assumption|]. eapply Forall_impl; [|exact Hf].
          intros q [Hq1 Hq2]. split; [exact Hq1|].
          destruct cur as [c|]; simpl in *; [|reflexivity]. lia.
        * intros Hl q Hq. unfold c18_pending in Hq. apply filter_In in Hq. destruct Hq as [Hqk Hqa].
          pose proof (R4 q Hqk Hqa) as Hmin. simpl in Hmin.
          destruct (Z.eq_dec (rank a) (rank (snd q))) as [Heq|Hne].
          -- left. apply (Hinj (k, a) q Hpl Hqk). exact Heq.
          -- right. apply Hcomp.
             ++ assert (Hlt' : (length (c18_pending (Some a)) < length (c18_pending cur))%nat).
                { unfold c18_pending. apply c18_filter_length_lt with (p := (k, a)).
                  - intros x Hx. destruct cur as [c|]; simpl in *; [|reflexivity]. lia.
                  - exact Hpl.
                  - exact Hpa.
                  - simpl. lia. }
                lia.
             ++ unfold c18_pending. apply filter_In. split; [exact Hqk|]. simpl. lia.
      + destruct (IH cur Hc) as (picks & E & Hlen & Hs & Hf & Hcomp).
        assert (Hemp : picks = []).
        { destruct picks as [|p picks]; [reflexivity|]. inversion Hf as [|? ? [Hp1 Hp2] _]; subst.
          destruct (R4 p Hp1 Hp2). }
        subst picks. exists []. split; [|split; [|split; [|split]]].
        * rewrite E. simpl. rewrite Nat.sub_0_r. reflexivity.
        * simpl. lia.
        * constructor.
        * constructor.
        * intros _ q Hq. unfold c18_pending in Hq. apply filter_In in Hq. destruct Hq as [Hqk Hqa].
          destruct (R4 q Hqk Hqa).
  Qed.

  Lemma c18_sorted_nodup picks : StronglySorted c18_rank_lt picks -> NoDup picks.
  Proof.
    induction 1 as [|p l Hs IH Hf]; constructor; [|exact IH].
    intros Hin. rewrite Forall_forall in Hf. specialize (Hf p Hin). unfold c18_rank_lt in Hf. lia.
  Qed.

  (* full run (fuel = number of keys, d_current = 0.0): every key is picked exactly once, in
     strictly increasing angle, and no cell is left at the fill value *)
  Theorem c18_select_full : NoDup ks ->
    exists picks,
      c18_select ltb gt0 lt2pi (length ks) None ks = map (fun p => Some (fst p)) picks /\
      Permutation picks ks /\ StronglySorted c18_rank_lt picks.
  Proof.
    intros Hnd.
    destruct (c18_select_spec (length ks) None I) as (picks & E & Hlen & Hs & Hf & Hcomp).
    assert (Hpend : c18_pending None = ks).
    { unfold c18_pending. simpl. clear. induction ks as [|x l IH]; simpl; [reflexivity|]. rewrite IH. reflexivity. }
    rewrite Hpend in Hcomp.
    assert (Hperm : Permutation picks ks).
    { apply NoDup_Permutation; [apply c18_sorted_nodup; exact Hs|exact Hnd|].
      intros x. split.
      - intros Hx. rewrite Forall_forall in Hf. apply (Hf x Hx).
      - apply Hcomp. lia. }
    exists picks. split; [|split; assumption].
    rewrite E. rewrite (Permutation_length Hperm), Nat.sub_diag. simpl. apply app_nil_r.
  Qed.
End SelectProofs.

(* without any hypothesis on the keys: once nothing qualifies, nothing qualifies later (the state
   does not change), so fill cells are always trailing *)
Lemma c18_select_none_stays {K} (ltb : K -> K -> bool) gt0 lt2pi ks : forall fuel cur,
  c18_scan ltb gt0 lt2pi cur ks None = None ->
  c18_select ltb gt0 lt2pi fuel cur ks = repeat None fuel.
Proof.
  induction fuel as [|f IH]; intros cur H; simpl; [reflexivity|]. rewrite H. f_equal. apply IH. exact H.
Qed.

Lemma c18_scan_result_in {K} (ltb : K -> K -> bool) gt0 lt2pi cur : forall ks best p,
  c18_scan ltb gt0 lt2pi cur ks best = Some p -> best = Some p \/ In p ks.
Proof.
  induction ks as [|[k a] ks IH]; intros best p H; simpl in H; [left; exact H|].
  apply IH in H. destruct H as [H|H]; [|right; right; exact H].
  destruct (_ && _) in H; [injection H as <-; right; left; reflexivity|left; exact H].
Qed.

Lemma c18_select_shape {K} (ltb : K -> K -> bool) gt0 lt2pi ks : forall fuel cur,
  exists ids, c18_select ltb gt0 lt2pi fuel cur ks = map Some ids ++ repeat None (fuel - length ids)
              /\ (length ids <= fuel)%nat /\ Forall (fun k => In k (map fst ks)) ids.
Proof.
  induction fuel as [|f IH]; intros cur; simpl.
  - exists []. simpl. split; [reflexivity|]. split; [lia|constructor].
  - destruct (c18_scan ltb gt0 lt2pi cur ks None) as [[k a]|] eqn:E.
    + destruct (IH (Some a)) as (ids & E2 & Hl & Hf). exists (k :: ids). simpl. rewrite E2.
      split; [reflexivity|]. split; [lia|]. constructor; [|exact Hf].
      apply c18_scan_result_in in E. destruct E as [E|E]; [discriminate|].
      apply (in_map fst) in E. exact E.
    + exists []. simpl. rewrite (c18_select_none_stays _ _ _ _ _ _ E).
      split; [reflexivity|]. split; [lia|constructor].
Qed.

(* ------------------------------------------------------------------------- *)
(* _order_nodes                                                                *)

Lemma c18_map_repeat {X Y} (g : X -> Y) x n : map g (repeat x n) = repeat (g x) n.
Proof. induction n; simpl; [reflexivity|]. f_equal. assumption. Qed.

Definition c18_real (row : list Z) : list Z := filter (fun x => negb (is_fill x)) row.

(* padding only at the end, width max_edges, every real entry is one of the node's faces, the
   first entry is the first face of the node_face row — for ANY positions (ties included) *)
Theorem c18_order_nodes_pad temp_face nc dp max_edges :
  Forall (fun f => 0 <= f) temp_face -> (1 <= length temp_face <= max_edges)%nat ->
  exists ring, c18_order_nodes temp_face nc dp max_edges = ring ++ repeat FILL (max_edges - length ring) /\
               (1 <= length ring <= length temp_face)%nat /\
               hd_error ring = hd_error temp_face /\
               Forall (fun f => In f temp_face) ring.
Proof.
  intros Hpos Hlen. destruct temp_face as [|f0 rest]; [simpl in Hlen; lia|].
  unfold c18_order_nodes.
  set (keys := combine (seq 1 (length rest)) _).
  destruct (c18_select_shape c18_angle_lt c18_angle_gt0 c18_angle_lt2pi keys (length rest) None)
    as (ids & E & Hl & Hf).
  rewrite E. rewrite map_app, map_map, c18_map_repeat.
  exists (f0 :: map (fun k => nth k (f0 :: rest) FILL) ids).
  cbn [length] in *. rewrite map_length.
  assert (Hseq : forall k, In k ids -> (1 <= k <= length rest)%nat).
  { intros k Hk. rewrite Forall_forall in Hf. specialize (Hf k Hk). unfold keys in Hf.
    apply in_map_iff in Hf. destruct Hf as ([k' a] & <- & Hin). apply in_combine_l in Hin.
    apply in_seq in Hin. simpl. lia. }
  split; [|split; [lia|split; [reflexivity|]]].
  - cbn [app]. f_equal. rewrite <- app_assoc. f_equal.
    rewrite app_length, map_length, repeat_length. rewrite <- repeat_app. f_equal. lia.
  - constructor; [left; reflexivity|]. apply Forall_forall. intros f Hfin.
    apply in_map_iff in Hfin. destruct Hfin as (k & <- & Hk). apply nth_In. simpl. specialize (Hseq k Hk). lia.
Qed.

(* ------------------------------------------------------------------------- *)
(* list helpers                                                                *)

Lemma c18_in_combine_seq {X} (l : list X) : forall s k a,
  In (k, a) (combine (seq s (length l)) l) <-> (s <= k)%nat /\ nth_error l (k - s) = Some a.
Proof.
  induction l as [|x l IH]; intros s k a; simpl.
  - split; [intros []|]. intros [_ H]. destruct (k - s)%nat; discriminate.
  - rewrite IH. split.
    + intros [H|[H1 H2]].
      * injection H as <- <-. split; [lia|]. rewrite Nat.sub_diag. reflexivity.
      * split; [lia|]. replace (k - s)%nat with (S (k - S s)) by lia. exact H2.
    + intros [H1 H2]. destruct (Nat.eq_dec s k) as [->|Hne].
      * rewrite Nat.sub_diag in H2. injection H2 as <-. left. reflexivity.
      * right. split; [lia|]. replace (k - s)%nat with (S (k - S s)) in H2 by lia. exact H2.
Qed.

Lemma c18_map_nth_seq {X} (l : list X) d : map (fun k => nth k l d) (seq 0 (length l)) = l.
Proof.
  induction l as [|x l IH]; simpl; [reflexivity|]. f_equal.
  rewrite <- seq_shift, map_map. exact IH.
Qed.

Lemma c18_map_nth_seq1 {X} (x : X) (l : list X) d : map (fun k => nth k (x :: l) d) (seq 1 (length l)) = l.
Proof. rewrite <- seq_shift, map_map. simpl. apply c18_map_nth_seq. Qed.

Lemma c18_map_fst_combine {X Y W} (h : X -> W) (a : list X) (b : list Y) :
  length a = length b -> map (fun p => h (fst p)) (combine a b) = map h a.
Proof.
  revert b; induction a as [|x a IH]; intros [|y b] H; simpl in *; try discriminate; auto.
  f_equal. apply IH. lia.
Qed.

Lemma c18_sorted_map {X Y} (R : X -> X -> Prop) (R' : Y -> Y -> Prop) (g : X -> Y) l :
  (forall x y, In x l -> In y l -> R x y -> R' (g x) (g y)) ->
  StronglySorted R l -> StronglySorted R' (map g l).
Proof.
  intros H Hs. induction Hs as [|x l Hs IH Hf]; simpl; constructor.
  - apply IH. intros a b Ha Hb. apply H; right; assumption.
  - rewrite Forall_forall in *. intros y Hy. apply in_map_iff in Hy. destruct Hy as (z & <- & Hz).
    apply H; [left; reflexivity|right; exact Hz|apply Hf; exact Hz].
Qed.

(* two lists with the same elements, both strictly increasing under h, are equal *)
Lemma c18_sorted_perm_eq (h : Z -> Z) : forall l1 l2,
  StronglySorted (fun f g => h f < h g) l1 -> StronglySorted (fun f g => h f < h g) l2 ->
  Permutation l1 l2 -> l1 = l2.
Proof.
  induction l1 as [|x1 l1 IH]; intros l2 H1 H2 Hp.
  - apply Permutation_nil in Hp. subst. reflexivity.
  - destruct l2 as [|x2 l2]; [apply Permutation_sym, Permutation_nil in Hp; discriminate|].
    inversion H1 as [|? ? S1 F1]; inversion H2 as [|? ? S2 F2]; subst.
    assert (x1 = x2).
    { assert (I1 : In x1 (x2 :: l2)) by (apply (Permutation_in _ Hp); left; reflexivity).
      assert (I2 : In x2 (x1 :: l1)) by (apply (Permutation_in _ (Permutation_sym Hp)); left; reflexivity).
      destruct I1 as [->|I1]; [reflexivity|]. destruct I2 as [->|I2]; [reflexivity|].
      rewrite Forall_forall in F1, F2. specialize (F1 _ I2). specialize (F2 _ I1). simpl in *. lia. }
    subst x2. f_equal. apply IH; [assumption|assumption|]. apply Permutation_cons_inv in Hp. exact Hp.
Qed.

(* ------------------------------------------------------------------------- *)
(* ring = the node's faces by increasing angle                                 *)

Section Ring.
  Variables (f0 : Z) (rest : list Z) (nc : c18_vec) (dp : list c18_vec) (max_edges : nat).
  Variable rank : c18_key -> Z.
  Let mk (f : Z) : c18_key := c18_make_key (c18_pos dp f0) nc (c18_pos dp f).
  Let keys : list c18_key := map mk rest.

  (* "the angles d_angles[1..] are pairwise distinct and lie strictly between 0 and 2*pi":
     the three comparisons of the code agree with an injective numeric rank *)
  Hypothesis Hlt : forall a b, In a keys -> In b keys -> c18_angle_lt a b = (rank a <? rank b).
  Hypothesis Hbounds : forall a, In a keys -> c18_angle_gt0 a = true /\ c18_angle_lt2pi a = true.
  Hypothesis Hinj : forall i j a b, nth_error keys i = Some a -> nth_error keys j = Some b ->
                                    rank a = rank b -> i = j.
  Hypothesis Hwidth : (S (length rest) <= max_edges)%nat.

  Theorem c18_order_nodes_perm :
    exists ring, c18_order_nodes (f0 :: rest) nc dp max_edges
                   = (f0 :: ring) ++ repeat FILL (max_edges - S (length rest)) /\
                 Permutation ring rest /\
                 StronglySorted (fun f g => rank (mk f) < rank (mk g)) ring.
  Proof.
    unfold c18_order_nodes.
    set (ks := combine (seq 1 (length rest)) (map (fun f => c18_make_key (c18_pos dp f0) nc (c18_pos dp f)) rest)).
    assert (Hlenk : length keys = length rest) by (unfold keys; apply map_length).
    assert (Hks : forall p, In p ks -> (1 <= fst p)%nat /\ nth_error keys (fst p - 1) = Some (snd p)).
    { intros [k a] Hp. unfold ks in Hp. fold mk in Hp. fold keys in Hp. rewrite <- Hlenk in Hp.
      apply c18_in_combine_seq in Hp. exact Hp. }
    assert (Hksin : forall p, In p ks -> In (snd p) keys).
    { intros p Hp. destruct (Hks p Hp) as [_ H]. apply nth_error_In in H. exact H. }
    assert (Hnd : NoDup ks).
    { apply (NoDup_map_inv fst). unfold ks.
      fold mk. fold keys. rewrite <- Hlenk.
      assert (E : map fst (combine (seq 1 (length keys)) keys) = seq 1 (length keys)).
      { clear. generalize 1%nat. induction keys as [|a l IH]; intros s; simpl; [reflexivity|]. f_equal. apply IH. }
      rewrite E. apply seq_NoDup. }
    destruct (c18_select_full c18_angle_lt c18_angle_gt0 c18_angle_lt2pi rank ks) as (picks & E & Hperm & Hs).
    - intros p q Hp Hq. apply Hlt; apply Hksin; assumption.
    - intros p Hp. apply (Hbounds _ (Hksin p Hp)).
    - intros p Hp. apply (Hbounds _ (Hksin p Hp)).
    - intros p q Hp Hq Hr. destruct (Hks p Hp) as [P1 P2]. destruct (Hks q Hq) as [Q1 Q2].
      pose proof (Hinj _ _ _ _ P2 Q2 Hr) as Hij.
      destruct p as [k a], q as [k' b]. simpl in *. assert (k = k') by lia. subst k'.
      rewrite P2 in Q2. injection Q2 as ->. reflexivity.
    - exact Hnd.
    - assert (Hlks : length ks = length rest).
      { unfold ks. rewrite combine_length, seq_length, map_length. lia. }
      rewrite <- Hlks, E, map_map.
      exists (map (fun p => nth (fst p) (f0 :: rest) FILL) picks).
      split; [|split].
      + cbn [length]. rewrite map_length, (Permutation_length Hperm), Hlks. reflexivity.
      + rewrite (Permutation_map _ Hperm).
        assert (Emap : map (fun p : nat * c18_key => nth (fst p) (f0 :: rest) FILL) ks = rest).
        { unfold ks.
          rewrite (c18_map_fst_combine (fun k => nth k (f0 :: rest) FILL))
            by (rewrite seq_length, map_length; reflexivity).
          apply c18_map_nth_seq1. }
        rewrite Emap. reflexivity.
      + apply c18_sorted_map with (R := c18_rank_lt rank); [|exact Hs].
        intros p q Hp Hq Hr. unfold c18_rank_lt in Hr.
        assert (Hk : forall p0, In p0 picks -> snd p0 = mk (nth (fst p0) (f0 :: rest) FILL)).
        { intros p0 Hp0. apply (Permutation_in _ Hperm) in Hp0. destruct (Hks p0 Hp0) as [P1 P2].
          unfold keys in P2. rewrite nth_error_map in P2.
          destruct (nth_error rest (fst p0 - 1)) as [f|] eqn:Ef; [|discriminate]. injection P2 as <-.
          f_equal. destruct (fst p0) as [|k]; [lia|]. simpl. simpl in Ef. rewrite Nat.sub_0_r in Ef.
          symmetry. apply nth_error_nth. exact Ef. }
        rewrite <- (Hk p Hp), <- (Hk q Hq). exact Hr.
  Qed.
End Ring.

(* ------------------------------------------------------------------------- *)
(* tangent-plane projection: the reduced keys decide exactly like the literal ones *)

Lemma c18_proj_dot n a b :
  c18_dot (c18_proj n a) (c18_proj n b) = c18_dot n n * c18_pdot n a b.
Proof.
  destruct n as [[n1 n2] n3], a as [[a1 a2] a3], b as [[b1 b2] b3].
  cbv [c18_pdot c18_proj c18_dot c18_vx c18_vy c18_vz fst snd]. ring.
Qed.

Lemma c18_cross_proj c n x :
  c18_dot (c18_cross c n) (c18_proj n x) = c18_dot n n * c18_dot (c18_cross c n) x.
Proof.
  destruct n as [[n1 n2] n3], c as [[c1 c2] c3], x as [[x1 x2] x3].
  cbv [c18_proj c18_cross c18_dot c18_vx c18_vy c18_vz fst snd]. ring.
Qed.

(* the projected vector is orthogonal to n, and unchanged (up to the factor N) when already so *)
Lemma c18_proj_orth n x : c18_dot (c18_proj n x) n = 0.
Proof.
  destruct n as [[n1 n2] n3], x as [[x1 x2] x3].
  cbv [c18_proj c18_dot c18_vx c18_vy c18_vz fst snd]. ring.
Qed.

Definition c18_scale (k : Z) (a : c18_key) : c18_key :=
  {| c18_side := c18_side a; c18_s := k * c18_s a; c18_m := k * c18_m a; c18_zz := k * c18_zz a |}.

Lemma c18_literal_scaled c0 n sub : 0 < c18_dot n n ->
  c18_make_key_literal c0 n sub = c18_scale (c18_dot n n) (c18_make_key c0 n sub).
Proof.
  intros HN. unfold c18_make_key_literal, c18_make_key, c18_scale. cbn [c18_side c18_s c18_m c18_zz].
  rewrite !c18_proj_dot, c18_cross_proj. f_equal.
  unfold c18_qpos. set (x := c18_dot (c18_cross c0 n) (c18_sub sub n)).
  destruct (0 <? x) eqn:E; destruct (0 <? c18_dot n n * x) eqn:E2; try reflexivity; nia.
Qed.

Lemma c18_ltb_scale k x y : 0 < k -> (k * x <? k * y) = (x <? y).
Proof. intros. destruct (x <? y) eqn:E; destruct (k * x <? k * y) eqn:E2; try reflexivity; nia. Qed.

Lemma c18_qneg_scale k x : 0 < k -> c18_qneg (k * x) = c18_qneg x.
Proof. intros. unfold c18_qneg. replace 0 with (k * 0) at 1 by ring. apply c18_ltb_scale. assumption. Qed.

Lemma c18_qpos_scale k x : 0 < k -> c18_qpos (k * x) = c18_qpos x.
Proof. intros. unfold c18_qpos. replace 0 with (k * 0) at 1 by ring. apply c18_ltb_scale. assumption. Qed.

Lemma c18_parallel_scale k a : 0 < k -> c18_parallel (c18_scale k a) = c18_parallel a.
Proof.
  intros Hk. unfold c18_parallel, c18_scale. cbn [c18_s c18_m c18_zz].
  destruct (c18_s a * c18_s a =? c18_zz a * c18_m a) eqn:E;
    destruct (k * c18_s a * (k * c18_s a) =? k * c18_zz a * (k * c18_m a)) eqn:E2; try reflexivity; nia.
Qed.

Lemma c18_cos_gt_scale k a b : 0 < k -> c18_cos_gt (c18_scale k a) (c18_scale k b) = c18_cos_gt a b.
Proof.
  intros Hk. unfold c18_cos_gt, c18_scale, c18_qlt. cbn [c18_s c18_m].
  rewrite !c18_qneg_scale by assumption.
  replace (k * c18_s a * (k * c18_s a) * (k * c18_m b)) with ((k * k * k) * (c18_s a * c18_s a * c18_m b)) by ring.
  replace (k * c18_s b * (k * c18_s b) * (k * c18_m a)) with ((k * k * k) * (c18_s b * c18_s b * c18_m a)) by ring.
  assert (Hk3 : 0 < k * k * k) by nia.
  rewrite !c18_ltb_scale by assumption. reflexivity.
Qed.

Lemma c18_theta_scale k a : 0 < k ->
  c18_theta_zero (c18_scale k a) = c18_theta_zero a /\ c18_theta_pi (c18_scale k a) = c18_theta_pi a.
Proof.
  intros Hk. unfold c18_theta_zero, c18_theta_pi. rewrite c18_parallel_scale by assumption.
  change (c18_s (c18_scale k a)) with (k * c18_s a).
  rewrite c18_qpos_scale, c18_qneg_scale by assumption. split; reflexivity.
Qed.

Lemma c18_angle_scale k a b : 0 < k ->
  c18_angle_lt (c18_scale k a) (c18_scale k b) = c18_angle_lt a b /\
  c18_angle_gt0 (c18_scale k a) = c18_angle_gt0 a /\
  c18_angle_lt2pi (c18_scale k a) = c18_angle_lt2pi a.
Proof.
  intros Hk. destruct (c18_theta_scale k a Hk) as [Za Pa]. destruct (c18_theta_scale k b Hk) as [Zb Pb].
  unfold c18_angle_lt, c18_angle_gt0, c18_angle_lt2pi.
  rewrite !c18_cos_gt_scale, Za, Pa, Pb by assumption.
  change (c18_side (c18_scale k a)) with (c18_side a). change (c18_side (c18_scale k b)) with (c18_side b).
  repeat split; reflexivity.
Qed.

(* the selection loops commute with a key transformation that preserves the three comparisons *)
Section SelectMap.
  Context {K K' : Type}.
  Variables (ltb : K -> K -> bool) (gt0 lt2pi : K -> bool).
  Variables (ltb' : K' -> K' -> bool) (gt0' lt2pi' : K' -> bool).
  Variable f : K -> K'.
  Hypothesis Hlt : forall a b, ltb' (f a) (f b) = ltb a b.
  Hypothesis Hg : forall a, gt0' (f a) = gt0 a.
  Hypothesis Hl : forall a, lt2pi' (f a) = lt2pi a.
  Let fp (p : nat * K) : nat * K' := (fst p, f (snd p)).

  Lemma c18_scan_map cur : forall ks best,
    c18_scan ltb' gt0' lt2pi' (option_map f cur) (map fp ks) (option_map fp best)
    = option_map fp (c18_scan ltb gt0 lt2pi cur ks best).
  Proof.
    induction ks as [|[k a] ks IH]; intros best; [reflexivity|].
    cbn [map c18_scan fp fst snd].
    replace (match option_map f cur with None => gt0' (f a) | Some c => ltb' c (f a) end)
      with (match cur with None => gt0 a | Some c => ltb c a end)
      by (destruct cur; simpl; [rewrite Hlt|rewrite Hg]; reflexivity).
    replace (match option_map fp best with None => lt2pi' (f a) | Some b => ltb' (f a) (snd b) end)
      with (match best with None => lt2pi a | Some b => ltb a (snd b) end)
      by (destruct best as [[kb b]|]; simpl; [rewrite Hlt|rewrite Hl]; reflexivity).
    destruct (_ && _); [apply (IH (Some (k, a)))|apply IH].
  Qed.

  Lemma c18_select_map : forall fuel cur ks,
    c18_select ltb' gt0' lt2pi' fuel (option_map f cur) (map fp ks) = c18_select ltb gt0 lt2pi fuel cur ks.
  Proof.
    induction fuel as [|n IH]; intros cur ks; [reflexivity|]. cbn [c18_select].
    pose proof (c18_scan_map cur ks None) as Hs. cbn [option_map] in Hs. rewrite Hs.
    destruct (c18_scan ltb gt0 lt2pi cur ks None) as [[k a]|]; cbn [option_map fp fst snd].
    - f_equal. apply (IH (Some a)).
    - f_equal. apply IH.
  Qed.
End SelectMap.

Lemma c18_combine_map_r {X Y W} (g : Y -> W) (a : list X) (b : list Y) :
  combine a (map g b) = map (fun p => (fst p, g (snd p))) (combine a b).
Proof. revert b; induction a as [|x a IH]; intros [|y b]; simpl; auto. f_equal. apply IH. Qed.

(* the executable model = the literal "project, then take norms and dot products" form *)
Theorem c18_order_nodes_literal_eq temp_face nc dp max_edges :
  0 < c18_dot nc nc ->
  c18_order_nodes_literal temp_face nc dp max_edges = c18_order_nodes temp_face nc dp max_edges.
Proof.
  intros HN. destruct temp_face as [|f0 rest]; [reflexivity|].
  unfold c18_order_nodes_literal, c18_order_nodes.
  set (N := c18_dot nc nc) in *.
  assert (E : map (fun f => c18_make_key_literal (c18_pos dp f0) nc (c18_pos dp f)) rest
              = map (c18_scale N) (map (fun f => c18_make_key (c18_pos dp f0) nc (c18_pos dp f)) rest)).
  { rewrite map_map. apply map_ext. intros f. apply c18_literal_scaled. exact HN. }
  rewrite E, c18_combine_map_r.
  rewrite (c18_select_map c18_angle_lt c18_angle_gt0 c18_angle_lt2pi c18_angle_lt c18_angle_gt0 c18_angle_lt2pi
             (c18_scale N)
             (fun a b => proj1 (c18_angle_scale N a b HN))
             (fun a => proj1 (proj2 (c18_angle_scale N a a HN)))
             (fun a => proj2 (proj2 (c18_angle_scale N a a HN)))
             (length rest) None).
  reflexivity.
Qed.

(* If the angle order agrees with the umbrella order u (the node's other faces listed
   counter-clockwise around the node, each sharing an edge with the next), the ring is f0 :: u.
   MISSING for the full property (hence _partial): that the azimuth order of the face centres about
   the node (what the tangent-plane angles of fix c8b893ff measure) coincides with the umbrella
   order — true for convex faces smaller than a hemisphere (spherical convexity, not formalised),
   false for faces with a reflex corner; the harness decides it for every implementation output
   with an exact combinatorial/rational test. *)
Theorem c18_ring_partial f0 rest u nc dp max_edges (rank : c18_key -> Z) :
  let mk := fun f => c18_make_key (c18_pos dp f0) nc (c18_pos dp f) in
  let keys := map mk rest in
  (forall a b, In a keys -> In b keys -> c18_angle_lt a b = (rank a <? rank b)) ->
  (forall a, In a keys -> c18_angle_gt0 a = true /\ c18_angle_lt2pi a = true) ->
  (forall i j a b, nth_error keys i = Some a -> nth_error keys j = Some b -> rank a = rank b -> i = j) ->
  (S (length rest) <= max_edges)%nat ->
  Permutation u rest -> StronglySorted (fun f g => rank (mk f) < rank (mk g)) u ->
  c18_order_nodes (f0 :: rest) nc dp max_edges = (f0 :: u) ++ repeat FILL (max_edges - S (length rest)).
Proof.
  intros mk keys H1 H2 H3 H4 Hp Hs.
  destruct (c18_order_nodes_perm f0 rest nc dp max_edges rank H1 H2 H3 H4) as (ring & E & Hperm & Hsort).
  rewrite E. f_equal. f_equal.
  apply (c18_sorted_perm_eq (fun f => rank (mk f))); [exact Hsort|exact Hs|].
  rewrite Hperm. symmetry. exact Hp.
Qed.

(* ------------------------------------------------------------------------- *)
(* construct_faces: which rows exist and in which order                        *)

Lemma c18_pos_offset (pre l : list c18_vec) :
  Forall2 (fun v p => p = c18_pos (pre ++ l) v) (map Z.of_nat (seq (length pre) (length l))) l.
Proof.
  revert pre; induction l as [|x l IH]; intros pre; simpl; constructor.
  - unfold c18_pos. rewrite Nat2Z.id, app_nth2, Nat.sub_diag by lia. reflexivity.
  - specialize (IH (pre ++ [x])). rewrite <- app_assoc, app_length in IH. simpl in IH.
    rewrite Nat.add_1_r in IH. exact IH.
Qed.

Lemma c18_rows_general (g : Z -> list Z) (np dp : list c18_vec) maxe ids ps :
  Forall2 (fun v p => p = c18_pos np v) ids ps ->
  flat_map (fun iv => if (3 <=? length (fst iv))%nat then [c18_order_nodes (fst iv) (snd iv) dp maxe] else [])
           (combine (map g ids) ps)
  = map (fun v => c18_order_nodes (g v) (c18_pos np v) dp maxe)
        (flat_map (fun iv => if (3 <=? length (snd iv))%nat then [fst iv] else []) (combine ids (map g ids))).
Proof.
  induction 1 as [|v p ids ps Hp Hf IH]; [reflexivity|].
  cbn [flat_map combine map fst snd]. rewrite IH. subst p.
  destruct (3 <=? length (g v))%nat; reflexivity.
Qed.

Lemma c18_flat_filter {X} (f : X -> bool) (g : X -> list Z) ids :
  flat_map (fun iv => if f (fst iv) then [fst iv] else []) (combine ids (map g ids)) = filter f ids.
Proof.
  induction ids as [|v ids IH]; [reflexivity|].
  cbn [flat_map combine map fst snd filter]. rewrite IH. destruct (f v); reflexivity.
Qed.

(* the nodes that get a dual face: exactly those with >= 3 faces, in increasing node id *)
Theorem c18_dual_face_nodes_spec t n :
  c18_dual_face_nodes t n
  = filter (fun v => (3 <=? length (c18_faces_of_node v 0 t))%nat) (c18_iota n).
Proof.
  unfold c18_dual_face_nodes, c18_node_faces.
  induction (c18_iota n) as [|v ids IH]; [reflexivity|].
  cbn [flat_map combine map fst snd filter]. rewrite IH.
  destruct (3 <=? length (c18_faces_of_node v 0 t))%nat; reflexivity.
Qed.

(* row k of the dual connectivity is the ordered ring of the k-th such node *)
Theorem c18_dual_faces_rows t np dp :
  c18_dual_faces t np dp
  = map (fun v => c18_order_nodes (c18_faces_of_node v 0 t) (c18_pos np v) dp
                                  (c18_max_len (c18_node_faces t (length np))))
        (c18_dual_face_nodes t (length np)).
Proof.
  unfold c18_dual_faces, c18_dual_face_nodes, c18_node_faces.
  apply c18_rows_general. unfold c18_iota. apply (c18_pos_offset [] np).
Qed.

Corollary c18_dual_faces_count t np dp :
  length (c18_dual_faces t np dp) = length (c18_dual_face_nodes t (length np)).
Proof. rewrite c18_dual_faces_rows, map_length. reflexivity. Qed.

Lemma c18_max_len_ge rows r : In r rows -> (length r <= c18_max_len rows)%nat.
Proof.
  induction rows as [|x rows IH]; intros H; [destruct H|]. simpl. destruct H as [->|H]; [lia|].
  specialize (IH H). lia.
Qed.

(* every dual row: width max_edges, padding only at the end, real entries are faces meeting at
   the node (faces having the node as a corner), first entry = the node's lowest-numbered face *)
Theorem c18_dual_rows_pad t np dp k v :
  nth_error (c18_dual_face_nodes t (length np)) k = Some v ->
  exists row ring,
    nth_error (c18_dual_faces t np dp) k = Some row /\
    row = ring ++ repeat FILL (c18_max_len (c18_node_faces t (length np)) - length ring) /\
    (1 <= length ring)%nat /\
    Forall (fun f => exists i r, f = Z.of_nat i /\ nth_error t i = Some r /\ In v (corners r)) ring /\
    0 <= v < Z.of_nat (length np) /\ (3 <= length (c18_faces_of_node v 0 t))%nat.
Proof.
  intros Hk. rewrite c18_dual_faces_rows. rewrite nth_error_map, Hk. simpl.
  assert (Hin : In v (c18_dual_face_nodes t (length np))) by (eapply nth_error_In; exact Hk).
  rewrite c18_dual_face_nodes_spec in Hin. apply filter_In in Hin. destruct Hin as [Hv H3].
  apply Nat.leb_le in H3.
  assert (Hv' : exists i, v = Z.of_nat i /\ (i < length np)%nat).
  { unfold c18_iota in Hv. apply in_map_iff in Hv. destruct Hv as (i & <- & Hi). apply in_seq in Hi.
    exists i. split; [reflexivity|lia]. }
  destruct Hv' as (i & -> & Hi).
  set (tf := c18_faces_of_node (Z.of_nat i) 0 t) in *.
  set (maxe := c18_max_len (c18_node_faces t (length np))).
  assert (Hpos : Forall (fun f => 0 <= f) tf).
  { apply Forall_forall. intros f Hf. apply c18_faces_of_node_in in Hf. destruct Hf as (j & r & -> & _). lia. }
  assert (Hle : (length tf <= maxe)%nat).
  { apply c18_max_len_ge. unfold c18_node_faces. apply in_map_iff. exists (Z.of_nat i). split; [reflexivity|].
    unfold c18_iota. apply in_map. apply in_seq. lia. }
  destruct (c18_order_nodes_pad tf (c18_pos np (Z.of_nat i)) dp maxe Hpos) as (ring & E & Hl & _ & Hf); [lia|].
  exists (c18_order_nodes tf (c18_pos np (Z.of_nat i)) dp maxe), ring.
  split; [reflexivity|]. split; [exact E|]. split; [lia|]. split; [|split; [lia|exact H3]].
  eapply Forall_impl; [|exact Hf]. intros f Hfin. apply c18_faces_of_node_in in Hfin.
  destruct Hfin as (j & r & -> & Hn & Hc). exists j, r. split; [lia|]. split; assumption.
Qed.

(* ------------------------------------------------------------------------- *)
(* get_dual: nodes and data                                                    *)

Theorem c18_dual_nodes {C} (face_lonlat : list C) t np dp :
  fst (c18_get_dual face_lonlat t np dp) = face_lonlat /\
  snd (c18_get_dual face_lonlat t np dp) = c18_dual_faces t np dp.
Proof. split; reflexivity. Qed.

Lemma c18_swap_invol d : c18_swap (c18_swap d) = d.
Proof. destruct d; reflexivity. Qed.

Lemma c18_filter_all {X} (f : X -> bool) l : Forall (fun x => f x = true) l -> filter f l = l.
Proof. induction 1 as [|x l Hx Hl IH]; simpl; [reflexivity|]. rewrite Hx, IH. reflexivity. Qed.

(* data: values untouched, n_node <-> n_face swapped, other dims kept; when every node has >= 3
   faces (closed grid) dual face k is the face of primal node k, so node data stay in place *)
Theorem c18_data_spec {A} (dims : list c18_dim) (data : list A) t n :
  snd (c18_dual_data dims data) = data /\
  fst (c18_dual_data dims data) = map c18_swap dims /\
  map c18_swap (fst (c18_dual_data dims data)) = dims /\
  (Forall (fun v => (3 <= length (c18_faces_of_node v 0 t))%nat) (c18_iota n) ->
   c18_dual_face_nodes t n = c18_iota n).
Proof.
  split; [reflexivity|]. split; [reflexivity|]. split.
  - simpl. rewrite map_map. rewrite <- (map_id dims) at 2. apply map_ext. apply c18_swap_invol.
  - intros H. rewrite c18_dual_face_nodes_spec. apply c18_filter_all.
    eapply Forall_impl; [|exact H]. intros v Hv. apply Nat.leb_le. exact Hv.
Qed.

(* ------------------------------------------------------------------------- *)
(* non-vacuity and the degenerate branch                                       *)

(* octahedron, nodes +-x +-y +-z, face centres (+-1,+-1,+-1)/3, unit 1/3 *)
Definition c18_octa : table := [[0;2;4];[2;1;4];[1;3;4];[3;0;4];[2;0;5];[1;2;5];[3;1;5];[0;3;5]].
Definition c18_octa_nodes : list c18_vec :=
  [(3,0,0);(-3,0,0);(0,3,0);(0,-3,0);(0,0,3);(0,0,-3)].
Definition c18_octa_centres : list c18_vec :=
  [(1,1,1);(-1,1,1);(-1,-1,1);(1,-1,1);(1,1,-1);(-1,1,-1);(-1,-1,-1);(1,-1,-1)].

Example c18_octa_dual :
  c18_run c18_octa c18_octa_nodes c18_octa_centres
  = ([[0;3;7;4];[1;5;6;2];[0;4;5;1];[2;6;7;3];[0;1;2;3];[4;7;6;5]], [0;1;2;3;4;5]).
Proof. vm_compute. reflexivity. Qed.

(* the hypotheses of c18_order_nodes_perm / c18_ring_partial are satisfiable: node +x of the
   octahedron, faces [0;3;4;7]; rank = position of the key in the counter-clockwise umbrella
   3, 7, 4 *)
Definition c18_octa_rank (a : c18_key) : Z :=
  if c18_side a then 3 else if 0 <=? c18_s a then 1 else 2.

Example c18_ring_nonvacuous :
  let mk := fun f => c18_make_key (c18_pos c18_octa_centres 0) (3,0,0) (c18_pos c18_octa_centres f) in
  let keys := map mk [3;4;7] in
  (forall a b, In a keys -> In b keys -> c18_angle_lt a b = (c18_octa_rank a <? c18_octa_rank b)) /\
  (forall a, In a keys -> c18_angle_gt0 a = true /\ c18_angle_lt2pi a = true) /\
  (forall i j a b, nth_error keys i = Some a -> nth_error keys j = Some b ->
                   c18_octa_rank a = c18_octa_rank b -> i = j) /\
  Permutation [3;7;4] [3;4;7] /\
  StronglySorted (fun f g => c18_octa_rank (mk f) < c18_octa_rank (mk g)) [3;7;4].
Proof.
  cbv zeta. split; [|split; [|split; [|split]]].
  - intros a b Ha Hb. simpl in Ha, Hb.
    destruct Ha as [<-|[<-|[<-|[]]]]; destruct Hb as [<-|[<-|[<-|[]]]]; vm_compute; reflexivity.
  - intros a Ha. simpl in Ha. destruct Ha as [<-|[<-|[<-|[]]]]; vm_compute; split; reflexivity.
  - intros i j a b Hi Hj.
    destruct i as [|[|[|i]]]; destruct j as [|[|[|j]]]; simpl in Hi, Hj; try reflexivity;
      try (destruct i; discriminate); try (destruct j; discriminate);
      injection Hi as <-; injection Hj as <-; vm_compute; intros H; discriminate.
  - apply perm_skip. apply perm_swap.
  - repeat constructor; vm_compute; reflexivity.
Qed.

(* the faithful model with a tie (two faces seen under exactly the same angle: their centres are
   collinear with the node... here the same point listed for two faces): the strict comparison
   skips one of them and the row ends with a fill cell although the node has 4 faces.  Not
   reachable on a grid without coincident face centres; kept to document the branch. *)
Example c18_tie_drops_face :
  c18_order_nodes [0;1;2;3] (3,0,0)
     [(1,1,1);(1,-1,1);(1,-1,1);(1,1,-1)] 4
  = [0;1;3;FILL].
Proof. vm_compute. reflexivity. Qed.

(* partial grid: 3 faces of the octahedron around +z plus nothing else: only node 4 (+z) has >= 3
   faces; exactly one dual face is produced, for node 4 *)
Example c18_partial_count :
  c18_run [[0;2;4];[2;1;4];[1;3;4]] c18_octa_nodes
          [(1,1,1);(-1,1,1);(-1,-1,1)]
  = ([[0;1;2]], [4]).
Proof. vm_compute. reflexivity. Qed.

(* ------------------------------------------------------------------------- *)
(* the dual as a grid of its own: which dual faces meet at dual node f         *)

(* dual face k (built around primal node v_k) has dual node f as a corner only if v_k is a corner
   of primal face f: the node_face table of the dual, in DUAL-FACE numbering k, is contained in
   { k | v_k in corners (primal face f) } *)
Theorem c18_dual_node_face t np dp k v row f :
  nth_error (c18_dual_face_nodes t (length np)) k = Some v ->
  nth_error (c18_dual_faces t np dp) k = Some row ->
  In f (c18_real row) ->
  exists i r, f = Z.of_nat i /\ nth_error t i = Some r /\ In v (corners r).
Proof.
  intros Hk Hrow Hf.
  destruct (c18_dual_rows_pad t np dp k v Hk) as (row' & ring & Hr & E & _ & Hfa & _).
  rewrite Hrow in Hr. injection Hr as <-. subst row.
  unfold c18_real in Hf. apply filter_In in Hf. destruct Hf as [Hin Hnf].
  apply in_app_or in Hin. destruct Hin as [Hin|Hin].
  - rewrite Forall_forall in Hfa. apply Hfa. exact Hin.
  - apply repeat_spec in Hin. subst f. discriminate.
Qed.

(* on a partial grid the dual faces are renumbered (k <> v_k), so the primal face_node table is NOT
   the dual's node_face table: dual face 0 has dual node 1 as a corner, but primal face 1 does not
   list "0" among its corners (it lists 4, the primal node dual face 0 was built around) *)
Example c18_handover_refuted :
  let t := [[0;2;4];[2;1;4];[1;3;4]] in
  let dp := [(1,1,1);(-1,1,1);(-1,-1,1)] in
  c18_dual_face_nodes t 6 = [4] /\
  nth_error (c18_dual_faces t c18_octa_nodes dp) 0 = Some [0;1;2] /\
  In 1 (c18_real [0;1;2]) /\ ~ In 0 (corners [2;1;4]) /\ In 4 (corners [2;1;4]).
Proof.
  cbv zeta. split; [vm_compute; reflexivity|]. split; [vm_compute; reflexivity|].
  split; [vm_compute; auto|]. split; [vm_compute; intros [H|[H|[H|[]]]]; discriminate|vm_compute; auto].
Qed.

(* non-vacuity of c18_dual_node_face: octahedron, dual face 0 (node +x), corner 3 *)
Example c18_dual_node_face_nonvacuous :
  nth_error (c18_dual_face_nodes c18_octa (length c18_octa_nodes)) 0 = Some 0 /\
  nth_error (c18_dual_faces c18_octa c18_octa_nodes c18_octa_centres) 0 = Some [0;3;7;4] /\
  In 3 (c18_real [0;3;7;4]).
Proof. split; [vm_compute; reflexivity|]. split; [vm_compute; reflexivity|vm_compute; auto]. Qed.
